# source this in every shell: offline Go settings for the harness
export GOFLAGS=-mod=mod GOPROXY=off GOSUMDB=off GOTOOLCHAIN=local CGO_ENABLED=1
