#!/usr/bin/env python3
"""Regenerates the generated tables of DESIGN.md (between the BEGIN/END GENERATED markers) from
known_findings.json + known_findings.d/*.json, seeded/*/{meta.json,result_*.json} and mutants/*.diff."""
import glob, json, os, re, subprocess
here = os.path.dirname(os.path.dirname(os.path.abspath(__file__)))

def clip(s, n):
    s = ' '.join(str(s).split())
    s = s.replace('|', '\\|')
    return s if len(s) <= n else s[:n - 1] + '…'

entries = json.load(open(os.path.join(here, 'known_findings.json')))
for f in sorted(glob.glob(os.path.join(here, 'known_findings.d', '*.json'))):
    entries += json.load(open(f))
out = []
man = json.load(open(os.path.join(here, 'MANIFEST.json')))
out.append('### 10.1 Status per property (generated from MANIFEST.json, evidence/, known findings, mutants/, seeded/)\n')
out.append('`evaluations` / `distinct` are those of the evidence file present when this table was generated (tier in brackets).\n')
out.append('| property | claimed level | last evidence: evaluations / distinct non-trivial | fixed | known | builder mutants | seeded defects (rounds 1 / 2 / 3 / 4 / 5 / 6 / 7 / 8; after the extensions of §10.7-§10.17; `-` = no seed in that round) |')
out.append('|---|---|---|---|---|---|---|')
mut = {}
for f in glob.glob(os.path.join(here, 'mutants', '*.diff')):
    k = os.path.basename(f).split('-')[0].upper()
    mut[k] = mut.get(k, 0) + 1
claimed = {c['property_id']: c for c in man['checks']}
for l in open(os.path.join(here, 'properties.jsonl')):
    pid = json.loads(l)['id']
    nf = len([e for e in entries if e['property'] == pid and e['kind'] == 'fixed'])
    nk = len([e for e in entries if e['property'] == pid and e['kind'] == 'known'])
    evs = '-'
    ef = os.path.join(here, 'evidence', pid + '.json')
    if os.path.exists(ef):
        e = json.load(open(ef))
        evs = f"{e['coverage']['evaluations']} / {e['coverage']['distinct_nontrivial']} ({e['tier']}, seed {e['seed']})"
    sd = []
    for rd in ('seeded', 'seeded2', 'seeded3', 'seeded4', 'seeded5', 'seeded6', 'seeded7', 'seeded8'):
        rf = os.path.join(here, rd, pid, 'result_quick.json')
        if os.path.exists(rf):
            sd.append('caught' if json.load(open(rf))['caught'] else ('not-a-defect' if os.path.exists(os.path.join(here, rd, pid, 'NOT-A-DEFECT.md')) else 'MISSED'))
        elif rd in ('seeded6', 'seeded7', 'seeded8'):
            sd.append('-')
    sd = ' / '.join(sd) if sd else '-'
    lvl = claimed[pid]['level_claimed']['category'] if pid in claimed else 'not claimed'
    out.append(f"| {pid} | {lvl} | {evs} | {nf} | {nk} | {mut.get(pid, 0)} | {sd} |")
out.append('')
out.append('### 10.2 Findings on the pinned tree (generated from known_findings.json + known_findings.d/)\n')
fixed = [e for e in entries if e['kind'] == 'fixed']
known = [e for e in entries if e['kind'] == 'known']
out.append(f'{len(fixed)} defects repaired by `fix:` commits in /repo, {len(known)} recorded as known findings.\n')
out.append('| property | id | status | what fails |')
out.append('|---|---|---|---|')
for e in sorted(entries, key=lambda e: (e['property'], e['kind'], e['id'])):
    st = ('fixed ' + e.get('commit', '?')) if e['kind'] == 'fixed' else '**known**'
    out.append(f"| {e['property']} | {e['id']} | {st} | {clip(e['what'], 260)} |")
out.append('')
out.append('### 10.3 Seeded defects written by independent agents (generated from seeded/)\n')
out.append('Each agent saw only the text of the property and a scratch worktree, nothing of /verif. `demo` = exit codes of the agent\'s own demonstration without / with the patch; `check` = exit code of `./check <id> quick` against the patched tree.\n')
out.append('| property | seeded change | needs | demo | check | first signature reported |')
out.append('|---|---|---|---|---|---|')
for d in sorted(glob.glob(os.path.join(here, 'seeded', 'C*'))) + sorted(glob.glob(os.path.join(here, 'seeded2', 'C*'))) + sorted(glob.glob(os.path.join(here, 'seeded3', 'C*'))) + sorted(glob.glob(os.path.join(here, 'seeded4', 'C*'))) + sorted(glob.glob(os.path.join(here, 'seeded5', 'C*'))) + sorted(glob.glob(os.path.join(here, 'seeded6', 'C*'))) + sorted(glob.glob(os.path.join(here, 'seeded7', 'C*'))) + sorted(glob.glob(os.path.join(here, 'seeded8', 'C*'))):
    pid = os.path.basename(d)
    meta = json.load(open(os.path.join(d, 'meta.json')))
    rf = os.path.join(d, 'result_quick.json')
    if not os.path.exists(rf):
        continue
    res = json.load(open(rf))
    sig = res['first_signatures'].split('\n')[0] if res['first_signatures'] else '-'
    if os.sep + 'seeded2' + os.sep in d:
        pid += ' (round 2)'
    if os.sep + 'seeded3' + os.sep in d:
        pid += ' (round 3)'
    if os.sep + 'seeded4' + os.sep in d:
        pid += ' (round 4)'
    if os.sep + 'seeded5' + os.sep in d:
        pid += ' (round 5)'
    if os.sep + 'seeded6' + os.sep in d:
        pid += ' (round 6)'
    if os.sep + 'seeded7' + os.sep in d:
        pid += ' (round 7)'
    if os.sep + 'seeded8' + os.sep in d:
        pid += ' (round 8)'
    out.append(f"| {pid} | {clip(meta['summary'], 220)} | {clip(meta['needs'], 160)} | {res['demo_without_patch_exit']}/{res['demo_with_patch_exit']} | {res['check_exit']} ({'caught' if res['caught'] else 'MISSED'}) | {clip(sig, 150)} |")
out.append('')
out.append('### 10.3b Property-preserving changes written by independent agents (generated from benign/)\n')
out.append('Refactorings, optimisations, reworded messages, stricter validation and valid alternatives in the code each property is anchored in; the property still holds, so `./check <id> quick` against the patched tree must exit 0.\n')
out.append('| change | kind | what was changed | check |')
out.append('|---|---|---|---|')
for d in sorted(glob.glob(os.path.join(here, 'benign', 'C*'))):
    rf = os.path.join(d, 'result_quick.json')
    if not os.path.exists(rf):
        continue
    meta = json.load(open(os.path.join(d, 'meta.json')))
    res = json.load(open(rf))
    verdict = 'silent' if res['silent'] else 'ALARM: ' + clip(res['first_signatures'], 80)
    nb = os.path.join(d, 'NOT-BENIGN.md')
    if os.path.exists(nb):
        verdict = ('alarm, and rightly so: ' if not res['silent'] else 'SILENT although: ') + clip(open(nb).read(), 260)
    out.append(f"| {os.path.basename(d)} | {meta.get('kind', '')} | {clip(meta['summary'], 230)} | {res['check_exit']} ({verdict}) |")
out.append('')
out.append('### 10.4 Mutants written by the monitor builders (mutants/*.diff)\n')
cnt = {}
for f in glob.glob(os.path.join(here, 'mutants', '*.diff')):
    p = os.path.basename(f).split('-')[0].upper()
    cnt[p] = cnt.get(p, 0) + 1
out.append('Per property: ' + ', '.join(f'{p}: {n}' for p, n in sorted(cnt.items())) + f' ({sum(cnt.values())} patches). `tools/run-mutants.sh <Cxx>` applies each to a scratch worktree and requires exit 1 + VIOLATION; result tables are in notes/cNN.md.\n')
text = '\n'.join(out)
p = os.path.join(here, 'DESIGN.md')
s = open(p).read()
b, e = '<!-- BEGIN GENERATED RESULTS -->', '<!-- END GENERATED RESULTS -->'
if b in s:
    s = s[:s.index(b) + len(b)] + '\n' + text + '\n' + s[s.index(e):]
else:
    s += '\n' + b + '\n' + text + '\n' + e + '\n'
open(p, 'w').write(s)
print('fixed', len(fixed), 'known', len(known))
