#!/bin/bash
# tools/run-mutants.sh <Cxx> [tier]  — applies every /verif/mutants/<cxx>-*.diff to a scratch worktree of /repo (one at a time),
# runs ./check <Cxx> <tier> against it and prints a result table. Exit 0 when every mutant was caught (exit 1 + VIOLATION line).
# A diff whose first line is "# base: <rev>" is applied to a worktree of that revision instead of HEAD.
set -u
PROP="$1"; TIER="${2:-quick}"
HERE="$(cd "$(dirname "$0")/.." && pwd)"
source "$HERE/env.sh"
lc=$(echo "$PROP" | tr A-Z a-z)
WT="/var/tmp/wt-$lc-mut-$$"
missed=0
printf '%-52s %-4s %s\n' "mutant" "rc" "first violation signature"
for d in "$HERE"/mutants/$lc-*.diff; do
  [ -e "$d" ] || continue
  base=HEAD
  if head -1 "$d" | grep -q '^# base: '; then base=$(head -1 "$d" | sed 's/^# base: //'); fi
  git -C /repo worktree add --detach "$WT" "$base" >/dev/null 2>&1 || { echo "cannot create worktree"; exit 2; }
  if [ -s "$d" ] && grep -q '^diff ' "$d"; then
    if ! git -C "$WT" apply "$d" 2>/tmp/apply.$$; then echo "$(basename "$d"): DOES NOT APPLY: $(cat /tmp/apply.$$)"; missed=1; git -C /repo worktree remove --force "$WT"; continue; fi
  fi
  out=$(cd "$HERE" && VERIF_REPO="$WT" VERIF_SCRATCH=/var/tmp ./check "$PROP" "$TIER" 2>&1); rc=$?
  sig=$(echo "$out" | grep -A1 '^VIOLATION' | grep signature | head -1 | sed 's/^ *signature: //' | cut -c1-150)
  [ -z "$sig" ] && sig=$(echo "$out" | grep -E 'BUILD-FAILURE|abnormal' | head -1)
  printf '%-52s %-4s %s\n' "$(basename "$d")" "$rc" "$sig"
  [ $rc -eq 1 ] && echo "$out" | grep -q '^VIOLATION' || missed=1
  git -C /repo worktree remove --force "$WT" >/dev/null 2>&1
  rm -rf "$HERE/replay/$PROP"
done
rm -f /tmp/apply.$$
exit $missed
