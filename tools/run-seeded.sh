#!/bin/bash
# tools/run-seeded.sh <Cxx> [tier]  — evaluates one seeded defect (/verif/seeded/<Cxx>/{patch.diff,demo_test.go,meta.json},
# written by an independent agent that saw only the property text): in a scratch worktree of /repo HEAD
#   1. the demonstration passes without the patch, 2. fails with it (the defect is real),
#   3. ./check <Cxx> <tier> run against the patched worktree must exit 1 with a VIOLATION line (the monitor sees it).
# (a file <dir>/<Cxx>/base names the /repo revision the patch applies to when a later fix: commit rewrote the same lines)
# SEEDED_DIR=seeded2 selects the second round. Writes <dir>/<Cxx>/result_<tier>.json. Evidence / replay files of /verif are restored afterwards.
set -u
PROP="$1"; TIER="${2:-quick}"
HERE="$(cd "$(dirname "$0")/.." && pwd)"
source "$HERE/env.sh"
S="$HERE/${SEEDED_DIR:-seeded}/$PROP"
WT="/var/tmp/seedwt-$PROP-$$"
copy_to=$(jq -r .demo.copy_to "$S/meta.json")
run=$(jq -r .demo.run "$S/meta.json")
# the helper command line of the agent: "/var/tmp/mut/gotest.sh WT <args>" -> our equivalent helper
args=$(echo "$run" | sed -e 's#^.*gotest.sh *[^ ]* *##')
BASE="${BASE:-$(cat "$S/base" 2>/dev/null || echo HEAD)}"
git -C /repo worktree add --detach "$WT" "$BASE" >/dev/null 2>&1 || { echo "cannot create worktree"; exit 2; }
trap 'git -C /repo worktree remove --force "$WT" >/dev/null 2>&1; rm -rf "$WT"' EXIT
mkdir -p "$WT/$copy_to"
demo_name="zz_seeded_demo_test.go"
cp "$S/demo_test.go" "$WT/$copy_to/$demo_name"
( eval "$HERE/tools/acra-tests.sh $WT $args" ) > "$S/demo_unpatched.log" 2>&1; rc_clean=$?
if ! git -C "$WT" apply "$S/patch.diff" 2> "$S/apply.log"; then echo "$PROP: patch does not apply"; cat "$S/apply.log"; exit 2; fi
rm -f "$S/apply.log"
( eval "$HERE/tools/acra-tests.sh $WT $args" ) > "$S/demo_patched.log" 2>&1; rc_patched=$?
rm -f "$WT/$copy_to/$demo_name"
# keep /repo evidence: save and restore
SAVE=$(mktemp -d /var/tmp/seed-ev-XXXXXX)
cp "$HERE/evidence/$PROP.json" "$SAVE/" 2>/dev/null
rm -rf "$HERE/replay/$PROP"
out=$(cd "$HERE" && VERIF_REPO="$WT" ./check "$PROP" "$TIER" 2>&1); rc=$?
echo "$out" > "$S/check_${TIER}.log"
sig=$(echo "$out" | grep -A1 '^VIOLATION' | grep signature | head -3 | sed 's/^ *signature: //' | cut -c1-220)
nviol=$(echo "$out" | grep -c '^VIOLATION')
cp "$SAVE/$PROP.json" "$HERE/evidence/" 2>/dev/null; rm -rf "$SAVE" "$HERE/replay/$PROP"
caught=false; [ $rc -eq 1 ] && [ "$nviol" -gt 0 ] && caught=true
jq -n --arg p "$PROP" --arg tier "$TIER" --argjson rc_clean $rc_clean --argjson rc_patched $rc_patched --argjson rc $rc \
  --argjson caught $caught --arg sig "$sig" --argjson n "$nviol" --arg head "$(git -C /repo rev-parse --short "$BASE")" \
  '{property:$p, repo_head:$head, demo_without_patch_exit:$rc_clean, demo_with_patch_exit:$rc_patched, check_tier:$tier, check_exit:$rc, violation_lines:$n, caught:$caught, first_signatures:$sig}' > "$S/result_${TIER}.json"
printf '%-4s demo(clean/patched)=%s/%s check=%s viol=%s %s\n' "$PROP" $rc_clean $rc_patched $rc $nviol "$(echo "$sig" | head -1 | cut -c1-140)"
