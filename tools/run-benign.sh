#!/bin/bash
# tools/run-benign.sh <name> [tier]  — evaluates one property-preserving change (/verif/benign/<name>/{patch.diff,meta.json}, e.g. C07-1,
# written by an independent agent that saw only the property text): applied to a scratch worktree of /repo HEAD, the property's
# (a file <name>/base names the /repo revision the patch applies to when a later fix: commit touched the same lines)
# check must stay silent (exit 0, no VIOLATION line). Writes /verif/benign/<name>/result_<tier>.json.
set -u
NAME="$1"; TIER="${2:-quick}"
HERE="$(cd "$(dirname "$0")/.." && pwd)"
source "$HERE/env.sh"
S="$HERE/benign/$NAME"
PROP=$(jq -r .property "$S/meta.json" | grep -o 'C[0-9][0-9]' | head -1)
[ -z "$PROP" ] && PROP="${NAME%%-*}"
WT="/var/tmp/benignwt-$NAME-$$"
BASE="${BASE:-$(cat "$S/base" 2>/dev/null || echo HEAD)}"
git -C /repo worktree add --detach "$WT" "$BASE" >/dev/null 2>&1 || { echo "cannot create worktree"; exit 2; }
trap 'git -C /repo worktree remove --force "$WT" >/dev/null 2>&1; rm -rf "$WT"' EXIT
if ! git -C "$WT" apply "$S/patch.diff" 2> "$S/apply.log"; then echo "$NAME: patch does not apply: $(head -2 "$S/apply.log")"; exit 2; fi
rm -f "$S/apply.log"
SAVE=$(mktemp -d /var/tmp/benign-ev-XXXXXX)
cp "$HERE/evidence/$PROP.json" "$SAVE/" 2>/dev/null
out=$(cd "$HERE" && VERIF_REPO="$WT" ./check "$PROP" "$TIER" 2>&1); rc=$?
echo "$out" > "$S/check_${TIER}.log"
sig=$(echo "$out" | grep -A1 '^VIOLATION' | grep signature | head -3 | sed 's/^ *signature: //' | cut -c1-220)
nviol=$(echo "$out" | grep -c '^VIOLATION')
cp "$SAVE/$PROP.json" "$HERE/evidence/" 2>/dev/null; rm -rf "$SAVE" "$HERE/replay/$PROP"
silent=false; [ $rc -eq 0 ] && [ "$nviol" -eq 0 ] && silent=true
jq -n --arg n "$NAME" --arg p "$PROP" --arg tier "$TIER" --argjson rc $rc --argjson silent $silent --arg sig "$sig" --argjson nv "$nviol" --arg head "$(git -C /repo rev-parse --short "$BASE")" \
  '{name:$n, property:$p, repo_head:$head, check_tier:$tier, check_exit:$rc, violation_lines:$nv, silent:$silent, first_signatures:$sig}' > "$S/result_${TIER}.json"
printf '%-7s %-4s check=%s viol=%s %s\n' "$NAME" "$PROP" $rc $nviol "$(echo "$sig" | head -1 | cut -c1-150)"
