#!/bin/bash
# usage: tools/panic-stacks.sh <check id> <tier> [seed]  — runs a check against a scratch copy of /repo (incl. uncommitted changes) in which
# recoverConnection logs the stack of recovered panics, and prints the Acra frames of each distinct panic. Diagnostic aid only.
set -e
ID="$1"; TIER="${2:-quick}"; export VERIF_SEED="${3:-1}"
WT=/var/tmp/wt-stacks-$$
git -C /repo stash -q 2>/dev/null && ST=1 || ST=0
git -C /repo worktree add -q "$WT" HEAD
[ "$ST" = 1 ] && git -C /repo stash pop -q
( cd "$WT" && git -C /repo diff | git apply 2>/dev/null || true
python3 - <<'PY'
p='cmd/acra-server/common/listener.go'
s=open(p).read()
s=s.replace('logger.WithField("error", recMsg).Errorln("Panic in connection processing, close connection")','logger.WithField("error", recMsg).WithField("stack", string(debug.Stack())).Errorln("Panic in connection processing, close connection")')
s=s.replace('import (','import (\n\t"runtime/debug"',1)
open(p,'w').write(s)
PY
)
cd /verif && VERIF_REPO="$WT" VERIF_LOGS=1 timeout 900 ./check "$ID" "$TIER" 2>&1 | grep "Panic in connection" | sed 's/\\n/\n/g; s/\\t/\t/g' | grep -B1 -A1 "^github.com/cossacklabs/acra/\(decryptor\|encryptor\|hmac\|crypto\|masking\|pseudonymization\|utils\|acra-censor\|sqlparser\)" | grep -v "^--" | paste - - - | awk '{print $1, $3}' | sort | uniq -c | sort -rn | head -40
git -C /repo worktree remove --force "$WT"
