#!/usr/bin/env python3
"""Builds the C06/C07 mutant patches: applies each edit to a scratch worktree of /repo HEAD, saves the diff
to /verif/mutants/, runs the property's quick check against it and Acra's keystore tests. Scratch only."""
import os, subprocess, sys, json

WT = '/var/tmp/wt-mut-c0607'
def sh(cmd, **kw):
    return subprocess.run(cmd, shell=True, capture_output=True, text=True, **kw)

MUTANTS = [
 ('C06', 'c06-v2-allkeys-oldest-first', 'keystore/v2/keystore/filesystem/keyRing.go',
  [('		keySeqnums[keyCount-i-1] = r.data.Keys[i].Seqnum\n', '		keySeqnums[i] = r.data.Keys[i].Seqnum\n')],
  'v2 KeyRing.AllKeys loses the reversal: "all keys" getters return keys oldest first'),
 ('C06', 'c06-v2-destroy-rotated-counts-from-newest', 'keystore/v2/keystore/keyStore.go',
  [('	idxToDestroy := index - 2\n', '	idxToDestroy := len(rotatedActiveKeys) - (index - 1)\n')],
  'v2 destroy-rotated maps the index from the newest rotated key while the listing numbers from the oldest'),
 ('C06', 'c06-v1-destroy-current-drops-history', 'keystore/filesystem/server_keystore.go',
  [('''	err = store.fs.Remove(store.GetPublicKeyFilePath(filename + ".pub"))
	if err != nil && !os.IsNotExist(err) {
		return err
	}

	return nil
}

// destroySymmetricKeyWithFilename''', '''	err = store.fs.Remove(store.GetPublicKeyFilePath(filename + ".pub"))
	if err != nil && !os.IsNotExist(err) {
		return err
	}
	// clean up the leftovers of the destroyed key
	if err = store.fs.RemoveAll(getHistoryDirName(store.GetPrivateKeyFilePath(filename))); err != nil {
		return err
	}

	return nil
}

// destroySymmetricKeyWithFilename''')],
  'v1 destroying the current key pair / HMAC key also removes the directory with its rotated versions'),
 ('C06', 'c06-v1-backup-after-rename', 'keystore/filesystem/server_keystore.go',
  [('''	err = store.backupHistoricalKeyFile(filename)
	if err != nil {
		return err
	}
	err = store.fs.Rename(tmpFilename, filename)
	if err != nil {
		return err
	}
	return nil''', '''	_, statErr := store.fs.Stat(filename)
	err = store.fs.Rename(tmpFilename, filename)
	if err != nil {
		return err
	}
	if statErr == nil {
		err = store.backupHistoricalKeyFile(filename)
		if err != nil {
			return err
		}
	}
	return nil''')],
  'v1 WriteKeyFile renames the new key into place before linking the history entry: the entry holds the NEW key, the previous one is lost'),
 ('C06', 'c06-v1-history-oldest-first', 'keystore/filesystem/filenames.go',
  [('	for i := len(history) - 1; i >= 0; i-- {\n', '	for i := 0; i < len(history); i++ {\n')],
  'v1 rotated keys are offered oldest first'),
 ('C07', 'c07-v2-key-encryption-is-identity', 'keystore/v2/keystore/filesystem/key.go',
  [("""func (r *KeyRing) encryptPrivateKey(seqnum int, data []byte) ([]byte, error) {
	return r.encrypt(data, r.privateKeyContext(seqnum))
}

func (r *KeyRing) decryptPrivateKey(seqnum int, data []byte) ([]byte, error) {
	return r.decrypt(data, r.privateKeyContext(seqnum))
}""", """func (r *KeyRing) encryptPrivateKey(seqnum int, data []byte) ([]byte, error) {
	return append([]byte{}, data...), nil
}

func (r *KeyRing) decryptPrivateKey(seqnum int, data []byte) ([]byte, error) {
	return append([]byte{}, data...), nil
}"""),
   ("""func (r *KeyRing) encryptSymmetricKey(seqnum int, data []byte) ([]byte, error) {
	return r.encrypt(data, r.symmetricKeyContext(seqnum))
}

func (r *KeyRing) decryptSymmetricKey(seqnum int, data []byte) ([]byte, error) {
	return r.decrypt(data, r.symmetricKeyContext(seqnum))
}""", """func (r *KeyRing) encryptSymmetricKey(seqnum int, data []byte) ([]byte, error) {
	return append([]byte{}, data...), nil
}

func (r *KeyRing) decryptSymmetricKey(seqnum int, data []byte) ([]byte, error) {
	return append([]byte{}, data...), nil
}""")],
  'v2 key data is stored as is (pass-through left in the key ring): private/symmetric keys in clear inside signed key rings'),
 ('C07', 'c07-scell-key-encryptor-passthrough', 'keystore/keystore.go',
  [('	encrypted, _, err := encryptor.scell.Protect(key, GetKeyContextFromContext(keyContext))\n	return encrypted, err', '	return append([]byte{}, key...), nil'),
   ('	return encryptor.scell.Unprotect(key, nil, GetKeyContextFromContext(keyContext))', '	return append([]byte{}, key...), nil')],
  'SCellKeyEncryptor is a pass-through: v1 key files, cache entries and v2 key data hold the keys in clear'),
 ('C07', 'c07-v1-key-context-dropped', 'keystore/keystore.go',
  [('	encrypted, _, err := encryptor.scell.Protect(key, GetKeyContextFromContext(keyContext))', '	encrypted, _, err := encryptor.scell.Protect(key, nil)'),
   ('	return encryptor.scell.Unprotect(key, nil, GetKeyContextFromContext(keyContext))', '	return encryptor.scell.Unprotect(key, nil, nil)')],
  'SCellKeyEncryptor ignores the key context: stored v1 keys are no longer bound to their client id'),
 ('C07', 'c07-v2-signature-context-without-path', 'keystore/v2/keystore/filesystem/keyStore.go',
  [('''	c := make([]byte, 0, len("key ring signature: ")+len(path))
	c = append(c, "key ring signature: "...)
	c = append(c, path...)''', '''	c := make([]byte, 0, len("key ring signature: ")+len(path))
	c = append(c, "key ring signature: "...)''')],
  'v2 key ring signature context no longer contains the ring path: a ring copied to another path verifies'),
 ('C07', 'c07-v2-unsigned-ring-accepted', 'keystore/v2/keystore/signature/notary.go',
  [('''	if noSignaturesVerified {
		return ErrNoSignature
	}''', '''	if noSignaturesVerified && len(signatures) == 0 {
		return ErrNoSignature
	}''')],
  'v2 notary accepts a container all of whose signatures use unknown algorithms: flipping a bit of the algorithm OID disables verification'),
 ('C07', 'c07-v2-keyring-files-0644', 'keystore/v2/keystore/filesystem/backend/filesystem.go',
  [('	keyFilePerm = os.FileMode(0600)', '	keyFilePerm = os.FileMode(0644)')],
  'v2 key ring files are created world-readable'),
 ('C07', 'c07-v1-history-dir-0755', 'keystore/filesystem/server_keystore.go',
  [('	err = store.fs.MkdirAll(getHistoryDirName(filename), keyDirMode)', '	err = store.fs.MkdirAll(getHistoryDirName(filename), 0755)')],
  'v1 history directories of rotated keys are created 0755'),
]

only = sys.argv[1:]
results = []
sh(f'git -C /repo worktree remove --force {WT}')
r = sh(f'git -C /repo worktree add {WT} HEAD')
assert r.returncode == 0, r.stderr
try:
    for prop, slug, path, edits, what in MUTANTS:
        if only and slug not in only and prop not in only:
            continue
        sh(f'git -C {WT} checkout -q -- .')
        p = os.path.join(WT, path)
        s = open(p).read()
        for old, new in edits:
            assert s.count(old) == 1, (slug, s.count(old), old[:60])
            s = s.replace(old, new)
        open(p, 'w').write(s)
        d = sh(f'git -C {WT} diff').stdout
        open(f'/verif/mutants/{slug}.diff', 'w').write(d)
        b = sh(f'cd {WT} && source /verif/env.sh && T=$(mktemp -d /var/tmp/mutmod-XXXX) && cp go.mod go.sum $T/ && echo "replace github.com/cossacklabs/themis/gothemis => /verif/shim/gothemis" >> $T/go.mod && go build -modfile=$T/go.mod ./keystore/... ; rc=$?; rm -rf $T; exit $rc', executable='/bin/bash')
        chk = sh(f'cd /verif && VERIF_REPO={WT} ./check {prop} quick')
        viol = [l.strip() for l in chk.stdout.splitlines() if l.strip().startswith('signature:')]
        tests = sh(f'cd /verif && tools/acra-tests.sh {WT} ./keystore/... ./cmd/acra-keys/... 2>&1 | grep -E "^(FAIL|ok|---)" | grep -v "^ok" | head -5', executable='/bin/bash')
        res = dict(prop=prop, slug=slug, what=what, compiles=b.returncode == 0, check_rc=chk.returncode, n_violation_sigs=len(viol), first=viol[:3], acra_tests=('green' if not tests.stdout.strip() else tests.stdout.strip().replace('\n', ' | ')))
        results.append(res)
        print(json.dumps(res, indent=1), flush=True)
finally:
    sh(f'git -C /repo worktree remove --force {WT}')
json.dump(results, open('/var/tmp/c0607-mutants-results.json', 'w'), indent=1)
