#!/bin/bash
# tools/sweep.sh <quick|thorough> [seed...]  — runs every claimed check against /repo at the given seeds (default 1), PAR at a time.
# Prints one line per run; exit 1 if any run exited non-zero or printed a VIOLATION line.
TIER="${1:-quick}"; shift; SEEDS="${*:-1}"
HERE="$(cd "$(dirname "$0")/.." && pwd)"; cd "$HERE"
PAR="${PAR:-4}"
OUT=$(mktemp -d /var/tmp/sweep-XXXXXX)
props=$(jq -r '.checks[].property_id' MANIFEST.json)
for s in $SEEDS; do for p in $props; do echo "$p $s"; done; done | xargs -P "$PAR" -L1 bash -c '
  p=$0; s=$1; o="'"$OUT"'/$p-$s.log"; start=$(date +%s)
  VERIF_SEED=$s ./check $p '"$TIER"' > "$o" 2>&1; rc=$?
  v=$(grep -c "^VIOLATION" "$o"); k=$(grep -c "^KNOWN-FINDING" "$o")
  echo "$p seed=$s rc=$rc violations=$v known=$k wall=$(( $(date +%s)-start ))s $(grep -A1 "^VIOLATION" "$o" | grep signature | head -1 | cut -c1-160)"'
bad=$(grep -l "^VIOLATION" "$OUT"/*.log 2>/dev/null | wc -l)
echo "logs: $OUT  runs-with-violations: $bad"
[ "$bad" -eq 0 ]
