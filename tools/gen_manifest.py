#!/usr/bin/env python3
"""Generates MANIFEST.json from tools/manifest_src.json (claimed checks) + properties.jsonl (everything else -> not_applicable)."""
import json, os, subprocess
here = os.path.dirname(os.path.dirname(os.path.abspath(__file__)))
src = json.load(open(os.path.join(here, 'tools', 'manifest_src.json')))
props = [json.loads(l) for l in open(os.path.join(here, 'properties.jsonl'))]
checks = []
claimed = set()
for c in src['checks']:
    pid = c['property_id']
    claimed.add(pid)
    checks.append({
        'property_id': pid,
        'quick_cmd': f'./check {pid} quick',
        'thorough_cmd': f'./check {pid} thorough',
        'evidence_file': f'/verif/evidence/{pid}.json',
        'replay_cmd_template': f'./check {pid} --replay {{path}}',
        'engine': c.get('engine', 'harness'),
        'level_claimed': {'category': c['level'], 'text': c['text'], 'design_ref': c.get('design_ref', 'DESIGN.md §4 ' + pid)},
        'level_note': c['note'],
        'technique': c['technique'],
    })
na = [{'property_id': p['id'], 'reason': src.get('not_applicable', {}).get(p['id'], 'monitor not built yet in this round; see DESIGN.md §9 build order')} for p in props if p['id'] not in claimed]
try:
    commits = subprocess.check_output(['git', '-C', '/repo', 'log', '--format=%h %s', '--grep=^verif-hook:'], text=True).strip().splitlines()
except Exception:
    commits = []
m = {
    'version': 1,
    'setup_cmd': './setup.sh',
    'hooks': {
        'guard': 'verif',
        'enable': 'go build -tags verif (the harness module replaces github.com/cossacklabs/acra with /repo and gothemis with /verif/shim/gothemis)',
        'baseline_off_cmd': 'cd /repo && GOFLAGS=-mod=mod GOPROXY=off GOSUMDB=off GOTOOLCHAIN=local go test -json -vet=off -count=1 -timeout 25m ./...',
        'source_commits': [c.split()[0] for c in commits],
        'add_only': True,
    },
    'engines': src['engines'],
    'checks': checks,
    'notes': src['notes'],
    'not_applicable': na,
}
json.dump(m, open(os.path.join(here, 'MANIFEST.json'), 'w'), indent=1)
print('claimed', sorted(claimed), 'not_applicable', [x['property_id'] for x in na])
