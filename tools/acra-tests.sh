#!/bin/bash
# Runs Acra's own test packages with the gothemis stand-in (no file in the repository is touched).
# usage: tools/acra-tests.sh [repo] [go test args...]   e.g. tools/acra-tests.sh /repo ./keystore/...
HERE="$(cd "$(dirname "$0")/.." && pwd)"
REPO="${1:-/repo}"; shift || true
export GOFLAGS=-mod=mod GOPROXY=off GOSUMDB=off GOTOOLCHAIN=local CGO_ENABLED=1
T=$(mktemp -d /var/tmp/verif-acratests-XXXXXX)
trap 'rm -rf "$T"' EXIT
cp "$REPO/go.mod" "$T/go.mod"; cp "$REPO/go.sum" "$T/go.sum"
echo "replace github.com/cossacklabs/themis/gothemis => $HERE/shim/gothemis" >> "$T/go.mod"
ARGS=("$@"); if [ ${#ARGS[@]} -eq 0 ]; then ARGS=(./...); fi
cd "$REPO" && go test -modfile="$T/go.mod" -vet=off -count=1 "${ARGS[@]}"
