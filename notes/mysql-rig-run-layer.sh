#!/bin/bash
# usage: run.sh <c04|c19> [repo]   (env VERIF_SEED, VERIF_TIER) - runs the MySQL layer of a property alone through its dev test
source /verif/env.sh
P="$1"; REPO="${2:-/repo}"
ROOT=/var/tmp/mysql-layer-dev/root-$P-$$; mkdir -p $ROOT/evidence $ROOT/replay
ln -sf /verif/known_findings.json $ROOT/known_findings.json; ln -sfn /verif/known_findings.d $ROOT/known_findings.d
SCR=/var/tmp/mysql-layer-dev/scr-$$; mkdir -p $SCR
sed -e "s#=> /repo\$#=> $REPO#" /verif/harness/go.mod > $SCR/harness.mod
cat "$REPO/go.sum" /verif/harness/go.sum 2>/dev/null | sort -u > $SCR/harness.sum
export VERIF_ROOT=$ROOT VERIF_SCRATCH_DIR=$SCR
cd /verif/harness && go test -modfile=$SCR/harness.mod -tags "verif verif_hook_ks_cache" -count=1 -run TestLayerDev $EXTRA_TEST_ARGS ./internal/props/$P/mysql/ 2>&1 | cut -c1-${CUT:-300}
RC=$?
mkdir -p /var/tmp/mysql-layer-dev/last-$P; rm -rf /var/tmp/mysql-layer-dev/last-$P/*; cp -r $ROOT/evidence $ROOT/replay /var/tmp/mysql-layer-dev/last-$P/ 2>/dev/null
rm -rf $ROOT $SCR
