// Package message mirrors gothemis/message (encrypt/decrypt mode) without cgo:
// type(4) total_len(4) + Secure Cell Seal of the message under an ECDH-derived key.
package message

import (
	"crypto/sha256"
	"encoding/binary"

	"github.com/cossacklabs/themis/gothemis/cell"
	"github.com/cossacklabs/themis/gothemis/errors"
	"github.com/cossacklabs/themis/gothemis/keys"
)

var (
	ErrEncryptMessage    = errors.New("failed to encrypt message")
	ErrDecryptMessage    = errors.New("failed to decrypt message")
	ErrSignMessage       = errors.New("failed to sign message")
	ErrVerifyMessage     = errors.New("failed to verify message")
	ErrProcessMessage    = errors.New("failed to process message")
	ErrGetOutputSize     = errors.New("failed to get output size")
	ErrMissingMessage    = errors.NewWithCode(errors.InvalidParameter, "empty message for Secure Cell")
	ErrMissingPublicKey  = errors.NewWithCode(errors.InvalidParameter, "empty peer public key for Secure Message")
	ErrMissingPrivateKey = errors.NewWithCode(errors.InvalidParameter, "empty private key for Secure Message")
	ErrOutOfMemory       = errors.NewWithCode(errors.NoMemory, "Secure Message cannot allocate enough memory")
	ErrOverflow          = ErrOutOfMemory
)

const msgTypeEC = 0x26040001
const hdr = 8

type SecureMessage struct {
	private    *keys.PrivateKey
	peerPublic *keys.PublicKey
}

func New(private *keys.PrivateKey, peerPublic *keys.PublicKey) *SecureMessage {
	return &SecureMessage{private, peerPublic}
}

func (sm *SecureMessage) shared() ([]byte, bool) {
	priv, ok := keys.ParsePrivate(sm.private)
	if !ok {
		return nil, false
	}
	pub, ok := keys.ParsePublic(sm.peerPublic)
	if !ok {
		return nil, false
	}
	s, err := priv.ECDH(pub)
	if err != nil {
		return nil, false
	}
	h := sha256.Sum256(s)
	return h[:], true
}

func (sm *SecureMessage) check() error {
	if sm.private == nil || len(sm.private.Value) == 0 {
		return ErrMissingPrivateKey
	}
	if sm.peerPublic == nil || len(sm.peerPublic.Value) == 0 {
		return ErrMissingPublicKey
	}
	return nil
}

func (sm *SecureMessage) Wrap(message []byte) ([]byte, error) {
	if err := sm.check(); err != nil {
		return nil, err
	}
	if len(message) == 0 {
		return nil, ErrMissingMessage
	}
	key, ok := sm.shared()
	if !ok {
		return nil, ErrGetOutputSize
	}
	sc, _ := cell.SealWithKey(&keys.SymmetricKey{Value: key})
	enc, err := sc.Encrypt(message, nil)
	if err != nil {
		return nil, ErrEncryptMessage
	}
	out := make([]byte, hdr, hdr+len(enc))
	binary.LittleEndian.PutUint32(out[0:], msgTypeEC)
	binary.LittleEndian.PutUint32(out[4:], uint32(hdr+len(enc)))
	return append(out, enc...), nil
}

func (sm *SecureMessage) Unwrap(message []byte) ([]byte, error) {
	if err := sm.check(); err != nil {
		return nil, err
	}
	if len(message) == 0 {
		return nil, ErrMissingMessage
	}
	if len(message) < hdr || binary.LittleEndian.Uint32(message[0:]) != msgTypeEC || uint64(binary.LittleEndian.Uint32(message[4:])) != uint64(len(message)) {
		return nil, ErrGetOutputSize
	}
	key, ok := sm.shared()
	if !ok {
		return nil, ErrGetOutputSize
	}
	sc, _ := cell.SealWithKey(&keys.SymmetricKey{Value: key})
	dec, err := sc.Decrypt(message[hdr:], nil)
	if err != nil {
		return nil, ErrDecryptMessage
	}
	return dec, nil
}

func (sm *SecureMessage) Sign(message []byte) ([]byte, error)   { return nil, ErrSignMessage }
func (sm *SecureMessage) Verify(message []byte) ([]byte, error) { return nil, ErrVerifyMessage }
