// Package keys mirrors gothemis/keys without cgo: EC P-256 keys in the Themis container
// layout (4-byte tag, 4-byte BE total size, 4-byte BE CRC, 33-byte body) so sizes match (45 bytes).
package keys

import (
	"crypto/ecdh"
	"crypto/elliptic"
	"crypto/rand"
	"encoding/binary"
	"hash/crc32"

	"github.com/cossacklabs/themis/gothemis/errors"
)

const (
	TypeEC = iota
	TypeRSA
)

const (
	KEYTYPE_EC  = TypeEC
	KEYTYPE_RSA = TypeRSA
)

var (
	ErrGetKeySize           = errors.New("failed to get needed key sizes")
	ErrGenerateKeypair      = errors.New("failed to generate keypair")
	ErrInvalidType          = errors.NewWithCode(errors.InvalidParameter, "invalid key type specified")
	ErrOutOfMemory          = errors.NewWithCode(errors.NoMemory, "key generator cannot allocate enough memory")
	ErrOverflow             = ErrOutOfMemory
	ErrGetSymmetricKeySize  = errors.New("failed to get symmetric key size")
	ErrGenerateSymmetricKey = errors.New("failed to generate symmetric key")
)

type PrivateKey struct{ Value []byte }
type PublicKey struct{ Value []byte }
type Keypair struct {
	Private *PrivateKey
	Public  *PublicKey
}
type SymmetricKey struct{ Value []byte }

const (
	privTag = "REC2"
	pubTag  = "UEC2"
	hdrLen  = 12
	bodyLen = 33
	KeyLen  = hdrLen + bodyLen
)

func pack(tag string, body []byte) []byte {
	out := make([]byte, KeyLen)
	copy(out, tag)
	binary.BigEndian.PutUint32(out[4:8], KeyLen)
	copy(out[hdrLen:], body)
	binary.BigEndian.PutUint32(out[8:12], crcOf(out))
	return out
}

func crcOf(k []byte) uint32 {
	h := crc32.NewIEEE()
	h.Write(k[:8])
	h.Write([]byte{0, 0, 0, 0})
	h.Write(k[hdrLen:])
	return h.Sum32()
}

func unpack(tag string, k []byte) ([]byte, bool) {
	if len(k) != KeyLen || string(k[:4]) != tag || binary.BigEndian.Uint32(k[4:8]) != KeyLen {
		return nil, false
	}
	if binary.BigEndian.Uint32(k[8:12]) != crcOf(k) {
		return nil, false
	}
	return k[hdrLen:], true
}

// New generates an EC key pair. RSA is not provided by the stand-in.
func New(keytype int) (*Keypair, error) {
	if keytype != TypeEC && keytype != TypeRSA {
		return nil, ErrInvalidType
	}
	if keytype == TypeRSA {
		return nil, ErrGenerateKeypair
	}
	priv, err := ecdh.P256().GenerateKey(rand.Reader)
	if err != nil {
		return nil, ErrGenerateKeypair
	}
	pb := priv.PublicKey().Bytes() // uncompressed 65
	x, y := elliptic.Unmarshal(elliptic.P256(), pb)
	comp := elliptic.MarshalCompressed(elliptic.P256(), x, y)
	body := make([]byte, bodyLen)
	copy(body[1:], priv.Bytes())
	return &Keypair{Private: &PrivateKey{Value: pack(privTag, body)}, Public: &PublicKey{Value: pack(pubTag, comp)}}, nil
}

// ParsePrivate / ParsePublic are used by the message package.
func ParsePrivate(k *PrivateKey) (*ecdh.PrivateKey, bool) {
	if k == nil {
		return nil, false
	}
	body, ok := unpack(privTag, k.Value)
	if !ok || body[0] != 0 {
		return nil, false
	}
	p, err := ecdh.P256().NewPrivateKey(body[1:])
	return p, err == nil
}

func ParsePublic(k *PublicKey) (*ecdh.PublicKey, bool) {
	if k == nil {
		return nil, false
	}
	body, ok := unpack(pubTag, k.Value)
	if !ok {
		return nil, false
	}
	x, y := elliptic.UnmarshalCompressed(elliptic.P256(), body)
	if x == nil {
		return nil, false
	}
	p, err := ecdh.P256().NewPublicKey(elliptic.Marshal(elliptic.P256(), x, y))
	return p, err == nil
}

func NewSymmetricKey() (*SymmetricKey, error) {
	key := make([]byte, 32)
	if _, err := rand.Read(key); err != nil {
		return nil, ErrGenerateSymmetricKey
	}
	return &SymmetricKey{Value: key}, nil
}
