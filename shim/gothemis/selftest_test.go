package gothemis_test

import (
	"bytes"
	"testing"

	"github.com/cossacklabs/themis/gothemis/cell"
	"github.com/cossacklabs/themis/gothemis/keys"
	"github.com/cossacklabs/themis/gothemis/message"
)

// Self-test of the stand-in: sizes Acra hard-codes, round trips, and rejection of every single-bit change.
func TestStandIn(t *testing.T) {
	kp, err := keys.New(keys.TypeEC)
	if err != nil || len(kp.Private.Value) != 45 || len(kp.Public.Value) != 45 {
		t.Fatalf("key sizes: %v %d %d", err, len(kp.Private.Value), len(kp.Public.Value))
	}
	kp2, _ := keys.New(keys.TypeEC)
	sym, _ := keys.NewSymmetricKey()
	sc, _ := cell.SealWithKey(sym)
	for _, n := range []int{1, 2, 31, 32, 1000} {
		msg := bytes.Repeat([]byte{0xA5}, n)
		enc, err := sc.Encrypt(msg, []byte("ctx"))
		if err != nil || len(enc) != n+44 {
			t.Fatalf("seal size %d %v", len(enc), err)
		}
		dec, err := sc.Decrypt(enc, []byte("ctx"))
		if err != nil || !bytes.Equal(dec, msg) {
			t.Fatalf("seal round trip")
		}
		if _, err := sc.Decrypt(enc, []byte("other")); err == nil {
			t.Fatalf("wrong context accepted")
		}
		for i := 0; i < len(enc)*8; i++ {
			c := append([]byte{}, enc...)
			c[i/8] ^= 1 << (i % 8)
			if _, err := sc.Decrypt(c, []byte("ctx")); err == nil {
				t.Fatalf("bit flip %d accepted", i)
			}
		}
		for l := 0; l < len(enc); l++ {
			if _, err := sc.Decrypt(enc[:l], []byte("ctx")); err == nil {
				t.Fatalf("truncation %d accepted", l)
			}
		}
	}
	if _, err := sc.Encrypt(nil, nil); err == nil {
		t.Fatalf("empty message accepted")
	}
	w, err := message.New(kp.Private, kp2.Public).Wrap(sym.Value)
	if err != nil || len(w) != 84 {
		t.Fatalf("wrapped key size %d %v", len(w), err)
	}
	u, err := message.New(kp2.Private, kp.Public).Unwrap(w)
	if err != nil || !bytes.Equal(u, sym.Value) {
		t.Fatalf("message round trip")
	}
	kp3, _ := keys.New(keys.TypeEC)
	if _, err := message.New(kp3.Private, kp.Public).Unwrap(w); err == nil {
		t.Fatalf("wrong key accepted")
	}
	for i := 0; i < len(w)*8; i++ {
		c := append([]byte{}, w...)
		c[i/8] ^= 1 << (i % 8)
		if _, err := message.New(kp2.Private, kp.Public).Unwrap(c); err == nil {
			t.Fatalf("message bit flip %d accepted", i)
		}
	}
	old := cell.New(sym.Value, cell.ModeSeal)
	p, _, err := old.Protect([]byte("x"), nil)
	if err != nil {
		t.Fatal(err)
	}
	if d, err := old.Unprotect(p, nil, nil); err != nil || string(d) != "x" {
		t.Fatal("old api round trip")
	}
}
