// Package cell mirrors gothemis/cell (Seal mode; Token Protect and Context Imprint minimal) without cgo.
// Layout of a sealed message follows Themis: alg(4) iv_len(4) tag_len(4) msg_len(4) iv(12) tag(16) ciphertext.
package cell

import (
	"crypto/aes"
	"crypto/cipher"
	"crypto/hmac"
	"crypto/rand"
	"crypto/sha256"
	"encoding/binary"

	"github.com/cossacklabs/themis/gothemis/errors"
	"github.com/cossacklabs/themis/gothemis/keys"
)

var (
	ErrGetOutputSize     = errors.New("failed to get output size")
	ErrEncryptData       = errors.New("failed to protect data")
	ErrDecryptData       = errors.New("failed to unprotect data")
	ErrInvalidMode       = errors.NewWithCode(errors.InvalidParameter, "invalid Secure Cell mode specified")
	ErrMissingKey        = errors.NewWithCode(errors.InvalidParameter, "empty symmetric key for Secure Cell")
	ErrMissingPassphrase = errors.NewWithCode(errors.InvalidParameter, "empty passphrase for Secure Cell")
	ErrMissingMessage    = errors.NewWithCode(errors.InvalidParameter, "empty message for Secure Cell")
	ErrMissingToken      = errors.NewWithCode(errors.InvalidParameter, "authentication token is required in Token Protect mode")
	ErrMissingContext    = errors.NewWithCode(errors.InvalidParameter, "associated context is required in Context Imprint mode")
	ErrOutOfMemory       = errors.NewWithCode(errors.NoMemory, "Secure Cell cannot allocate enough memory")
	ErrOverflow          = ErrOutOfMemory
)

const (
	ModeSeal = iota
	ModeTokenProtect
	ModeContextImprint
)

const (
	CELL_MODE_SEAL            = ModeSeal
	CELL_MODE_TOKEN_PROTECT   = ModeTokenProtect
	CELL_MODE_CONTEXT_IMPRINT = ModeContextImprint
)

const (
	algID   = 0x40010100
	ivLen   = 12
	tagLen  = 16
	HdrLen  = 16 + ivLen + tagLen
)

func derive(master []byte, msgLen uint32) []byte {
	m := hmac.New(sha256.New, master)
	m.Write([]byte("Themis secure cell message key"))
	var l [4]byte
	binary.LittleEndian.PutUint32(l[:], msgLen)
	m.Write(l[:])
	return m.Sum(nil)
}

func sealEncrypt(key, msg, ctx []byte) ([]byte, error) {
	if uint64(len(msg)) > 0xffffffff {
		return nil, errors.NewWithCode(errors.InvalidParameter, "Secure Cell failed to encrypt")
	}
	blk, err := aes.NewCipher(derive(key, uint32(len(msg))))
	if err != nil {
		return nil, errors.NewWithCode(errors.Fail, "Secure Cell failed to encrypt")
	}
	g, _ := cipher.NewGCM(blk)
	out := make([]byte, HdrLen, HdrLen+len(msg))
	binary.LittleEndian.PutUint32(out[0:], algID)
	binary.LittleEndian.PutUint32(out[4:], ivLen)
	binary.LittleEndian.PutUint32(out[8:], tagLen)
	binary.LittleEndian.PutUint32(out[12:], uint32(len(msg)))
	if _, err := rand.Read(out[16 : 16+ivLen]); err != nil {
		return nil, errors.NewWithCode(errors.Fail, "Secure Cell failed to encrypt")
	}
	ct := g.Seal(nil, out[16:16+ivLen], msg, ctx)
	copy(out[16+ivLen:HdrLen], ct[len(msg):])
	out = append(out, ct[:len(msg)]...)
	return out, nil
}

func sealDecrypt(key, enc, ctx []byte) ([]byte, error) {
	fail := errors.NewWithCode(errors.Fail, "Secure Cell failed to decrypt")
	if len(enc) < HdrLen {
		return nil, errors.NewWithCode(errors.InvalidParameter, "Secure Cell failed to decrypt")
	}
	if binary.LittleEndian.Uint32(enc[0:]) != algID || binary.LittleEndian.Uint32(enc[4:]) != ivLen || binary.LittleEndian.Uint32(enc[8:]) != tagLen {
		return nil, fail
	}
	msgLen := binary.LittleEndian.Uint32(enc[12:])
	if uint64(len(enc)-HdrLen) != uint64(msgLen) {
		return nil, fail
	}
	blk, err := aes.NewCipher(derive(key, msgLen))
	if err != nil {
		return nil, fail
	}
	g, _ := cipher.NewGCM(blk)
	buf := make([]byte, 0, len(enc)-HdrLen+tagLen)
	buf = append(buf, enc[HdrLen:]...)
	buf = append(buf, enc[16+ivLen:HdrLen]...)
	pt, err := g.Open(nil, enc[16:16+ivLen], buf, ctx)
	if err != nil {
		return nil, fail
	}
	if pt == nil {
		pt = []byte{}
	}
	return pt, nil
}

type SecureCellSeal struct{ key *keys.SymmetricKey }

func SealWithKey(key *keys.SymmetricKey) (*SecureCellSeal, error) {
	if key == nil || len(key.Value) == 0 {
		return nil, ErrMissingKey
	}
	return &SecureCellSeal{key}, nil
}

func (sc *SecureCellSeal) Encrypt(message, context []byte) ([]byte, error) {
	if len(message) == 0 {
		return nil, ErrMissingMessage
	}
	return sealEncrypt(sc.key.Value, message, context)
}

func (sc *SecureCellSeal) Decrypt(encrypted, context []byte) ([]byte, error) {
	if len(encrypted) == 0 {
		return nil, ErrMissingMessage
	}
	return sealDecrypt(sc.key.Value, encrypted, context)
}

type SecureCell struct {
	key  []byte
	mode int
}

func New(key []byte, mode int) *SecureCell { return &SecureCell{key, mode} }

func (sc *SecureCell) Protect(data []byte, context []byte) ([]byte, []byte, error) {
	if sc.mode < ModeSeal || sc.mode > ModeContextImprint {
		return nil, nil, ErrInvalidMode
	}
	if len(sc.key) == 0 {
		return nil, nil, ErrMissingKey
	}
	if len(data) == 0 {
		return nil, nil, ErrMissingMessage
	}
	if sc.mode != ModeSeal {
		return nil, nil, ErrEncryptData // not used by Acra
	}
	out, err := sealEncrypt(sc.key, data, context)
	if err != nil {
		return nil, nil, ErrEncryptData
	}
	return out, nil, nil
}

func (sc *SecureCell) Unprotect(protectedData []byte, additionalData []byte, context []byte) ([]byte, error) {
	if sc.mode < ModeSeal || sc.mode > ModeContextImprint {
		return nil, ErrInvalidMode
	}
	if len(sc.key) == 0 {
		return nil, ErrMissingKey
	}
	if len(protectedData) == 0 {
		return nil, ErrMissingMessage
	}
	if sc.mode != ModeSeal {
		return nil, ErrDecryptData
	}
	out, err := sealDecrypt(sc.key, protectedData, context)
	if err != nil {
		if len(protectedData) < HdrLen {
			return nil, ErrGetOutputSize
		}
		return nil, ErrDecryptData
	}
	return out, nil
}
