#!/bin/bash
# Builds the framework offline from files on disk: stand-in self-test, monitor binaries (plain and -race).
set -e
cd "$(dirname "$0")"
export GOFLAGS=-mod=mod GOPROXY=off GOSUMDB=off GOTOOLCHAIN=local CGO_ENABLED=1
( cd shim/gothemis && go test -count=1 ./... )
mkdir -p .bin evidence
( cd harness && go build -tags "verif verif_hook_ks_cache verif_all" -o ../.bin/mon-setup ./cmd/mon )
( cd harness && go build -tags "verif verif_hook_ks_cache verif_all" -race -o ../.bin/mon-setup-race ./cmd/mon )
rm -f .bin/mon-setup .bin/mon-setup-race
echo setup ok
