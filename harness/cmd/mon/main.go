// mon runs one property monitor: mon <Cxx> [child ...].
package main

import (
	"fmt"
	"io"
	"os"

	"github.com/sirupsen/logrus"

	"verif/harness/internal/ev"
	"verif/harness/internal/props"
	_ "verif/harness/internal/props/all"
)

func main() {
	if len(os.Args) < 2 {
		fmt.Fprintln(os.Stderr, "usage: mon <Cxx> [child ...]")
		os.Exit(2)
	}
	id := os.Args[1]
	m, ok := props.Get(id)
	if !ok {
		fmt.Fprintf(os.Stderr, "no monitor registered for %s\n", id)
		os.Exit(2)
	}
	if len(os.Args) > 2 && os.Args[2] == "child" {
		if m.Child == nil {
			os.Exit(2)
		}
		os.Exit(m.Child(os.Args[3:]))
	}
	if os.Getenv("VERIF_LOGS") == "" {
		logrus.SetOutput(io.Discard)
	}
	r := ev.New(id, m.Level)
	m.Run(r)
	if os.Getenv("VERIF_RACE_COLLECT") == "1" {
		// race-detector build of a monitor that does not collect the reports itself (C10 and C17 do)
		r.CollectRaces("github.com/cossacklabs/acra")
	}
	os.Exit(r.Finish())
}
