package main

import (
	"fmt"
	"io"
	"os"

	"github.com/cossacklabs/acra/keystore"
	"github.com/sirupsen/logrus"

	"verif/harness/internal/rig/fakepg"
	"verif/harness/internal/rig/ksrig"
	"verif/harness/internal/rig/proxyrig"
)

const schema = `
schemas:
  - table: t
    columns: [id, a, b]
    encrypted:
      - column: a
        data_type: bytes
        response_on_fail: error
        crypto_envelope: acrablock
      - column: b
        data_type: int64
        crypto_envelope: acrablock
`

func main() {
	if os.Getenv("VERIF_LOGS") == "" {
		logrus.SetOutput(io.Discard)
	} else {
		logrus.SetLevel(logrus.DebugLevel)
	}
	dir := ksrig.ScratchDir("probe")
	ks, _ := ksrig.V1(dir, ksrig.RandBytes(32), keystore.InfiniteCacheSize)
	ksrig.GenClient(ks, []byte("client_one"))
	db := fakepg.NewDB()
	db.CreateTable("t", []fakepg.Column{{"id", fakepg.Int4}, {"a", fakepg.Bytea}, {"b", fakepg.Bytea}})
	srv, _ := fakepg.NewServer(db)
	a1, err := proxyrig.Start(proxyrig.Opts{KS: ks, ClientID: []byte("client_one"), DBPort: srv.Port(), SchemaYAML: schema})
	if err != nil {
		panic(err)
	}
	a2, _ := proxyrig.Start(proxyrig.Opts{KS: ks, ClientID: []byte("client_two"), DBPort: srv.Port(), SchemaYAML: schema})
	pr := func(msgs []proxyrig.BackendMsg, err error) {
		if rd := proxyrig.RowDesc(msgs); rd != nil {
			for _, f := range rd.Fields {
				fmt.Printf("   field %s oid=%d fmt=%d\n", f.Name, f.DataTypeOID, f.Format)
			}
		}
		for _, r := range proxyrig.Rows(msgs) {
			fmt.Printf("   row %.80q\n", r)
		}
		if e := proxyrig.ErrorOf(msgs); e != nil || err != nil {
			fmt.Println("   error:", e, err)
		}
	}
	c, _, _ := proxyrig.DialPG(a1.Port)
	pr(c.Simple("insert into t (id, a, b) values (1, 'aaaaaaaaaaaa', 123456789012)"))
	pr(c.Simple("select id, b from t order by id"))
	c2, _, _ := proxyrig.DialPG(a2.Port)
	for _, q := range os.Args[1:] {
		fmt.Println("Q(no keys):", q)
		pr(c2.Simple(q))
	}
	os.RemoveAll(dir)
}
