package main

import (
	"github.com/jackc/pgx/v5/pgproto3"
	"fmt"
	"io"
	"os"

	"github.com/cossacklabs/acra/keystore"
	"github.com/sirupsen/logrus"

	"verif/harness/internal/rig/fakepg"
	"verif/harness/internal/rig/ksrig"
	"verif/harness/internal/rig/proxyrig"
)

const schema = `
schemas:
  - table: t
    columns: [id, plain, data, srch, num, msk, tok, tokb]
    encrypted:
      - column: data
        crypto_envelope: acrablock
      - column: srch
        searchable: true
      - column: num
        data_type: int32
        crypto_envelope: acrablock
      - column: tok
        token_type: int32
        consistent_tokenization: true
      - column: tokb
        token_type: bytes
        consistent_tokenization: false
      - column: msk
        crypto_envelope: acrablock
        masking: "xxxx"
        plaintext_length: 3
        plaintext_side: left
`

func main() {
	if os.Getenv("VERIF_LOGS") == "" {
		logrus.SetOutput(io.Discard)
	} else {
		logrus.SetLevel(logrus.DebugLevel)
	}
	dir := ksrig.ScratchDir("probe")
	ks, err := ksrig.V1(dir, ksrig.RandBytes(32), keystore.InfiniteCacheSize)
	if err != nil {
		panic(err)
	}
	id := []byte("client_one")
	ksrig.GenClient(ks, id)
	db := fakepg.NewDB()
	db.CreateTable("t", []fakepg.Column{{"id", fakepg.Int4}, {"plain", fakepg.Text}, {"data", fakepg.Bytea}, {"srch", fakepg.Bytea}, {"num", fakepg.Bytea}, {"msk", fakepg.Bytea}, {"tok", fakepg.Int4}, {"tokb", fakepg.Bytea}})
	srv, err := fakepg.NewServer(db)
	if err != nil {
		panic(err)
	}
	a, err := proxyrig.Start(proxyrig.Opts{KS: ks, ClientID: id, DBPort: srv.Port(), SchemaYAML: schema})
	if err != nil {
		panic(err)
	}
	c, _, err := proxyrig.DialPG(a.Port)
	if err != nil {
		panic(err)
	}
	show := func(msgs []proxyrig.BackendMsg, err error) {
		for _, m := range msgs {
			fmt.Printf("   <- %s %q\n", m.Type, m.Raw)
		}
		if err != nil {
			fmt.Println("   err:", err)
		}
	}
	for _, q := range os.Args[1:] {
		n := srv.LogLen()
		fmt.Println("Q:", q)
		show(c.Simple(q))
		for _, r := range srv.Log()[n:] {
			fmt.Printf("   DB got %s: %.300s\n", r.Type, r.SQL)
		}
	}
	fmt.Println("-- extended")
	pr := func(msgs []proxyrig.BackendMsg, err error) {
		if rd := proxyrig.RowDesc(msgs); rd != nil {
			for _, f := range rd.Fields {
				fmt.Printf("   field %s oid=%d fmt=%d\n", f.Name, f.DataTypeOID, f.Format)
			}
		}
		for _, r := range proxyrig.Rows(msgs) {
			fmt.Printf("   row %q\n", r)
		}
		if e := proxyrig.ErrorOf(msgs); e != nil || err != nil {
			fmt.Println("   error:", e, err)
		}
	}
	pr(c.Simple("insert into t (id, srch) values (1, 'findme'), (2, 'other'), (3, 'findme')"))
	fmt.Println("-- param text")
	pr(c.Extended("", "select id from t where srch = $1", nil, [][]byte{[]byte("findme")}, nil, nil, 0))
	fmt.Println("-- param text hex")
	pr(c.Extended("", "select id from t where srch = $1", nil, [][]byte{[]byte("\\x66696e646d65")}, nil, nil, 0))
	fmt.Println("-- param binary")
	pr(c.Extended("", "select id from t where srch = $1", nil, [][]byte{[]byte("findme")}, []int16{1}, nil, 0))
	fmt.Println("-- param binary, describe stmt flow")
	c.Send(&pgproto3.Parse{Name: "s1", Query: "select id from t where srch = $1"}, &pgproto3.Describe{ObjectType: 'S', Name: "s1"}, &pgproto3.Sync{})
	pr(c.ReadUntilReady())
	c.Send(&pgproto3.Bind{PreparedStatement: "s1", Parameters: [][]byte{[]byte("findme")}, ParameterFormatCodes: []int16{1}}, &pgproto3.Execute{}, &pgproto3.Sync{})
	pr(c.ReadUntilReady())
	fmt.Println("-- reversed literal")
	pr(c.Simple("select id from t where 'findme' = srch"))
	fmt.Println("-- reversed param")
	pr(c.Extended("", "select id from t where $1 = srch", nil, [][]byte{[]byte("findme")}, nil, nil, 0))
	fmt.Println("-- or")
	pr(c.Extended("", "select id from t where (srch = $1 or id = $2)", nil, [][]byte{[]byte("findme"), []byte("2")}, nil, nil, 0))
	fmt.Println("-- and id > '2'")
	pr(c.Extended("", "select id from t where (srch = $1 and id > '2')", nil, [][]byte{[]byte("findme")}, nil, nil, 0))
	for _, r := range srv.Log() {
		if r.SQL != "" {
			q := r.SQL; if len(q) > 260 { q = q[:60] + " ... " + q[len(q)-120:] }; fmt.Printf("FWD %s: %s\n", r.Type, q)
		}
		if r.Bind != nil {
			fmt.Printf("FWD Bind: %q %v\n", r.Bind.Parameters, r.Bind.ParameterFormatCodes)
		}
	}
	fmt.Println("unsupported:", srv.Unsupported())
	c.Close()
	a.Stop()
	os.RemoveAll(dir)
}
