package main

import (
	"fmt"

	"github.com/cossacklabs/acra/acrablock"
	_ "github.com/anishathalye/porcupine"
)

func main() {
	b, err := acrablock.CreateAcraBlock([]byte("hello"), []byte("0123456789abcdef0123456789abcdef"), nil)
	fmt.Println(len(b), err)
}
