package main

import (
	"fmt"
	"io"
	"os"

	"github.com/cossacklabs/acra/keystore"
	"github.com/sirupsen/logrus"

	"verif/harness/internal/rig/fakepg"
	"verif/harness/internal/rig/ksrig"
	"verif/harness/internal/rig/proxyrig"
)

const schema = `
schemas:
  - table: t
    columns: [id, plain, data, srch, num, msk, tok, tokb]
    encrypted:
      - column: data
        crypto_envelope: acrablock
      - column: srch
        searchable: true
      - column: num
        data_type: int32
        crypto_envelope: acrablock
      - column: tok
        token_type: int32
        consistent_tokenization: true
      - column: tokb
        token_type: bytes
        consistent_tokenization: false
      - column: msk
        crypto_envelope: acrablock
        masking: "xxxx"
        plaintext_length: 3
        plaintext_side: left
`

func main() {
	if os.Getenv("VERIF_LOGS") == "" {
		logrus.SetOutput(io.Discard)
	} else {
		logrus.SetLevel(logrus.DebugLevel)
	}
	dir := ksrig.ScratchDir("probe")
	ks, err := ksrig.V1(dir, ksrig.RandBytes(32), keystore.InfiniteCacheSize)
	if err != nil {
		panic(err)
	}
	id := []byte("client_one")
	ksrig.GenClient(ks, id)
	db := fakepg.NewDB()
	db.CreateTable("t", []fakepg.Column{{"id", fakepg.Int4}, {"plain", fakepg.Text}, {"data", fakepg.Bytea}, {"srch", fakepg.Bytea}, {"num", fakepg.Bytea}, {"msk", fakepg.Bytea}, {"tok", fakepg.Int4}, {"tokb", fakepg.Bytea}})
	srv, err := fakepg.NewServer(db)
	if err != nil {
		panic(err)
	}
	a, err := proxyrig.Start(proxyrig.Opts{KS: ks, ClientID: id, DBPort: srv.Port(), SchemaYAML: schema})
	if err != nil {
		panic(err)
	}
	c, _, err := proxyrig.DialPG(a.Port)
	if err != nil {
		panic(err)
	}
	show := func(msgs []proxyrig.BackendMsg, err error) {
		for _, m := range msgs {
			fmt.Printf("   <- %s %q\n", m.Type, m.Raw)
		}
		if err != nil {
			fmt.Println("   err:", err)
		}
	}
	for _, q := range os.Args[1:] {
		n := srv.LogLen()
		fmt.Println("Q:", q)
		show(c.Simple(q))
		for _, r := range srv.Log()[n:] {
			fmt.Printf("   DB got %s: %.300s\n", r.Type, r.SQL)
		}
	}
	fmt.Println("-- extended")
	pr := func(msgs []proxyrig.BackendMsg, err error) {
		if rd := proxyrig.RowDesc(msgs); rd != nil {
			for _, f := range rd.Fields {
				fmt.Printf("   field %s oid=%d fmt=%d\n", f.Name, f.DataTypeOID, f.Format)
			}
		}
		for _, r := range proxyrig.Rows(msgs) {
			fmt.Printf("   row %q\n", r)
		}
		if e := proxyrig.ErrorOf(msgs); e != nil || err != nil {
			fmt.Println("   error:", e, err)
		}
	}
	pr(c.Simple("insert into t (id, tok) values (1, 1483857175)"))
	pr(c.Simple("select id, tok from t"))
	pr(c.Extended("", "select id, tok from t", nil, nil, nil, []int16{1}, 0))
	pr(c.Extended("", "insert into t (id, tok) values (2, 1483857176) returning tok, id", nil, nil, nil, []int16{1}, 0))
	pr(c.Extended("", "insert into t (num, tok, id) values (5, 1483857177, 3) returning num, tok", nil, nil, nil, []int16{1}, 0))
	pr(c.Simple("insert into t (num, tok, id) values (5, 1483857178, 4) returning num, tok"))
	pr(c.Simple("select num, tok from t"))
	pr(c.Simple("select tok from t"))
	for _, r := range db.Snapshot("t") {
		fmt.Printf("%v %v\n", r[0], r[6])
	}
	for _, r := range srv.Log() {
		if r.SQL != "" {
			q := r.SQL; if len(q) > 260 { q = q[:60] + " ... " + q[len(q)-120:] }; fmt.Printf("FWD %s: %s\n", r.Type, q)
		}
	}
	fmt.Println("unsupported:", srv.Unsupported())
	c.Close()
	a.Stop()
	os.RemoveAll(dir)
}
