// Package gen holds seeded workload generators.
package gen

import (
	"bytes"
	"encoding/binary"
	"math/rand"
)

// Rand is the seeded PRNG type used by all generators.
type Rand = rand.Rand

// New returns a PRNG for (seed, stream) so that independent generators do not disturb each other.
func New(seed int64, stream string) *Rand {
	h := uint64(1469598103934665603)
	for _, c := range []byte(stream) {
		h ^= uint64(c)
		h *= 1099511628211
	}
	return rand.New(rand.NewSource(seed*1000003 + int64(h&0x7fffffffffff)))
}

// Bytes returns n pseudo-random bytes.
func Bytes(r *Rand, n int) []byte {
	b := make([]byte, n)
	r.Read(b)
	return b
}

// BoundaryLengths are plaintext lengths around every header size the envelope formats use.
var BoundaryLengths = []int{0, 1, 2, 3, 4, 7, 8, 11, 12, 13, 14, 17, 18, 19, 32, 33, 34, 43, 44, 45, 46, 83, 84, 85, 136, 137, 138, 255, 256, 257, 4095, 4096, 65535, 65536}

// ContentClasses names the plaintext content classes.
var ContentClasses = []string{"random", "zeros", "quotes", "percents", "utf8", "nul-laden", "hash-lookalike", "astag-random", "abtag-random", "ctag-random", "as-header-consistent", "ab-header-consistent", "ab-header-inconsistent", "c-header-consistent", "c-header-inconsistent", "ascii"}

// Content builds a plaintext of length n of the named class. Look-alike headers are laid out like the real
// formats: AcraStruct = 8x'"' + 45 + 84 + u64 length + data; AcraBlock = 4x'"' + u64 rest + type + 2 id + type + u16 keylen ...;
// container = "%%%" + u64 total + envelope id.
func Content(r *Rand, class string, n int) []byte {
	b := Bytes(r, n)
	put := func(off int, v []byte) {
		if off < n {
			copy(b[off:], v)
		}
	}
	u64 := func(v uint64) []byte { x := make([]byte, 8); binary.LittleEndian.PutUint64(x, v); return x }
	switch class {
	case "random":
	case "zeros":
		for i := range b {
			b[i] = 0
		}
	case "quotes":
		for i := range b {
			b[i] = '"'
		}
	case "percents":
		for i := range b {
			b[i] = '%'
		}
	case "ascii":
		for i := range b {
			b[i] = byte('a' + r.Intn(26))
		}
	case "utf8":
		s := []byte{}
		runes := []rune("äßé€漢字😀abc ")
		for len(s) < n {
			s = append(s, string(runes[r.Intn(len(runes))])...)
		}
		copy(b, s[:n])
	case "nul-laden":
		for i := range b {
			if r.Intn(2) == 0 {
				b[i] = 0
			}
		}
	case "hash-lookalike":
		put(0, []byte{0x7f})
	case "astag-random":
		put(0, bytes.Repeat([]byte{'"'}, 8))
	case "abtag-random":
		put(0, bytes.Repeat([]byte{'"'}, 4))
		if n > 4 && b[4] == '"' {
			b[4] = 'x'
		}
	case "ctag-random":
		put(0, []byte("%%%"))
	case "as-header-consistent":
		put(0, bytes.Repeat([]byte{'"'}, 8))
		if n >= 145 {
			put(137, u64(uint64(n-145)))
		}
	case "ab-header-consistent":
		put(0, bytes.Repeat([]byte{'"'}, 4))
		if n >= 18 {
			put(4, u64(uint64(n-4)))
			put(12, []byte{0})
			put(15, []byte{0})
			kl := 0
			if n-18 > 0 {
				kl = r.Intn(n - 18 + 1)
			}
			put(16, []byte{byte(kl), byte(kl >> 8)})
		}
	case "ab-header-inconsistent":
		put(0, bytes.Repeat([]byte{'"'}, 4))
		vals := []uint64{0, 1, 5, 13, uint64(n), uint64(n + 1), 0x7fffffff, 1 << 63, ^uint64(0), ^uint64(0) - 3}
		put(4, u64(vals[r.Intn(len(vals))]))
		put(12, []byte{0})
		put(15, []byte{0})
		put(16, []byte{0xff, 0xff})
	case "c-header-consistent":
		put(0, []byte("%%%"))
		put(3, u64(uint64(n)))
		put(11, []byte{[]byte{0xF0, 0xF1}[r.Intn(2)]})
	case "c-header-inconsistent":
		put(0, []byte("%%%"))
		vals := []uint64{0, 1, 11, 12, 13, uint64(n + 1), uint64(n - 1), 1 << 31, 1 << 63, ^uint64(0)}
		put(3, u64(vals[r.Intn(len(vals))]))
		put(11, []byte{[]byte{0xF0, 0xF1, 0x00}[r.Intn(3)]})
	}
	return b
}

// Framing returns prefix/suffix bytes placed around an envelope inside one column value.
func Framing(r *Rand, kind int) (pre, suf []byte) {
	partial := [][]byte{[]byte("%"), []byte("%%"), []byte(`"`), []byte(`""`), []byte(`"""`), []byte(`""""`), []byte(`"""""`), []byte(`""""""`), []byte(`"""""""`)}
	switch kind % FramingKinds {
	case 0:
		return nil, nil
	case 1:
		return Bytes(r, 1+r.Intn(64)), nil
	case 2:
		return nil, Bytes(r, 1+r.Intn(64))
	case 3:
		return Bytes(r, 1+r.Intn(64)), Bytes(r, 1+r.Intn(64))
	case 4:
		p := append(Bytes(r, r.Intn(16)), partial[r.Intn(len(partial))]...)
		s := append(append([]byte{}, partial[r.Intn(len(partial))]...), Bytes(r, r.Intn(16))...)
		return p, s
	case 5:
		// printable text around
		return []byte("prefix text "), []byte(" suffix text")
	default:
		// prefix shaped like a search hash: 0x7f followed by 32..48 bytes
		return append([]byte{0x7f}, Bytes(r, 32+r.Intn(17))...), nil
	}
}

// FramingKinds is the number of framing kinds.
const FramingKinds = 7

// Cat concatenates.
func Cat(parts ...[]byte) []byte {
	var out []byte
	for _, p := range parts {
		out = append(out, p...)
	}
	return out
}
