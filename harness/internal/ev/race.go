package ev

import (
	"fmt"
	"os"
	"path/filepath"
	"regexp"
	"sort"
	"strings"
)

var frameRe = regexp.MustCompile(`^\s+([A-Za-z0-9_./\-]+(?:\(\*?[A-Za-z0-9_]+\))?[A-Za-z0-9_.\-]*)\(`)

// RaceReports parses the race detector log files of this process (GORACE log_path set by ./check) and
// returns de-duplicated signatures: the innermost frames inside modulePrefix of the two conflicting accesses,
// line numbers and addresses stripped.
func RaceReports(modulePrefix string) (sigs map[string]int, blocks map[string]string, total int) {
	sigs = map[string]int{}
	blocks = map[string]string{}
	base := os.Getenv("VERIF_RACE_LOG")
	if base == "" {
		return
	}
	files, _ := filepath.Glob(base + ".*")
	for _, f := range files {
		b, err := os.ReadFile(f)
		if err != nil {
			continue
		}
		for _, blk := range strings.Split(string(b), "==================") {
			if !strings.Contains(blk, "WARNING: DATA RACE") {
				continue
			}
			total++
			// split into access sections
			var accesses []string
			cur := ""
			inAccess := false
			for _, line := range strings.Split(blk, "\n") {
				l := strings.TrimSpace(line)
				if strings.HasPrefix(l, "Write at") || strings.HasPrefix(l, "Read at") || strings.HasPrefix(l, "Previous write at") || strings.HasPrefix(l, "Previous read at") {
					inAccess = true
					cur = ""
					continue
				}
				if strings.HasPrefix(l, "Goroutine ") {
					inAccess = false
				}
				if l == "" && inAccess {
					accesses = append(accesses, cur)
					inAccess = false
					continue
				}
				if inAccess && cur == "" {
					if m := frameRe.FindStringSubmatch(line); m != nil && strings.Contains(m[1], modulePrefix) {
						cur = m[1]
					}
				}
			}
			if len(accesses) == 0 {
				accesses = []string{"?"}
			}
			for i := range accesses {
				if accesses[i] == "" {
					accesses[i] = "(outside " + modulePrefix + ")"
				}
			}
			sort.Strings(accesses)
			sig := "data race: " + strings.Join(accesses, " <-> ")
			sigs[sig]++
			if _, ok := blocks[sig]; !ok {
				blocks[sig] = blk
			}
		}
	}
	return
}

// CollectRaces turns race reports into violations (or known-finding hits) of this run.
func (r *Run) CollectRaces(modulePrefix string) {
	sigs, blocks, total := RaceReports(modulePrefix)
	r.Count("race_reports_total", int64(total))
	r.Count("race_reports_distinct", int64(len(sigs)))
	keys := make([]string, 0, len(sigs))
	for k := range sigs {
		keys = append(keys, k)
	}
	sort.Strings(keys)
	for _, k := range keys {
		for i := 0; i < sigs[k]; i++ {
			r.Violation(k, map[string]interface{}{"report": blocks[k], "occurrences": fmt.Sprint(sigs[k])})
		}
	}
}
