// Package ev is the verdict/evidence layer shared by all monitors: counts what was observed,
// matches violations against the committed known-findings file, writes replay files and the
// schema-conformant evidence file, and prints the VIOLATION / KNOWN-FINDING lines.
package ev

import (
	"encoding/hex"
	"encoding/json"
	"fmt"
	"os"
	"path/filepath"
	"regexp"
	"sort"
	"strconv"
	"strings"
	"sync"
	"time"
)

// Root is the /verif directory (VERIF_ROOT overrides, used by vp run snapshots).
func Root() string {
	if r := os.Getenv("VERIF_ROOT"); r != "" {
		return r
	}
	return "/verif"
}

// Finding is one entry of known_findings.json.
type Finding struct {
	Kind     string `json:"kind"` // "known" | "fixed"
	Property string `json:"property"`
	ID       string `json:"id"`
	Match    string `json:"match,omitempty"` // anchored regexp over the violation signature (known only)
	Commit   string `json:"commit,omitempty"`
	What     string `json:"what"`
}

type violation struct {
	Sig    string      `json:"signature"`
	Detail interface{} `json:"detail"`
	Count  int         `json:"count"`
	Replay string      `json:"replay"`
}

// Run accumulates one check execution.
type Run struct {
	mu          sync.Mutex
	Prop        string
	Tier        string
	Seed        int64
	Level       string
	Rule        string
	Assumptions []string
	start       time.Time
	evals       int64
	distinct    map[string]struct{}
	samples     []interface{}
	maxSamples  int
	counters    map[string]int64
	sets        map[string]map[string]struct{}
	viol        map[string]*violation
	violOrder   []string
	known       []Finding
	knownRe     []*regexp.Regexp
	knownHits   map[string]int
	inconcl     []string
	extra       map[string]interface{}
	minDistinct int
	exhaustive  *bool
}

// New creates a run from the environment (VERIF_SEED, VERIF_TIER).
func New(prop, level string) *Run {
	seed := int64(1)
	if s := os.Getenv("VERIF_SEED"); s != "" {
		if v, err := strconv.ParseInt(s, 10, 64); err == nil {
			seed = v
		}
	}
	tier := os.Getenv("VERIF_TIER")
	if tier != "thorough" {
		tier = "quick"
	}
	r := &Run{Prop: prop, Tier: tier, Seed: seed, Level: level, start: time.Now(),
		distinct: map[string]struct{}{}, counters: map[string]int64{}, sets: map[string]map[string]struct{}{},
		viol: map[string]*violation{}, knownHits: map[string]int{}, extra: map[string]interface{}{}, maxSamples: 12, minDistinct: 2}
	r.loadKnown()
	return r
}

func (r *Run) loadKnown() {
	files := []string{filepath.Join(Root(), "known_findings.json")}
	more, _ := filepath.Glob(filepath.Join(Root(), "known_findings.d", "*.json"))
	sort.Strings(more)
	files = append(files, more...)
	for _, f := range files {
		b, err := os.ReadFile(f)
		if err != nil {
			continue
		}
		var all []Finding
		if err := json.Unmarshal(b, &all); err != nil {
			fmt.Fprintf(os.Stderr, "%s unreadable: %v\n", f, err)
			os.Exit(2)
		}
		for _, f := range all {
			if f.Kind != "known" || f.Property != r.Prop {
				continue
			}
			re, err := regexp.Compile("^(?:" + f.Match + ")$")
			if err != nil {
				fmt.Fprintf(os.Stderr, "known findings: bad match %q: %v\n", f.Match, err)
				os.Exit(2)
			}
			r.known = append(r.known, f)
			r.knownRe = append(r.knownRe, re)
		}
	}
}

// Thorough reports whether the thorough tier was requested.
func (r *Run) Thorough() bool { return r.Tier == "thorough" }

// Pick returns q in the quick tier and t in the thorough tier.
func (r *Run) Pick(q, t int) int {
	if r.Thorough() {
		return t
	}
	return q
}

// Case counts one evaluation.
func (r *Run) Case() { r.mu.Lock(); r.evals++; r.mu.Unlock() }

// Cases counts n evaluations.
func (r *Run) Cases(n int) { r.mu.Lock(); r.evals += int64(n); r.mu.Unlock() }

// Distinct records a non-trivial case class key.
func (r *Run) Distinct(key string) { r.mu.Lock(); r.distinct[key] = struct{}{}; r.mu.Unlock() }

// Count adds to a named counter shown in evidence.
func (r *Run) Count(name string, n int64) { r.mu.Lock(); r.counters[name] += n; r.mu.Unlock() }

// SetAdd records a member of a named set; the set size is shown in evidence.
func (r *Run) SetAdd(name, member string) {
	r.mu.Lock()
	m := r.sets[name]
	if m == nil {
		m = map[string]struct{}{}
		r.sets[name] = m
	}
	m[member] = struct{}{}
	r.mu.Unlock()
}

// Counter reads a counter.
func (r *Run) Counter(name string) int64 { r.mu.Lock(); defer r.mu.Unlock(); return r.counters[name] }

// SetSize reads a set size.
func (r *Run) SetSize(name string) int { r.mu.Lock(); defer r.mu.Unlock(); return len(r.sets[name]) }

// Sample keeps up to maxSamples written-out cases.
func (r *Run) Sample(v interface{}) {
	r.mu.Lock()
	if len(r.samples) < r.maxSamples {
		r.samples = append(r.samples, v)
	}
	r.mu.Unlock()
}

// SampleN keeps the sample only if fewer than n samples with this tag exist already.
func (r *Run) SampleN(tag string, n int, v interface{}) {
	r.mu.Lock()
	k := "sample:" + tag
	if r.counters[k] < int64(n) && len(r.samples) < 40 {
		r.counters[k]++
		r.samples = append(r.samples, v)
	}
	r.mu.Unlock()
}

// Extra puts a free-form key into coverage.
func (r *Run) Extra(k string, v interface{}) { r.mu.Lock(); r.extra[k] = v; r.mu.Unlock() }

// SetExhaustive marks the run as a complete enumeration of a finite space.
func (r *Run) SetExhaustive(b bool) { r.mu.Lock(); r.exhaustive = &b; r.mu.Unlock() }

// Inconclusive records a case that could not be decided for a resource reason.
func (r *Run) Inconclusive(what string) {
	r.mu.Lock()
	if len(r.inconcl) < 50 {
		r.inconcl = append(r.inconcl, what)
	}
	r.counters["inconclusive"]++
	r.mu.Unlock()
}

// Violation records positive evidence against the property. sig is a stable signature
// (what fails, independent of random bytes) used for de-duplication and known-finding matching.
func (r *Run) Violation(sig string, detail interface{}) { r.ViolationK(sig, detail) }

// ViolationK is Violation that also reports whether the signature matched a listed known finding.
func (r *Run) ViolationK(sig string, detail interface{}) (known bool) {
	// Redis layers (signatures start with "redis "): Acra builds its go-redis clients with the default options, whose read timeout is
	// 3 s of WALL clock; on a saturated machine a healthy stand-in server can miss it. Such a client-side timeout is a resource
	// verdict (inconclusive), never evidence against the property.
	if strings.HasPrefix(sig, "redis ") {
		b, _ := json.Marshal(detail)
		if strings.Contains(sig, "i/o timeout") || strings.Contains(string(b), "i/o timeout") {
			r.Inconclusive("go-redis client-side i/o timeout (wall clock): " + sig)
			return false
		}
	}
	r.mu.Lock()
	defer r.mu.Unlock()
	for i, re := range r.knownRe {
		if re.MatchString(sig) {
			r.knownHits[r.known[i].ID]++
			return true
		}
	}
	if v, ok := r.viol[sig]; ok {
		v.Count++
		return false
	}
	r.viol[sig] = &violation{Sig: sig, Detail: detail, Count: 1}
	r.violOrder = append(r.violOrder, sig)
	return false
}

// Violations returns the number of distinct unlisted violation signatures so far.
func (r *Run) Violations() int { r.mu.Lock(); defer r.mu.Unlock(); return len(r.viol) }

// RequireAtLeast is the non-vacuity guard: a run that observed fewer than min of counter `name` fails.
func (r *Run) RequireAtLeast(name string, min int64) {
	got := r.Counter(name)
	if got < min {
		r.Violation("non-vacuity:"+name, map[string]interface{}{"what": "monitor observed too few events; a run that observed nothing must not pass", "counter": name, "got": got, "min": min})
	}
}

// RequireSetAtLeast is the non-vacuity guard over a named set.
func (r *Run) RequireSetAtLeast(name string, min int) {
	got := r.SetSize(name)
	if got < min {
		r.Violation("non-vacuity:"+name, map[string]interface{}{"what": "monitor observed too few distinct classes", "set": name, "got": got, "min": min})
	}
}

// Hex renders bytes for samples/replays, truncated.
func Hex(b []byte) string {
	if len(b) <= 96 {
		return hex.EncodeToString(b)
	}
	return hex.EncodeToString(b[:64]) + fmt.Sprintf("...(%d bytes)...", len(b)) + hex.EncodeToString(b[len(b)-16:])
}

// FullHex renders bytes without truncation (replay files).
func FullHex(b []byte) string { return hex.EncodeToString(b) }

// Finish writes evidence + replay files, prints verdict lines and returns the exit code.
func (r *Run) Finish() int {
	r.mu.Lock()
	defer r.mu.Unlock()
	root := Root()
	// replay files
	rdir := filepath.Join(root, "replay", r.Prop)
	for i, sig := range r.violOrder {
		v := r.viol[sig]
		os.MkdirAll(rdir, 0o755)
		p := filepath.Join(rdir, fmt.Sprintf("%s-seed%d-%02d.json", r.Tier, r.Seed, i))
		b, _ := json.MarshalIndent(map[string]interface{}{"property": r.Prop, "tier": r.Tier, "seed": r.Seed, "signature": v.Sig, "occurrences": v.Count, "detail": v.Detail,
			"replay_cmd": fmt.Sprintf("VERIF_SEED=%d ./check %s %s", r.Seed, r.Prop, r.Tier)}, "", " ")
		os.WriteFile(p, b, 0o644)
		v.Replay = p
	}
	cov := map[string]interface{}{}
	for k, v := range r.extra {
		cov[k] = v
	}
	counters := map[string]int64{}
	for k, v := range r.counters {
		if !strings.HasPrefix(k, "sample:") {
			counters[k] = v
		}
	}
	setSizes := map[string]int{}
	for k, v := range r.sets {
		setSizes[k] = len(v)
	}
	cov["evaluations"] = r.evals
	cov["distinct_nontrivial"] = len(r.distinct)
	cov["rule"] = r.Rule
	samples := r.samples
	if len(samples) == 0 {
		// the schema wants at least one written-out case; a monitor that recorded none gets its counters as the sample
		samples = []interface{}{map[string]interface{}{"note": "the monitor wrote out no individual case in this run; counters stand in", "counters": counters}}
	}
	cov["samples"] = samples
	cov["counters"] = counters
	cov["distinct_sets"] = setSizes
	if r.exhaustive != nil {
		cov["exhaustive"] = *r.exhaustive
	}
	if len(r.inconcl) > 0 {
		cov["inconclusive"] = r.inconcl
	}
	kh := map[string]int{}
	for k, v := range r.knownHits {
		kh[k] = v
	}
	cov["known_findings_hit"] = kh
	vl := []interface{}{}
	for _, sig := range r.violOrder {
		vl = append(vl, map[string]interface{}{"signature": sig, "count": r.viol[sig].Count, "replay": r.viol[sig].Replay})
	}
	cov["violation_list"] = vl
	evd := map[string]interface{}{
		"property_id": r.Prop, "tier": r.Tier, "seed": r.Seed, "level": r.Level, "coverage": cov,
		"assumptions": r.Assumptions, "wall_s": time.Since(r.start).Seconds(), "violations": len(r.viol),
	}
	if evd["assumptions"] == nil || len(r.Assumptions) == 0 {
		evd["assumptions"] = []string{}
	}
	b, _ := json.MarshalIndent(evd, "", " ")
	os.MkdirAll(filepath.Join(root, "evidence"), 0o755)
	if err := os.WriteFile(filepath.Join(root, "evidence", r.Prop+".json"), b, 0o644); err != nil {
		fmt.Fprintf(os.Stderr, "cannot write evidence: %v\n", err)
	}
	// verdict lines
	ids := []string{}
	for id := range r.knownHits {
		ids = append(ids, id)
	}
	sort.Strings(ids)
	for _, id := range ids {
		for _, f := range r.known {
			if f.ID == id {
				fmt.Printf("KNOWN-FINDING: property=%s %s: %s (observed %d times)\n", r.Prop, f.ID, f.What, r.knownHits[id])
			}
		}
	}
	fmt.Printf("SUMMARY property=%s tier=%s seed=%d evaluations=%d distinct_nontrivial=%d violations=%d inconclusive=%d wall_s=%.1f\n",
		r.Prop, r.Tier, r.Seed, r.evals, len(r.distinct), len(r.viol), r.counters["inconclusive"], time.Since(r.start).Seconds())
	if len(r.viol) > 0 {
		for _, sig := range r.violOrder {
			v := r.viol[sig]
			fmt.Printf("VIOLATION property=%s replay=%s\n", r.Prop, v.Replay)
			fmt.Printf("  signature: %s (x%d)\n", sig, v.Count)
		}
		return 1
	}
	if len(r.distinct) < r.minDistinct || r.evals < 1 {
		p := filepath.Join(rdir, fmt.Sprintf("%s-seed%d-vacuous.json", r.Tier, r.Seed))
		os.MkdirAll(rdir, 0o755)
		os.WriteFile(p, []byte(`{"signature":"non-vacuity: run observed nothing"}`), 0o644)
		fmt.Printf("VIOLATION property=%s replay=%s\n", r.Prop, p)
		fmt.Printf("  signature: non-vacuity guard: nothing observed\n")
		return 1
	}
	return 0
}
