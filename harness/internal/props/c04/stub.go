// Package c04 will hold the monitor of property C04 (not built yet; nothing is registered).
package c04
