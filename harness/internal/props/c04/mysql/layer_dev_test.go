package mysql

import (
	"testing"

	"verif/harness/internal/ev"
)

// TestLayerDev runs the layer alone (development aid until the lead wires Layer into the C04 monitor); evidence goes to $VERIF_ROOT.
func TestLayerDev(t *testing.T) {
	r := ev.New("C04", "exploration")
	Layer(r)
	r.Distinct("dev-run")
	if rc := r.Finish(); rc != 0 {
		t.Fatalf("layer reported violations (rc=%d)", rc)
	}
}
