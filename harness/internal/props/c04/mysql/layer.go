// Package mysql is the MySQL part of the C04 monitor ("the SQL proxy stores only protected forms and restores originals on
// read"): the same differential oracles as c04.RunStep / c04.NonOwnerReads over a MyWorld (fake MySQL behind MySQL-mode
// AcraServers, reference fake MySQL with the application-view schema) driven by the stock go-sql-driver/mysql client.
// Call Layer(r) from the C04 monitor after the PostgreSQL part (Acra's SQL dialect is process-global).
package mysql

import (
	"bytes"
	"encoding/base64"
	"encoding/hex"
	"fmt"
	"os"
	"strings"
	"time"

	"github.com/cossacklabs/acra/keystore"

	"verif/harness/internal/ev"
	"verif/harness/internal/gen"
	"verif/harness/internal/props/c01"
	"verif/harness/internal/props/c04"
	"verif/harness/internal/rig/fakemysql"
	"verif/harness/internal/rig/fakepg"
	"verif/harness/internal/rig/ksrig"
	"verif/harness/internal/rig/proxyrig"
)

// World is a MyWorld plus the record of plaintexts written to configured columns.
type World struct {
	*proxyrig.MyWorld
	Written map[string][]proxyrig.Written
	Dir     string
}

// Layer runs the MySQL part of C04.
func Layer(r *ev.Run) {
	proxyrig.SetDialect(true)
	defer proxyrig.SetDialect(false)
	t0 := time.Now()
	defer func() { r.Extra("mysql_layer_wall_s", time.Since(t0).Seconds()) }()
	r.Rule += " || MySQL part: sessions of 5-40 generated MySQL statements (INSERT column-list/schema-order/multi-row, UPDATE, DELETE, SELECT star/list/column and table aliases/qualified names, WHERE id =/IN/<>, ORDER BY, LIMIT; INSERT ... ON DUPLICATE KEY UPDATE with existing and new keys, assignments to unprotected columns (literal, the column itself, id = id + 0, VALUES(col)) and to protected columns (literal, placeholder, VALUES(col)); literals as '..' with '' or backslash escaping, \"..\", X'..', 0x.., _binary'..'; COM_QUERY text protocol and COM_STMT_PREPARE/EXECUTE binary protocol, one-shot and explicitly prepared, re-executed) over the same generated table configurations, sent by the stock go-sql-driver/mysql client through a MySQL-mode AcraServer to a fake MySQL and, identically, straight to a reference fake MySQL with the application-view schema; same four oracles (database-side stream free of plaintext markers in raw/hex/HEX/base64 and in decoded literals/parameters; stored form per column kind, unconfigured columns stored unchanged; owner's result = reference result in type class and values; other-keys / no-keys readers never receive markers)"
	r.Assumptions = append(r.Assumptions, "MySQL part: database replaced by a fake MySQL server (harness codec; statements evaluated by the fakepg evaluator after translation of MySQL spellings; UPDATE reports matched rows); statements it cannot translate/evaluate are counted rig-inconclusive")
	rng := gen.New(r.Seed, "c04-mysql")
	n := r.Pick(36, 500)
	only := -1
	if v := os.Getenv("VERIF_C04MY_SESSION"); v != "" {
		fmt.Sscan(v, &only)
	}
	for s := 0; s < n; s++ {
		srng := gen.New(r.Seed, fmt.Sprintf("c04my-s%d-%d", s, rng.Int63()))
		if only >= 0 && s != only {
			continue
		}
		runSession(r, srng, s)
	}
	if only >= 0 {
		return
	}
	r.RequireAtLeast("mysql_owner_replies_equal_reference", 60)
	r.RequireAtLeast("mysql_stored_values_checked_protected", 60)
	r.RequireAtLeast("mysql_db_stream_marker_checks", 60)
	r.RequireAtLeast("mysql_nonowner_reads_checked", 15)
	r.RequireAtLeast("mysql_upsert_statements_checked", 15)
	r.RequireAtLeast("mysql_values_with_percent_runs_written", 30)
	r.RequireAtLeast("mysql_result_fields_at_lenenc_boundary_equal_reference", 40)
	r.RequireAtLeast("mysql_forwarded_bound_values_of_250_to_252_bytes", 10)
	r.RequireAtLeast("mysql_upserts_with_protected_values_and_unprotected_assignments", 5)
}

// OpenWorld builds a keystore with keys for Owner and Other, the databases, one MySQL-mode AcraServer per identity, and connects
// the owner to Acra and to the reference.
func OpenWorld(r *ev.Run, tables []proxyrig.TableSpec) (w *World, ac, rc *proxyrig.MyClient, closeAll func(), ok bool) {
	dir := ksrig.ScratchDir("myw")
	ks, err := ksrig.V1(dir, ksrig.RandBytes(32), keystore.InfiniteCacheSize)
	if err != nil {
		panic(err)
	}
	for _, id := range []string{c04.Owner, c04.Other} {
		if err := ksrig.GenClient(ks, []byte(id)); err != nil {
			panic(err)
		}
	}
	pw, err := proxyrig.NewMyWorld(proxyrig.WorldOpts{Tables: tables, KS: ks, Clients: []string{c04.Owner, c04.Other, c04.NoKeys}})
	if err != nil {
		os.RemoveAll(dir)
		r.Violation("mysql rig: world could not be built (generated configuration rejected)", map[string]interface{}{"err": err.Error()})
		return nil, nil, nil, func() {}, false
	}
	w = &World{MyWorld: pw, Written: map[string][]proxyrig.Written{}, Dir: dir}
	ac, err = proxyrig.DialMy(pw.Acras[c04.Owner].Port, 1<<26)
	if err != nil {
		pw.Close()
		os.RemoveAll(dir)
		r.Inconclusive("cannot connect to acra (mysql): " + err.Error())
		return nil, nil, nil, func() {}, false
	}
	rc, err = proxyrig.DialMy(pw.Ref.Port(), 1<<26)
	if err != nil {
		ac.Close()
		pw.Close()
		os.RemoveAll(dir)
		r.Inconclusive("cannot connect to reference (mysql): " + err.Error())
		return nil, nil, nil, func() {}, false
	}
	return w, ac, rc, func() { ac.Close(); rc.Close(); pw.Close(); os.RemoveAll(dir) }, true
}

func runSession(r *ev.Run, rng *gen.Rand, sidx int) {
	tables := proxyrig.GenTables(rng, 1+rng.Intn(3), c04.Other, nil)
	w, ac, rc, closeAll, ok := OpenWorld(r, tables)
	if !ok {
		return
	}
	defer closeAll()
	g := proxyrig.NewMySessGen(rng, tables)
	g.Interleave = true
	g.Upserts = true
	nSteps := 5 + rng.Intn(36)
	var history []string
	for i := 0; i < nSteps; i++ {
		st := g.Next()
		history = append(history, fmt.Sprintf("[%s/%s] %s", st.Proto, st.Kind, trunc(st.SQL, 300)))
		before := r.Counter("mysql_owner_replies_equal_reference")
		if !RunStep(r, w, ac, rc, st, history, sidx) {
			return
		}
		if strings.HasPrefix(st.Tag, "upsert:") && r.Counter("mysql_owner_replies_equal_reference") > before {
			r.Count("mysql_upsert_statements_checked", 1)
			if strings.HasPrefix(st.Tag, "upsert:assigns-only-unprotected-or-non-literal") && len(st.Writes) > 0 {
				r.Count("mysql_upserts_with_protected_values_and_unprotected_assignments", 1)
			}
			r.Distinct("my|upsert|" + st.Proto + "|" + st.Tag)
		}
	}
	NonOwnerReads(r, w, history, sidx)
}

func trunc(s string, n int) string {
	if len(s) > n {
		return s[:n] + "..."
	}
	return s
}

func colClass(c proxyrig.ColSpec) string {
	if !c.Configured() {
		return "unconfigured/" + c.AppType.String()
	}
	s := c.Kind + "/" + c.Envelope + "/" + c.DataType + c.TokenType
	if c.ClientID != "" {
		s += "/percol-client"
	}
	return s
}

func renderings(m []byte) [][]byte {
	return [][]byte{m, []byte(hex.EncodeToString(m)), []byte(strings.ToUpper(hex.EncodeToString(m))), []byte(base64.StdEncoding.EncodeToString(m))}
}

func leak(stream []byte, m []byte) string {
	if len(m) > 64 {
		m = m[:64]
	}
	for i, rd := range renderings(m) {
		if bytes.Contains(stream, rd) {
			return []string{"raw", "hex", "HEX", "base64"}[i]
		}
	}
	return ""
}

// TypeClass maps a database/sql type name of the MySQL driver to the four application types.
func TypeClass(dbType string) string {
	switch dbType {
	case "INT", "MEDIUMINT":
		return "int32"
	case "BIGINT":
		return "int64"
	case "CHAR", "VARCHAR", "TEXT", "TINYTEXT", "MEDIUMTEXT", "LONGTEXT":
		return "text"
	case "BLOB", "TINYBLOB", "MEDIUMBLOB", "LONGBLOB", "BINARY", "VARBINARY":
		return "bytes"
	}
	return dbType
}

func storedLooksProtected(c proxyrig.ColSpec, stored fakepg.Value, plain proxyrig.Val) string {
	if plain.Null {
		if stored != nil {
			return "NULL written but non-NULL stored"
		}
		return ""
	}
	pb := plain.Bytes()
	if c.Kind == "token" {
		var sb []byte
		switch x := stored.(type) {
		case int64:
			if c.AppType != fakepg.Int4 && c.AppType != fakepg.Int8 {
				return "token of wrong type stored"
			}
			sb = []byte(fmt.Sprint(x))
		case string:
			sb = []byte(x)
		case []byte:
			sb = x
		default:
			return "NULL stored for non-NULL value"
		}
		if len(pb) >= 9 && bytes.Equal(sb, pb) {
			return "plaintext stored instead of a token"
		}
		return ""
	}
	sb, ok := stored.([]byte)
	if !ok {
		return fmt.Sprintf("stored value of configured column is %T, not bytes", stored)
	}
	if len(pb) == 0 {
		return ""
	}
	switch c.Kind {
	case "enc":
		if c01.LooksProtected(sb) == "" {
			return "stored value is not an envelope"
		}
	case "search":
		if len(sb) < 34 || sb[0] != 0x7f || c01.LooksProtected(sb[33:]) == "" {
			return "stored value is not hash‖envelope"
		}
	case "mask":
		n := c.MaskLen
		if len(pb) <= n {
			if c01.LooksProtected(sb) == "" {
				return "short masked value not stored as an envelope"
			}
		} else if c.MaskSide == "left" {
			if !bytes.HasPrefix(sb, pb[:n]) || c01.LooksProtected(sb[n:]) == "" {
				return "masked value not stored as window‖envelope"
			}
		} else {
			if !bytes.HasSuffix(sb, pb[len(pb)-n:]) || c01.LooksProtected(sb[:len(sb)-n]) == "" {
				return "masked value not stored as envelope‖window"
			}
		}
	}
	return ""
}

// DBStream concatenates everything the database received in a log window: packet payloads, and the decoded
// literals / bound values of the statements (so that an escaped or re-encoded spelling cannot hide a plaintext).
func DBStream(window []fakemysql.Received) []byte {
	var stream []byte
	for _, m := range window {
		stream = append(stream, m.Payload...)
		stream = append(stream, 0)
		if m.Trans != nil && (m.Cmd == fakemysql.ComQuery || m.Cmd == fakemysql.ComStmtPrepare) {
			for _, l := range m.Trans.Literals {
				stream = append(stream, l.Data...)
				stream = append(stream, 0)
			}
		}
		if m.Exec != nil {
			for _, p := range m.Exec.Params {
				stream = append(stream, p.Data...)
				stream = append(stream, 0)
			}
		}
	}
	return stream
}

func forwardedSQL(window []fakemysql.Received) []string {
	var out []string
	for _, m := range window {
		if m.SQL != "" {
			out = append(out, m.Name+": "+trunc(m.SQL, 300))
		}
	}
	return out
}

// DiffField is the result-field index of the last difference found by CompareResults (-1 when not field-specific).
var DiffField = -1

// CompareResults: what the owner gets through Acra must equal what the reference database answers.
func CompareResults(acra, ref *proxyrig.MyResult, resultCols []string, skip func(field string) bool) string {
	DiffField = -1
	if (acra.Err != nil) != (ref.Err != nil) {
		return fmt.Sprintf("error differs: acra=%v ref=%v", acra.Err, ref.Err)
	}
	if acra.Err != nil {
		return ""
	}
	if acra.Affected != ref.Affected {
		return fmt.Sprintf("affected rows differ: acra=%d ref=%d", acra.Affected, ref.Affected)
	}
	if len(acra.Cols) != len(ref.Cols) {
		return fmt.Sprintf("column count differs: acra=%d ref=%d", len(acra.Cols), len(ref.Cols))
	}
	for k := range acra.Cols {
		if acra.Cols[k].Name != ref.Cols[k].Name {
			return fmt.Sprintf("column %d name differs: %q vs %q", k, acra.Cols[k].Name, ref.Cols[k].Name)
		}
		if skip != nil && k < len(resultCols) && skip(resultCols[k]) {
			continue
		}
		if TypeClass(acra.Cols[k].DBType) != TypeClass(ref.Cols[k].DBType) {
			DiffField = k
			return fmt.Sprintf("column %q type class differs: acra=%s ref=%s", acra.Cols[k].Name, acra.Cols[k].DBType, ref.Cols[k].DBType)
		}
	}
	if len(acra.Rows) != len(ref.Rows) {
		return fmt.Sprintf("row count differs: acra=%d ref=%d", len(acra.Rows), len(ref.Rows))
	}
	for ri := range acra.Rows {
		a, b := acra.Rows[ri], ref.Rows[ri]
		if len(a) != len(b) {
			return "row field count differs"
		}
		for k := range a {
			if skip != nil && k < len(resultCols) && skip(resultCols[k]) {
				continue
			}
			if a[k].Null != b[k].Null {
				DiffField = k
				return fmt.Sprintf("row %d field %d NULL marker differs (acra=%s ref=%s)", ri, k, a[k], b[k])
			}
			if a[k].Kind != b[k].Kind {
				DiffField = k
				return fmt.Sprintf("row %d field %d delivered as a different Go type: acra=%s ref=%s", ri, k, a[k], b[k])
			}
			if !bytes.Equal(a[k].B, b[k].B) {
				DiffField = k
				return fmt.Sprintf("row %d field %d value differs: acra=%s ref=%s", ri, k, a[k], b[k])
			}
		}
	}
	return ""
}

func classifyDiff(d string) string {
	for _, p := range []string{"error differs", "affected rows differ", "column count differs", "name differs", "type class differs", "row count differs", "row field count differs", "NULL marker differs", "different Go type", "value differs"} {
		if strings.Contains(d, p) {
			return p
		}
	}
	return "other"
}

func valEq(a, b fakepg.Value) bool {
	switch x := a.(type) {
	case nil:
		return b == nil
	case []byte:
		y, ok := b.([]byte)
		return ok && bytes.Equal(x, y)
	default:
		return a == b
	}
}

func hexOf(v fakepg.Value) string {
	if b, ok := v.([]byte); ok {
		return ev.Hex(b)
	}
	return fmt.Sprint(v)
}

func valOf(v fakepg.Value, t fakepg.ColType) proxyrig.Val {
	switch x := v.(type) {
	case int64:
		return proxyrig.Val{Type: t, I: x}
	case string:
		return proxyrig.Val{Type: fakepg.Text, S: x}
	case []byte:
		return proxyrig.Val{Type: fakepg.Bytea, B: x}
	}
	return proxyrig.Val{Null: true, Type: t}
}

// RunStep sends one step through Acra and to the reference and applies the C04 oracles (stream, state, owner result).
// It returns false when the session cannot continue.
func RunStep(r *ev.Run, w *World, ac, rc *proxyrig.MyClient, st proxyrig.MyStep, history []string, sidx int) bool {
	r.Case()
	logStart := w.Store.LogLen()
	detail := func(extra map[string]interface{}) map[string]interface{} {
		m := map[string]interface{}{"session": sidx, "schema": w.Schema, "history": history, "statement": st.SQL, "params": st.ParamDesc, "proto": st.Proto}
		for k, v := range extra {
			m[k] = v
		}
		return m
	}
	refRes := proxyrig.RunMyStep(rc, st)
	for _, rr := range refRes {
		if rr.Broken {
			r.Inconclusive("reference database exchange failed (mysql): " + rr.Err.Error())
			return false
		}
		if rr.Err != nil {
			r.Count("mysql_rig_reference_rejected_statement", 1)
			r.SampleN("mysql-ref-reject", 3, map[string]interface{}{"sql": trunc(st.SQL, 200), "error": rr.ErrMsg})
			return true
		}
	}
	if un := w.Ref.Unsupported(); len(un) > 0 {
		r.Count("mysql_rig_inconclusive_statement_not_evaluable", 1)
		r.SampleN("mysql-unsupported-ref", 3, map[string]interface{}{"statement": un[len(un)-1]})
		return false
	}
	// input class: a text-protocol row whose first field is the empty string starts with byte 0x00, like an OK packet
	if st.Proto == "text" && st.Kind == "select" {
		for _, row := range refRes[0].Rows {
			if len(row) > 0 && !row[0].Null && len(row[0].B) == 0 {
				if st.Tag != "" {
					st.Tag += ","
				}
				st.Tag += "row-starts-with-empty-string"
				break
			}
		}
	}
	acraRes := proxyrig.RunMyStep(ac, st)
	t := w.Table(st.Table)
	sig := func(what string, c *proxyrig.ColSpec) string {
		cc := "-"
		if c != nil {
			cc = colClass(*c)
		}
		tag := ""
		if st.Tag != "" {
			tag = " " + st.Tag
		}
		return fmt.Sprintf("mysql: %s: stmt=%s proto=%s column=%s%s", what, st.Kind, st.Proto, cc, tag)
	}
	for _, ar := range acraRes {
		if ar.Timeout {
			r.Inconclusive("watchdog: no reply through acra (mysql) for: " + trunc(st.SQL, 120))
			return false
		}
		if ar.Broken {
			r.Violation(sig("connection through acra broke", nil), detail(map[string]interface{}{"err": ar.Err.Error()}))
			return false
		}
	}
	// COM_STMT_CLOSE has no reply: give the last packets a bounded time to arrive before the window is cut (not a verdict input)
	if st.Proto != "text" {
		for i := 0; i < 200; i++ {
			lg := w.Store.Log()
			if len(lg) > logStart && lg[len(lg)-1].Cmd == fakemysql.ComStmtClose {
				break
			}
			time.Sleep(2 * time.Millisecond)
		}
	}
	if un := w.Store.Unsupported(); len(un) > 0 {
		r.Count("mysql_rig_inconclusive_statement_not_evaluable", 1)
		r.SampleN("mysql-unsupported", 3, map[string]interface{}{"forwarded": un[len(un)-1], "client_sql": trunc(st.SQL, 200)})
		return false
	}
	// O1: nothing forwarded to the database contains a plaintext written to a configured column
	window := w.Store.Log()[logStart:]
	stream := DBStream(window)
	for _, wr := range st.Writes {
		c := t.Col(wr.Col)
		k := wr.Table + "." + wr.Col
		w.Written[k] = append(w.Written[k], wr)
		if b := wr.V.Bytes(); bytes.HasPrefix(b, []byte("%")) || bytes.HasSuffix(b, []byte("%")) || bytes.Contains(b, []byte("w%")) || bytes.Contains(b, []byte("%w")) {
			r.Count("mysql_values_with_percent_runs_written", 1)
			if c != nil && c.Kind == "mask" {
				r.Count("mysql_masked_values_with_percent_runs_at_the_window_written", 1)
			}
		}
		if proxyrig.IsLenEncBoundary(len(wr.V.Bytes())) {
			r.Count("mysql_protected_values_at_lenenc_boundary_written", 1)
		}
		m := wr.V.Marker()
		if m == nil {
			continue
		}
		if c != nil && proxyrig.MaskedPlaintextSpelledByStoredForm(*c, wr.V.Bytes()) {
			// clear window + container tag "%%%" spells the whole value: its presence in the stream is no evidence
			r.Count("mysql_db_stream_marker_checks_skipped(masked value whose hidden part is a prefix of the container tag)", 1)
			continue
		}
		r.Count("mysql_db_stream_marker_checks", 1)
		if how := leak(stream, m); how != "" {
			r.Violation(sig("plaintext forwarded to the database ("+how+")", c), detail(map[string]interface{}{"column": wr.Col, "plaintext": ev.Hex(m), "forwarded": forwardedSQL(window)}))
		} else {
			r.Distinct(fmt.Sprintf("my|%s|%s|%s|no-leak", colClass(*c), st.Kind, st.Proto))
		}
	}
	// O3: the owner gets what the reference answers
	notOwned := func(field string) bool {
		c := t.Col(field)
		return c != nil && c.ClientID != "" && c.ClientID != c04.Owner
	}
	for i := range refRes {
		if i >= len(acraRes) {
			break
		}
		if diff := CompareResults(acraRes[i], refRes[i], st.ResultCols, notOwned); diff != "" {
			var dc *proxyrig.ColSpec
			if DiffField >= 0 && DiffField < len(st.ResultCols) {
				dc = t.Col(st.ResultCols[DiffField])
			}
			known := r.ViolationK(sig("owner's result differs from reference: "+classifyDiff(diff), dc), detail(map[string]interface{}{"diff": diff, "forwarded": forwardedSQL(window), "store_rows": trunc(fmt.Sprint(w.Store.DB.Snapshot(st.Table)), 2000), "ref_rows": trunc(fmt.Sprint(w.Ref.DB.Snapshot(st.Table)), 2000)}))
			if known && st.Kind == "select" {
				return true
			}
			return false
		}
	}
	r.Count("mysql_owner_replies_equal_reference", 1)
	// non-vacuity of the length-encoding boundary class: fields of boundary length delivered to the owner (and equal to the
	// reference), bound values of 250..252 bytes that arrived at the database
	for _, rr := range refRes {
		for _, row := range rr.Rows {
			for _, f := range row {
				if !f.Null && proxyrig.IsLenEncBoundary(len(f.B)) {
					r.Count("mysql_result_fields_at_lenenc_boundary_equal_reference", 1)
					r.Distinct(fmt.Sprintf("my|lenenc-boundary-field|%d|%s", len(f.B), st.Proto))
				}
			}
		}
	}
	for _, m := range window {
		if m.Exec != nil {
			for _, p := range m.Exec.Params {
				if !p.Null && len(p.Data) >= 250 && len(p.Data) <= 252 {
					r.Count("mysql_forwarded_bound_values_of_250_to_252_bytes", 1)
					r.Distinct(fmt.Sprintf("my|lenenc-boundary-param|%d", len(p.Data)))
				}
			}
		}
	}
	if st.Kind == "select" {
		for _, name := range st.ResultCols {
			if c := t.Col(name); c != nil {
				r.Distinct(fmt.Sprintf("my|%s|%s|%s|owner-read", colClass(*c), st.Kind, st.Proto))
			}
		}
	}
	// O2: table states agree: unconfigured columns equal, configured ones hold protected forms
	if st.Kind != "select" {
		srows, rrows := w.Store.DB.Snapshot(st.Table), w.Ref.DB.Snapshot(st.Table)
		if len(srows) != len(rrows) {
			r.Violation(sig("row count behind acra differs from reference", nil), detail(map[string]interface{}{"store": len(srows), "ref": len(rrows), "forwarded": forwardedSQL(window)}))
			return false
		}
		for ri := range rrows {
			for ci, c := range t.Cols {
				sv, rv := srows[ri][ci], rrows[ri][ci]
				if !c.Configured() {
					if !valEq(sv, rv) {
						r.Violation(sig("unconfigured column stored differently", &t.Cols[ci]), detail(map[string]interface{}{"row": ri, "column": c.Name, "stored": hexOf(sv), "reference": hexOf(rv), "forwarded": forwardedSQL(window)}))
						return false
					}
					continue
				}
				plain := valOf(rv, c.AppType)
				if why := storedLooksProtected(c, sv, plain); why != "" {
					r.Violation(sig("stored form: "+why, &t.Cols[ci]), detail(map[string]interface{}{"row": ri, "column": c.Name, "stored": hexOf(sv), "plaintext": ev.Hex(plain.Bytes()), "forwarded": forwardedSQL(window)}))
					return false
				}
				r.Count("mysql_stored_values_checked_protected", 1)
			}
		}
		for _, wr := range st.Writes {
			r.Distinct(fmt.Sprintf("my|%s|%s|%s|stored-protected", colClass(*t.Col(wr.Col)), st.Kind, st.Proto))
		}
	}
	r.SampleN("mysql-step:"+st.Kind+st.Proto, 1, map[string]interface{}{"client_sql": trunc(st.SQL, 400), "proto": st.Proto, "forwarded": forwardedSQL(window)})
	return true
}

// NonOwnerReads checks that readers with other keys / without keys never receive plaintexts they do not own.
func NonOwnerReads(r *ev.Run, w *World, history []string, sidx int) {
	for _, reader := range []string{c04.Other, c04.NoKeys} {
		c, err := proxyrig.DialMy(w.Acras[reader].Port, 1<<26)
		if err != nil {
			r.Inconclusive("cannot connect as " + reader + " (mysql)")
			continue
		}
		for _, t := range w.Tables {
			for variant := 0; variant < 2; variant++ {
				r.Case()
				sql := "select * from " + t.Name
				proto := "text"
				mark := c.Mark()
				var res *proxyrig.MyResult
				if variant == 0 {
					res = c.Query(sql)
				} else {
					proto = "prepared"
					ps, pr := c.Prepare(sql)
					if ps == nil {
						res = pr
					} else {
						res = ps.Query()
						ps.Close()
					}
				}
				if res.Broken {
					r.Count("mysql_nonowner_read_failed", 1)
					break
				}
				_, stream := c.Since(mark)
				for _, row := range res.Rows {
					for _, v := range row {
						stream = append(stream, v.B...)
						stream = append(stream, 0)
					}
				}
				for _, col := range t.Cols {
					if !col.Configured() || col.ClientID == reader {
						continue
					}
					for _, wr := range w.Written[t.Name+"."+col.Name] {
						m := wr.V.Marker()
						if m == nil {
							continue
						}
						if col.Kind == "mask" {
							pb := wr.V.Bytes()
							if len(pb) <= col.MaskLen+9 {
								continue
							}
							if col.MaskSide == "left" {
								m = pb[col.MaskLen:]
							} else {
								m = pb[:len(pb)-col.MaskLen]
							}
						}
						r.Count("mysql_nonowner_reads_checked", 1)
						if how := leak(stream, m); how != "" {
							r.Violation(fmt.Sprintf("mysql: plaintext delivered to a client that does not own it (%s): reader=%s proto=%s column=%s", how, readerClass(reader), proto, colClass(col)),
								map[string]interface{}{"session": sidx, "schema": w.Schema, "history": history, "sql": sql, "column": col.Name, "plaintext": ev.Hex(m)})
						} else {
							r.Distinct(fmt.Sprintf("my|%s|select|%s|nonowner-%s", colClass(col), proto, readerClass(reader)))
						}
					}
				}
			}
		}
		c.Close()
	}
}

func readerClass(id string) string {
	if id == c04.Other {
		return "other-keys"
	}
	return "no-keys"
}
