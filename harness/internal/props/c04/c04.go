// Package c04 monitors "the SQL proxy stores only protected forms and restores originals on read" on the PostgreSQL wire rig.
package c04

import (
	"bytes"
	"context"
	"encoding/base64"
	"encoding/hex"
	"fmt"
	"os"
	"strings"

	trcommon "github.com/cossacklabs/acra/cmd/acra-translator/common"
	"github.com/cossacklabs/acra/keystore"
	"github.com/jackc/pgx/v5/pgproto3"

	"verif/harness/internal/ev"
	"verif/harness/internal/gen"
	"verif/harness/internal/props"
	"verif/harness/internal/props/c01"
	"verif/harness/internal/rig/fakepg"
	"verif/harness/internal/rig/ksrig"
	"verif/harness/internal/rig/proxyrig"
)

func init() { props.Register("C04", props.Monitor{Level: "exploration", Run: Run}) }

// Client identities used by the proxy-rig monitors.
const (
	Owner  = "client_owner"
	Other  = "client_other"
	NoKeys = "client_nokeys"
)

const (
	owner  = Owner
	other  = Other
	nokeys = NoKeys
)

// Renderings of a plaintext under which its presence in a byte stream counts as a leak.
func renderings(m []byte) [][]byte {
	out := [][]byte{m, []byte(hex.EncodeToString(m)), []byte(strings.ToUpper(hex.EncodeToString(m))), []byte(base64.StdEncoding.EncodeToString(m))}
	// octal escape rendering (bytea escape output) when it differs
	var oct []byte
	for _, c := range m {
		if c < 0x20 || c > 0x7e || c == '\\' {
			oct = append(oct, []byte(fmt.Sprintf("\\%03o", c))...)
		} else {
			oct = append(oct, c)
		}
	}
	if !bytes.Equal(oct, m) {
		out = append(out, oct)
	}
	return out
}

func leak(stream []byte, m []byte) string {
	if len(m) > 64 {
		m = m[:64] // a 64-byte window of a long plaintext is evidence enough
	}
	for i, r := range renderings(m) {
		if bytes.Contains(stream, r) {
			return []string{"raw", "hex", "HEX", "base64", "octal"}[i]
		}
	}
	return ""
}

// storedLooksProtected checks the stored bytes of a configured column against the documented stored form.
func storedLooksProtected(c proxyrig.ColSpec, stored fakepg.Value, plain proxyrig.Val) string {
	if plain.Null {
		if stored != nil {
			return "NULL written but non-NULL stored"
		}
		return ""
	}
	pb := plain.Bytes()
	switch c.Kind {
	case "token":
		var sb []byte
		switch x := stored.(type) {
		case int64:
			if c.AppType != fakepg.Int4 && c.AppType != fakepg.Int8 {
				return "token of wrong type stored"
			}
			sb = []byte(fmt.Sprint(x))
		case string:
			sb = []byte(x)
		case []byte:
			sb = x
		default:
			return "NULL stored for non-NULL value"
		}
		if len(pb) >= 9 && bytes.Equal(sb, pb) {
			return "plaintext stored instead of a token"
		}
		return ""
	}
	sb, ok := stored.([]byte)
	if !ok {
		return fmt.Sprintf("stored value of configured column is %T, not bytea", stored)
	}
	if len(pb) == 0 {
		return "" // nothing to protect
	}
	switch c.Kind {
	case "enc":
		if c01.LooksProtected(sb) == "" {
			return "stored value is not an envelope"
		}
	case "search":
		if len(sb) < 34 || sb[0] != 0x7f || c01.LooksProtected(sb[33:]) == "" {
			return "stored value is not hash‖envelope"
		}
	case "mask":
		n := c.MaskLen
		if len(pb) <= n {
			if c01.LooksProtected(sb) == "" {
				return "short masked value not stored as an envelope"
			}
		} else if c.MaskSide == "left" {
			if !bytes.HasPrefix(sb, pb[:n]) || c01.LooksProtected(sb[n:]) == "" {
				return "masked value not stored as window‖envelope"
			}
		} else {
			if !bytes.HasSuffix(sb, pb[len(pb)-n:]) || c01.LooksProtected(sb[:len(sb)-n]) == "" {
				return "masked value not stored as envelope‖window"
			}
		}
	}
	return ""
}

// World is a proxyrig.World plus the record of plaintexts written to configured columns.
type World struct {
	*proxyrig.World
	Written map[string][]proxyrig.Written // table.col -> all plaintexts written in this world
}

// SpellingDiffs counts bytea text fields whose spelling (not value) differed from the reference.
var SpellingDiffs int

func sendStep(c *proxyrig.PGClient, st proxyrig.Step) ([][]proxyrig.BackendMsg, error) {
	return sendGroups(c, st.Groups)
}

func sendGroups(c *proxyrig.PGClient, groups [][]pgproto3.FrontendMessage) ([][]proxyrig.BackendMsg, error) {
	var out [][]proxyrig.BackendMsg
	for _, g := range groups {
		if err := c.Send(g...); err != nil {
			return out, err
		}
		msgs, err := c.ReadUntilReady()
		out = append(out, msgs)
		if err != nil {
			return out, err
		}
	}
	return out, nil
}

func describeMsgs(ms []proxyrig.BackendMsg) string {
	var p []string
	for _, m := range ms {
		s := m.Type
		if e, ok := m.Msg.(*pgproto3.ErrorResponse); ok {
			s += "(" + e.Code + ":" + e.Message + ")"
		}
		p = append(p, s)
	}
	return strings.Join(p, ",")
}

// compareReplies: the owner must get through Acra exactly what the reference database answers.
// DiffField is the result-field index of the last difference found by compareReplies (-1 when not field-specific).
var DiffField = -1

func compareReplies(acra, ref []proxyrig.BackendMsg, resultCols []string, skip func(field string) bool) string {
	DiffField = -1
	names := append([]string{}, resultCols...)
	if len(acra) != len(ref) {
		return fmt.Sprintf("message sequence differs: acra=[%s] ref=[%s]", describeMsgs(acra), describeMsgs(ref))
	}
	for i := range acra {
		a, r := acra[i], ref[i]
		if a.Type != r.Type {
			return fmt.Sprintf("message %d type differs: acra=[%s] ref=[%s]", i, describeMsgs(acra), describeMsgs(ref))
		}
		switch x := a.Msg.(type) {
		case *pgproto3.RowDescription:
			y := r.Msg.(*pgproto3.RowDescription)
			if len(x.Fields) != len(y.Fields) {
				return "RowDescription field count differs"
			}
			for k := range x.Fields {
				if string(x.Fields[k].Name) != string(y.Fields[k].Name) {
					return fmt.Sprintf("RowDescription field %d name differs: %q vs %q", k, x.Fields[k].Name, y.Fields[k].Name)
				}
				if skip != nil && k < len(names) && skip(names[k]) {
					continue
				}
				if x.Fields[k].DataTypeOID != y.Fields[k].DataTypeOID {
					DiffField = k
					return fmt.Sprintf("RowDescription field %q type OID differs: acra=%d ref=%d", x.Fields[k].Name, x.Fields[k].DataTypeOID, y.Fields[k].DataTypeOID)
				}
				if x.Fields[k].Format != y.Fields[k].Format {
					return fmt.Sprintf("RowDescription field %q format differs", x.Fields[k].Name)
				}
			}
		case *pgproto3.DataRow:
			y := r.Msg.(*pgproto3.DataRow)
			if len(x.Values) != len(y.Values) {
				return "DataRow field count differs"
			}
			for k := range x.Values {
				if skip != nil && k < len(names) && skip(names[k]) {
					continue
				}
				if (x.Values[k] == nil) != (y.Values[k] == nil) {
					DiffField = k
					return fmt.Sprintf("DataRow field %d NULL marker differs", k)
				}
				if !bytes.Equal(x.Values[k], y.Values[k]) {
					// the same bytea value may be spelled differently in text format ("" vs "\x", escape vs hex): compare values, not spellings
					// (byte identity of untouched fields is C12's oracle)
					if len(x.Values[k]) == 0 || len(y.Values[k]) == 0 || bytes.HasPrefix(x.Values[k], []byte(`\x`)) || bytes.HasPrefix(y.Values[k], []byte(`\x`)) {
						a, errA := fakepg.DecodeByteaText(string(x.Values[k]))
						b, errB := fakepg.DecodeByteaText(string(y.Values[k]))
						if errA == nil && errB == nil && bytes.Equal(a, b) {
							SpellingDiffs++
							continue
						}
					}
					DiffField = k
					return fmt.Sprintf("DataRow field %d differs: acra=%s ref=%s", k, ev.Hex(x.Values[k]), ev.Hex(y.Values[k]))
				}
			}
		case *pgproto3.CommandComplete:
			y := r.Msg.(*pgproto3.CommandComplete)
			if string(x.CommandTag) != string(y.CommandTag) {
				return fmt.Sprintf("CommandComplete differs: %q vs %q", x.CommandTag, y.CommandTag)
			}
		}
	}
	return ""
}

// Run is the C04 monitor (PostgreSQL rig).
// MySQLLayer, when set (props/all), runs this property's layer over the MySQL proxy rig.
var MySQLLayer func(r *ev.Run)

func Run(r *ev.Run) {
	r.Rule = "sessions of 5-40 generated statements (INSERT column-list/schema-order/multi-row/RETURNING, UPDATE, DELETE, SELECT star/list/alias/qualified; simple and extended protocol incl. Describe-statement flow, named statements/portals, row limits; text/binary/mixed parameter and result formats) over generated table configurations (plain/searchable/masked/tokenized/typed/per-column-client columns, both envelopes) sent through a real in-process AcraServer to a fake PostgreSQL and, identically, straight to a reference fake PostgreSQL holding the application-view schema; distinct = (column kind+envelope+data type, statement kind, protocol, parameter format, result format, oracle) tuples for which an oracle evaluated a non-trivial value"
	r.Assumptions = []string{
		"crypto library replaced by the pure-Go gothemis stand-in",
		"database replaced by a fake PostgreSQL server (pgproto3 codec, pg_query grammar, literal evaluation of the generated statement family); statements it cannot evaluate are counted rig-inconclusive, never judged",
		"PostgreSQL protocol only in this check; MySQL proxy not driven here",
		"one AcraServer per client identity (static client id), v1 filesystem keystore; TLS not used",
	}
	rng := gen.New(r.Seed, "c04")
	nSessions := r.Pick(120, 1500)
	only := -1
	if v := os.Getenv("VERIF_C04_SESSION"); v != "" {
		fmt.Sscan(v, &only)
	}
	for s := 0; s < nSessions; s++ {
		srng := gen.New(r.Seed, fmt.Sprintf("c04-s%d-%d", s, rng.Int63()))
		if only >= 0 && s != only {
			continue
		}
		runSession(r, srng, s)
	}
	r.Count("bytea_text_spelling_differs_value_equal", int64(SpellingDiffs))
	r.RequireAtLeast("owner_replies_equal_reference", 100)
	r.RequireAtLeast("stored_values_checked_protected", 100)
	r.RequireAtLeast("db_stream_marker_checks", 100)
	r.RequireAtLeast("nonowner_reads_checked", 20)
	r.RequireAtLeast("values_with_percent_runs_written", 30)
	r.RequireAtLeast("app_encrypted_writes", 5)
	if MySQLLayer != nil {
		// the MySQL part: same oracles over the MySQL rig (switches the process-wide SQL dialect, so it runs after the PostgreSQL part)
		MySQLLayer(r)
	}
}

func colClass(c proxyrig.ColSpec) string {
	if !c.Configured() {
		return "unconfigured/" + c.AppType.String()
	}
	s := c.Kind + "/" + c.Envelope + "/" + c.DataType + c.TokenType
	if c.ClientID != "" {
		s += "/percol-client"
	}
	return s
}

// OpenWorld builds a keystore with keys for Owner and Other, the databases and one AcraServer per identity, and connects the owner to Acra and to the reference.
func OpenWorld(r *ev.Run, tables []proxyrig.TableSpec, censorYAML string) (w *World, ac, rc *proxyrig.PGClient, closeAll func(), ok bool) {
	return OpenWorldOn(r, tables, censorYAML, "")
}

// OpenWorldOn is OpenWorld with the bytea_output setting of the database behind Acra ("" = hex, "escape").
func OpenWorldOn(r *ev.Run, tables []proxyrig.TableSpec, censorYAML, storeByteaOutput string) (w *World, ac, rc *proxyrig.PGClient, closeAll func(), ok bool) {
	dir := ksrig.ScratchDir("pgw")
	ks, err := ksrig.V1(dir, ksrig.RandBytes(32), keystore.InfiniteCacheSize)
	if err != nil {
		panic(err)
	}
	for _, id := range []string{owner, other} {
		if err := ksrig.GenClient(ks, []byte(id)); err != nil {
			panic(err)
		}
	}
	pw, err := proxyrig.NewWorld(proxyrig.WorldOpts{Tables: tables, KS: ks, Clients: []string{owner, other, nokeys}, CensorYAML: censorYAML, StoreByteaOutput: storeByteaOutput})
	if err != nil {
		r.Violation("rig: world could not be built (generated configuration rejected)", map[string]interface{}{"err": err.Error()})
		return nil, nil, nil, func() {}, false
	}
	w = &World{World: pw, Written: map[string][]proxyrig.Written{}}
	ac, _, err = proxyrig.DialPG(w.Acras[owner].Port)
	if err != nil {
		pw.Close()
		r.Inconclusive("cannot connect to acra: " + err.Error())
		return nil, nil, nil, func() {}, false
	}
	rc, _, err = proxyrig.DialPG(w.Ref.Port())
	if err != nil {
		ac.Close()
		pw.Close()
		r.Inconclusive("cannot connect to reference: " + err.Error())
		return nil, nil, nil, func() {}, false
	}
	return w, ac, rc, func() { ac.Close(); rc.Close(); pw.Close(); os.RemoveAll(dir) }, true
}

// AppEncrypt returns the application-side encryption used for "the value arrives already encrypted" writes: the owner's
// AcraTranslator output (Encrypt -> AcraStruct, EncryptSym -> AcraBlock). The envelope kind follows the column's
// configuration, except for one plaintext in eight (first byte & 7 == 0) where the other kind is used: either kind is a
// value Acra accepts as already protected.
func AppEncrypt(w *World) func(c proxyrig.ColSpec, plain []byte) []byte {
	ts, err := trcommon.NewTranslatorService(&trcommon.TranslatorData{Keystorage: w.KS})
	if err != nil {
		panic(err)
	}
	return func(c proxyrig.ColSpec, plain []byte) []byte {
		block := c.Envelope == "acrablock"
		if len(plain) > 0 && plain[0]&7 == 0 {
			block = !block
		}
		var out []byte
		var err error
		if block {
			out, err = ts.EncryptSym(context.Background(), plain, []byte(owner), nil)
		} else {
			out, err = ts.Encrypt(context.Background(), plain, []byte(owner), nil)
		}
		if err != nil {
			panic(err)
		}
		return out
	}
}

// AppEncryptable selects the columns app-side encrypted writes are generated for.
func AppEncryptable(c proxyrig.ColSpec) bool { return c.Kind == "enc" || c.Kind == "search" }

func runSession(r *ev.Run, rng *gen.Rand, sidx int) {
	tables := proxyrig.GenTables(rng, 1+rng.Intn(3), other, nil)
	// every fourth session runs against a database with bytea_output = escape (the reference keeps hex; replies are compared by value)
	byteaOut := ""
	if sidx%4 == 3 {
		byteaOut = "escape"
		r.Count("sessions_on_database_with_bytea_output_escape", 1)
	}
	w, ac, rc, closeAll, ok := OpenWorldOn(r, tables, "", byteaOut)
	if !ok {
		return
	}
	defer closeAll()
	g := proxyrig.NewSessGen(rng, tables)
	nSteps := 5 + rng.Intn(36)
	var history []string
	appEnc := AppEncrypt(w)
	for i := 0; i < nSteps; i++ {
		st := g.Next()
		if rng.Intn(10) == 0 {
			if ast, ok := g.AppEncryptedInsert(appEnc, AppEncryptable); ok {
				st = ast
				r.Count("app_encrypted_writes", 1)
			}
		}
		history = append(history, fmt.Sprintf("[%s %s/%s/%s] %s", st.Proto, st.ParamFmt, st.ResFmt, st.Kind, trunc(st.SQL, 300)))
		if !RunStep(r, w, ac, rc, st, history, sidx) {
			return
		}
	}
	NonOwnerReads(r, w, history, sidx)
}

func trunc(s string, n int) string {
	if len(s) > n {
		return s[:n] + "..."
	}
	return s
}

func tableSpec(w *World, name string) proxyrig.TableSpec {
	for _, t := range w.Tables {
		if t.Name == name {
			return t
		}
	}
	return proxyrig.TableSpec{}
}

// RunStep sends one step through Acra and to the reference and applies the C04 oracles (stream, state, owner reply). It returns false when the session cannot continue.
func RunStep(r *ev.Run, w *World, ac, rc *proxyrig.PGClient, st proxyrig.Step, history []string, sidx int) bool {
	r.Case()
	logStart := w.Store.LogLen()
	detail := func(extra map[string]interface{}) map[string]interface{} {
		m := map[string]interface{}{"session": sidx, "schema": w.Schema, "history": history, "statement": st.SQL, "params": st.ParamDesc, "proto_detail": st.Detail, "proto": st.Proto, "param_format": st.ParamFmt, "result_format": st.ResFmt, "store_bytea_output": w.Store.ByteaOutput()}
		for k, v := range extra {
			m[k] = v
		}
		return m
	}
	refGroups := st.Groups
	if st.RefGroups != nil {
		refGroups = st.RefGroups
	}
	refReplies, rerr := sendGroups(rc, refGroups)
	if rerr != nil {
		r.Inconclusive("reference database exchange failed: " + rerr.Error())
		return false
	}
	for _, g := range refReplies {
		if e := proxyrig.ErrorOf(g); e != nil {
			// the generator produced something the reference rejects: rig matter, skip the statement on both sides
			r.Count("rig_reference_rejected_statement", 1)
			r.SampleN("ref-reject", 3, map[string]interface{}{"sql": trunc(st.SQL, 200), "error": e.Message})
			return true
		}
	}
	acraReplies, aerr := sendStep(ac, st)
	if aerr == proxyrig.ErrTimeout {
		r.Inconclusive("watchdog: no reply through acra for: " + trunc(st.SQL, 120))
		return false
	}
	t := tableSpec(w, st.Table)
	sig := func(what string, c *proxyrig.ColSpec) string {
		cc := "-"
		if c != nil {
			cc = colClass(*c)
		}
		tag := ""
		if st.Tag != "" {
			tag = " " + st.Tag
		}
		return fmt.Sprintf("%s: stmt=%s proto=%s params=%s results=%s column=%s%s", what, st.Kind, st.Proto, st.ParamFmt, st.ResFmt, cc, tag)
	}
	if aerr != nil {
		r.Violation(sig("connection through acra broke", nil), detail(map[string]interface{}{"err": aerr.Error()}))
		return false
	}
	if un := w.Store.Unsupported(); len(un) > 0 {
		r.Count("rig_inconclusive_forwarded_statement_not_evaluable", 1)
		r.SampleN("unsupported", 3, map[string]interface{}{"forwarded": un[len(un)-1], "client_sql": trunc(st.SQL, 200)})
		return false
	}
	// O1: nothing forwarded to the database contains a plaintext written to a configured column
	window := w.Store.Log()[logStart:]
	var stream []byte
	for _, m := range window {
		stream = append(stream, m.Raw...)
	}
	for _, wr := range st.Writes {
		c := t.Col(wr.Col)
		k := wr.Table + "." + wr.Col
		w.Written[k] = append(w.Written[k], wr)
		if b := wr.V.Bytes(); bytes.HasPrefix(b, []byte("%")) || bytes.HasSuffix(b, []byte("%")) || bytes.Contains(b, []byte("w%")) || bytes.Contains(b, []byte("%w")) {
			r.Count("values_with_percent_runs_written", 1)
			if c != nil && c.Kind == "mask" {
				r.Count("masked_values_with_percent_runs_at_the_window_written", 1)
			}
		}
		m := wr.V.Marker()
		if m == nil {
			continue
		}
		if c != nil && proxyrig.MaskedPlaintextSpelledByStoredForm(*c, wr.V.Bytes()) {
			// clear window + container tag "%%%" spells the whole value: its presence in the stream is no evidence
			r.Count("db_stream_marker_checks_skipped(masked value whose hidden part is a prefix of the container tag)", 1)
			continue
		}
		r.Count("db_stream_marker_checks", 1)
		if how := leak(stream, m); how != "" {
			r.Violation(sig("plaintext forwarded to the database ("+how+")", c), detail(map[string]interface{}{"column": wr.Col, "plaintext": ev.Hex(m)}))
		} else {
			r.Distinct(fmt.Sprintf("%s|%s|%s|%s|-|no-leak", colClass(*c), st.Kind, st.Proto, st.ParamFmt))
		}
	}
	// O3: the owner gets what the reference answers
	for gi := range refReplies {
		if gi >= len(acraReplies) {
			break
		}
		notOwned := func(field string) bool {
			// columns protected for another identity (per-column client id) are not revealed to this session; judged by the marker oracle instead
			c := t.Col(field)
			return c != nil && c.ClientID != "" && c.ClientID != owner
		}
		if diff := compareReplies(acraReplies[gi], refReplies[gi], st.ResultCols, notOwned); diff != "" {
			// attribute to a column class when the statement touches exactly one configured kind; else generic
			var dc *proxyrig.ColSpec
			if DiffField >= 0 && DiffField < len(st.ResultCols) {
				dc = t.Col(st.ResultCols[DiffField])
			}
			known := r.ViolationK(sig("owner's reply differs from reference: "+classifyDiff(diff), dc), detail(map[string]interface{}{"diff": diff, "forwarded": forwardedSQL(window), "store_rows": fmt.Sprint(w.Store.DB.Snapshot(st.Table)), "ref_rows": fmt.Sprint(w.Ref.DB.Snapshot(st.Table))}))
			if known && st.Kind == "select" {
				return true // a listed finding on a read: the databases did not diverge, the session can go on
			}
			return false
		}
	}
	r.Count("owner_replies_equal_reference", 1)
	if st.Kind == "select" || strings.Contains(st.SQL, " returning ") {
		for _, c := range t.Cols {
			r.Distinct(fmt.Sprintf("%s|%s|%s|%s|%s|owner-read", colClass(c), st.Kind, st.Proto, st.ParamFmt, st.ResFmt))
		}
	}
	// O2: table states agree: unconfigured columns equal, configured ones hold protected forms
	if st.Kind != "select" {
		srows, rrows := w.Store.DB.Snapshot(st.Table), w.Ref.DB.Snapshot(st.Table)
		if len(srows) != len(rrows) {
			r.Violation(sig("row count behind acra differs from reference", nil), detail(map[string]interface{}{"store": len(srows), "ref": len(rrows)}))
			return false
		}
		for ri := range rrows {
			for ci, c := range t.Cols {
				sv, rv := srows[ri][ci], rrows[ri][ci]
				if !c.Configured() {
					if !valEq(sv, rv) {
						r.Violation(sig("unconfigured column stored differently", &t.Cols[ci]), detail(map[string]interface{}{"row": ri, "column": c.Name, "stored": fmt.Sprint(sv), "reference": fmt.Sprint(rv)}))
						return false
					}
					continue
				}
				plain := valOf(rv, c.AppType)
				if why := storedLooksProtected(c, sv, plain); why != "" {
					r.Violation(sig("stored form: "+why, &t.Cols[ci]), detail(map[string]interface{}{"row": ri, "column": c.Name, "stored": hexOf(sv), "plaintext": ev.Hex(plain.Bytes())}))
					return false
				}
				r.Count("stored_values_checked_protected", 1)
			}
		}
		for _, wr := range st.Writes {
			r.Distinct(fmt.Sprintf("%s|%s|%s|%s|-|stored-protected", colClass(*t.Col(wr.Col)), st.Kind, st.Proto, st.ParamFmt))
		}
	}
	r.SampleN("step:"+st.Kind+st.Proto, 1, map[string]interface{}{"client_sql": trunc(st.SQL, 400), "proto": st.Proto, "param_format": st.ParamFmt, "result_format": st.ResFmt, "forwarded": forwardedSQL(window)})
	return true
}

func forwardedSQL(window []fakepg.Received) []string {
	var out []string
	for _, m := range window {
		if m.SQL != "" {
			out = append(out, trunc(m.SQL, 300))
		}
	}
	return out
}

func classifyDiff(d string) string {
	// keep signatures free of data: cut at the first ':' after the fixed phrase
	for _, p := range []string{"message sequence differs", "RowDescription field count differs", "type OID differs", "format differs", "name differs", "NULL marker differs", "DataRow field count differs", "DataRow field", "CommandComplete differs", "type differs"} {
		if strings.Contains(d, p) {
			if p == "DataRow field" {
				return "DataRow value differs"
			}
			return p
		}
	}
	return "other"
}

// involved returns the single configured column a statement names, if exactly one (for signatures).
func involved(t proxyrig.TableSpec, st proxyrig.Step) *proxyrig.ColSpec {
	var found *proxyrig.ColSpec
	n := 0
	for i, c := range t.Cols {
		if c.Configured() && (strings.Contains(st.SQL, c.Name) || strings.Contains(st.SQL, "*")) {
			found = &t.Cols[i]
			n++
		}
	}
	if n == 1 {
		return found
	}
	return nil
}

func valEq(a, b fakepg.Value) bool {
	switch x := a.(type) {
	case nil:
		return b == nil
	case []byte:
		y, ok := b.([]byte)
		return ok && bytes.Equal(x, y)
	default:
		return a == b
	}
}

func hexOf(v fakepg.Value) string {
	switch x := v.(type) {
	case []byte:
		return ev.Hex(x)
	default:
		return fmt.Sprint(v)
	}
}

func valOf(v fakepg.Value, t fakepg.ColType) proxyrig.Val {
	switch x := v.(type) {
	case nil:
		return proxyrig.Val{Null: true, Type: t}
	case int64:
		return proxyrig.Val{Type: t, I: x}
	case string:
		return proxyrig.Val{Type: fakepg.Text, S: x}
	case []byte:
		return proxyrig.Val{Type: fakepg.Bytea, B: x}
	}
	return proxyrig.Val{Null: true, Type: t}
}

// nonOwnerReads: clients with other keys / without keys never receive a plaintext of a configured column they do not own.
// NonOwnerReads checks that readers with other keys / without keys never receive plaintexts they do not own.
func NonOwnerReads(r *ev.Run, w *World, history []string, sidx int) {
	for _, reader := range []string{other, nokeys} {
		c, _, err := proxyrig.DialPG(w.Acras[reader].Port)
		if err != nil {
			r.Inconclusive("cannot connect as " + reader)
			continue
		}
		for _, t := range w.Tables {
			for variant := 0; variant < 2; variant++ {
				r.Case()
				var msgs []proxyrig.BackendMsg
				var err error
				sql := "select * from " + t.Name
				proto := "simple"
				if variant == 0 {
					msgs, err = c.Simple(sql)
				} else {
					proto = "extended-binary"
					msgs, err = c.Extended("", sql, nil, nil, nil, []int16{1}, 0)
				}
				if err != nil {
					r.Count("nonowner_read_failed", 1)
					continue
				}
				var stream []byte
				for _, m := range msgs {
					stream = append(stream, m.Raw...)
				}
				for _, col := range t.Cols {
					if !col.Configured() {
						continue
					}
					if col.ClientID == reader {
						continue // this reader owns the column
					}
					for _, wr := range w.Written[t.Name+"."+col.Name] {
						m := wr.V.Marker()
						if m == nil {
							continue
						}
						if col.Kind == "mask" {
							// the plaintext window is allowed; the hidden part must not show
							pb := wr.V.Bytes()
							if len(pb) <= col.MaskLen+9 {
								continue
							}
							if col.MaskSide == "left" {
								m = pb[col.MaskLen:]
							} else {
								m = pb[:len(pb)-col.MaskLen]
							}
						}
						r.Count("nonowner_reads_checked", 1)
						if how := leak(stream, m); how != "" {
							r.Violation(fmt.Sprintf("plaintext delivered to a client that does not own it (%s): reader=%s proto=%s column=%s", how, readerClass(reader), proto, colClass(col)),
								map[string]interface{}{"session": sidx, "schema": w.Schema, "history": history, "sql": sql, "column": col.Name, "plaintext": ev.Hex(m)})
						} else {
							r.Distinct(fmt.Sprintf("%s|select|%s|-|-|nonowner-%s", colClass(col), proto, readerClass(reader)))
						}
					}
				}
			}
		}
		c.Close()
	}
}

func readerClass(id string) string {
	if id == other {
		return "other-keys"
	}
	return "no-keys"
}
