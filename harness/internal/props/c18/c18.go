// Package c18 monitors "exported keys import to an identical keystore and stay confidential in transit":
// export selections of seeded keystore histories (both formats, the acra-keys library path), import into empty and
// disjoint targets, value/order/state comparison, bundle and access-key tampering, secret scan of the bundle, and the
// v1→v2 migration.
package c18

import (
	"encoding/base64"
	"encoding/hex"
	"fmt"
	"sort"
	"strings"
	"time"

	"github.com/sirupsen/logrus"

	acrakeys "github.com/cossacklabs/acra/cmd/acra-keys/keys"
	"github.com/cossacklabs/acra/keystore"
	keystoreV2 "github.com/cossacklabs/acra/keystore/v2/keystore"
	"github.com/cossacklabs/acra/keystore/v2/keystore/api"
	"github.com/cossacklabs/acra/keystore/v2/keystore/asn1"

	"verif/harness/internal/ev"
	"verif/harness/internal/gen"
	"verif/harness/internal/props"
	"verif/harness/internal/rig/ksdump"
	"verif/harness/internal/rig/ksrig"
)

func init() { props.Register("C18", props.Monitor{Level: "exploration", Run: Run}) }

type monitor struct {
	r   *ev.Run
	rng *gen.Rand

	cmdLargest int // largest bundle that went through the command-level layer
}

// selection is one way of asking for an export, as the acra-keys export command would (ids + mode).
type selection struct {
	name string
	ids  func(h historySpec) []keystore.ExportID
	mode keystore.ExportMode
}

func idsPrivate(h historySpec) []keystore.ExportID {
	var out []keystore.ExportID
	for i, c := range h.clients {
		if i == len(h.clients)-1 && len(h.clients) > 1 {
			break // the last client is deliberately NOT selected: it must stay absent on the target
		}
		if c.pair > 0 && !c.destroyCurPair {
			out = append(out, keystore.ExportID{KeyKind: keystore.KeyStoragePrivate, ContextID: c.id})
		}
		if c.sym > 0 && !c.destroyCurSym {
			out = append(out, keystore.ExportID{KeyKind: keystore.KeySymmetric, ContextID: c.id})
		}
		if c.hmac > 0 {
			out = append(out, keystore.ExportID{KeyKind: keystore.KeySearch, ContextID: c.id})
		}
	}
	if h.poisonPair > 0 {
		out = append(out, keystore.ExportID{KeyKind: keystore.KeyPoisonPrivate})
	}
	return out
}

func idsPublic(h historySpec) []keystore.ExportID {
	var out []keystore.ExportID
	for i, c := range h.clients {
		if i == len(h.clients)-1 && len(h.clients) > 1 {
			break
		}
		if c.pair > 0 && !c.destroyCurPair {
			out = append(out, keystore.ExportID{KeyKind: keystore.KeyStoragePublic, ContextID: c.id})
		}
	}
	if h.poisonPair > 0 {
		out = append(out, keystore.ExportID{KeyKind: keystore.KeyPoisonPublic})
	}
	return out
}

// The four selections are exactly what cmd/acra-keys/keys.ExportKeysCommand can pass to Exporter.Export:
//
//	--all                      -> (nil, ExportAllKeys)
//	--all --private_keys       -> (nil, ExportPrivateKeys)
//	--private_keys <ids>       -> (ids with *Private / symmetric kinds, ExportPrivateKeys)
//	<ids>                      -> (ids with *Public kinds, ExportPublicOnly)
var selections = []selection{
	{"all", func(historySpec) []keystore.ExportID { return nil }, keystore.ExportAllKeys},
	{"all+private", func(historySpec) []keystore.ExportID { return nil }, keystore.ExportPrivateKeys},
	{"ids+private", idsPrivate, keystore.ExportPrivateKeys},
	{"ids-public", idsPublic, keystore.ExportPublicOnly},
}

func selectedIDs(ids []keystore.ExportID) string {
	var p []string
	for _, i := range ids {
		p = append(p, i.KeyKind+":"+string(i.ContextID))
	}
	return strings.Join(p, ",")
}

// Run is the C18 monitor.
func Run(r *ev.Run) {
	r.Rule = "cases = keystore format {v1 one directory, v1 separate public directory, v2} × source history {fixed: single keys, with poison symmetric key, rotated, rotated poison, rotated+destroyed, odd client ids (a key-kind suffix of the v1 file names inside the id: billing_storage_hmac_node, x_storage_sym_y, next to the plain client billing), odd id with rotated keys; + seeded ones: 1–3 clients (a third of them with one more client with an odd id), 1–3 generations per key kind, destroyed current/rotated keys, poison/log keys} × export selection {--all, --all --private_keys, explicit private ids, explicit public ids} (through KeyBackuper.Export like acra-keys export) × target {empty, holding another client}; plus v2 ExportKeyRings/ImportKeyRings with abort/skip/overwrite delegates on a target holding the same ring; plus per bundle: bit flips of Data (quick: head, tail and a seeded sample; thorough: every bit of bundles ≤ 8 KiB), every bit of the access keys, truncations; plus secret scan of every bundle; plus v1→v2 migration (MigrateV1toV2) of every v1 history; plus the command-level path (quick: 8 of the histories + one large keystore, thorough: all): keys.ExportKeysCommand writes the bundle file and the access-keys file, keys.ImportKeysCommand reads them into an empty keystore of the same format {v1, v1 two directories, v2}, with the two paths REUSED across a chain of exports of different size (all+private, public ids, private ids twice, all, public ids, all+private; then the same paths shared by a v2 and a v1 keystore, which makes the access-keys file shrink and grow) and a fresh pair of paths as control — per step: the files hold the bytes the Exporter returned (no remainder of what they held before), the import succeeds and source and target compare as in the library-level cases; plus the REAL acra-backup binary (built once per run from the repository under test with the gothemis stand-in, run as child processes): --action=export of a v1 keystore {one directory, separate public directory} into a file, the printed backup master key parsed from its log output, --action=import into empty directories of a keystore with another master key, target compared with the source like an --all export, the file scanned for key material, one wrong-key and one modified-file import into a target holding another client (must exit non-zero, storage unchanged). plus import into NON-EMPTY targets (quick: 4 of the histories, thorough: all; formats v1, v1 two directories, v2 through KeyBackuper.Export/Import, v1 and v2 through keys.ExportKeysCommand/ImportKeysCommand, and v2 ExportKeyRings/ImportKeyRings {private, public-only} with every conflict policy {nil delegate, abort, skip, overwrite, overwrite/skip alternately, skip/overwrite alternately}): the source is exported, rotates every key kind once, and is exported again; the later bundle of every selection is imported into a target that holds {its own keys for the same clients and key kinds, one generation; the same with rotation history; an import of the EARLIER export; an import of the same bundle; keys of another client only; the earlier export plus own new keys of the first client and poison keys on top plus another client; own rotated keys of the LAST client only} — a successful import must serve every selected key as the source does (current key = the source's, the source's rotated keys readable in the source's order; v1 may keep rotated keys the target had, nothing else), leave everything outside the selection (and key rings the delegate skipped) as it was; a refused import must not change any key the target held. A case is non-trivial when the export produced a bundle and the import (or its rejection) was compared; distinct = (format, history class, selection, target kind, oracle) tuples (command level: the measured history of the two files is the target kind)"
	r.Assumptions = []string{
		"crypto library replaced by the pure-Go gothemis stand-in (Secure Cell Seal authenticates every bit of its output; HMAC-SHA256 signatures of v2 containers are Acra's own code)",
		"filesystem / in-memory back ends only (no Redis); the commands are driven from keys.ExportKeysCommand / keys.ImportKeysCommand on (file handling of key_bundle_file / key_bundle_secret included) with the Exporter/Importer objects Execute() builds; flag parsing, configuration files and opening the keystore from the environment master key are not",
		"acra-backup: the binary is what `go build ./cmd/acra-backup` produces from the tree under test with the themis replace directive of tools/acra-tests.sh; flags, environment variables (ACRA_MASTER_KEY, BACKUP_MASTER_KEY), log output and exit codes are real; Redis / KMS / config files are not used (empty working directory)",
		"command level: log.Fatal of a command function = the command failed (exit status 1); file modes of the two output files are recorded, not demanded (C18 does not state them)",
		"'selected keys' of a selection are what the command-line flags promise: --all = every key (v1: files; v2: rings, public data unless --private_keys), ids = the named current keys (v1) / key rings (v2)",
		"level: exploration — histories/selections are a seeded sample; only the bit-flip sweep of the thorough tier is exhaustive (per bundle ≤ 8 KiB)",
	}
	logrus.StandardLogger().ExitFunc = func(code int) { panic(fmt.Sprintf("logrus.Fatal -> os.Exit(%d)", code)) }
	m := &monitor{r: r, rng: gen.New(r.Seed, "c18")}
	backupBuild := startBackupToolBuild() // `go build ./cmd/acra-backup` of the repository under test runs beside the layers below
	m.scannerSelfTest()
	hs := histories(m.rng, gen.New(r.Seed, "c18-odd-ids"), r.Pick(5, 24))
	for _, h := range hs {
		m.v1Scenario(h, false)
		if r.Thorough() || h.name == "rotated-clients" || h.name == "single-keys" || h.name == "odd-ids" {
			m.v1Scenario(h, true)
		}
		m.v2Scenario(h)
		m.migration(h)
	}
	// command-level layer: acra-keys export / import through (reused) files
	cmdStart := time.Now()
	for _, h := range hs {
		if !r.Thorough() && !cmdQuickHistories[h.name] {
			continue
		}
		m.cmdScenario(h, r.Thorough() || h.name == "single-keys" || h.name == "rotated-clients" || h.name == "odd-ids")
	}
	// one keystore large enough for bundles of several pages (command-level layer only)
	m.cmdScenario(historySpec{name: "large-keystore", clients: []clientSpec{{id: idA, pair: 3, sym: 3, hmac: 2}, {id: idB, pair: 3, sym: 3, hmac: 2}, {id: idC, pair: 3, sym: 3, hmac: 2},
		{id: idG, pair: 3, sym: 3, hmac: 2}, {id: idD, pair: 2, sym: 3, hmac: 2}, {id: idE, pair: 3, sym: 2, hmac: 2}},
		poisonPair: 2, poisonSym: 2, logKey: 2}, r.Thorough())
	m.cmdGuards()
	// import into NON-EMPTY targets (own keys of the same names, earlier export, same bundle, other clients, mix)
	neStart := time.Now()
	m.nonEmptyLayer(hs)
	r.Extra("non_empty_target_layer_wall_s", time.Since(neStart).Seconds()) // information only
	// the real acra-backup binary, built from the repository under test and run as child processes
	m.backupToolLayer(hs, backupBuild)
	r.Extra("command_level_layer_wall_s", time.Since(cmdStart).Seconds()) // information only
	r.RequireAtLeast("exports_ok", 20)
	r.RequireAtLeast("imports_ok", 20)
	r.RequireAtLeast("exported_entries_compared", 200)
	r.RequireAtLeast("unselected_entries_checked_absent", 100)
	r.RequireAtLeast("v2_ring_views_compared", 20)
	r.RequireAtLeast("tampered_data_imports", int64(r.Pick(5000, 200000)))
	r.RequireAtLeast("tampered_data_rejected_target_unchanged", int64(r.Pick(5000, 200000)))
	r.RequireAtLeast("tampered_keys_imports", 1000)
	r.RequireAtLeast("truncated_imports", 100)
	r.RequireAtLeast("bundles_scanned", 20)
	r.RequireAtLeast("secret_windows_searched", 1000)
	r.RequireAtLeast("migrations_run", 4)
	r.RequireAtLeast("migrated_entries_compared", 20)
	r.RequireAtLeast("migrated_entries_compared_of_odd_client_ids", 10)
	r.RequireAtLeast("exported_entries_compared_of_odd_client_ids", 30)
	r.RequireSetAtLeast("formats", 3)
	r.RequireSetAtLeast("selections", 4)
}

// cmdQuickHistories: the histories the quick tier runs through the command-level layer (thorough: all).
var cmdQuickHistories = map[string]bool{"single-keys": true, "single-keys+poison-sym": true, "rotated-clients": true, "rotated+destroyed": true,
	"odd-ids": true, "seeded-0": true, "seeded-1": true, "seeded-2": true}

func (m *monitor) scannerSelfTest() {
	sec := []secret{{"planted", ksrig.RandBytes(32)}}
	noise := ksrig.RandBytes(300)
	for _, enc := range []func([]byte) []byte{
		func(b []byte) []byte { return b },
		func(b []byte) []byte { return []byte(hex.EncodeToString(b)) },
		func(b []byte) []byte { return []byte(base64.StdEncoding.EncodeToString(append([]byte{1}, b...))) },
		func(b []byte) []byte { return []byte(base64.StdEncoding.EncodeToString(append([]byte{1, 2}, b...))) },
		func(b []byte) []byte { return []byte(base64.URLEncoding.EncodeToString(b)) },
	} {
		data := append(append(append([]byte{}, noise...), enc(sec[0].val[3:30])...), noise...)
		if why, _ := scan(data, sec); why == "" {
			m.r.Violation("non-vacuity:secret-scanner-missed-planted-secret", "scanner self-test")
		}
	}
	if why, _ := scan(noise, sec); why != "" {
		m.r.Violation("non-vacuity:secret-scanner-false-positive", why)
	}
}

func b2i(b bool) int {
	if b {
		return 1
	}
	return 0
}

func histClass(h historySpec) string {
	switch {
	case h.hasDestroyed() && h.hasRotation():
		return "rotated+destroyed"
	case h.hasDestroyed():
		return "destroyed"
	case h.hasRotation():
		return "rotated"
	}
	return "single"
}

func (m *monitor) violate(format string, h historySpec, sel string, target string, symptom string, detail map[string]interface{}) {
	if detail == nil {
		detail = map[string]interface{}{}
	}
	detail["format"], detail["history"], detail["selection"], detail["target"], detail["seed"] = format, h.String(), sel, target, m.r.Seed
	m.r.Violation(fmt.Sprintf("c18:%s:%s:%s:%s:%s", format, histClass(h), sel, target, symptom), detail)
}

// guard runs f, turning a panic into a violation.
func (m *monitor) guard(format string, h historySpec, sel, target, what string, f func()) (ok bool) {
	defer func() {
		if p := recover(); p != nil {
			ok = false
			m.violate(format, h, sel, target, fmt.Sprintf("panic(%s@%s)", what, ksrig.FaultPanicSite(stackOf())), map[string]interface{}{"panic": fmt.Sprint(p)})
		}
	}()
	f()
	return true
}

// ---------------------------------------------------------------------------------------------
// expectation: which entries the target must have after importing a selection

type expectation struct {
	present map[string]ksdump.Entry // entry name -> value the target must return
	files   map[string][]byte       // v1 only: public files that must exist with this content (no getter reads them alone)
	note    string
}

// expectV1 derives the expectation from the source dump and the documented meaning of the selection.
func expectV1(src *ksdump.Dump, h historySpec, sel selection, ids []keystore.ExportID, twoDirs bool) expectation {
	ex := expectation{present: map[string]ksdump.Entry{}, files: map[string][]byte{}}
	switch sel.name {
	case "all", "all+private":
		privateOnly := sel.name == "all+private" && twoDirs
		for _, n := range src.Names() {
			e := src.E[n]
			if !e.OK() {
				continue
			}
			if privateOnly && (strings.HasPrefix(n, "pub/") || n == ksdump.PoisonPub || n == ksdump.PoisonPriv) {
				continue // --private_keys with a separate public directory exports the private directory; GetPoisonKeyPair needs both halves
			}
			ex.present[n] = e
		}
	case "ids+private":
		for _, id := range ids {
			switch id.KeyKind {
			case keystore.KeyStoragePrivate:
				if e := src.E[ksdump.Priv(id.ContextID)]; e.OK() {
					ex.present[ksdump.Priv(id.ContextID)] = e
					ex.present[ksdump.Privs(id.ContextID)] = e
				}
			case keystore.KeySymmetric:
				if e := src.E[ksdump.Sym(id.ContextID)]; e.OK() {
					ex.present[ksdump.Sym(id.ContextID)] = e
					ex.present[ksdump.Syms(id.ContextID)] = e
				}
			case keystore.KeySearch:
				if e := src.E[ksdump.Hmac(id.ContextID)]; e.OK() {
					ex.present[ksdump.Hmac(id.ContextID)] = e
				}
			case keystore.KeyPoisonPrivate:
				if e := src.E[ksdump.PoisonPriv]; e.OK() {
					ex.present[ksdump.PoisonAll] = e // only the private half travels: readable through GetPoisonPrivateKeys
				}
			}
		}
	case "ids-public":
		for _, id := range ids {
			switch id.KeyKind {
			case keystore.KeyStoragePublic:
				if e := src.E[ksdump.Pub(id.ContextID)]; e.OK() {
					ex.present[ksdump.Pub(id.ContextID)] = e
				}
			case keystore.KeyPoisonPublic:
				if e := src.E[ksdump.PoisonPub]; e.OK() {
					ex.files[".poison_key/poison_key.pub"] = e.Vals[0]
				}
			}
		}
	}
	return ex
}

// pubOnly rewrites a ring-view element "seq|state|pub|priv|sym" to what a public-only export carries.
func pubOnly(v []byte) []byte {
	f := strings.Split(string(v), "|")
	if len(f) != 5 {
		return v
	}
	if !strings.HasPrefix(f[3], "!") {
		f[3] = "!nodata"
	}
	return []byte(strings.Join(f, "|"))
}

func isPairRing(p string) bool {
	return p == "poison-record" || strings.HasSuffix(p, "/storage")
}

func ringsOfIDs(ids []keystore.ExportID) []string {
	var out []string
	seen := map[string]bool{}
	add := func(p string) {
		if !seen[p] {
			seen[p] = true
			out = append(out, p)
		}
	}
	for _, id := range ids {
		switch id.KeyKind {
		case keystore.KeyPoisonPublic, keystore.KeyPoisonPrivate:
			add("poison-record")
		case keystore.KeyPoisonSymmetric:
			add("poison-record-sym")
		case keystore.KeyStoragePrivate, keystore.KeyStoragePublic:
			add("client/" + string(id.ContextID) + "/storage")
		case keystore.KeySymmetric:
			add("client/" + string(id.ContextID) + "/storage-sym")
		case keystore.KeySearch:
			add("client/" + string(id.ContextID) + "/hmac-sym")
		}
	}
	return out
}

// expectV2: selected rings travel whole (every seqnum, state, current marker); private data only with --private_keys.
func expectV2(src *ksdump.Dump, sel selection, ids []keystore.ExportID) (expectation, []string) {
	ex := expectation{present: map[string]ksdump.Entry{}}
	var rings []string
	if ids == nil {
		if l := src.L["ListKeyRings"]; l.OK() {
			rings = append(rings, l.Items...)
		}
	} else {
		rings = ringsOfIDs(ids)
	}
	private := sel.mode&keystore.ExportPrivateKeys != 0
	var exported []string
	for _, p := range rings {
		view, cur := src.E[ksdump.RingName(p)], src.E[ksdump.RingCurrent(p)]
		if !view.OK() {
			continue
		}
		if !private && !isPairRing(p) {
			continue // a symmetric ring has nothing public to export
		}
		exported = append(exported, p)
		if private {
			ex.present[ksdump.RingName(p)] = view
		} else {
			e := ksdump.Entry{Vals: [][]byte{}}
			for _, v := range view.Vals {
				e.Vals = append(e.Vals, pubOnly(v))
			}
			ex.present[ksdump.RingName(p)] = e
		}
		if cur.OK() {
			ex.present[ksdump.RingCurrent(p)] = cur
		}
		// key-level getters of the ring
		parts := strings.Split(p, "/")
		var names []string
		switch {
		case p == "poison-record":
			// GetPoisonKeyPair needs the private half: with a public-only export the public key is compared in the ring view
			if private {
				names = []string{ksdump.PoisonPub, ksdump.PoisonPriv, ksdump.PoisonAll}
			}
		case p == "poison-record-sym":
			names = []string{ksdump.PoisonSym, ksdump.PoisonSyms}
		case p == "audit-log":
			names = []string{ksdump.Log}
		case len(parts) == 3 && parts[2] == "storage":
			names = []string{ksdump.Pub([]byte(parts[1]))}
			if private {
				names = append(names, ksdump.Priv([]byte(parts[1])), ksdump.Privs([]byte(parts[1])))
			}
		case len(parts) == 3 && parts[2] == "storage-sym":
			names = []string{ksdump.Sym([]byte(parts[1])), ksdump.Syms([]byte(parts[1]))}
		case len(parts) == 3 && parts[2] == "hmac-sym":
			names = []string{ksdump.Hmac([]byte(parts[1]))}
		}
		for _, n := range names {
			// also when the source cannot read it (current key destroyed): the ring travelled, the target must answer alike
			if e, ok := src.E[n]; ok {
				ex.present[n] = e
			}
		}
	}
	return ex, exported
}

// compare checks the target after a successful import: (a) every expected entry equals the source's,
// (b) every other entry is what the target had before (absent on an empty target).
func (m *monitor) compare(format string, h historySpec, sel, target string, ex expectation, before, after *ksdump.Dump, extra map[string]interface{}) {
	r := m.r
	r.Distinct(fmt.Sprintf("%s|%s|%s|%s|fidelity", format, histClass(h), sel, target))
	detail := func() map[string]interface{} {
		d := map[string]interface{}{"target_after_import": after.Render(), "target_before_import": before.Render()}
		exp := map[string]string{}
		for n, e := range ex.present {
			exp[n] = e.String()
		}
		d["expected_from_source"] = exp
		for k, v := range extra {
			d[k] = v
		}
		return d
	}
	bad := map[string][]string{}
	for n, want := range ex.present {
		got, ok := after.E[n]
		if !ok {
			got = ksdump.Entry{Err: "no such entry", Absent: true}
		}
		if strings.HasPrefix(n, "ring/") {
			r.Count("v2_ring_views_compared", 1)
		}
		r.Count("exported_entries_compared", 1)
		if oddTag(n) != "" {
			r.Count("exported_entries_compared_of_odd_client_ids", 1)
		}
		if got.Equal(want) || (!want.OK() && !got.OK() && got.Panic == "") {
			continue
		}
		cls := "differs"
		switch {
		case got.Panic != "":
			cls = "panic@" + got.Panic
		case !got.OK():
			cls = "missing"
		case !want.OK():
			cls = "readable-though-unreadable-on-source"
		case len(got.Vals) == len(want.Vals) && len(got.Vals) > 0 && allZero(got.Vals[0]) && !allZero(want.Vals[0]):
			cls = "all-zero-value"
		case len(got.Vals) != len(want.Vals):
			cls = "history-length-differs"
		}
		// entries of a client whose id contains a key-kind suffix are reported apart (their own signature: "[client-id=...]")
		bad[cls+oddTag(n)] = append(bad[cls+oddTag(n)], entryKind(n))
	}
	for key, kinds := range bad {
		cls, idc := splitOddTag(key)
		what := joinKinds(kinds)
		readable := 0
		for _, e := range ex.present {
			if e.OK() {
				readable++
			}
		}
		if len(kinds) == readable && len(kinds) > 3 {
			what = "every-exported-key"
		}
		m.violate(format, h, sel, target, fmt.Sprintf("exported-key-not-identical(%s:%s)%s", cls, what, idc), detail())
	}
	changed := map[string][]string{}
	for _, n := range after.Names() {
		if _, exp := ex.present[n]; exp {
			continue
		}
		r.Count("unselected_entries_checked_absent", 1)
		was, ok := before.E[n]
		if !ok {
			was = ksdump.Entry{Err: "no such entry", Absent: true}
		}
		got := after.E[n]
		if got.Panic != "" {
			m.violate(format, h, sel, target, fmt.Sprintf("panic-reading-target(%s@%s)", entryKind(n), got.Panic), detail())
			continue
		}
		if !carriesKey(n, after) && !carriesKey(n, before) {
			// "makes exactly those keys available": an entry that holds no key material before and none after
			// (an empty key list; the shell of a ring whose keys have all been destroyed, which a public-only
			// export carries because it has no private data; its current marker) is not a key that appeared
			r.Count("unselected_entries_without_key_material_before_and_after", 1)
			continue
		}
		if !sameLoose(got, was) {
			changed[oddTag(n)] = append(changed[oddTag(n)], entryKind(n))
		}
	}
	for key, kinds := range changed {
		_, idc := splitOddTag(key)
		m.violate(format, h, sel, target, fmt.Sprintf("unselected-key-appeared-or-changed(%s)%s", joinKinds(kinds), idc), detail())
	}
}

// oddTag marks an entry of a client whose id contains a key-kind suffix ("" for every other entry); splitOddTag undoes it
// and returns the signature fragment that names the id class.
func oddTag(entryName string) string {
	if idClass(entryClient(entryName)) != "plain" {
		return "|odd-id"
	}
	return ""
}

func splitOddTag(key string) (rest, sigFragment string) {
	if strings.HasSuffix(key, "|odd-id") {
		return strings.TrimSuffix(key, "|odd-id"), "[client-id=contains-key-kind-suffix]"
	}
	return key, ""
}

func joinKinds(k []string) string {
	seen := map[string]bool{}
	var out []string
	for _, x := range k {
		if !seen[x] {
			seen[x] = true
			out = append(out, x)
		}
	}
	sort.Strings(out)
	return strings.Join(out, "+")
}

// carriesKey reports whether the named entry of a dump holds key material: a readable, non-empty key list; for the
// ring-level view ("seq|state|pub|priv|sym" per key) at least one key with a readable public, private or symmetric part;
// for a ring's current marker, whether its ring does.
func carriesKey(name string, d *ksdump.Dump) bool {
	name = strings.TrimSuffix(name, "#current")
	e, ok := d.E[name]
	if !ok || !e.OK() {
		return false
	}
	if !strings.HasPrefix(name, "ring/") {
		return len(e.Vals) > 0
	}
	for _, v := range e.Vals {
		f := strings.Split(string(v), "|")
		if len(f) < 3 {
			return true
		}
		for _, part := range f[2:] {
			if part != "" && part[0] != '!' {
				return true
			}
		}
	}
	return false
}

func sameLoose(a, b ksdump.Entry) bool {
	if !a.OK() && !b.OK() {
		return true // not readable before, not readable now
	}
	return a.Equal(b)
}

func allZero(b []byte) bool {
	for _, x := range b {
		if x != 0 {
			return false
		}
	}
	return len(b) > 0
}

// entryKind strips the client id: "priv/alpha_client" -> "priv", "ring/client/x/storage" -> "ring(storage)".
func entryKind(n string) string {
	if strings.HasPrefix(n, "ring/") {
		p := strings.TrimPrefix(n, "ring/")
		cur := strings.HasSuffix(p, "#current")
		p = strings.TrimSuffix(p, "#current")
		f := strings.Split(p, "/")
		k := "ring(" + f[len(f)-1] + ")"
		if cur {
			k += "#current"
		}
		return k
	}
	if i := strings.Index(n, "/"); i >= 0 {
		return n[:i]
	}
	return n
}

func stackOf() string {
	buf := make([]byte, 16<<10)
	n := runtimeStack(buf)
	return string(buf[:n])
}

// ---------------------------------------------------------------------------------------------
// v1

func (m *monitor) v1Scenario(h historySpec, twoDirs bool) {
	r := m.r
	format := "v1"
	if twoDirs {
		format = "v1-two-dirs"
	}
	r.SetAdd("formats", format)
	src := newV1(twoDirs)
	defer src.dispose()
	h.apply(src.ks)
	srcDump := src.dump(allIDs)
	secrets := secretsOf(srcDump)
	r.SampleN("history:"+format, 2, map[string]interface{}{"what": "source history", "format": format, "history": h.String(), "source": srcDump.Render()})
	for _, sel := range selections {
		r.SetAdd("selections", sel.name)
		ids := sel.ids(h)
		if sel.ids(h) == nil && strings.HasPrefix(sel.name, "ids") {
			continue
		}
		if strings.HasPrefix(sel.name, "ids") && len(ids) == 0 {
			continue
		}
		r.Case()
		var bundle *keystore.KeysBackup
		var err error
		if !m.guard(format, h, sel.name, "-", "export", func() { bundle, err = src.backuper().Export(ids, sel.mode) }) {
			continue
		}
		if err != nil {
			r.Count("exports_failed", 1)
			// the history features the known export defects depend on are part of the signature, so that an export failure
			// on a history WITHOUT them is a different violation
			m.violate(format, h, sel.name, "-", fmt.Sprintf("export-failed(%s)[poison-sym=%d,rotated-poison-pair=%d]", normErr(err), b2i(h.poisonSym > 0), b2i(h.poisonPair > 1)),
				map[string]interface{}{"error": err.Error(), "ids": selectedIDs(ids)})
			continue
		}
		r.Count("exports_ok", 1)
		// exporting must not change the source
		if after := src.dump(allIDs); !dumpsEqual(srcDump, after) {
			m.violate(format, h, sel.name, "-", "export-changed-source", map[string]interface{}{"before": srcDump.Render(), "after": after.Render()})
		}
		m.scanBundle(format, h, sel.name, bundle, secrets)
		ex := expectV1(srcDump, h, sel, ids, twoDirs)
		for _, tk := range []string{"empty", "other-client"} {
			tgt := newV1(twoDirs)
			if tk == "other-client" {
				must(ksrig.GenClient(tgt.ks, idT))
				must(tgt.ks.GenerateClientIDSymmetricKey(idT))
			}
			before := tgt.dump(allIDs)
			tgt.open()
			var ierr error
			if !m.guard(format, h, sel.name, tk, "import", func() { _, ierr = tgt.importer().Import(copyBackup(bundle)) }) {
				tgt.dispose()
				continue
			}
			if ierr != nil {
				r.Count("imports_failed", 1)
				m.violate(format, h, sel.name, tk, fmt.Sprintf("import-failed(%s)", normErr(ierr)), map[string]interface{}{"error": ierr.Error(), "ids": selectedIDs(ids)})
				tgt.dispose()
				continue
			}
			r.Count("imports_ok", 1)
			after := tgt.dump(allIDs)
			m.compare(format, h, sel.name, tk, ex, before, after, map[string]interface{}{"ids": selectedIDs(ids)})
			for rel, want := range ex.files {
				r.Count("exported_entries_compared", 1)
				got, err := tgt.readPub(rel)
				if err != nil || string(got) != string(want) {
					m.violate(format, h, sel.name, tk, "exported-key-not-identical(poison.pub-file:differs)", map[string]interface{}{"file": rel, "error": fmt.Sprint(err)})
				}
			}
			r.SampleN("import:"+format, 2, map[string]interface{}{"what": "import compared", "format": format, "history": h.name, "selection": sel.name, "ids": selectedIDs(ids), "target": tk, "bundle_bytes": len(bundle.Data), "expected_entries": len(ex.present)})
			tgt.dispose()
		}
		// tampering: a target holding another client; every rejected import must leave it untouched
		tgt := newV1(twoDirs)
		must(ksrig.GenClient(tgt.ks, idT))
		m.tamper(format, h, sel.name, bundle, &tamperTarget{
			raw:       func() map[string]string { return tgt.raw() },
			dump:      func() *ksdump.Dump { return tgt.dump(allIDs) },
			reset:     func() { tgt.open() },
			mutations: func() int { return tgt.mutations() },
			imp:       func(b *keystore.KeysBackup) error { _, err := tgt.importer().Import(b); return err },
			keyBits:   func(k []byte) [][]byte { return flipEach(k) },
		})
		tgt.dispose()
	}
}

func copyBackup(b *keystore.KeysBackup) *keystore.KeysBackup {
	return &keystore.KeysBackup{Keys: append([]byte(nil), b.Keys...), Data: append([]byte(nil), b.Data...)}
}

func dumpsEqual(a, b *ksdump.Dump) bool {
	if len(a.E) != len(b.E) {
		return false
	}
	for n, e := range a.E {
		if !sameLoose(e, b.E[n]) {
			return false
		}
	}
	return true
}

func normErr(err error) string {
	s := err.Error()
	for _, m := range []string{"failed to get output size", "failed to unprotect data", "empty message for Secure Cell"} {
		if strings.Contains(s, m) {
			return "decrypt-failed"
		}
	}
	if i := strings.Index(s, "/"); i >= 0 && strings.Contains(s, "c18-") {
		s = "path-error:" + s[strings.LastIndex(s, ":")+1:]
	}
	if len(s) > 100 {
		s = s[:100]
	}
	return strings.TrimSpace(s)
}

func (m *monitor) scanBundle(format string, h historySpec, sel string, b *keystore.KeysBackup, secrets []secret) {
	r := m.r
	r.Count("bundles_scanned", 1)
	r.Distinct(fmt.Sprintf("%s|%s|%s|-|confidentiality", format, histClass(h), sel))
	why, n := scan(b.Data, secrets)
	r.Count("secret_windows_searched", int64(n))
	if why != "" {
		m.violate(format, h, sel, "-", "secret-in-clear-in-bundle", map[string]interface{}{"leak": why, "bundle": ev.Hex(b.Data)})
	}
}

// ---------------------------------------------------------------------------------------------
// v2

type delegate struct{ d api.ImportDecision }

func (d delegate) DecideKeyRingOverwrite(currentData, newData *asn1.KeyRing) (api.ImportDecision, error) {
	if d.d == api.ImportAbort {
		return d.d, fmt.Errorf("abort: ring exists")
	}
	return d.d, nil
}

func (m *monitor) v2Scenario(h historySpec) {
	r := m.r
	format := "v2"
	r.SetAdd("formats", format)
	src := newV2()
	h.apply(src.ks)
	srcDump := src.dump(allIDs)
	secrets := secretsOf(srcDump)
	r.SampleN("history:"+format, 2, map[string]interface{}{"what": "source history", "format": format, "history": h.String(), "source": srcDump.Render()})
	for _, sel := range selections {
		r.SetAdd("selections", sel.name)
		ids := sel.ids(h)
		if strings.HasPrefix(sel.name, "ids") && len(ids) == 0 {
			continue
		}
		r.Case()
		var bundle *keystore.KeysBackup
		var err error
		if !m.guard(format, h, sel.name, "-", "export", func() { bundle, err = src.backuper().Export(ids, sel.mode) }) {
			continue
		}
		if err != nil {
			r.Count("exports_failed", 1)
			m.violate(format, h, sel.name, "-", fmt.Sprintf("export-failed(%s)", normErr(err)), map[string]interface{}{"error": err.Error(), "ids": selectedIDs(ids)})
			continue
		}
		r.Count("exports_ok", 1)
		if after := src.dump(allIDs); !dumpsEqual(srcDump, after) {
			m.violate(format, h, sel.name, "-", "export-changed-source", map[string]interface{}{"before": srcDump.Render(), "after": after.Render()})
		}
		m.scanBundle(format, h, sel.name, bundle, secrets)
		ex, exported := expectV2(srcDump, sel, ids)
		var honest *ksdump.Dump
		for _, tk := range []string{"empty", "other-client"} {
			tgt := newV2()
			if tk == "other-client" {
				must(ksrig.GenClient(tgt.ks, idT))
				must(tgt.ks.GenerateClientIDSymmetricKey(idT))
			}
			before := tgt.dump(allIDs)
			rawBefore := tgt.raw()
			tgt.open()
			var ierr error
			if !m.guard(format, h, sel.name, tk, "import", func() { _, ierr = tgt.backuper().Import(copyBackup(bundle)) }) {
				continue
			}
			if ierr != nil {
				r.Count("imports_failed", 1)
				same, what := rawEqual(rawBefore, tgt.raw())
				m.violate(format, h, sel.name, tk, fmt.Sprintf("import-failed(%s)", normErr(ierr)), map[string]interface{}{"error": ierr.Error(), "ids": selectedIDs(ids), "exported_rings": exported,
					"failed_import_left_target_unchanged": same, "first_difference": what})
				continue
			}
			r.Count("imports_ok", 1)
			after := tgt.dump(allIDs)
			honest = after
			m.compare(format, h, sel.name, tk, ex, before, after, map[string]interface{}{"ids": selectedIDs(ids), "exported_rings": exported})
			r.SampleN("import:"+format, 2, map[string]interface{}{"what": "import compared", "format": format, "history": h.name, "selection": sel.name, "ids": selectedIDs(ids), "target": tk, "bundle_bytes": len(bundle.Data), "rings": exported})
		}
		tgt := newV2()
		must(ksrig.GenClient(tgt.ks, idT))
		m.tamper(format, h, sel.name, bundle, &tamperTarget{
			raw:       func() map[string]string { return tgt.raw() },
			dump:      func() *ksdump.Dump { return tgt.dump(allIDs) },
			reset:     func() { tgt.open() },
			mutations: func() int { return tgt.mutations() },
			imp:       func(b *keystore.KeysBackup) error { _, err := tgt.backuper().Import(b); return err },
			keyBits:   v2KeyVariants,
			// the v2 access-key blob is JSON text: a changed character may decode to the same two keys
			textKeys: true,
			renew: func() {
				tgt = newV2()
				must(ksrig.GenClient(tgt.ks, idT))
			},
			acceptedOK: func() string {
				// an access-key text that decodes to the same keys must give exactly what the honest import gave
				if honest == nil {
					return ""
				}
				after := tgt.dump(allIDs)
				for n := range ex.present {
					if !after.E[n].Equal(honest.E[n]) {
						return entryKind(n)
					}
				}
				return ""
			},
			skipText: func() bool { return honest == nil },
		})
	}
	m.v2Delegates(h, src, srcDump)
}

// v2KeyVariants: every single-bit change of the two decoded access keys, re-serialised (a "wrong access key"),
func v2KeyVariants(k []byte) [][]byte {
	sk := &keystoreV2.SerializedKeys{}
	if err := sk.Unmarshal(k); err != nil {
		return nil
	}
	var out [][]byte
	for _, which := range []int{0, 1} {
		base := sk.Encryption
		if which == 1 {
			base = sk.Signature
		}
		for _, v := range flipEach(base) {
			c := keystoreV2.SerializedKeys{Encryption: sk.Encryption, Signature: sk.Signature}
			if which == 0 {
				c.Encryption = v
			} else {
				c.Signature = v
			}
			b, err := c.Marshal()
			if err == nil {
				out = append(out, b)
			}
		}
	}
	return out
}

// v2Delegates: ExportKeyRings / ImportKeyRings directly, into a target that already holds the same ring.
func (m *monitor) v2Delegates(h historySpec, src *v2Store, srcDump *ksdump.Dump) {
	r := m.r
	format := "v2-api"
	var rings []string
	for _, c := range h.clients {
		if c.sym > 0 {
			rings = append(rings, "client/"+string(c.id)+"/storage-sym")
		}
		if c.pair > 0 {
			rings = append(rings, "client/"+string(c.id)+"/storage")
		}
	}
	if len(rings) == 0 {
		return
	}
	suite, err := keystoreV2.NewSCellSuite(ksrig.RandBytes(32), ksrig.RandBytes(32))
	must(err)
	var data []byte
	if !m.guard(format, h, "rings+private", "-", "export", func() { data, err = src.ks.ExportKeyRings(rings, suite, keystore.ExportPrivateKeys) }) {
		return
	}
	if err != nil {
		m.violate(format, h, "rings+private", "-", fmt.Sprintf("export-failed(%s)", normErr(err)), map[string]interface{}{"rings": rings})
		return
	}
	r.Count("exports_ok", 1)
	sel := selection{name: "rings+private", mode: keystore.ExportPrivateKeys}
	var ids []keystore.ExportID
	for _, c := range h.clients {
		if c.sym > 0 {
			ids = append(ids, keystore.ExportID{KeyKind: keystore.KeySymmetric, ContextID: c.id})
		}
		if c.pair > 0 {
			ids = append(ids, keystore.ExportID{KeyKind: keystore.KeyStoragePrivate, ContextID: c.id})
		}
	}
	ex, _ := expectV2(srcDump, sel, ids)
	for _, dec := range []struct {
		name string
		d    api.ImportDecision
	}{{"same-ring:abort", api.ImportAbort}, {"same-ring:skip", api.ImportSkip}, {"same-ring:overwrite", api.ImportOverwrite}} {
		r.Case()
		tgt := newV2()
		// the target holds its own, different keys under the first client's rings
		first := h.clients[0].id
		must(ksrig.GenClient(tgt.ks, first))
		before := tgt.dump(allIDs)
		tgt.open()
		var ierr error
		if !m.guard(format, h, sel.name, dec.name, "import", func() {
			_, ierr = tgt.ks.ImportKeyRings(append([]byte(nil), data...), suite, delegate{dec.d})
		}) {
			continue
		}
		after := tgt.dump(allIDs)
		r.Distinct(fmt.Sprintf("%s|%s|%s|%s|delegate", format, histClass(h), sel.name, dec.name))
		switch dec.d {
		case api.ImportOverwrite:
			if ierr != nil {
				m.violate(format, h, sel.name, dec.name, fmt.Sprintf("import-failed(%s)", normErr(ierr)), map[string]interface{}{"rings": rings})
				continue
			}
			r.Count("imports_ok", 1)
			m.compare(format, h, sel.name, dec.name, ex, before, after, map[string]interface{}{"rings": rings})
		case api.ImportSkip:
			if ierr != nil {
				m.violate(format, h, sel.name, dec.name, fmt.Sprintf("import-failed(%s)", normErr(ierr)), map[string]interface{}{"rings": rings})
				continue
			}
			r.Count("imports_ok", 1)
			// rings the target had keep the target's values; the others arrive
			ex2 := expectation{present: map[string]ksdump.Entry{}}
			for n, e := range ex.present {
				if b, ok := before.E[n]; ok && b.OK() {
					continue
				}
				if entryClient(n) == string(first) {
					continue
				}
				ex2.present[n] = e
			}
			m.compare(format, h, sel.name, dec.name, ex2, before, after, map[string]interface{}{"rings": rings})
		case api.ImportAbort:
			// The delegate refused: Acra returns the delegate's error. What the property fixes is the value side:
			// whatever is readable on the target afterwards is either the target's old value or the source's.
			r.Count("imports_refused_by_delegate", 1)
			if ierr == nil {
				m.violate(format, h, sel.name, dec.name, "abort-decision-ignored", nil)
			}
			for _, n := range after.Names() {
				if entryClient(n) == string(first) && !sameLoose(after.E[n], before.E[n]) {
					m.violate(format, h, sel.name, dec.name, fmt.Sprintf("refused-import-changed-existing-ring(%s)", entryKind(n)), map[string]interface{}{"before": before.Render(), "after": after.Render()})
				}
			}
		}
	}
}

// ---------------------------------------------------------------------------------------------
// v1 → v2 migration

func (m *monitor) migration(h historySpec) {
	r := m.r
	format := "migrate-v1-v2"
	r.Case()
	src := newV1(false)
	defer src.dispose()
	h.apply(src.ks)
	srcDump := src.dump(allIDs)
	src.open()
	dst := newV2()
	var err error
	if !m.guard(format, h, "all", "empty", "migrate", func() { err = acrakeys.MigrateV1toV2(src.ks, dst.ks) }) {
		return
	}
	r.Count("migrations_run", 1)
	r.Distinct(fmt.Sprintf("%s|%s|all|empty|migration", format, histClass(h)))
	after := dst.dump(allIDs)
	detail := map[string]interface{}{"v1": srcDump.Render(), "v2_after_migration": after.Render(), "migration_error": fmt.Sprint(err)}
	if err != nil {
		m.violate(format, h, "all", "empty", fmt.Sprintf("migration-failed(%s)[rotated-keys=%d,poison-sym=%d]", normErr(err), b2i(h.hasRotation()), b2i(h.poisonSym > 0)), detail)
	}
	bad := map[string][]string{}
	for _, n := range srcDump.Names() {
		e := srcDump.E[n]
		if !e.OK() || strings.HasPrefix(n, "ring/") {
			continue
		}
		r.Count("migrated_entries_compared", 1)
		if oddTag(n) != "" {
			r.Count("migrated_entries_compared_of_odd_client_ids", 1)
		}
		got := after.E[n]
		if got.Equal(e) {
			continue
		}
		cls := "differs"
		switch {
		case got.Panic != "":
			cls = "panic@" + got.Panic
		case !got.OK():
			cls = "missing"
		case len(got.Vals) < len(e.Vals) && len(got.Vals) > 0 && string(got.Vals[0]) == string(e.Vals[0]):
			cls = "older-keys-missing"
		case len(got.Vals) == len(e.Vals):
			cls = "order-or-value-differs"
		}
		// the poison symmetric key has its own (known) cause: keep it apart from the other kinds
		group := ""
		if n == ksdump.PoisonSym || n == ksdump.PoisonSyms {
			group = "|poison-sym"
		}
		// so have the keys of a client whose id contains a key-kind suffix (the migration derives the owner from the file name)
		// - except when only OLDER keys are missing: then the current key of that client did arrive under the right owner,
		// and what is missing is what is missing for every client (rotated keys are not migrated, whatever the id)
		if cls != "older-keys-missing" {
			group += oddTag(n)
		}
		bad[cls+group] = append(bad[cls+group], entryKind(n))
	}
	for key, kinds := range bad {
		key, idc := splitOddTag(key)
		cls := strings.TrimSuffix(key, "|poison-sym")
		m.violate(format, h, "all", "empty", fmt.Sprintf("migrated-key-not-identical(%s:%s)%s", cls, joinKinds(kinds), idc), detail)
	}
	r.SampleN("migration", 2, map[string]interface{}{"what": "migration compared", "history": h.String(), "error": fmt.Sprint(err)})
}
