// Package c18 will hold the monitor of property C18 (not built yet; nothing is registered).
package c18
