package c18

import (
	"bytes"
	"encoding/base64"
	"encoding/hex"
	"fmt"
	"os"
	"path/filepath"
	"strings"

	"github.com/cossacklabs/acra/keystore"
	"github.com/cossacklabs/acra/keystore/filesystem"
	keystoreV2 "github.com/cossacklabs/acra/keystore/v2/keystore"
	"github.com/cossacklabs/acra/keystore/v2/keystore/filesystem/backend"

	"verif/harness/internal/gen"
	"verif/harness/internal/rig/ksdump"
	"verif/harness/internal/rig/ksrig"
)

func must(err error) {
	if err != nil {
		panic(err)
	}
}

// ---------------------------------------------------------------------------------------------
// v1 store: one or two directories + master key; storage calls observed through a recording wrapper.

type v1Store struct {
	priv, pub string // pub == "" : one directory
	master    []byte
	ks        *filesystem.KeyStore
	rec       *ksrig.FaultStorage // recording only (no fault is ever armed)
	enc       keystore.KeyEncryptor
}

func newV1(twoDirs bool) *v1Store {
	s := &v1Store{master: ksrig.RandBytes(32)}
	s.priv = ksrig.ScratchDir("c18-v1")
	if twoDirs {
		s.pub = ksrig.ScratchDir("c18-v1pub")
	}
	s.open()
	return s
}

func (s *v1Store) open() {
	enc, err := keystore.NewSCellKeyEncryptor(s.master)
	must(err)
	s.enc = enc
	s.rec = ksrig.NewFaultStorage(&filesystem.DummyStorage{}, s.priv, nil)
	b := filesystem.NewCustomFilesystemKeyStore().Encryptor(enc).Storage(s.rec).CacheSize(keystore.WithoutCache)
	if s.pub != "" {
		b.KeyDirectories(s.priv, s.pub)
	} else {
		b.KeyDirectory(s.priv)
	}
	ks, err := b.Build()
	must(err)
	s.ks = ks
}

func (s *v1Store) backuper() *filesystem.KeyBackuper {
	b, err := filesystem.NewKeyBackuper(s.priv, s.pub, s.rec, s.enc, s.ks)
	must(err)
	return b
}

// importer is what `acra-keys import` builds: no keystore handle, only storage + encryptor.
func (s *v1Store) importer() *filesystem.KeyBackuper {
	b, err := filesystem.NewKeyBackuper(s.priv, s.pub, s.rec, s.enc, nil)
	must(err)
	return b
}

func (s *v1Store) dump(clients [][]byte) *ksdump.Dump {
	s.open() // fresh handle: nothing cached
	return ksdump.Read(s.ks, ksdump.Options{Clients: clients})
}

func (s *v1Store) raw() map[string]string {
	out := map[string]string{}
	for _, d := range []string{s.priv, s.pub} {
		if d == "" {
			continue
		}
		t, err := ksrig.FaultDumpTree(d)
		must(err)
		tag := "priv:"
		if d == s.pub {
			tag = "pub:"
		}
		for p, f := range t {
			out[tag+p] = fmt.Sprintf("%v|%o|%x", f.Dir, f.Mode, f.Data)
		}
	}
	return out
}

func (s *v1Store) readPub(rel string) ([]byte, error) {
	d := s.priv
	if s.pub != "" {
		d = s.pub
	}
	return os.ReadFile(filepath.Join(d, rel))
}

func (s *v1Store) mutations() int {
	n := 0
	for _, c := range s.rec.Calls() {
		if c.Mutates {
			n++
		}
	}
	return n
}

func (s *v1Store) dispose() {
	os.RemoveAll(s.priv)
	if s.pub != "" {
		os.RemoveAll(s.pub)
	}
}

// ---------------------------------------------------------------------------------------------
// v2 store: in-memory back end behind a recording wrapper.

type nopClose struct{ backend.Backend }

func (nopClose) Close() error { return nil }

type v2Store struct {
	mem  *backend.InMemory
	keys ksrig.V2Keys
	rec  *ksrig.FaultBackend
	ks   *keystoreV2.ServerKeyStore
}

func newV2() *v2Store {
	s := &v2Store{mem: backend.NewInMemory(), keys: ksrig.NewV2Keys()}
	s.open()
	return s
}

func (s *v2Store) open() {
	s.rec = ksrig.NewFaultBackend(nopClose{s.mem}, nil)
	ks, err := ksrig.V2OnBackend(s.rec, s.keys)
	must(err)
	s.ks = ks
}

func (s *v2Store) backuper() *keystoreV2.KeyBackuper {
	b, err := keystoreV2.NewKeyBackuper("", "", s.ks)
	must(err)
	return b
}

func (s *v2Store) dump(clients [][]byte) *ksdump.Dump {
	s.open()
	return ksdump.Read(s.ks, ksdump.Options{Clients: clients, Rings: s.ks})
}

func (s *v2Store) raw() map[string]string {
	st, err := ksrig.FaultDumpBackend(s.mem)
	must(err)
	out := map[string]string{}
	for p, d := range st {
		out[p] = hex.EncodeToString(d)
	}
	return out
}

func (s *v2Store) mutations() int {
	n := 0
	for _, c := range s.rec.Calls() {
		if c.Mutates {
			n++
		}
	}
	return n
}

func rawEqual(a, b map[string]string) (bool, string) {
	for k, v := range a {
		w, ok := b[k]
		if !ok {
			return false, "removed:" + k
		}
		if v != w {
			return false, "changed:" + k
		}
	}
	for k := range b {
		if _, ok := a[k]; !ok {
			return false, "added:" + k
		}
	}
	return true, ""
}

// ---------------------------------------------------------------------------------------------
// histories

type writer interface {
	GenerateDataEncryptionKeys(id []byte) error
	GenerateClientIDSymmetricKey(id []byte) error
	GenerateHmacKey(id []byte) error
	GenerateLogKey() error
	GeneratePoisonKeyPair() error
	GeneratePoisonSymmetricKey() error
	DestroyClientIDEncryptionKeyPair(id []byte) error
	DestroyClientIDSymmetricKey(id []byte) error
	DestroyRotatedClientIDSymmetricKey(id []byte, index int) error
	DestroyRotatedClientIDEncryptionKeyPair(id []byte, index int) error
}

// historySpec is a seeded description of what a source keystore went through.
type historySpec struct {
	name                          string
	clients                       []clientSpec
	poisonPair, poisonSym, logKey int // number of generations (0 = absent)
}

type clientSpec struct {
	id              []byte
	pair, sym, hmac int // generations (1 = one key, 2 = rotated once, ...)
	destroyCurSym   bool
	destroyCurPair  bool
	destroyRotSym   bool // destroy rotated symmetric key #2 (needs sym >= 3)
}

func (h historySpec) hasRotation() bool {
	if h.poisonPair > 1 || h.poisonSym > 1 || h.logKey > 1 {
		return true
	}
	for _, c := range h.clients {
		if c.pair > 1 || c.sym > 1 || c.hmac > 1 {
			return true
		}
	}
	return false
}

func (h historySpec) hasDestroyed() bool {
	for _, c := range h.clients {
		if c.destroyCurSym || c.destroyCurPair || c.destroyRotSym {
			return true
		}
	}
	return false
}

func (h historySpec) ids() [][]byte {
	var out [][]byte
	for _, c := range h.clients {
		out = append(out, c.id)
	}
	return out
}

func (h historySpec) String() string {
	var parts []string
	for _, c := range h.clients {
		s := fmt.Sprintf("%s(pair×%d sym×%d hmac×%d", c.id, c.pair, c.sym, c.hmac)
		if c.destroyCurSym {
			s += " destroy-current-sym"
		}
		if c.destroyCurPair {
			s += " destroy-current-pair"
		}
		if c.destroyRotSym {
			s += " destroy-rotated-sym#2"
		}
		parts = append(parts, s+")")
	}
	return fmt.Sprintf("%s: %s poison-pair×%d poison-sym×%d log×%d", h.name, strings.Join(parts, " "), h.poisonPair, h.poisonSym, h.logKey)
}

func (h historySpec) apply(w writer) {
	maxGen := 0
	for _, c := range h.clients {
		for _, n := range []int{c.pair, c.sym, c.hmac} {
			if n > maxGen {
				maxGen = n
			}
		}
	}
	for _, n := range []int{h.poisonPair, h.poisonSym, h.logKey} {
		if n > maxGen {
			maxGen = n
		}
	}
	for g := 0; g < maxGen; g++ {
		for _, c := range h.clients {
			if g < c.pair {
				must(w.GenerateDataEncryptionKeys(c.id))
			}
			if g < c.sym {
				must(w.GenerateClientIDSymmetricKey(c.id))
			}
			if g < c.hmac {
				must(w.GenerateHmacKey(c.id))
			}
		}
		if g < h.poisonPair {
			must(w.GeneratePoisonKeyPair())
		}
		if g < h.poisonSym {
			must(w.GeneratePoisonSymmetricKey())
		}
		if g < h.logKey {
			must(w.GenerateLogKey())
		}
	}
	for _, c := range h.clients {
		if c.destroyRotSym && c.sym >= 3 {
			must(w.DestroyRotatedClientIDSymmetricKey(c.id, 2))
		}
		if c.destroyCurSym && c.sym >= 1 {
			must(w.DestroyClientIDSymmetricKey(c.id))
		}
		if c.destroyCurPair && c.pair >= 1 {
			must(w.DestroyClientIDEncryptionKeyPair(c.id))
		}
	}
}

var (
	idA = []byte("alpha_client")
	idB = []byte("bravo-client")
	idC = []byte("charlie")
	idT = []byte("target_only") // lives only in non-empty targets
)

// Valid but odd client ids (keystore.ValidateID: letters, digits, '-', '_', ' ', 5..256 bytes): the text of a key-kind
// suffix of the v1 file names ("_storage", "_storage_sym", "_hmac") occurs INSIDE the id. Key files of such a client are
// called e.g. "billing_storage_hmac_node_storage_sym"; whoever derives the owner from the file name must cut at the end.
var (
	idD = []byte("billing_storage_hmac_node") // "_storage" and "_hmac" in the middle
	idE = []byte("x_storage_sym_y")           // "_storage_sym" (and with it "_storage") in the middle
	idF = []byte("a_hmac_b")                  // "_hmac" in the middle
	idG = []byte("billing")                   // plain; what idD's file names start with, cut at the first key-kind suffix
)

var oddIDs = [][]byte{idD, idE, idF}

var allIDs = [][]byte{idA, idB, idC, idT, idD, idE, idF, idG}

// idClass names the class of a client id for signatures: "plain" or "id-contains-key-kind-suffix".
func idClass(id string) string {
	for _, suf := range []string{"_storage", "_hmac"} {
		if i := strings.Index(id, suf); i >= 0 && i+len(suf) < len(id) {
			return "id-contains-key-kind-suffix"
		}
	}
	return "plain"
}

// entryClient returns the client id an entry name belongs to ("" for poison / log entries): "priv/<id>", "ring/client/<id>/<kind>[#current]".
func entryClient(n string) string {
	if strings.HasPrefix(n, "ring/") {
		f := strings.Split(strings.TrimSuffix(n, "#current"), "/")
		if len(f) == 4 && f[1] == "client" {
			return f[2]
		}
		return ""
	}
	if i := strings.Index(n, "/"); i >= 0 {
		return n[i+1:]
	}
	return ""
}

// histories returns the fixed boundary histories plus n seeded ones.
// odd (its own stream, so that the seeded histories are what they were before odd ids existed) decides which seeded
// histories get an extra client with an odd id.
func histories(rng *gen.Rand, odd *gen.Rand, n int) []historySpec {
	hs := []historySpec{
		{name: "single-keys", clients: []clientSpec{{id: idA, pair: 1, sym: 1, hmac: 1}}, poisonPair: 1, poisonSym: 0, logKey: 1},
		{name: "single-keys+poison-sym", clients: []clientSpec{{id: idA, pair: 1, sym: 1, hmac: 1}, {id: idB, pair: 1, sym: 1, hmac: 1}}, poisonPair: 1, poisonSym: 1, logKey: 1},
		{name: "rotated-clients", clients: []clientSpec{{id: idA, pair: 3, sym: 2, hmac: 2}, {id: idB, pair: 1, sym: 3, hmac: 1}}, poisonPair: 1, poisonSym: 0, logKey: 2},
		{name: "rotated-poison", clients: []clientSpec{{id: idA, pair: 1, sym: 1, hmac: 1}}, poisonPair: 2, poisonSym: 0, logKey: 1},
		{name: "rotated+destroyed", clients: []clientSpec{{id: idA, pair: 2, sym: 3, hmac: 1, destroyRotSym: true}, {id: idB, pair: 2, sym: 2, hmac: 1, destroyCurSym: true}, {id: idC, pair: 2, sym: 1, hmac: 1, destroyCurPair: true}}, poisonPair: 1, poisonSym: 0, logKey: 1},
	}
	// odd client ids: without rotation (next to the plain client their file names start with), and with rotated keys
	hs = append(hs,
		historySpec{name: "odd-ids", clients: []clientSpec{{id: idD, pair: 1, sym: 1, hmac: 1}, {id: idE, pair: 1, sym: 1, hmac: 1}, {id: idG, pair: 1, sym: 1, hmac: 1}}, poisonPair: 1, poisonSym: 0, logKey: 1},
		historySpec{name: "odd-ids-rotated", clients: []clientSpec{{id: idF, pair: 2, sym: 2, hmac: 2}, {id: idA, pair: 1, sym: 2, hmac: 1}}, poisonPair: 1, poisonSym: 0, logKey: 1},
	)
	for i := 0; i < n; i++ {
		h := historySpec{name: fmt.Sprintf("seeded-%d", i)}
		for _, id := range [][]byte{idA, idB, idC}[:1+rng.Intn(3)] {
			c := clientSpec{id: id, pair: 1 + rng.Intn(3), sym: 1 + rng.Intn(3), hmac: 1 + rng.Intn(2)}
			if rng.Intn(4) == 0 {
				c.destroyCurSym = true
			}
			if rng.Intn(5) == 0 {
				c.destroyCurPair = true
			}
			if c.sym >= 3 && rng.Intn(3) == 0 {
				c.destroyRotSym = true
			}
			h.clients = append(h.clients, c)
		}
		if odd.Intn(3) == 0 {
			// one more client, with an odd id (placed first or last: the last client of a history is not selected by the id selections)
			c := clientSpec{id: oddIDs[odd.Intn(len(oddIDs))], pair: 1 + odd.Intn(2), sym: 1 + odd.Intn(2), hmac: 1 + odd.Intn(2)}
			if odd.Intn(2) == 0 {
				h.clients = append([]clientSpec{c}, h.clients...)
			} else {
				h.clients = append(h.clients, c)
			}
		}
		h.poisonPair = rng.Intn(3)
		h.poisonSym = rng.Intn(2) * (1 + rng.Intn(2))
		h.logKey = rng.Intn(3)
		hs = append(hs, h)
	}
	return hs
}

// ---------------------------------------------------------------------------------------------
// secret scanner: no secret value, nor any 16-byte window of one, may occur in the bundle raw, as hex or as base64.

type secret struct {
	name string
	val  []byte
}

func secretsOf(d *ksdump.Dump) []secret {
	var out []secret
	seen := map[string]bool{}
	add := func(n string, v []byte) {
		if len(v) < 16 || seen[string(v)] {
			return
		}
		seen[string(v)] = true
		out = append(out, secret{n, append([]byte(nil), v...)})
	}
	for _, n := range d.Names() {
		e := d.E[n]
		if !e.OK() {
			continue
		}
		switch {
		case strings.HasPrefix(n, "priv"), strings.HasPrefix(n, "sym"), strings.HasPrefix(n, "hmac/"), n == ksdump.Log,
			n == ksdump.PoisonPriv, n == ksdump.PoisonAll, n == ksdump.PoisonSym, n == ksdump.PoisonSyms:
			for _, v := range e.Vals {
				// the EC private key container has a 12-byte public header (tag, size, crc): the secret is the body
				if len(v) == 45 && string(v[:4]) == "REC2" {
					add(n, v[12:])
				} else {
					add(n, v)
				}
			}
		case strings.HasPrefix(n, "ring/") && !strings.HasSuffix(n, "#current"):
			for _, v := range e.Vals {
				f := strings.Split(string(v), "|")
				if len(f) == 5 {
					for _, h := range f[3:] {
						if b, err := hex.DecodeString(h); err == nil && len(b) > 0 {
							if len(b) == 45 && string(b[:4]) == "REC2" {
								add(n, b[12:])
							} else {
								add(n, b)
							}
						}
					}
				}
			}
		}
	}
	return out
}

// scan returns a description of the first leak found, "" if none.
func scan(data []byte, secrets []secret) (string, int) {
	windows := 0
	for _, s := range secrets {
		for off := 0; off+16 <= len(s.val); off++ {
			w := s.val[off : off+16]
			windows++
			if bytes.Contains(data, w) {
				return fmt.Sprintf("%s: raw bytes of the key at offset %d", s.name, off), windows
			}
			hx := hex.EncodeToString(w)
			if bytes.Contains(data, []byte(hx)) || bytes.Contains(data, []byte(strings.ToUpper(hx))) {
				return fmt.Sprintf("%s: hex of the key at offset %d", s.name, off), windows
			}
			for pad := 0; pad < 3; pad++ {
				for _, enc := range []*base64.Encoding{base64.StdEncoding, base64.URLEncoding} {
					e := enc.EncodeToString(append(make([]byte, pad), w...))
					// drop the characters that depend on the bytes around the window
					core := e[4 : len(e)-4]
					if pad == 0 {
						core = e[:len(e)-4]
					}
					if bytes.Contains(data, []byte(core)) {
						return fmt.Sprintf("%s: base64 of the key at offset %d", s.name, off), windows
					}
				}
			}
		}
	}
	return "", windows
}
