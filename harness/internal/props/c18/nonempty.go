package c18

// Import into NON-EMPTY targets ("... and import into empty or non-empty targets"). The other layers import into empty
// keystores or into keystores that hold another client only; here the target already holds keys under the SAME names as
// the bundle: its own keys (generated independently, with and without rotation history), an older import of an EARLIER
// export of the same source (the source rotated in between), the identical bundle, keys of other clients only, a mix.
//
// Oracle (fidelity clause: "importing the bundle with the right access keys into another keystore makes exactly those
// keys available there with identical values and, where the format carries key history, the same order and current
// marker"):
//   - an import that reports success: every key of the selection is served by the target as the source serves it — the
//     current key is the source's current key, every rotated key of the source is readable, in the source's order; what
//     the target serves beyond that (v1 keeps the target's own rotated keys beside the imported ones) must be a key the
//     target held before; everything outside the selection (unselected keys of the source, other clients, key rings the
//     import delegate decided to skip) is what it was before the import;
//   - an import that refuses (error / conflict): no key the target held before may have changed.

import (
	"errors"
	"fmt"
	"sort"
	"strings"
	"time"

	acrakeys "github.com/cossacklabs/acra/cmd/acra-keys/keys"
	"github.com/cossacklabs/acra/keystore"
	keystoreV2 "github.com/cossacklabs/acra/keystore/v2/keystore"
	"github.com/cossacklabs/acra/keystore/v2/keystore/api"
	"github.com/cossacklabs/acra/keystore/v2/keystore/asn1"

	"verif/harness/internal/rig/ksdump"
	"verif/harness/internal/rig/ksrig"
)

// ---------------------------------------------------------------------------------------------
// one keystore of either format

type neStore struct {
	kind    string // "v1", "v1-two-dirs", "v2"
	v1      *v1Store
	v2      *v2Store
	clients [][]byte // the client ids a dump reads: those of the source history and the one that lives only in targets
}

func newNeStore(kind string, h historySpec) *neStore {
	clients := append(h.ids(), idT)
	switch kind {
	case "v1":
		return &neStore{kind: kind, v1: newV1(false), clients: clients}
	case "v1-two-dirs":
		return &neStore{kind: kind, v1: newV1(true), clients: clients}
	}
	return &neStore{kind: kind, v2: newV2(), clients: clients}
}

func (s *neStore) isV2() bool { return s.v2 != nil }

func (s *neStore) writer() writer {
	if s.v1 != nil {
		return s.v1.ks
	}
	return s.v2.ks
}

func (s *neStore) dump() *ksdump.Dump {
	if s.v1 != nil {
		return s.v1.dump(s.clients)
	}
	return s.v2.dump(s.clients)
}

func (s *neStore) raw() map[string]string {
	if s.v1 != nil {
		return s.v1.raw()
	}
	return s.v2.raw()
}

func (s *neStore) reopen() {
	if s.v1 != nil {
		s.v1.open()
		return
	}
	s.v2.open()
}

func (s *neStore) exporter() keystore.Exporter {
	if s.v1 != nil {
		return s.v1.backuper()
	}
	return s.v2.backuper()
}

func (s *neStore) importer() keystore.Importer {
	if s.v1 != nil {
		return s.v1.importer()
	}
	return s.v2.backuper()
}

func (s *neStore) dispose() {
	if s.v1 != nil {
		s.v1.dispose()
	}
}

// ---------------------------------------------------------------------------------------------
// transport: the library path (KeyBackuper.Export / Import) or the commands (files)

type neBundle struct {
	backup *keystore.KeysBackup // via "lib"
	files  *cmdFiles            // via "cmd"
	bytes  int
}

func (b *neBundle) dispose() {
	if b != nil && b.files != nil {
		b.files.dispose()
	}
}

func neFormat(kind, via string) string {
	if via == "cmd" {
		return "cmd-" + kind
	}
	return kind
}

// neExport exports one selection. A failure is a violation of its own (a keystore that holds the selected keys must export).
func (m *monitor) neExport(src *neStore, via string, h historySpec, sel selection, ids []keystore.ExportID, stage string) *neBundle {
	format := neFormat(src.kind, via)
	fail := func(what string, detail map[string]interface{}) *neBundle {
		m.r.Count("ne_exports_failed", 1)
		if detail == nil {
			detail = map[string]interface{}{}
		}
		detail["ids"], detail["source_stage"] = selectedIDs(ids), stage
		m.violate(format, h, sel.name, "-", what, detail)
		return nil
	}
	if via == "lib" {
		var b *keystore.KeysBackup
		var err error
		if !m.guard(format, h, sel.name, "-", "export", func() { b, err = src.exporter().Export(ids, sel.mode) }) {
			return nil
		}
		if err != nil {
			return fail(fmt.Sprintf("export-failed(%s)[source=%s]", normErr(err), stage), map[string]interface{}{"error": err.Error()})
		}
		m.r.Count("ne_exports_ok", 1)
		return &neBundle{backup: copyBackup(b), bytes: len(b.Data)}
	}
	f := newCmdFiles()
	all, private := flagsOf(sel)
	ep := &exportParams{exporter: src.exporter(), dataFile: f.data, keysFile: f.keys, ids: ids, all: all, private: private}
	out := runCommand(func() { acrakeys.ExportKeysCommand(ep) })
	switch {
	case out.panicked:
		f.dispose()
		return fail(fmt.Sprintf("panic(export-command@%s)", out.site), map[string]interface{}{"panic": out.panicVal})
	case out.fatal || ep.exported == nil:
		f.dispose()
		return fail(fmt.Sprintf("export-command-failed(%s)[source=%s]", normErr(fmt.Errorf("%s", out.message)), stage), map[string]interface{}{"fatal": out.message})
	}
	m.r.Count("ne_exports_ok", 1)
	return &neBundle{files: f, bytes: len(ep.exported.Data)}
}

type neOutcome struct {
	err      error // the import refused / failed (command: ended in log.Fatal)
	reported int   // number of key descriptions the import returned
	panicked bool
	site     string
	panicVal string
}

// neImport imports a bundle the way it was exported.
func (m *monitor) neImport(tgt *neStore, via string, b *neBundle) (out neOutcome) {
	if via == "lib" {
		defer func() {
			if p := recover(); p != nil {
				out.panicked, out.panicVal, out.site = true, fmt.Sprint(p), ksrig.FaultPanicSite(stackOf())
			}
		}()
		d, err := tgt.importer().Import(copyBackup(b.backup))
		out.err, out.reported = err, len(d)
		return out
	}
	ip := &importParams{importer: tgt.importer(), dataFile: b.files.data, keysFile: b.files.keys}
	c := runCommand(func() { acrakeys.ImportKeysCommand(ip) })
	switch {
	case c.panicked:
		out.panicked, out.panicVal, out.site = true, c.panicVal, c.site
	case c.fatal:
		out.err = errors.New(c.message)
	}
	out.reported = ip.n
	return out
}

// ---------------------------------------------------------------------------------------------
// what the target holds before the import

// The target recipes. Which of them produce a key of the SAME NAME with ANOTHER VALUE is measured per entry
// (ne_entries_compared_where_the_target_held_another_key), not assumed.
var neRecipes = []string{
	"own-keys",         // the target generated its own keys for the same clients and key kinds, one of each
	"own-keys-rotated", // the same with rotation history (2-3 generations)
	"earlier-export",   // the target imported an EARLIER export of the same source; the source rotated its keys since
	"same-bundle",      // the target imported this very bundle before
	"other-clients",    // the target holds keys of another client only (with rotation history)
	"mix",              // earlier export imported, then own new keys for the first client (and poison keys) on top, plus another client
	// own keys (rotated) for ONE of the source's clients only, the last one — the client the id selections leave out: its keys
	// must stay the target's; for --all the conflict comes after other keys of the bundle
	"own-keys-of-last-client",
}

// ownSpec: the source's clients and key kinds with gens generations each (nothing destroyed).
func ownSpec(h historySpec, gens int) historySpec {
	t := historySpec{name: h.name + "/own"}
	n := func(has int) int {
		if has > 0 {
			return gens
		}
		return 0
	}
	for i, c := range h.clients {
		cc := clientSpec{id: c.id, pair: n(c.pair), sym: n(c.sym), hmac: n(c.hmac)}
		if gens > 1 && i == 0 && cc.sym > 0 {
			cc.sym = 3
		}
		t.clients = append(t.clients, cc)
	}
	t.poisonPair, t.poisonSym, t.logKey = n(h.poisonPair), n(h.poisonSym), n(h.logKey)
	return t
}

var otherClientSpec = historySpec{name: "other", clients: []clientSpec{{id: idT, pair: 2, sym: 2, hmac: 1}}}

// rotateSource: what the source does between the earlier export and this one — one more generation of every key kind
// it has (a kind whose current key was destroyed stays destroyed: that state is part of the history under test).
func rotateSource(w writer, h historySpec) {
	for _, c := range h.clients {
		if c.pair > 0 && !c.destroyCurPair {
			must(w.GenerateDataEncryptionKeys(c.id))
		}
		if c.sym > 0 && !c.destroyCurSym {
			must(w.GenerateClientIDSymmetricKey(c.id))
		}
		if c.hmac > 0 {
			must(w.GenerateHmacKey(c.id))
		}
	}
	if h.poisonPair > 0 {
		must(w.GeneratePoisonKeyPair())
	}
	if h.poisonSym > 0 {
		must(w.GeneratePoisonSymmetricKey())
	}
	if h.logKey > 0 {
		must(w.GenerateLogKey())
	}
}

// nePrepare brings a fresh target into the state named by recipe. imp imports a bundle into the target (the transport
// or API under test); it returns false when the import did not succeed.
func nePrepare(recipe string, tgt *neStore, h historySpec, imp func(earlier bool) bool) bool {
	switch recipe {
	case "own-keys":
		ownSpec(h, 1).apply(tgt.writer())
	case "own-keys-rotated":
		ownSpec(h, 2).apply(tgt.writer())
	case "earlier-export":
		return imp(true)
	case "same-bundle":
		return imp(false)
	case "other-clients":
		otherClientSpec.apply(tgt.writer())
	case "own-keys-of-last-client":
		last := ownSpec(h, 2)
		historySpec{name: last.name, clients: last.clients[len(last.clients)-1:]}.apply(tgt.writer())
	case "mix":
		if !imp(true) {
			return false
		}
		tgt.reopen()
		w := tgt.writer()
		first := h.clients[0]
		// own new keys on top of the imported ones (the imported current keys become rotated keys of the target)
		if first.pair > 0 {
			must(w.GenerateDataEncryptionKeys(first.id))
		}
		if first.sym > 0 {
			must(w.GenerateClientIDSymmetricKey(first.id))
		}
		if first.hmac > 0 {
			must(w.GenerateHmacKey(first.id))
		}
		if h.poisonPair > 0 {
			must(w.GeneratePoisonKeyPair())
		}
		otherClientSpec.apply(w)
	}
	return true
}

// ---------------------------------------------------------------------------------------------
// the oracle

func isListEntry(n string) bool {
	return strings.HasPrefix(n, "privs/") || strings.HasPrefix(n, "syms/") || n == ksdump.PoisonAll || n == ksdump.PoisonSyms
}

// currentOf names the single-key entry that reads the current key of a list entry.
func currentOf(n string) string {
	switch {
	case strings.HasPrefix(n, "privs/"):
		return "priv/" + strings.TrimPrefix(n, "privs/")
	case strings.HasPrefix(n, "syms/"):
		return "sym/" + strings.TrimPrefix(n, "syms/")
	case n == ksdump.PoisonAll:
		return ksdump.PoisonPriv
	case n == ksdump.PoisonSyms:
		return ksdump.PoisonSym
	}
	return ""
}

// ringOfEntry: the v2 key ring an entry is read from.
func ringOfEntry(n string) string {
	if strings.HasPrefix(n, "ring/") {
		return strings.TrimSuffix(strings.TrimPrefix(n, "ring/"), "#current")
	}
	switch n {
	case ksdump.Log:
		return "audit-log"
	case ksdump.PoisonPub, ksdump.PoisonPriv, ksdump.PoisonAll:
		return "poison-record"
	case ksdump.PoisonSym, ksdump.PoisonSyms:
		return "poison-record-sym"
	}
	i := strings.Index(n, "/")
	if i < 0 {
		return ""
	}
	switch n[:i] {
	case "pub", "priv", "privs":
		return "client/" + n[i+1:] + "/storage"
	case "sym", "syms":
		return "client/" + n[i+1:] + "/storage-sym"
	case "hmac":
		return "client/" + n[i+1:] + "/hmac-sym"
	}
	return ""
}

func hasVal(vals [][]byte, v []byte) bool {
	for _, x := range vals {
		if string(x) == string(v) {
			return true
		}
	}
	return false
}

// subsequence matches want inside got in order; it returns the indexes of got that were NOT matched.
func subsequence(want, got [][]byte) (ok bool, extras []int) {
	j := 0
	for i := range got {
		if j < len(want) && string(got[i]) == string(want[j]) {
			j++
			continue
		}
		extras = append(extras, i)
	}
	return j == len(want), extras
}

type neCase struct {
	format, sel, target string
	h                   historySpec
	merge               bool // v1: an import adds files; the target's own rotated keys stay beside the imported ones
	src                 *ksdump.Dump
	ex                  expectation
	also                map[string]ksdump.Entry // entries outside the expectation that the bundle carries a half of (v1 poison pair read through GetPoisonKeyPair)
	replaced            map[string]bool         // v2: key rings the import wrote (in the bundle, not skipped by the delegate): a ring is replaced as a whole
	before, after       *ksdump.Dump
	detail              map[string]interface{}
}

func (c *neCase) details() map[string]interface{} {
	d := map[string]interface{}{"target_before_import": c.before.Render(), "target_after_import": c.after.Render(), "source": c.src.Render()}
	exp := map[string]string{}
	for n, e := range c.ex.present {
		exp[n] = e.String()
	}
	d["expected_from_source"] = exp
	for k, v := range c.detail {
		d[k] = v
	}
	return d
}

func entryOf(d *ksdump.Dump, n string) ksdump.Entry {
	if e, ok := d.E[n]; ok {
		return e
	}
	return ksdump.Entry{Err: "no such entry", Absent: true}
}

// compareNonEmpty judges the target after an import that reported success.
func (m *monitor) compareNonEmpty(c *neCase) {
	r := m.r
	bad := map[string][]string{}
	add := func(cls, n string) { bad[cls+oddTag(n)] = append(bad[cls+oddTag(n)], entryKind(n)) }
	for n, want := range c.ex.present {
		got, was := entryOf(c.after, n), entryOf(c.before, n)
		r.Count("ne_entries_compared", 1)
		r.Count("exported_entries_compared", 1)
		if strings.HasPrefix(n, "ring/") {
			r.Count("v2_ring_views_compared", 1)
		}
		conflict := want.OK() && was.OK() && len(was.Vals) > 0 && !was.Equal(want)
		if conflict {
			r.Count("ne_entries_compared_where_the_target_held_another_key", 1)
		}
		switch {
		case got.Panic != "":
			add("panic@"+got.Panic, n)
		case !want.OK():
			// the source itself does not serve this entry (current key destroyed): the bundle carries no such key. Whatever the
			// target serves here must be what it served before.
			r.Count("ne_entries_unreadable_on_source", 1)
			if got.OK() {
				for _, v := range got.Vals {
					if !was.OK() || !hasVal(was.Vals, v) {
						add("readable-though-unreadable-on-source", n)
						break
					}
				}
			}
		case !got.OK():
			add("missing", n)
		case !c.merge || !isListEntry(n):
			if got.Equal(want) {
				if conflict {
					r.Count("ne_keys_of_the_target_replaced_by_the_imported_key", 1)
				}
				continue
			}
			switch {
			case conflict && got.Equal(was):
				add("target-still-serves-its-own-key", n)
			case len(got.Vals) == len(want.Vals) && len(got.Vals) > 0 && allZero(got.Vals[0]) && !allZero(want.Vals[0]):
				add("all-zero-value", n)
			case len(got.Vals) != len(want.Vals):
				add("history-length-differs", n)
			default:
				add("differs", n)
			}
		default:
			// v1 key list, newest first: the source's keys in the source's order; the current key first when the source has one
			cur := entryOf(c.src, currentOf(n))
			ok, extras := subsequence(want.Vals, got.Vals)
			switch {
			case len(want.Vals) > 0 && cur.OK() && len(cur.Vals) == 1 && string(cur.Vals[0]) == string(want.Vals[0]) &&
				(len(got.Vals) == 0 || string(got.Vals[0]) != string(want.Vals[0])):
				if was.OK() && len(was.Vals) > 0 && len(got.Vals) > 0 && string(got.Vals[0]) == string(was.Vals[0]) {
					add("target-still-serves-its-own-key", n)
				} else {
					add("current-key-is-not-the-source's", n)
				}
			case !ok:
				all := true
				for _, v := range want.Vals {
					all = all && hasVal(got.Vals, v)
				}
				if all {
					add("order-differs", n)
				} else {
					add("rotated-keys-missing", n)
				}
			default:
				foreign := false
				for _, i := range extras {
					if !was.OK() || !hasVal(was.Vals, got.Vals[i]) {
						foreign = true
					}
				}
				if foreign {
					add("key-in-history-that-neither-source-nor-target-had", n)
				} else {
					if len(extras) > 0 {
						r.Count("ne_key_lists_that_keep_rotated_keys_of_the_target", 1)
					}
					if conflict {
						r.Count("ne_keys_of_the_target_replaced_by_the_imported_key", 1)
					}
				}
			}
		}
	}
	for key, kinds := range bad {
		cls, idc := splitOddTag(key)
		m.violate(c.format, c.h, c.sel, c.target, fmt.Sprintf("exported-key-not-identical(%s:%s)%s", cls, joinKinds(kinds), idc), c.details())
	}
	// everything else: what it was before
	changed := map[string][]string{}
	names := map[string]bool{}
	for _, n := range c.after.Names() {
		names[n] = true
	}
	for _, n := range c.before.Names() {
		names[n] = true
	}
	for n := range names {
		if _, exp := c.ex.present[n]; exp {
			continue
		}
		r.Count("unselected_entries_checked_absent", 1)
		got, was := entryOf(c.after, n), entryOf(c.before, n)
		if got.Panic != "" {
			m.violate(c.format, c.h, c.sel, c.target, fmt.Sprintf("panic-reading-target(%s@%s)", entryKind(n), got.Panic), c.details())
			continue
		}
		if carriesKey(n, c.before) {
			r.Count("ne_unselected_keys_of_the_target_checked_unchanged", 1)
		}
		if !carriesKey(n, c.after) && !carriesKey(n, c.before) {
			continue
		}
		if sameLoose(got, was) {
			continue
		}
		if c.replaced[ringOfEntry(n)] && !carriesKey(n, c.after) {
			// v2 replaces a key ring as a whole ("Overwrite existing key ring with new data"): with a public-only bundle the
			// private keys the target had in that ring are gone. Nothing appeared; the ring itself is compared above.
			r.Count("ne_v2_own_keys_of_the_target_gone_with_a_replaced_key_ring", 1)
			continue
		}
		if a, ok := c.also[n]; ok && a.OK() && got.Equal(a) {
			r.Count("ne_half_pairs_completed_by_the_target's_other_half", 1)
			continue
		}
		changed[oddTag(n)] = append(changed[oddTag(n)], entryKind(n))
	}
	for key, kinds := range changed {
		_, idc := splitOddTag(key)
		m.violate(c.format, c.h, c.sel, c.target, fmt.Sprintf("unselected-key-appeared-or-changed(%s)%s", joinKinds(kinds), idc), c.details())
	}
}

// refusedNonEmpty judges the target after an import that reported an error: no key the target held may have changed.
// Keys of the bundle that arrived before the import gave up are counted (see notes: the v2 import works ring by ring);
// they must be the source's.
func (m *monitor) refusedNonEmpty(c *neCase, rawSame bool) {
	r := m.r
	r.Count("ne_imports_refused", 1)
	if rawSame {
		r.Count("ne_refused_imports_storage_unchanged", 1)
	}
	changed, foreign := map[string][]string{}, map[string][]string{}
	arrived := 0
	names := map[string]bool{}
	for _, n := range c.after.Names() {
		names[n] = true
	}
	for _, n := range c.before.Names() {
		names[n] = true
	}
	for n := range names {
		got, was := entryOf(c.after, n), entryOf(c.before, n)
		if got.Panic != "" {
			m.violate(c.format, c.h, c.sel, c.target, fmt.Sprintf("panic-reading-target(%s@%s)", entryKind(n), got.Panic), c.details())
			continue
		}
		if carriesKey(n, c.before) {
			r.Count("ne_refused_imports_keys_of_the_target_checked", 1)
		}
		if (!carriesKey(n, c.after) && !carriesKey(n, c.before)) || sameLoose(got, was) {
			continue
		}
		if carriesKey(n, c.before) {
			changed[oddTag(n)] = append(changed[oddTag(n)], entryKind(n))
			continue
		}
		arrived++
		if want, ok := c.ex.present[n]; !ok || !got.Equal(want) {
			foreign[oddTag(n)] = append(foreign[oddTag(n)], entryKind(n))
		}
	}
	for key, kinds := range changed {
		_, idc := splitOddTag(key)
		m.violate(c.format, c.h, c.sel, c.target, fmt.Sprintf("refused-import-changed-key-of-the-target(%s)%s", joinKinds(kinds), idc), c.details())
	}
	for key, kinds := range foreign {
		_, idc := splitOddTag(key)
		m.violate(c.format, c.h, c.sel, c.target, fmt.Sprintf("refused-import-left-key-that-is-not-the-exported-one(%s)%s", joinKinds(kinds), idc), c.details())
	}
	if arrived > 0 {
		r.Count("ne_refused_imports_after_which_part_of_the_bundle_had_arrived", 1)
	} else if len(changed) == 0 {
		r.Count("ne_refused_imports_target_unchanged", 1)
	}
}

// alsoCarried: v1 reads the poison pair through GetPoisonKeyPair (both halves). A selection that carries one half only
// completes a pair with the half the target already has; that half-imported pair is not an "unselected key".
func alsoCarried(src *ksdump.Dump) map[string]ksdump.Entry {
	return map[string]ksdump.Entry{ksdump.PoisonPriv: entryOf(src, ksdump.PoisonPriv), ksdump.PoisonPub: entryOf(src, ksdump.PoisonPub)}
}

// ---------------------------------------------------------------------------------------------
// scenarios

// nonEmptyScenario: one source keystore of the given format, exported before and after a rotation, through the library
// and the commands (vias); each bundle imported into targets of every recipe.
func (m *monitor) nonEmptyScenario(kind string, h historySpec, vias []string) {
	r := m.r
	src := newNeStore(kind, h)
	defer src.dispose()
	h.apply(src.writer())
	dump0 := src.dump()
	type key struct{ via, sel string }
	earlier, current := map[key]*neBundle{}, map[key]*neBundle{}
	defer func() {
		for _, b := range earlier {
			b.dispose()
		}
		for _, b := range current {
			b.dispose()
		}
	}()
	selIDs := map[string][]keystore.ExportID{}
	var sels []selection
	for _, sel := range selections {
		ids := sel.ids(h)
		if strings.HasPrefix(sel.name, "ids") && len(ids) == 0 {
			continue
		}
		if kind == "v1-two-dirs" && !r.Thorough() && sel.name != "all+private" && sel.name != "ids-public" {
			continue // quick: the two selections whose content depends on the separate public directory
		}
		sels = append(sels, sel)
		selIDs[sel.name] = ids
		for _, via := range vias {
			if m.neSkipCmd(kind, via, sel.name) {
				continue
			}
			earlier[key{via, sel.name}] = m.neExport(src, via, h, sel, ids, "before-rotation")
		}
	}
	src.reopen()
	rotateSource(src.writer(), h)
	dump1 := src.dump()
	for _, sel := range sels {
		for _, via := range vias {
			if m.neSkipCmd(kind, via, sel.name) {
				continue
			}
			current[key{via, sel.name}] = m.neExport(src, via, h, sel, selIDs[sel.name], "after-rotation")
		}
	}
	for _, sel := range sels {
		ids := selIDs[sel.name]
		var ex expectation
		replaced := map[string]bool{}
		if src.isV2() {
			var rings []string
			ex, rings = expectV2(dump1, sel, ids)
			for _, p := range rings {
				replaced[p] = true
			}
		} else {
			ex = expectV1(dump1, h, sel, ids, kind == "v1-two-dirs")
		}
		// how much of the selection the rotation superseded (measured: makes "earlier-export" differ from "same-bundle")
		var exEarlier expectation
		if src.isV2() {
			exEarlier, _ = expectV2(dump0, sel, ids)
		} else {
			exEarlier = expectV1(dump0, h, sel, ids, kind == "v1-two-dirs")
		}
		for n, e := range ex.present {
			if o, ok := exEarlier.present[n]; ok && o.OK() && e.OK() && !o.Equal(e) {
				r.Count("ne_selected_entries_superseded_since_the_earlier_export", 1)
			}
		}
		for _, via := range vias {
			cur, prev := current[key{via, sel.name}], earlier[key{via, sel.name}]
			if cur == nil || prev == nil {
				continue
			}
			format := neFormat(kind, via)
			for _, recipe := range neRecipes {
				r.Case()
				target := "nonempty:" + recipe
				tgt := newNeStore(kind, h)
				setupOK := true
				var setupErr string
				prepared := func() (ok bool) {
					defer func() {
						if p := recover(); p != nil {
							ok = false
							m.violate(format, h, sel.name, target, fmt.Sprintf("panic(preparing-target@%s)", ksrig.FaultPanicSite(stackOf())), map[string]interface{}{"panic": fmt.Sprint(p)})
						}
					}()
					return nePrepare(recipe, tgt, h, func(early bool) bool {
						b := cur
						if early {
							b = prev
						}
						tgt.reopen()
						o := m.neImport(tgt, via, b)
						if o.panicked || o.err != nil {
							setupOK = false
							setupErr = fmt.Sprint(o.err, o.panicVal)
							return false
						}
						return true
					})
				}()
				if !prepared {
					// the first import goes into an EMPTY keystore: its failure is what the empty-target cases report
					if !setupOK {
						r.Count("ne_targets_not_prepared_because_the_import_into_the_empty_keystore_failed", 1)
						r.SetAdd("ne_setup_failures", format+":"+normErr(errors.New(setupErr)))
					}
					tgt.dispose()
					continue
				}
				before, rawBefore := tgt.dump(), tgt.raw()
				tgt.reopen()
				o := m.neImport(tgt, via, cur)
				after, rawAfter := tgt.dump(), tgt.raw()
				rawSame, firstDiff := rawEqual(rawBefore, rawAfter)
				c := &neCase{format: format, sel: sel.name, target: target, h: h, merge: !src.isV2(), src: dump1, ex: ex, also: alsoCarried(dump1), before: before, after: after,
					detail: map[string]interface{}{"ids": selectedIDs(ids), "recipe": recipe, "via": via, "import_error": fmt.Sprint(o.err), "keys_reported_by_import": o.reported,
						"storage_unchanged": rawSame, "first_storage_difference": firstDiff, "bundle_bytes": cur.bytes, "earlier_bundle_bytes": prev.bytes}}
				if src.isV2() {
					c.also, c.replaced = nil, replaced
				}
				m.neJudge(c, o, recipe, rawSame)
				if o.err == nil && !o.panicked && tgt.v1 != nil {
					// v1 public-only export of the poison public key: no getter reads it alone, compared at file level (as in v1Scenario)
					for rel, want := range ex.files {
						r.Count("ne_entries_compared", 1)
						if got, err := tgt.v1.readPub(rel); err != nil || string(got) != string(want) {
							m.violate(format, h, sel.name, target, "exported-key-not-identical(poison.pub-file:differs)", c.details())
						}
					}
				}
				tgt.dispose()
			}
		}
	}
}

// neJudge: common tail of a non-empty-target case.
func (m *monitor) neJudge(c *neCase, o neOutcome, recipe string, rawSame bool) {
	r := m.r
	r.SetAdd("ne_formats", c.format)
	switch {
	case o.panicked:
		c.detail["panic"] = o.panicVal
		m.violate(c.format, c.h, c.sel, c.target, fmt.Sprintf("panic(import@%s)", o.site), c.details())
		return
	case o.err != nil:
		r.Distinct(fmt.Sprintf("%s|%s|%s|%s|refused", c.format, histClass(c.h), c.sel, c.target))
		r.Count("ne_imports_refused:"+recipe, 1)
		r.SetAdd("ne_refusals", c.format+":"+normErr(o.err))
		m.refusedNonEmpty(c, rawSame)
	default:
		r.Distinct(fmt.Sprintf("%s|%s|%s|%s|imported", c.format, histClass(c.h), c.sel, c.target))
		r.Count("ne_imports_ok", 1)
		r.Count("imports_ok", 1)
		r.Count("ne_imports_ok:"+recipe, 1)
		r.SetAdd("ne_recipes_imported", recipe)
		if strings.Contains(c.format, "v1") {
			r.Count("ne_imports_ok_v1", 1)
		}
		m.compareNonEmpty(c)
	}
	outcome := "imported"
	if o.err != nil {
		outcome = "refused: " + normErr(o.err)
	}
	r.SampleN("nonempty:"+c.format+":"+recipe+":"+strings.SplitN(outcome, ":", 2)[0], 1, map[string]interface{}{
		"what": "import into a non-empty target, compared", "format": c.format, "history": c.h.String(), "selection": c.sel, "target": c.target, "outcome": outcome,
		"keys_reported_by_import": o.reported, "expected_entries": len(c.ex.present), "storage_unchanged": rawSame, "policy": c.detail["policy"],
		"target_before": c.before.Render(), "target_after": c.after.Render()})
}

// ---------------------------------------------------------------------------------------------
// v2 API level: ExportKeyRings / ImportKeyRings with every conflict policy a delegate can express

var errRefusedByDelegate = errors.New("delegate: key ring exists, import aborted")

// recDelegate answers by policy and records what it was asked and what it answered.
type recDelegate struct {
	policy    string
	asked     []string
	decisions map[string]api.ImportDecision
}

func (d *recDelegate) DecideKeyRingOverwrite(currentData, newData *asn1.KeyRing) (api.ImportDecision, error) {
	p := string(newData.Purpose)
	var dec api.ImportDecision
	switch d.policy {
	case "abort":
		dec = api.ImportAbort
	case "skip":
		dec = api.ImportSkip
	case "overwrite":
		dec = api.ImportOverwrite
	case "overwrite-and-skip-alternately":
		dec = api.ImportOverwrite
		if len(d.asked)%2 == 1 {
			dec = api.ImportSkip
		}
	case "skip-and-overwrite-alternately":
		dec = api.ImportSkip
		if len(d.asked)%2 == 1 {
			dec = api.ImportOverwrite
		}
	}
	d.asked = append(d.asked, p)
	d.decisions[p] = dec
	if dec == api.ImportAbort {
		return dec, errRefusedByDelegate
	}
	return dec, nil
}

// nePolicies: nil delegate (the default of ImportKeyRings, what KeyBackuper.Import passes) and the decisions of api.ImportDecision.
var nePolicies = []string{"default", "abort", "skip", "overwrite", "overwrite-and-skip-alternately", "skip-and-overwrite-alternately"}

func (m *monitor) nonEmptyV2API(h historySpec) {
	r := m.r
	format := "v2-api"
	src := newNeStore("v2", h)
	h.apply(src.writer())
	suite, err := keystoreV2.NewSCellSuite(ksrig.RandBytes(32), ksrig.RandBytes(32))
	must(err)
	modes := []selection{{name: "rings+private", mode: keystore.ExportPrivateKeys}, {name: "rings-public", mode: keystore.ExportPublicOnly}}
	export := func(sel selection, d *ksdump.Dump, stage string) []byte {
		var rings []string
		for _, p := range d.L["ListKeyRings"].Items {
			if sel.mode&keystore.ExportPrivateKeys != 0 || isPairRing(p) {
				rings = append(rings, p)
			}
		}
		sort.Strings(rings)
		var data []byte
		var err error
		if !m.guard(format, h, sel.name, "-", "export", func() { data, err = src.v2.ks.ExportKeyRings(rings, suite, sel.mode) }) {
			return nil
		}
		if err != nil {
			m.violate(format, h, sel.name, "-", fmt.Sprintf("export-failed(%s)[source=%s]", normErr(err), stage), map[string]interface{}{"rings": rings})
			return nil
		}
		r.Count("ne_exports_ok", 1)
		return data
	}
	dump0 := src.dump()
	earlier := map[string][]byte{}
	for _, sel := range modes {
		earlier[sel.name] = export(sel, dump0, "before-rotation")
	}
	src.reopen()
	rotateSource(src.writer(), h)
	dump1 := src.dump()
	for _, sel := range modes {
		cur, prev := export(sel, dump1, "after-rotation"), earlier[sel.name]
		if cur == nil || prev == nil {
			continue
		}
		exAll, rings := expectV2(dump1, sel, nil)
		for _, recipe := range neRecipes {
			for _, policy := range nePolicies {
				if !r.Thorough() && sel.name == "rings-public" && !strings.Contains(policy, "overwrite") {
					continue // quick: a public-only bundle only with the policies that write it over rings with private keys
				}
				r.Case()
				target := "nonempty:" + recipe + "/" + policy
				tgt := newNeStore("v2", h)
				setupErr := ""
				prepared := func() (ok bool) {
					defer func() {
						if p := recover(); p != nil {
							ok = false
							m.violate(format, h, sel.name, target, fmt.Sprintf("panic(preparing-target@%s)", ksrig.FaultPanicSite(stackOf())), map[string]interface{}{"panic": fmt.Sprint(p)})
						}
					}()
					return nePrepare(recipe, tgt, h, func(early bool) bool {
						b := cur
						if early {
							b = prev
						}
						tgt.reopen()
						if _, err := tgt.v2.ks.ImportKeyRings(append([]byte(nil), b...), suite, nil); err != nil {
							setupErr = err.Error()
							return false
						}
						return true
					})
				}()
				if !prepared {
					if setupErr != "" {
						r.Count("ne_targets_not_prepared_because_the_import_into_the_empty_keystore_failed", 1)
						r.SetAdd("ne_setup_failures", format+":"+normErr(errors.New(setupErr)))
					}
					continue
				}
				before, rawBefore := tgt.dump(), tgt.raw()
				tgt.reopen()
				var dlg api.KeyRingImportDelegate
				rec := &recDelegate{policy: policy, decisions: map[string]api.ImportDecision{}}
				if policy != "default" {
					dlg = rec
				}
				var o neOutcome
				var processed []string
				func() {
					defer func() {
						if p := recover(); p != nil {
							o.panicked, o.panicVal, o.site = true, fmt.Sprint(p), ksrig.FaultPanicSite(stackOf())
						}
					}()
					processed, o.err = tgt.v2.ks.ImportKeyRings(append([]byte(nil), cur...), suite, dlg)
					o.reported = len(processed)
				}()
				after, rawAfter := tgt.dump(), tgt.raw()
				rawSame, firstDiff := rawEqual(rawBefore, rawAfter)
				// key rings the delegate decided to skip are not imported: they belong to "everything else is what it was"
				ex := expectation{present: map[string]ksdump.Entry{}}
				replaced := map[string]bool{}
				for _, p := range rings {
					if !(hasDecision(rec, p) && rec.decisions[p] == api.ImportSkip) {
						replaced[p] = true
					}
				}
				skipped, overwritten := 0, 0
				for n, e := range exAll.present {
					if rec.decisions[ringOfEntry(n)] == api.ImportSkip && hasDecision(rec, ringOfEntry(n)) {
						continue
					}
					ex.present[n] = e
				}
				for _, d := range rec.decisions {
					switch d {
					case api.ImportSkip:
						skipped++
					case api.ImportOverwrite:
						overwritten++
					}
				}
				r.Count("ne_v2_key_rings_the_delegate_was_asked_about", int64(len(rec.asked)))
				r.Count("ne_v2_key_rings_skipped_by_the_delegate", int64(skipped))
				r.Count("ne_v2_key_rings_overwritten_by_the_delegate", int64(overwritten))
				r.SetAdd("ne_v2_policies", policy)
				c := &neCase{format: format, sel: sel.name, target: target, h: h, src: dump1, ex: ex, replaced: replaced, before: before, after: after,
					detail: map[string]interface{}{"recipe": recipe, "policy": policy, "exported_rings": rings, "import_error": fmt.Sprint(o.err), "processed_rings": processed,
						"delegate_asked_about": rec.asked, "delegate_decisions": fmt.Sprint(rec.decisions), "storage_unchanged": rawSame, "first_storage_difference": firstDiff}}
				if o.err == nil && !o.panicked {
					// a successful import names every ring of the bundle as processed
					if len(processed) != len(rings) {
						c.detail["rings_in_bundle"] = len(rings)
						m.violate(format, h, sel.name, target, "import-reports-other-number-of-key-rings-than-the-bundle-holds", c.details())
					}
				}
				m.neJudge(c, o, recipe, rawSame)
			}
		}
	}
}

func hasDecision(d *recDelegate, ring string) bool {
	_, ok := d.decisions[ring]
	return ok
}

// ---------------------------------------------------------------------------------------------

// neQuickHistories: the source histories the quick tier runs through this layer (thorough: all).
var neQuickHistories = map[string]bool{"single-keys": true, "rotated-clients": true, "rotated+destroyed": true, "seeded-0": true}

// neQuickCmdSelections: the selections the quick tier also sends through the commands (thorough: all four); the library
// path runs all four in both tiers.
var neQuickCmdSelections = map[string]bool{"all": true, "ids+private": true}

// neSkipCmd: the quick tier sends fewer selections through the commands (the Importer behind them is the one of the library
// path; the commands add the two files): v2 (in memory) the two above, v1 (on disk) only --all.
func (m *monitor) neSkipCmd(kind, via, sel string) bool {
	if via != "cmd" || m.r.Thorough() {
		return false
	}
	if kind != "v2" {
		return sel != "all"
	}
	return !neQuickCmdSelections[sel]
}

func (m *monitor) nonEmptyLayer(hs []historySpec) {
	r := m.r
	wall := map[string]float64{} // information only
	defer func() { r.Extra("non_empty_target_layer_wall_s_by_format", wall) }()
	for _, h := range hs {
		if !r.Thorough() && !neQuickHistories[h.name] {
			continue
		}
		t0 := time.Now()
		m.nonEmptyScenario("v1", h, []string{"lib", "cmd"})
		if r.Thorough() || h.name == "rotated-clients" {
			m.nonEmptyScenario("v1-two-dirs", h, []string{"lib"})
		}
		t1 := time.Now()
		m.nonEmptyScenario("v2", h, []string{"lib", "cmd"})
		t2 := time.Now()
		m.nonEmptyV2API(h)
		wall["v1"] += t1.Sub(t0).Seconds()
		wall["v2"] += t2.Sub(t1).Seconds()
		wall["v2-api"] += time.Since(t2).Seconds()
	}
	r.RequireAtLeast("ne_imports_ok", 200)
	r.RequireAtLeast("ne_imports_ok_v1", 80)
	r.RequireAtLeast("ne_imports_refused", 100)
	r.RequireAtLeast("ne_entries_compared", 2000)
	r.RequireAtLeast("ne_entries_compared_where_the_target_held_another_key", 500)
	r.RequireAtLeast("ne_keys_of_the_target_replaced_by_the_imported_key", 300)
	r.RequireAtLeast("ne_key_lists_that_keep_rotated_keys_of_the_target", 20)
	r.RequireAtLeast("ne_selected_entries_superseded_since_the_earlier_export", 50)
	r.RequireAtLeast("ne_unselected_keys_of_the_target_checked_unchanged", 300)
	r.RequireAtLeast("ne_refused_imports_keys_of_the_target_checked", 500)
	r.RequireAtLeast("ne_v2_key_rings_skipped_by_the_delegate", 50)
	r.RequireAtLeast("ne_v2_key_rings_overwritten_by_the_delegate", 50)
	r.RequireSetAtLeast("ne_recipes_imported", len(neRecipes))
	r.RequireSetAtLeast("ne_formats", 6)
	r.RequireSetAtLeast("ne_v2_policies", len(nePolicies))
	for _, recipe := range neRecipes {
		r.RequireAtLeast("ne_imports_ok:"+recipe, 10)
	}
}
