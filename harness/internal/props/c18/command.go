package c18

// Command-level path of `acra-keys export` / `acra-keys import`: the bundle and its access keys travel through FILES
// (--key_bundle_file / --key_bundle_secret), written by keys.ExportKeysCommand (-> WriteExportedData) and read back by
// keys.ImportKeysCommand. The files are REUSED across successive exports of different size, as an operator does who
// always exports to the same two paths.

import (
	"bytes"
	"fmt"
	"os"
	"path/filepath"
	"strings"

	"github.com/sirupsen/logrus"

	acrakeys "github.com/cossacklabs/acra/cmd/acra-keys/keys"
	"github.com/cossacklabs/acra/keystore"

	"verif/harness/internal/ev"
	"verif/harness/internal/rig/ksdump"
	"verif/harness/internal/rig/ksrig"
)

// ---------------------------------------------------------------------------------------------
// parameter objects of the two commands (the interfaces of package keys; the Subcommand structs have unexported fields)

// exportParams implements keys.ExportKeysParams; it remembers what the Exporter returned to the command.
type exportParams struct {
	exporter           keystore.Exporter
	dataFile, keysFile string
	ids                []keystore.ExportID
	all, private       bool

	exported *keystore.KeysBackup // copy of what Export returned (nil: Export was not called or failed)
	mode     keystore.ExportMode
	err      error
}

func (p *exportParams) Export(ids []keystore.ExportID, mode keystore.ExportMode) (*keystore.KeysBackup, error) {
	b, err := p.exporter.Export(ids, mode)
	p.mode, p.err = mode, err
	if err == nil && b != nil {
		p.exported = copyBackup(b)
	}
	return b, err
}
func (p *exportParams) ExportKeysFile() string         { return p.keysFile }
func (p *exportParams) ExportDataFile() string         { return p.dataFile }
func (p *exportParams) ExportIDs() []keystore.ExportID { return p.ids }
func (p *exportParams) ExportAll() bool                { return p.all }
func (p *exportParams) ExportPrivate() bool            { return p.private }

// importParams implements keys.ImportKeysParams; it remembers what the command read from the files and handed to Import.
type importParams struct {
	importer           keystore.Importer
	dataFile, keysFile string

	handed *keystore.KeysBackup
	err    error
	n      int
}

func (p *importParams) Import(b *keystore.KeysBackup) ([]keystore.KeyDescription, error) {
	p.handed = copyBackup(b)
	d, err := p.importer.Import(b)
	p.err, p.n = err, len(d)
	return d, err
}
func (p *importParams) ExportKeysFile() string { return p.keysFile }
func (p *importParams) ExportDataFile() string { return p.dataFile }
func (p *importParams) UseJSON() bool          { return true }
func (p *importParams) ListRotatedKeys() bool  { return false }

// flagsOf: the command-line flags a selection stands for (see `selections`).
func flagsOf(sel selection) (all, private bool) {
	switch sel.name {
	case "all":
		return true, false
	case "all+private":
		return true, true
	case "ids+private":
		return false, true
	}
	return false, false
}

// ---------------------------------------------------------------------------------------------
// running a command function: log.Fatal is a process exit in the real command

type fatalHook struct{ lastFatal, lastError string }

func (h *fatalHook) Levels() []logrus.Level {
	return []logrus.Level{logrus.FatalLevel, logrus.ErrorLevel}
}
func (h *fatalHook) Fire(e *logrus.Entry) error {
	msg := e.Message
	if err, ok := e.Data[logrus.ErrorKey]; ok {
		msg += ": " + fmt.Sprint(err)
	}
	if e.Level == logrus.FatalLevel {
		h.lastFatal = msg
	} else {
		h.lastError = msg
	}
	return nil
}

var cmdLog = &fatalHook{}
var cmdLogInstalled bool

type cmdOutcome struct {
	fatal    bool   // the command ended in log.Fatal (exit status 1)
	message  string // its message
	panicked bool
	panicVal string
	site     string
}

// runCommand runs one command function of package keys the way main() would: log.Fatal ends it (the monitor's ExitFunc
// panics, recovered here and told apart from a genuine panic); what the command prints on stdout goes to /dev/null.
func runCommand(f func()) (out cmdOutcome) {
	if !cmdLogInstalled {
		logrus.AddHook(cmdLog)
		cmdLogInstalled = true
	}
	cmdLog.lastFatal, cmdLog.lastError = "", ""
	stdout := os.Stdout
	if null, err := os.OpenFile(os.DevNull, os.O_WRONLY, 0); err == nil {
		os.Stdout = null
		defer func() { os.Stdout = stdout; null.Close() }()
	}
	defer func() {
		if p := recover(); p != nil {
			if s, ok := p.(string); ok && strings.HasPrefix(s, "logrus.Fatal -> os.Exit(") {
				out.fatal, out.message = true, cmdLog.lastFatal
				return
			}
			out.panicked, out.panicVal, out.site = true, fmt.Sprint(p), ksrig.FaultPanicSite(stackOf())
		}
	}()
	f()
	return out
}

// ---------------------------------------------------------------------------------------------
// the two output files

type fileState struct {
	exists  bool
	content []byte
	mode    os.FileMode
}

func readState(path string) fileState {
	fi, err := os.Stat(path)
	if err != nil {
		return fileState{}
	}
	b, err := os.ReadFile(path)
	if err != nil {
		return fileState{}
	}
	return fileState{exists: true, content: b, mode: fi.Mode().Perm()}
}

// reuseKind names the history of one output path from measured sizes: what the previous export through this path
// produced (lastLen; when unknown, what the file holds) vs. what this export produced.
func reuseKind(before fileState, lastLen, newLen int) string {
	if !before.exists {
		return "fresh-path"
	}
	if lastLen < 0 {
		lastLen = len(before.content)
	}
	switch {
	case newLen < lastLen:
		return "longer-then-shorter"
	case newLen > lastLen:
		return "shorter-then-longer"
	}
	return "same-size"
}

// fileVerdict compares what a file holds after the export with the bytes the Exporter produced and with what the file
// held before. The first three verdicts that are not "as-exported" say that the file depends on its EARLIER content.
func fileVerdict(after, before fileState, exported []byte) string {
	switch {
	case !after.exists:
		return "missing"
	case bytes.Equal(after.content, exported):
		return "as-exported"
	}
	if before.exists {
		n := len(exported)
		switch {
		case len(after.content) > n && len(after.content) == len(before.content) && bytes.Equal(after.content[:n], exported) && bytes.Equal(after.content[n:], before.content[n:]):
			return "holds-tail-of-earlier-export"
		case bytes.Equal(after.content, append(append([]byte(nil), before.content...), exported...)):
			return "appended-to-earlier-export"
		case bytes.Equal(after.content, before.content):
			return "still-holds-earlier-export"
		}
	}
	if len(after.content) < len(exported) && bytes.Equal(after.content, exported[:len(after.content)]) {
		return "holds-only-a-prefix"
	}
	return "differs-from-exported-bytes"
}

func dependsOnEarlierContent(verdict string) bool {
	return verdict == "holds-tail-of-earlier-export" || verdict == "appended-to-earlier-export" || verdict == "still-holds-earlier-export"
}

type cmdFiles struct {
	dir, data, keys string
	// sizes of what the last successful export through these paths produced (-1: none yet)
	lastData, lastKeys int
}

func newCmdFiles() *cmdFiles {
	d := ksrig.ScratchDir("c18-cmdfiles")
	must(os.Chmod(d, 0700))
	return &cmdFiles{dir: d, data: filepath.Join(d, "keys.dat"), keys: filepath.Join(d, "access-keys.txt"), lastData: -1, lastKeys: -1}
}

func (f *cmdFiles) dispose() { os.RemoveAll(f.dir) }

// ---------------------------------------------------------------------------------------------
// one side of a command-level case

// cmdSource is a source keystore as the export command sees it.
type cmdSource struct {
	format   string // "cmd-v1", "cmd-v1-two-dirs", "cmd-v2"
	exporter func() keystore.Exporter
	dump     *ksdump.Dump
	expect   func(sel selection, ids []keystore.ExportID) expectation
	// newTarget creates an EMPTY keystore of the same format and returns what the import command needs
	newTarget func() *cmdTarget
}

type cmdTarget struct {
	dump     func() *ksdump.Dump
	reopen   func()
	importer func() keystore.Importer
	readPub  func(rel string) ([]byte, error) // v1 only
	dispose  func()
}

func v1CmdSource(h historySpec, twoDirs bool) (*cmdSource, func()) {
	src := newV1(twoDirs)
	h.apply(src.ks)
	d := src.dump(allIDs)
	format := "cmd-v1"
	if twoDirs {
		format = "cmd-v1-two-dirs"
	}
	return &cmdSource{
		format:   format,
		exporter: func() keystore.Exporter { return src.backuper() },
		dump:     d,
		expect:   func(sel selection, ids []keystore.ExportID) expectation { return expectV1(d, h, sel, ids, twoDirs) },
		newTarget: func() *cmdTarget {
			t := newV1(twoDirs)
			return &cmdTarget{
				dump:     func() *ksdump.Dump { return t.dump(allIDs) },
				reopen:   t.open,
				importer: func() keystore.Importer { return t.importer() },
				readPub:  t.readPub,
				dispose:  t.dispose,
			}
		},
	}, src.dispose
}

func v2CmdSource(h historySpec) (*cmdSource, func()) {
	src := newV2()
	h.apply(src.ks)
	d := src.dump(allIDs)
	return &cmdSource{
		format:   "cmd-v2",
		exporter: func() keystore.Exporter { return src.backuper() },
		dump:     d,
		expect: func(sel selection, ids []keystore.ExportID) expectation {
			ex, _ := expectV2(d, sel, ids)
			return ex
		},
		newTarget: func() *cmdTarget {
			t := newV2()
			return &cmdTarget{
				dump:     func() *ksdump.Dump { return t.dump(allIDs) },
				reopen:   t.open,
				importer: func() keystore.Importer { return t.backuper() },
				dispose:  func() {},
			}
		},
	}, func() {}
}

func selByName(name string) selection {
	for _, s := range selections {
		if s.name == name {
			return s
		}
	}
	panic("no selection " + name)
}

// cmdStep: one `acra-keys export` into the files f (whatever they hold), then one `acra-keys import` of these files into
// an empty keystore, compared with the source exactly like the library-level cases.
func (m *monitor) cmdStep(src *cmdSource, h historySpec, sel selection, f *cmdFiles) {
	r := m.r
	ids := sel.ids(h)
	if strings.HasPrefix(sel.name, "ids") && len(ids) == 0 {
		return
	}
	r.Case()
	r.SetAdd("cmd_formats", src.format)
	beforeData, beforeKeys := readState(f.data), readState(f.keys)
	all, private := flagsOf(sel)
	ep := &exportParams{exporter: src.exporter(), dataFile: f.data, keysFile: f.keys, ids: ids, all: all, private: private}
	r.Count("cmd_exports_run", 1)
	out := runCommand(func() { acrakeys.ExportKeysCommand(ep) })
	afterData, afterKeys := readState(f.data), readState(f.keys)

	// the history of the two paths, from measured sizes (when the Exporter itself failed there is no new size)
	kindData, kindKeys := "fresh-path", "fresh-path"
	if ep.exported != nil {
		kindData, kindKeys = reuseKind(beforeData, f.lastData, len(ep.exported.Data)), reuseKind(beforeKeys, f.lastKeys, len(ep.exported.Keys))
		f.lastData, f.lastKeys = len(ep.exported.Data), len(ep.exported.Keys)
	} else if beforeData.exists {
		kindData, kindKeys = "reused", "reused"
	}
	via := fmt.Sprintf("files(bundle:%s,access-keys:%s)", kindData, kindKeys)
	detail := func(extra map[string]interface{}) map[string]interface{} {
		d := map[string]interface{}{
			"ids": selectedIDs(ids), "flags": fmt.Sprintf("all=%v private_keys=%v", all, private), "mode_passed_to_exporter": int(ep.mode),
			"bundle_file_before_bytes": len(beforeData.content), "access_keys_file_before_bytes": len(beforeKeys.content),
			"bundle_file_after_bytes": len(afterData.content), "access_keys_file_after_bytes": len(afterKeys.content),
			"bundle_file_after": ev.Hex(afterData.content), "access_keys_file_after": ev.FullHex(afterKeys.content),
			"bundle_file_before": ev.Hex(beforeData.content), "access_keys_file_before": ev.FullHex(beforeKeys.content),
		}
		if ep.exported != nil {
			d["exported_bundle_bytes"], d["exported_access_keys_bytes"] = len(ep.exported.Data), len(ep.exported.Keys)
			d["exported_bundle"], d["exported_access_keys"] = ev.Hex(ep.exported.Data), ev.FullHex(ep.exported.Keys)
		}
		for k, v := range extra {
			d[k] = v
		}
		return d
	}
	if out.panicked {
		m.violate(src.format, h, sel.name, via, fmt.Sprintf("panic(export-command@%s)", out.site), detail(map[string]interface{}{"panic": out.panicVal}))
		return
	}
	if out.fatal {
		r.Count("cmd_exports_failed", 1)
		stage := "writing-files"
		if ep.err != nil || ep.exported == nil {
			stage = "exporter"
		}
		m.violate(src.format, h, sel.name, via, fmt.Sprintf("export-command-failed(%s:%s)", stage, normErr(fmt.Errorf("%s", out.message))),
			detail(map[string]interface{}{"fatal": out.message, "last_error_logged": cmdLog.lastError}))
		return
	}
	if ep.exported == nil {
		m.violate(src.format, h, sel.name, via, "export-command-succeeded-without-calling-the-exporter", detail(nil))
		return
	}
	r.Count("cmd_exports_ok", 1)
	if ep.mode != sel.mode {
		// information only: the mode ExportKeysCommand derived from the flags is not the one of the `selections` table; what
		// decides is the comparison of the imported keys with what the flags promise
		r.Count("cmd_exports_with_another_mode_than_the_selection_table", 1)
	}
	reused := beforeData.exists || beforeKeys.exists
	if reused {
		r.Count("cmd_exports_through_reused_files", 1)
	} else {
		r.Count("cmd_exports_into_fresh_paths", 1)
	}
	if len(ep.exported.Data) > 4096 {
		r.Count("cmd_bundles_larger_than_4KiB", 1)
	}
	if len(ep.exported.Data) > m.cmdLargest {
		m.cmdLargest = len(ep.exported.Data)
		r.Extra("command_level_largest_bundle_bytes", m.cmdLargest)
	}
	r.Count("cmd_bundle_file_"+kindData, 1)
	r.Count("cmd_access_keys_file_"+kindKeys, 1)
	r.SetAdd("cmd_bundle_file_histories", src.format+":"+kindData)
	r.SetAdd("cmd_access_keys_file_histories", kindKeys)
	r.SetAdd("cmd_file_modes", fmt.Sprintf("%o", afterData.mode)+"/"+fmt.Sprintf("%o", afterKeys.mode))
	r.Distinct(fmt.Sprintf("%s|%s|%s|%s|files", src.format, histClass(h), sel.name, via))

	// (1) what the files hold. A file whose content depends on what it held BEFORE this export is not the bundle (access
	// keys) this export produced: "exporting ... and importing the bundle with the right access keys" is then impossible or
	// imports something else. A difference that does not involve the earlier content is left to the import below.
	vData, vKeys := fileVerdict(afterData, beforeData, ep.exported.Data), fileVerdict(afterKeys, beforeKeys, ep.exported.Keys)
	for _, c := range []struct{ file, verdict string }{{"bundle-file", vData}, {"access-keys-file", vKeys}} {
		r.Count("cmd_files_compared_with_exported_bytes", 1)
		switch {
		case c.verdict == "as-exported":
			r.Count("cmd_files_identical_to_exported_bytes", 1)
		case dependsOnEarlierContent(c.verdict):
			m.violate(src.format, h, sel.name, via, fmt.Sprintf("%s-%s", c.file, c.verdict), detail(nil))
		default:
			r.Count("cmd_files_not_identical_without_earlier_content_involved", 1)
		}
	}
	states := fmt.Sprintf("[bundle-file=%s,access-keys-file=%s]", vData, vKeys)

	// (2) import what is in the files into an empty keystore, the way the import command does
	tgt := src.newTarget()
	defer tgt.dispose()
	before := tgt.dump()
	tgt.reopen()
	ip := &importParams{importer: tgt.importer(), dataFile: f.data, keysFile: f.keys}
	r.Count("cmd_imports_run", 1)
	iout := runCommand(func() { acrakeys.ImportKeysCommand(ip) })
	handed := "nothing"
	if ip.handed != nil {
		handed = "the-files-content"
		if !bytes.Equal(ip.handed.Data, afterData.content) {
			handed = "other-bundle-bytes-than-the-file-holds"
			if len(ip.handed.Data) < len(afterData.content) && bytes.Equal(ip.handed.Data, afterData.content[:len(ip.handed.Data)]) {
				handed = "only-a-prefix-of-the-bundle-file"
			}
		} else if !bytes.Equal(ip.handed.Keys, afterKeys.content) {
			handed = "other-access-keys-than-the-file-holds"
		}
	}
	idetail := func() map[string]interface{} {
		d := detail(map[string]interface{}{"files_vs_exported": states, "import_command_handed_to_importer": handed, "fatal": iout.message, "last_error_logged": cmdLog.lastError})
		if ip.handed != nil {
			d["handed_bundle_bytes"], d["handed_access_keys_bytes"] = len(ip.handed.Data), len(ip.handed.Keys)
		}
		return d
	}
	if iout.panicked {
		m.violate(src.format, h, sel.name, via, fmt.Sprintf("panic(import-command@%s)", iout.site), idetail())
		return
	}
	if iout.fatal {
		r.Count("cmd_imports_failed", 1)
		cause := states
		if vData == "as-exported" && vKeys == "as-exported" {
			cause = "[files=as-exported,importer-got=" + handed + "]"
		}
		m.violate(src.format, h, sel.name, via, fmt.Sprintf("import-command-failed(%s)%s", normErr(fmt.Errorf("%s", iout.message)), cause), idetail())
		return
	}
	r.Count("cmd_imports_ok", 1)
	if reused {
		r.Count("cmd_imports_of_reused_files_ok", 1)
	} else {
		r.Count("cmd_imports_of_fresh_files_ok", 1)
	}
	after := tgt.dump()
	ex := src.expect(sel, ids)
	nBefore := r.Counter("exported_entries_compared")
	m.compare(src.format, h, sel.name, via, ex, before, after, idetail())
	for rel, want := range ex.files {
		// v1 public-only export of the poison public key: no getter reads it alone, compared at file level (as in v1Scenario)
		r.Count("exported_entries_compared", 1)
		if tgt.readPub == nil {
			continue
		}
		if got, err := tgt.readPub(rel); err != nil || string(got) != string(want) {
			m.violate(src.format, h, sel.name, via, "exported-key-not-identical(poison.pub-file:differs)", idetail())
		}
	}
	r.Count("cmd_entries_compared_after_import", r.Counter("exported_entries_compared")-nBefore)
	r.SampleN("cmd:"+src.format+":"+kindData, 1, map[string]interface{}{
		"what": "acra-keys export into files, acra-keys import of the files into an empty keystore, compared", "format": src.format,
		"history": h.name, "selection": sel.name, "ids": selectedIDs(ids), "bundle_file": kindData, "access_keys_file": kindKeys,
		"bundle_file_bytes_before_export": len(beforeData.content), "exported_bundle_bytes": len(ep.exported.Data), "bundle_file_bytes_after_export": len(afterData.content),
		"access_keys_file_bytes_before_export": len(beforeKeys.content), "exported_access_keys_bytes": len(ep.exported.Keys), "access_keys_file_bytes_after_export": len(afterKeys.content),
		"files_vs_exported": states, "file_modes": fmt.Sprintf("%o/%o", afterData.mode, afterKeys.mode), "keys_imported": ip.n, "expected_entries": len(ex.present),
	})
}

// chain: the selections exported one after the other through the same two paths. Sizes: all+private is the largest
// bundle, ids-public the smallest; the same selection twice gives the same size; the history kind of every step is
// MEASURED (reuseKind), this list only makes all kinds occur.
var cmdChain = []string{"all+private", "ids-public", "ids+private", "ids+private", "all", "ids-public", "all+private"}

// cmdScenario runs the command-level layer for one history.
func (m *monitor) cmdScenario(h historySpec, withTwoDirs bool) {
	type mk func() (*cmdSource, func())
	makers := []mk{func() (*cmdSource, func()) { return v1CmdSource(h, false) }, func() (*cmdSource, func()) { return v2CmdSource(h) }}
	if withTwoDirs {
		makers = append(makers, func() (*cmdSource, func()) { return v1CmdSource(h, true) })
	}
	var v1src, v2src *cmdSource
	var disposers []func()
	defer func() {
		for _, d := range disposers {
			d()
		}
	}()
	for _, mkSrc := range makers {
		src, dispose := mkSrc()
		disposers = append(disposers, dispose)
		switch src.format {
		case "cmd-v1":
			v1src = src
		case "cmd-v2":
			v2src = src
		}
		f := newCmdFiles()
		for _, name := range cmdChain {
			m.cmdStep(src, h, selByName(name), f)
		}
		f.dispose()
		// control: the smallest selection into paths that never held anything
		f = newCmdFiles()
		m.cmdStep(src, h, selByName("ids-public"), f)
		f.dispose()
	}
	// the same two paths used for keystores of both formats (an operator who migrates keeps the file names): the access
	// keys of v2 are a JSON text, those of v1 32 raw bytes, so here the ACCESS-KEYS file shrinks and grows
	f := newCmdFiles()
	defer f.dispose()
	for i, name := range []string{"ids+private", "ids+private", "ids-public", "all+private", "all+private"} {
		src := v2src
		if i%2 == 1 {
			src = v1src
		}
		m.cmdStep(src, h, selByName(name), f)
	}
}

// cmdGuards: a run in which the command-level layer observed nothing must fail.
func (m *monitor) cmdGuards() {
	r := m.r
	r.RequireAtLeast("cmd_exports_through_reused_files", 40)
	r.RequireAtLeast("cmd_exports_into_fresh_paths", 10)
	r.RequireAtLeast("cmd_bundle_file_longer-then-shorter", 10)
	r.RequireAtLeast("cmd_bundle_file_shorter-then-longer", 10)
	r.RequireAtLeast("cmd_bundle_file_same-size", 3)
	r.RequireAtLeast("cmd_access_keys_file_longer-then-shorter", 3)
	r.RequireAtLeast("cmd_access_keys_file_shorter-then-longer", 3)
	r.RequireAtLeast("cmd_access_keys_file_same-size", 10)
	r.RequireAtLeast("cmd_files_compared_with_exported_bytes", 100)
	r.RequireAtLeast("cmd_imports_of_reused_files_ok", 40)
	r.RequireAtLeast("cmd_imports_of_fresh_files_ok", 10)
	r.RequireAtLeast("cmd_entries_compared_after_import", 300)
	r.RequireAtLeast("cmd_bundles_larger_than_4KiB", 4)
	r.RequireSetAtLeast("cmd_formats", 3)
	r.RequireSetAtLeast("cmd_access_keys_file_histories", 4)
	r.RequireSetAtLeast("cmd_bundle_file_histories", 10)
}
