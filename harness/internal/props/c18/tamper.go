package c18

import (
	"fmt"
	"runtime"
	"sort"

	"github.com/cossacklabs/acra/keystore"

	"verif/harness/internal/ev"
	"verif/harness/internal/rig/ksdump"
)

func runtimeStack(b []byte) int { return runtime.Stack(b, false) }

// tamperTarget is a keystore that must not change when an import is rejected.
type tamperTarget struct {
	raw       func() map[string]string // full storage content
	dump      func() *ksdump.Dump
	reset     func()     // fresh handle + reset the storage-call recorder
	mutations func() int // mutating storage calls since reset
	imp       func(b *keystore.KeysBackup) error
	keyBits   func(keys []byte) [][]byte // the "wrong access keys" variants
	// the access-key blob of v2 is JSON: some single-bit changes of the TEXT decode to the same two keys
	// (field-name case, base64 padding bits). Those are not wrong keys; for text flips the oracle is
	// "rejected and unchanged, or accepted with exactly the result of the honest import" (then the target is renewed).
	textKeys   bool
	renew      func()
	acceptedOK func() string
	skipText   func() bool // the honest import itself fails (reported separately): nothing to compare an accepted text variant with
}

func flipEach(b []byte) [][]byte {
	out := make([][]byte, 0, len(b)*8)
	for i := 0; i < len(b)*8; i++ {
		c := append([]byte(nil), b...)
		c[i/8] ^= 1 << uint(i%8)
		out = append(out, c)
	}
	return out
}

// tamper: "a bundle that was modified, or is opened with wrong access keys, is rejected without changing the target".
func (m *monitor) tamper(format string, h historySpec, sel string, bundle *keystore.KeysBackup, t *tamperTarget) {
	r := m.r
	if len(bundle.Data) == 0 {
		return
	}
	r.Distinct(fmt.Sprintf("%s|%s|%s|other-client|tamper", format, histClass(h), sel))
	rawBefore := t.raw()
	dumpBefore := t.dump()
	nbits := len(bundle.Data) * 8
	// which Data bits
	var bits []int
	exhaustive := r.Thorough() && len(bundle.Data) <= 8<<10
	if exhaustive {
		for i := 0; i < nbits; i++ {
			bits = append(bits, i)
		}
		r.Count("bundles_flipped_exhaustively", 1)
	} else {
		seen := map[int]bool{}
		add := func(i int) {
			if i >= 0 && i < nbits && !seen[i] {
				seen[i] = true
				bits = append(bits, i)
			}
		}
		for i := 0; i < 64*8; i++ { // header of the container
			add(i)
		}
		for i := nbits - 32*8; i < nbits; i++ { // tail
			add(i)
		}
		for i := 0; i < r.Pick(400, 4000); i++ {
			add(m.rng.Intn(nbits))
		}
		sort.Ints(bits)
	}
	check := func(kind string, pos int, b *keystore.KeysBackup, mustReject bool) {
		t.reset()
		var err error
		panicked := !m.guard(format, h, sel, "other-client", "import-of-"+kind, func() { err = t.imp(b) })
		if panicked {
			return
		}
		if err == nil && mustReject {
			m.violate(format, h, sel, "other-client", fmt.Sprintf("tampered-bundle-accepted(%s)", kind),
				map[string]interface{}{"position": pos, "data_len": len(bundle.Data), "keys": ev.FullHex(b.Keys), "data": ev.Hex(b.Data)})
			return
		}
		if err == nil {
			r.Count("tampered_keys_text_equivalent_accepted", 1)
			if bad := t.acceptedOK(); bad != "" {
				m.violate(format, h, sel, "other-client", fmt.Sprintf("import-with-altered-access-key-text-gives-other-keys(%s)", bad), map[string]interface{}{"position": pos, "keys": string(b.Keys)})
			}
			t.renew()
			rawBefore = t.raw()
			return
		}
		if n := t.mutations(); n != 0 {
			// the rejected import wrote something: compare the full content
			if same, what := rawEqual(rawBefore, t.raw()); !same {
				m.violate(format, h, sel, "other-client", fmt.Sprintf("rejected-import-changed-target(%s)", kind),
					map[string]interface{}{"position": pos, "storage_writes": n, "first_difference": what, "error": err.Error()})
				return
			}
		}
		r.Count("tampered_"+kind+"_rejected_target_unchanged", 1)
	}
	for _, i := range bits {
		d := append([]byte(nil), bundle.Data...)
		d[i/8] ^= 1 << uint(i%8)
		r.Count("tampered_data_imports", 1)
		check("data", i, &keystore.KeysBackup{Keys: append([]byte(nil), bundle.Keys...), Data: d}, true)
	}
	// byte substitutions (a sample): 0x00 / 0xff / +1
	for i := 0; i < r.Pick(60, 600); i++ {
		pos := m.rng.Intn(len(bundle.Data))
		d := append([]byte(nil), bundle.Data...)
		old := d[pos]
		switch i % 3 {
		case 0:
			d[pos] = 0
		case 1:
			d[pos] = 0xff
		default:
			d[pos]++
		}
		if d[pos] == old {
			continue
		}
		r.Count("tampered_data_imports", 1)
		check("data", pos*8, &keystore.KeysBackup{Keys: append([]byte(nil), bundle.Keys...), Data: d}, true)
	}
	// wrong access keys
	for i, k := range t.keyBits(bundle.Keys) {
		r.Count("tampered_keys_imports", 1)
		check("keys", i, &keystore.KeysBackup{Keys: k, Data: append([]byte(nil), bundle.Data...)}, true)
	}
	// truncated bundle
	var cuts []int
	if r.Thorough() && len(bundle.Data) <= 2<<10 {
		for n := 0; n < len(bundle.Data); n++ {
			cuts = append(cuts, n)
		}
	} else {
		seen := map[int]bool{}
		for _, n := range []int{0, 1, 2, 12, 44, 45, len(bundle.Data) / 2, len(bundle.Data) - 16, len(bundle.Data) - 2, len(bundle.Data) - 1} {
			if n >= 0 && n < len(bundle.Data) && !seen[n] {
				seen[n] = true
				cuts = append(cuts, n)
			}
		}
		for i := 0; i < 10; i++ {
			n := m.rng.Intn(len(bundle.Data))
			if !seen[n] {
				seen[n] = true
				cuts = append(cuts, n)
			}
		}
	}
	for _, n := range cuts {
		r.Count("truncated_imports", 1)
		check("truncated", n, &keystore.KeysBackup{Keys: append([]byte(nil), bundle.Keys...), Data: append([]byte(nil), bundle.Data[:n]...)}, true)
	}
	// after the whole batch: the getter-level dump and the raw content are what they were
	if same, what := rawEqual(rawBefore, t.raw()); !same {
		m.violate(format, h, sel, "other-client", "rejected-import-changed-target(batch)", map[string]interface{}{"first_difference": what})
	}
	if after := t.dump(); !dumpsEqual(dumpBefore, after) {
		m.violate(format, h, sel, "other-client", "rejected-import-changed-target(getters)", map[string]interface{}{"before": dumpBefore.Render(), "after": after.Render()})
	}
	if t.textKeys && !t.skipText() {
		for i, k := range flipEach(bundle.Keys) {
			r.Count("tampered_keys_text_imports", 1)
			check("keys-text", i, &keystore.KeysBackup{Keys: k, Data: append([]byte(nil), bundle.Data...)}, false)
		}
	}
	r.SampleN("tamper:"+format, 1, map[string]interface{}{"what": "tamper sweep", "format": format, "history": h.name, "selection": sel, "bundle_bytes": len(bundle.Data), "data_bits_flipped": len(bits), "exhaustive": exhaustive, "truncations": len(cuts)})
}
