package c18

// The REAL acra-backup binary (cmd/acra-backup: a main() with flags, environment variables and os.Exit): built once per
// run from the repository under test, then run as child processes: `--action=export` of a v1 keystore into a file,
// `--action=import` of that file into empty directories, and the target compared with the source like every other
// export/import case of this monitor.

import (
	"bytes"
	"context"
	"encoding/base64"
	"fmt"
	"os"
	"os/exec"
	"path/filepath"
	"regexp"
	"strings"
	"time"

	"github.com/cossacklabs/acra/keystore"

	"verif/harness/internal/ev"
	"verif/harness/internal/rig/ksrig"
)

const (
	backupBuildWatchdog = 8 * time.Minute // firing = inconclusive
	backupRunWatchdog   = 90 * time.Second
)

// buildBackupTool builds cmd/acra-backup of the repository under test with the gothemis stand-in, the way
// tools/acra-tests.sh builds Acra's own tests: a temporary copy of the repository's go.mod (+ go.sum next to it) with the
// replace directive appended, handed to the go tool with -modfile; nothing in the repository is touched.
func buildBackupTool() backupBuild {
	repo := os.Getenv("VERIF_REPO_PATH")
	if repo == "" {
		repo = "/repo"
	}
	res := backupBuild{repo: repo}
	dir := ksrig.ScratchDir("c18-acra-backup-bin")
	mod, err := os.ReadFile(filepath.Join(repo, "go.mod"))
	if err != nil {
		res.failure = err.Error()
		return res
	}
	sum, err := os.ReadFile(filepath.Join(repo, "go.sum"))
	if err != nil {
		res.failure = err.Error()
		return res
	}
	mod = append(mod, []byte("\nreplace github.com/cossacklabs/themis/gothemis => "+filepath.Join(ev.Root(), "shim", "gothemis")+"\n")...)
	must(os.WriteFile(filepath.Join(dir, "go.mod"), mod, 0o600))
	must(os.WriteFile(filepath.Join(dir, "go.sum"), sum, 0o600))
	bin := filepath.Join(dir, "acra-backup")
	ctx, cancel := context.WithTimeout(context.Background(), backupBuildWatchdog)
	defer cancel()
	c := exec.CommandContext(ctx, "go", "build", "-modfile="+filepath.Join(dir, "go.mod"), "-o", bin, "./cmd/acra-backup")
	c.Dir = repo
	c.Env = append(os.Environ(), "GOFLAGS=-mod=mod", "GOPROXY=off", "GOSUMDB=off", "GOTOOLCHAIN=local", "CGO_ENABLED=1")
	start := time.Now()
	out, err := c.CombinedOutput()
	res.wall = time.Since(start)
	switch {
	case ctx.Err() != nil:
		res.failure = "go build did not finish within the watchdog"
	case err != nil:
		msg := string(out)
		if len(msg) > 1500 {
			msg = msg[:1500]
		}
		res.failure = err.Error() + ": " + msg
	default:
		res.bin = bin
	}
	return res
}

// backupBuild is the outcome of building the binary (the build runs beside the other layers, see Run).
type backupBuild struct {
	repo, bin, failure string
	wall               time.Duration
}

// startBackupToolBuild starts the build in the background; the channel delivers its outcome.
func startBackupToolBuild() <-chan backupBuild {
	ch := make(chan backupBuild, 1)
	go func() { ch <- buildBackupTool() }()
	return ch
}

type toolRun struct {
	exit     int
	output   string // stdout + stderr
	timedOut bool
	startErr error
}

// runBackupTool runs the binary in an empty working directory (no configs/acra-backup.yaml there) with a minimal
// environment plus the given variables.
func runBackupTool(bin, cwd string, env []string, args ...string) toolRun {
	ctx, cancel := context.WithTimeout(context.Background(), backupRunWatchdog)
	defer cancel()
	c := exec.CommandContext(ctx, bin, args...)
	c.Dir = cwd
	c.Env = append([]string{"PATH=" + os.Getenv("PATH"), "HOME=" + cwd}, env...)
	var buf bytes.Buffer
	c.Stdout, c.Stderr = &buf, &buf
	err := c.Run()
	res := toolRun{output: buf.String()}
	if ctx.Err() != nil {
		res.timedOut = true
		return res
	}
	if err != nil {
		if ee, ok := err.(*exec.ExitError); ok {
			res.exit = ee.ExitCode()
		} else {
			res.startErr = err
		}
	}
	return res
}

var (
	reBackupKey  = regexp.MustCompile(`Backup master key: ([A-Za-z0-9+/=]+)`)
	reLogError   = regexp.MustCompile(`level=(?:error|fatal|panic) msg="((?:[^"\\]|\\.)*)"(?:.*? error="((?:[^"\\]|\\.)*)")?`)
	reLogErrorNQ = regexp.MustCompile(`level=(?:error|fatal|panic) msg=([^ "]+)`)
	rePath       = regexp.MustCompile(`/[^ "':]+`)
)

// toolError: the last error line the tool logged, without paths ("" if none): stable text for signatures.
func toolError(output string) string {
	last := ""
	for _, line := range strings.Split(output, "\n") {
		if mm := reLogError.FindStringSubmatch(line); mm != nil {
			last = mm[1]
			if mm[2] != "" {
				last += ": " + mm[2]
			}
		} else if mm := reLogErrorNQ.FindStringSubmatch(line); mm != nil {
			last = mm[1]
		} else if strings.HasPrefix(line, "panic: ") || strings.HasPrefix(line, "fatal error: ") {
			last = line
		}
	}
	last = rePath.ReplaceAllString(last, "<path>")
	for _, known := range []string{"failed to get output size", "failed to unprotect data", "empty message for Secure Cell"} {
		if strings.Contains(last, known) {
			last = last[:strings.Index(last, known)] + "decrypt-failed"
		}
	}
	if len(last) > 100 {
		last = last[:100]
	}
	return strings.TrimSpace(last)
}

func tail(s string, n int) string {
	if len(s) > n {
		return "…" + s[len(s)-n:]
	}
	return s
}

func b64(b []byte) string { return base64.StdEncoding.EncodeToString(b) }

// backupFileState classifies what the export left in --file (for signatures of later failures; no sizes).
func backupFileState(file []byte, exists bool, printedKey []byte) string {
	switch {
	case !exists:
		return "missing"
	case len(file) == 0:
		return "empty"
	case allZero(file):
		return "only-zero-bytes"
	case len(printedKey) > 0 && bytes.Equal(file, printedKey):
		return "the-backup-master-key-itself"
	}
	return "data"
}

// backupToolScenario: one source history through the real binary.
func (m *monitor) backupToolScenario(bin string, h historySpec, twoDirs bool) {
	r := m.r
	format := "acra-backup"
	if twoDirs {
		format = "acra-backup-two-dirs"
	}
	const sel = "all" // the tool always exports everything: Export(nil, ExportAllKeys)
	r.Case()
	r.SetAdd("backup_tool_formats", format)
	src := newV1(twoDirs)
	defer src.dispose()
	h.apply(src.ks)
	srcDump := src.dump(allIDs)
	secrets := secretsOf(srcDump)
	work := ksrig.ScratchDir("c18-acra-backup-run")
	defer os.RemoveAll(work)
	file := filepath.Join(work, "backup.dat")
	dirArgs := func(s *v1Store) []string {
		a := []string{"--keys_private_dir=" + s.priv}
		if s.pub != "" {
			a = append(a, "--keys_public_dir="+s.pub)
		}
		return a
	}
	inconclusive := func(step string, run toolRun) bool {
		if run.timedOut {
			r.Inconclusive(fmt.Sprintf("acra-backup %s did not finish within %s (history %s)", step, backupRunWatchdog, h.name))
			return true
		}
		if run.startErr != nil {
			r.Inconclusive(fmt.Sprintf("acra-backup %s could not be started: %v", step, run.startErr))
			return true
		}
		return false
	}

	// ---- export
	r.Count("backup_tool_exports_run", 1)
	exp := runBackupTool(bin, work, []string{keystore.AcraMasterKeyVarName + "=" + b64(src.master)},
		append([]string{"--action=export", "--file=" + file}, dirArgs(src)...)...)
	if inconclusive("export", exp) {
		return
	}
	det := func(extra map[string]interface{}) map[string]interface{} {
		d := map[string]interface{}{"export_exit": exp.exit, "export_output": tail(exp.output, 1500), "source": srcDump.Render()}
		for k, v := range extra {
			d[k] = v
		}
		return d
	}
	if exp.exit != 0 {
		r.Count("backup_tool_exports_failed", 1)
		m.violate(format, h, sel, "export", fmt.Sprintf("exit-%d(%s)[poison-sym=%d,rotated-poison-pair=%d]", exp.exit, toolError(exp.output), b2i(h.poisonSym > 0), b2i(h.poisonPair > 1)), det(nil))
		return
	}
	r.Count("backup_tool_exports_ok", 1)
	if after := src.dump(allIDs); !dumpsEqual(srcDump, after) {
		m.violate(format, h, sel, "export", "export-changed-source", det(map[string]interface{}{"after": after.Render()}))
	}
	var printedKey []byte
	if mm := reBackupKey.FindStringSubmatch(exp.output); mm == nil {
		m.violate(format, h, sel, "export", "backup-master-key-not-printed", det(nil))
	} else if k, err := base64.StdEncoding.DecodeString(mm[1]); err != nil || keystore.ValidateMasterKey(k) != nil {
		m.violate(format, h, sel, "export", "printed-backup-master-key-is-not-a-valid-key", det(nil))
	} else {
		printedKey = k
		r.Count("backup_tool_master_keys_parsed", 1)
	}
	content, rerr := os.ReadFile(file)
	state := backupFileState(content, rerr == nil, printedKey)
	fi, _ := os.Stat(file)
	if fi != nil {
		r.SetAdd("backup_tool_file_modes", fmt.Sprintf("%o", fi.Mode().Perm()))
	}
	r.Distinct(fmt.Sprintf("%s|%s|%s|export|backup-file", format, histClass(h), sel))
	r.Count("backup_tool_files_examined", 1)
	det2 := func(extra map[string]interface{}) map[string]interface{} {
		d := det(map[string]interface{}{"backup_file_state": state, "backup_file_bytes": len(content), "backup_file": ev.Hex(content)})
		for k, v := range extra {
			d[k] = v
		}
		return d
	}
	switch state {
	case "data":
		r.Count("backup_tool_files_with_data", 1)
	case "the-backup-master-key-itself":
		// the key that opens the bundle, in clear, in the file that is meant to travel
		m.violate(format, h, sel, "export", "backup-file-holds-the-backup-master-key", det2(nil))
	default:
		// a missing / empty / all-zero file cannot carry the keys of a keystore that has keys
		m.violate(format, h, sel, "export", "backup-file-holds-"+state, det2(nil))
	}
	if rerr == nil && len(content) > 0 {
		m.scanBundle(format, h, sel, &keystore.KeysBackup{Data: content}, secrets)
	}
	if printedKey == nil {
		return
	}
	// diagnosis only: does the file open with the printed key through the library (tells an export defect from an import defect)
	opens := "no"
	if rerr == nil {
		probe := newV1(twoDirs)
		if _, err := probe.importer().Import(&keystore.KeysBackup{Keys: append([]byte(nil), printedKey...), Data: append([]byte(nil), content...)}); err == nil {
			opens = "yes"
		}
		probe.dispose()
	}

	// ---- import into EMPTY directories (a keystore with its own master key)
	ex := expectV1(srcDump, h, selByName(sel), nil, twoDirs)
	tgt := newV1(twoDirs)
	defer tgt.dispose()
	before := tgt.dump(allIDs)
	r.Count("backup_tool_imports_run", 1)
	imp := runBackupTool(bin, work, []string{keystore.AcraMasterKeyVarName + "=" + b64(tgt.master), "BACKUP_MASTER_KEY=" + b64(printedKey)},
		append([]string{"--action=import", "--file=" + file}, dirArgs(tgt)...)...)
	if inconclusive("import", imp) {
		return
	}
	idet := func(extra map[string]interface{}) map[string]interface{} {
		d := det2(map[string]interface{}{"import_exit": imp.exit, "import_output": tail(imp.output, 1500), "backup_file_opens_with_printed_key_through_the_library": opens})
		for k, v := range extra {
			d[k] = v
		}
		return d
	}
	if imp.exit != 0 {
		r.Count("backup_tool_imports_failed", 1)
		m.violate(format, h, sel, "import", fmt.Sprintf("exit-%d(%s)[backup-file=%s,opens-with-printed-key=%s]", imp.exit, toolError(imp.output), state, opens), idet(nil))
		return
	}
	r.Count("backup_tool_imports_ok", 1)
	after := tgt.dump(allIDs)
	n0 := r.Counter("exported_entries_compared")
	m.compare(format, h, sel, "import-into-empty", ex, before, after, idet(nil))
	r.Count("backup_tool_entries_compared", r.Counter("exported_entries_compared")-n0)
	r.SampleN("acra-backup:"+format, 2, map[string]interface{}{"what": "acra-backup export (child process) -> file -> acra-backup import into empty directories, compared",
		"format": format, "history": h.String(), "backup_file_bytes": len(content), "backup_file_state": state, "expected_entries": len(ex.present)})

	// ---- "a bundle that was modified, or is opened with wrong access keys, is rejected without changing the target"
	other := newV1(twoDirs)
	defer other.dispose()
	must(ksrig.GenClient(other.ks, idT))
	rawBefore := other.raw()
	wrongKey := append([]byte(nil), printedKey...)
	wrongKey[m.rng.Intn(len(wrongKey))] ^= 1 << uint(m.rng.Intn(8))
	modified := append([]byte(nil), content...)
	modified[m.rng.Intn(len(modified))] ^= 1 << uint(m.rng.Intn(8))
	modFile := filepath.Join(work, "backup-modified.dat")
	must(os.WriteFile(modFile, modified, 0o600))
	for _, tc := range []struct {
		kind, file string
		key        []byte
	}{{"keys", file, wrongKey}, {"data", modFile, printedKey}} {
		r.Count("backup_tool_tampered_imports", 1)
		run := runBackupTool(bin, work, []string{keystore.AcraMasterKeyVarName + "=" + b64(other.master), "BACKUP_MASTER_KEY=" + b64(tc.key)},
			append([]string{"--action=import", "--file=" + tc.file}, dirArgs(other)...)...)
		if inconclusive("import-of-tampered-"+tc.kind, run) {
			continue
		}
		if run.exit == 0 {
			m.violate(format, h, sel, "import", fmt.Sprintf("tampered-bundle-accepted(%s)", tc.kind), idet(map[string]interface{}{"output": tail(run.output, 1000)}))
			continue
		}
		if same, what := rawEqual(rawBefore, other.raw()); !same {
			m.violate(format, h, sel, "import", fmt.Sprintf("rejected-import-changed-target(%s)", tc.kind), idet(map[string]interface{}{"first_difference": what}))
			continue
		}
		r.Count("backup_tool_tampered_rejected_target_unchanged", 1)
	}
}

// backupToolLayer builds the binary and runs the histories through it.
func (m *monitor) backupToolLayer(hs []historySpec, build <-chan backupBuild) {
	r := m.r
	start := time.Now()
	b := <-build
	r.Extra("acra_backup_build_wall_s", b.wall.Seconds())                  // information only
	r.Extra("acra_backup_waited_for_build_s", time.Since(start).Seconds()) // information only
	bin, ok := b.bin, b.failure == ""
	if ok {
		r.Count("backup_tool_binary_built", 1)
	} else {
		// not a silent pass: inconclusive, and the non-vacuity guards below fail
		r.Count("backup_tool_build_failures", 1)
		r.Inconclusive("acra-backup binary could not be built from " + b.repo + ": " + b.failure)
	}
	if ok {
		for _, h := range hs {
			if !r.Thorough() && !cmdQuickHistories[h.name] {
				continue
			}
			m.backupToolScenario(bin, h, false)
			if r.Thorough() || h.name == "rotated-clients" || h.name == "odd-ids" {
				m.backupToolScenario(bin, h, true)
			}
		}
	}
	r.Extra("acra_backup_layer_wall_s", time.Since(start).Seconds()) // information only (waiting for the build included)
	// non-vacuity: a run in which the binary was not built or nothing went through it must fail
	r.RequireAtLeast("backup_tool_binary_built", 1)
	r.RequireAtLeast("backup_tool_exports_run", 8)
	r.RequireAtLeast("backup_tool_exports_ok", 8)
	r.RequireAtLeast("backup_tool_files_examined", 8)
	r.RequireAtLeast("backup_tool_imports_run", 8)
	if r.Counter("backup_tool_imports_ok") > 0 || r.Counter("backup_tool_imports_failed") == 0 {
		// (when EVERY import failed each of them is a reported violation: nothing was silently skipped)
		r.RequireAtLeast("backup_tool_imports_ok", 8)
		r.RequireAtLeast("backup_tool_entries_compared", 100)
		r.RequireAtLeast("backup_tool_tampered_rejected_target_unchanged", 8)
	}
	r.RequireSetAtLeast("backup_tool_formats", 2)
}
