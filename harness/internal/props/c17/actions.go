package c17

// actions.go — the operations the v2 workloads issue against a keystore handle, and the reader-side oracle
// (what a getter returned must be explained by the ring the same call opened).

import (
	"fmt"
	"path/filepath"
	"runtime/debug"
	"strings"
	"time"

	keystoreV1 "github.com/cossacklabs/acra/keystore"
	keystoreV2 "github.com/cossacklabs/acra/keystore/v2/keystore"
	"github.com/cossacklabs/acra/keystore/v2/keystore/api"
	"github.com/cossacklabs/acra/keystore/v2/keystore/crypto"
	fsV2 "github.com/cossacklabs/acra/keystore/v2/keystore/filesystem"
	backendAPI "github.com/cossacklabs/acra/keystore/v2/keystore/filesystem/backend/api"
	"github.com/cossacklabs/themis/gothemis/keys"

	"verif/harness/internal/ev"
	"verif/harness/internal/gen"
	"verif/harness/internal/rig/ksrig"
)

// action is one step of a thread's program. Serializable, so that samples and replay files show the programs.
type action struct {
	Kind   string `json:"k"`
	Client string `json:"c,omitempty"`
	Ring   string `json:"ring,omitempty"` // pair | sym | hmac
	Pick   int    `json:"pick,omitempty"`
	State  int    `json:"st,omitempty"`
	Bundle int    `json:"b,omitempty"`
}

func (a action) String() string {
	s := a.Kind
	if a.Client != "" {
		s += ":" + a.Client
	}
	if a.Ring != "" {
		s += "/" + a.Ring
	}
	switch a.Kind {
	case "RingSetCur", "RingDestroy":
		s += fmt.Sprintf("#%d", a.Pick)
	case "RingSetState":
		s += fmt.Sprintf("#%d>%d", a.Pick, a.State)
	case "ImportNX", "ImportOW":
		s += fmt.Sprintf("[b%d]", a.Bundle)
	}
	return s
}

func ringPath(client, kind string) string {
	switch kind {
	case "pair":
		return filepath.Join("client", client, "storage")
	case "sym":
		return filepath.Join("client", client, "storage-sym")
	default:
		return filepath.Join("client", client, "hmac-sym")
	}
}

// bundle is an export container with one ring plus the state it carries.
type bundle struct {
	Path    string
	Data    []byte
	Content ringState
}

// handle is one keystore handle prepared for one thread.
type handle struct {
	raw   api.MutableKeyStore
	ks    *recKS
	sks   *keystoreV2.ServerKeyStore
	suite *crypto.KeyStoreSuite
}

// openHandle builds keystore handle -> recorder -> server keystore over the backend.
func openHandle(b backendAPI.Backend, k ksrig.V2Keys, rec *recorder, thread int) (*handle, error) {
	suite, err := keystoreV2.NewSCellSuite(k.Enc, k.Sig)
	if err != nil {
		return nil, err
	}
	raw, err := fsV2.CustomKeyStore(b, suite)
	if err != nil {
		return nil, err
	}
	ks := newRecKS(raw, rec, thread)
	return &handle{raw: raw, ks: ks, sks: keystoreV2.NewServerKeyStore(ks), suite: suite}, nil
}

// forThread: same underlying handle, another attribution (one handle shared by many goroutines).
func (h *handle) forThread(thread int) *handle {
	ks := h.ks.forThread(thread)
	return &handle{raw: h.raw, ks: ks, sks: keystoreV2.NewServerKeyStore(ks), suite: h.suite}
}

func (h *handle) close() { h.raw.Close() }

// makeBundles prepares import containers: for each (client, kind) a ring with n keys exported from a side keystore.
func makeBundles(k ksrig.V2Keys, specs []action) ([]bundle, error) {
	side, err := ksrig.V2Mem(k)
	if err != nil {
		return nil, err
	}
	defer side.Close()
	suite, err := keystoreV2.NewSCellSuite(k.Enc, k.Sig)
	if err != nil {
		return nil, err
	}
	var out []bundle
	for i, sp := range specs {
		// a distinct source client per bundle, exported under the target ring's path is impossible (the path is inside the
		// container), so each bundle is built in its own side keystore
		s2, err := ksrig.V2Mem(k)
		if err != nil {
			return nil, err
		}
		id := []byte(sp.Client)
		n := 1 + i%3
		for j := 0; j < n; j++ {
			switch sp.Ring {
			case "pair":
				err = s2.GenerateDataEncryptionKeys(id)
			case "sym":
				err = s2.GenerateClientIDSymmetricKey(id)
			default:
				err = s2.GenerateHmacKey(id)
			}
			if err != nil {
				return nil, err
			}
		}
		path := ringPath(sp.Client, sp.Ring)
		ring, err := s2.OpenKeyRing(path)
		if err != nil {
			return nil, err
		}
		content := snapshot(ring)
		data, err := s2.ExportKeyRings([]string{path}, suite, keystoreV1.ExportPrivateKeys)
		s2.Close()
		if err != nil {
			return nil, err
		}
		out = append(out, bundle{Path: path, Data: data, Content: content})
	}
	return out, nil
}

// threadCtx executes actions for one thread.
type threadCtx struct {
	r       *ev.Run
	t       int
	h       *handle
	rings   map[string]api.MutableKeyRing
	bundles []bundle
	backend string
	// results of the actions, for samples / replay files
	log []string
	// reader oracle output
	bad []readerFinding
	// handle life cycle (actions CycleHandle / Reopen): open one more handle on the same store for this thread; owns = no other
	// thread uses x.h, so this thread may close and replace it
	open func() (*handle, error)
	owns bool
}

type readerFinding struct {
	Sig    string
	Detail map[string]interface{}
}

func newThreadCtx(r *ev.Run, t int, h *handle, bundles []bundle, backend string) *threadCtx {
	return &threadCtx{r: r, t: t, h: h, rings: map[string]api.MutableKeyRing{}, bundles: bundles, backend: backend}
}

func (x *threadCtx) ring(path string) (api.MutableKeyRing, error) {
	if rg, ok := x.rings[path]; ok {
		return rg, nil
	}
	rg, err := x.h.ks.OpenKeyRingRW(path)
	if err != nil {
		return nil, err
	}
	x.rings[path] = rg
	return rg, nil
}

var settableStates = []api.KeyState{api.KeyActive, api.KeySuspended, api.KeyDeactivated, api.KeyCompromised}

// do executes one action. Errors of write operations are judged from the recorded history, not here.
func (x *threadCtx) do(a action) {
	id := []byte(a.Client)
	var err error
	switch a.Kind {
	case "GenPair":
		err = x.h.sks.GenerateDataEncryptionKeys(id)
	case "GenSym":
		err = x.h.sks.GenerateClientIDSymmetricKey(id)
	case "GenHmac":
		err = x.h.sks.GenerateHmacKey(id)
	case "DestroyCurPair":
		err = x.h.sks.DestroyClientIDEncryptionKeyPair(id)
	case "DestroyCurSym":
		err = x.h.sks.DestroyClientIDSymmetricKey(id)
	case "DestroyCurHmac":
		err = x.h.sks.DestroyHmacSecretKey(id)
	case "RingAdd":
		var rg api.MutableKeyRing
		if rg, err = x.ring(ringPath(a.Client, a.Ring)); err == nil {
			_, err = rg.AddKey(newKeyDescription(a.Ring))
		}
	case "RingSetCur", "RingDestroy", "RingSetState":
		var rg api.MutableKeyRing
		if rg, err = x.ring(ringPath(a.Client, a.Ring)); err == nil {
			seqs, _ := rg.AllKeys()
			if len(seqs) == 0 {
				err = fmt.Errorf("skipped: empty view")
				break
			}
			seq := seqs[a.Pick%len(seqs)]
			switch a.Kind {
			case "RingSetCur":
				err = rg.SetCurrent(seq)
			case "RingDestroy":
				err = rg.DestroyKey(seq)
			default:
				err = rg.SetState(seq, api.KeyState(a.State))
			}
		}
	case "RingOpen":
		// take (or keep) a ring handle without updating anything: the view it holds starts ageing here
		_, err = x.ring(ringPath(a.Client, a.Ring))
	case "RingView":
		// the complete view through the ring handle this thread already holds (no store access); a thread without one looks
		// at the ring the way readers do
		path := ringPath(a.Client, a.Ring)
		if rg, ok := x.rings[path].(*recRing); ok {
			v := rg.view()
			x.r.Count("v2_view_actions_through_held_handle", 1)
			if rg.lastRefused {
				x.r.Count("v2_view_actions_right_after_refusal", 1)
				x.r.SetAdd("v2_views_after_refused", rg.lastKind)
			}
			err = nil
			x.log = append(x.log, fmt.Sprintf("t%d %s -> %s", x.t, a, v))
			return
		}
		_, err = x.h.ks.OpenKeyRing(path)
		x.explain(action{Kind: "ReadRing", Client: a.Client, Ring: a.Ring}, path, err, nil, false)
	case "ImportNX", "ImportOW":
		b := x.bundles[a.Bundle%len(x.bundles)]
		err = x.h.ks.importRing(b.Data, x.h.suite, b.Path, b.Content, a.Kind == "ImportOW")
	case "ReadRing":
		path := ringPath(a.Client, a.Ring)
		_, err = x.h.ks.OpenKeyRing(path)
		x.explain(a, path, err, nil, false)
	case "ReadPrivKeys":
		var ks []*keys.PrivateKey
		ks, err = x.h.sks.GetServerDecryptionPrivateKeys(id)
		var ds []string
		for _, k := range ks {
			ds = append(ds, mat(k.Value))
		}
		x.explain(a, ringPath(a.Client, "pair"), err, ds, true)
	case "ReadPriv":
		var k *keys.PrivateKey
		k, err = x.h.sks.GetServerDecryptionPrivateKey(id)
		var ds []string
		if k != nil {
			ds = []string{mat(k.Value)}
		}
		x.explain(a, ringPath(a.Client, "pair"), err, ds, false)
	case "ReadPub":
		var k *keys.PublicKey
		k, err = x.h.sks.GetClientIDEncryptionPublicKey(id)
		var ds []string
		if k != nil {
			ds = []string{mat(k.Value)}
		}
		x.explain(a, ringPath(a.Client, "pair"), err, ds, false)
	case "ReadSymKeys":
		var ks [][]byte
		ks, err = x.h.sks.GetClientIDSymmetricKeys(id)
		var ds []string
		for _, k := range ks {
			ds = append(ds, mat(k))
		}
		x.explain(a, ringPath(a.Client, "sym"), err, ds, true)
	case "ReadSym":
		var k []byte
		k, err = x.h.sks.GetClientIDSymmetricKey(id)
		x.explain(a, ringPath(a.Client, "sym"), err, []string{mat(k)}, false)
	case "ReadHmac":
		var k []byte
		k, err = x.h.sks.GetHMACSecretKey(id)
		x.explain(a, ringPath(a.Client, "hmac"), err, []string{mat(k)}, false)
	case "CycleHandle":
		// another tool run on the same store: open a handle, maybe look at one ring, close it again
		if x.open == nil {
			err = fmt.Errorf("skipped: no handle factory")
			break
		}
		var h *handle
		if h, err = x.open(); err == nil {
			if a.Pick%2 == 1 {
				h.ks.OpenKeyRing(ringPath(a.Client, a.Ring)) // recorded like every other read
			}
			h.close()
			x.r.Count("v2_handles_opened_and_closed", 1)
		}
	case "Reopen":
		// this thread's process restarts: its handle is closed and a new one opened on the same store
		if x.open == nil || !x.owns {
			err = fmt.Errorf("skipped: handle is shared")
			break
		}
		x.h.close()
		var h *handle
		if h, err = x.open(); err == nil {
			x.h = h
			x.rings = map[string]api.MutableKeyRing{}
			x.r.Count("v2_handles_reopened", 1)
		}
	default:
		panic("unknown action " + a.Kind)
	}
	x.log = append(x.log, fmt.Sprintf("t%d %s -> %s", x.t, a, errOrOK(err)))
}

func errOrOK(err error) string {
	if err == nil {
		return "ok"
	}
	return "ERR " + err.Error()
}

func newKeyDescription(kind string) api.KeyDescription {
	now := time.Unix(1700000000, 0)
	d := api.KeyDescription{ValidSince: now, ValidUntil: now.Add(24 * time.Hour)}
	if kind == "pair" {
		kp, err := keys.New(keys.TypeEC)
		if err != nil {
			panic(err)
		}
		d.Data = []api.KeyData{{Format: api.ThemisKeyPairFormat, PublicKey: kp.Public.Value, PrivateKey: kp.Private.Value}}
	} else {
		d.Data = []api.KeyData{{Format: api.ThemisSymmetricKeyFormat, SymmetricKey: ksrig.RandBytes(32)}}
	}
	return d
}

// explain is the reader-side oracle: "no reader ever observes a partially written or unverifiable key ring".
// The ring the getter opened is in the recorded history (and is checked against the model there); here the getter's
// own result must be what that ring implies: keys = the ring's key material, errors only those the ring's state implies.
func (x *threadCtx) explain(a action, path string, err error, got []string, all bool) {
	x.r.Count("v2_reader_results_checked", 1)
	last := x.h.ks.last[path]
	fail := func(what string) {
		f := readerFinding{
			Sig:    fmt.Sprintf("v2 reader %s: %s: backend=%s", a.Kind, what, x.backend),
			Detail: map[string]interface{}{"action": a.String(), "thread": x.t, "error": errOrOK(err), "returned_material": shortAll(got)},
		}
		if last != nil {
			f.Detail["opened"] = last.String()
		}
		x.bad = append(x.bad, f)
	}
	if last == nil {
		fail("getter did not open the ring")
		return
	}
	if last.Err != "" {
		// the ring could not be opened: only "does not exist" is an acceptable reason (judged against the model in the history)
		if last.Err != errPathMissing {
			fail("ring could not be opened: " + errClass(last.Err))
		} else {
			x.r.Count("v2_reader_saw_absent_ring", 1)
		}
		return
	}
	view := *last.Out
	if view.Bad != "" {
		return // reported from the history
	}
	field := func(k keyView) string {
		switch a.Kind {
		case "ReadPub":
			return k.Pub
		case "ReadPrivKeys", "ReadPriv":
			return k.Priv
		}
		return k.Sym
	}
	anyDestroyed, curDestroyed := false, false
	for _, k := range view.Keys {
		if k.State == int(api.KeyDestroyed) {
			anyDestroyed = true
			if k.Seq == view.Cur {
				curDestroyed = true
			}
		}
	}
	if a.Kind == "ReadRing" {
		if err != nil {
			fail("open failed but a ring was recorded")
		}
		return
	}
	if err != nil {
		switch {
		case err == api.ErrNoCurrentKey && !all && view.Cur == noKey:
			x.r.Count("v2_reader_saw_no_current_key", 1)
		case err == api.ErrKeyDestroyed && ((all && anyDestroyed) || (!all && curDestroyed)):
			// all-keys getters refuse a ring with any destroyed key (a C06 matter, not judged here); current-key getters
			// refuse a destroyed current key
			x.r.Count("v2_reader_saw_destroyed_key", 1)
		default:
			fail("error not implied by the ring it read: " + errClass(err.Error()))
		}
		return
	}
	var want []string
	if all {
		// all keys that still have material, newest first. (How a ring with destroyed keys is presented — refused with
		// ErrKeyDestroyed, as the tree did before 8acc570, or with the destroyed keys skipped — is C06's matter.)
		for i := len(view.Keys) - 1; i >= 0; i-- {
			if view.Keys[i].State != int(api.KeyDestroyed) {
				want = append(want, field(view.Keys[i]))
			}
		}
	} else if k := view.key(view.Cur); k != nil {
		want = []string{field(*k)}
	}
	if strings.Join(want, ",") != strings.Join(got, ",") {
		fail("returned key material differs from the ring it read")
		return
	}
	x.r.Count("v2_reader_results_consistent", 1)
}

func shortAll(ms []string) []string {
	out := make([]string, len(ms))
	for i, m := range ms {
		out[i] = shortMat(m)
	}
	return out
}

// runProgram executes the actions, converting a panic of the code under test into a finding.
func (x *threadCtx) runProgram(prog []action) {
	defer func() {
		if v := recover(); v != nil {
			st := string(debug.Stack())
			x.bad = append(x.bad, readerFinding{
				Sig:    fmt.Sprintf("v2 keystore operation panicked: %s at %s: backend=%s", errClass(fmt.Sprint(v)), panicSite(st), x.backend),
				Detail: map[string]interface{}{"thread": x.t, "panic": fmt.Sprint(v), "stack": st, "log": x.log},
			})
		}
	}()
	for _, a := range prog {
		x.do(a)
	}
}

// --- program generation ---

var writeKinds = []string{"GenPair", "GenSym", "GenHmac", "DestroyCurPair", "DestroyCurSym", "DestroyCurHmac",
	"RingAdd", "RingAdd", "RingSetCur", "RingSetCur", "RingDestroy", "RingSetState", "ImportNX", "ImportOW"}
var readKinds = []string{"ReadRing", "ReadPrivKeys", "ReadPriv", "ReadPub", "ReadSymKeys", "ReadSym", "ReadHmac"}
var ringKinds = []string{"pair", "sym", "hmac"}

func kindRing(k string) string {
	switch k {
	case "GenPair", "DestroyCurPair", "ReadPrivKeys", "ReadPriv", "ReadPub":
		return "pair"
	case "GenSym", "DestroyCurSym", "ReadSymKeys", "ReadSym":
		return "sym"
	case "GenHmac", "DestroyCurHmac", "ReadHmac":
		return "hmac"
	}
	return ""
}

// targets are (client, ring kind) pairs a scenario works on; few of them so that threads collide.
type target struct{ Client, Ring string }

func genWrite(rng *gen.Rand, targets []target, nBundles int) action {
	tg := targets[rng.Intn(len(targets))]
	// choose a kind compatible with the target's ring kind
	for {
		k := writeKinds[rng.Intn(len(writeKinds))]
		if kr := kindRing(k); kr != "" && kr != tg.Ring {
			continue
		}
		a := action{Kind: k, Client: tg.Client}
		switch k {
		case "RingAdd", "RingSetCur", "RingDestroy", "RingSetState":
			a.Ring = tg.Ring
			a.Pick = rng.Intn(4)
			if k == "RingSetState" {
				a.State = int(settableStates[rng.Intn(len(settableStates))])
			}
		case "ImportNX", "ImportOW":
			if nBundles == 0 {
				continue
			}
			a.Client = ""
			a.Bundle = rng.Intn(nBundles)
		}
		return a
	}
}

func genRead(rng *gen.Rand, targets []target) action {
	tg := targets[rng.Intn(len(targets))]
	for {
		k := readKinds[rng.Intn(len(readKinds))]
		if kr := kindRing(k); kr != "" && kr != tg.Ring {
			continue
		}
		a := action{Kind: k, Client: tg.Client}
		if k == "ReadRing" {
			a.Ring = tg.Ring
		}
		return a
	}
}

func progStrings(progs [][]action) [][]string {
	out := make([][]string, len(progs))
	for i, p := range progs {
		for _, a := range p {
			out[i] = append(out[i], a.String())
		}
	}
	return out
}
