package c17

// redis.go — the Redis layer, v2: several keystore handles, each over its OWN backend.RedisBackend (own go-redis connection
// pool) with the same RootDir on one fakeredis server — the several-processes case, in which mutual exclusion rests on the
// Redis lock key alone (`SET <root>/.lock locked EX 10 NX`, busy-wait, `DEL` on unlock; RLock = Lock).
//
//  * redisStress: real goroutines, real TCP, -race; history recorded at the handle boundary, judged by the same model.
//    Variant "leaked lock": ONE lock SET is applied by the server but its connection is dropped instead of the reply
//    (fakeredis DropAfter): the client thinks Lock failed, the key exists, every other handle spins. Only in that variant a
//    watchdog goroutine advances the server's virtual clock past the lock's TTL (nobody can hold the lock legitimately then).
//  * redisSchedules: controlled interleavings at back-end-call granularity. Parking goes through ksrig.Sched (over a no-op
//    back end; one thread runs at a time, choosers SchedRandom / directed); NOTHING about the lock is modelled: a lock call is
//    parked under its own name and then the REAL RedisBackend.Lock is performed. So that a busy lock does not make the real
//    call spin (it busy-waits for 10 s of wall clock), the fakeredis hook answers a `SET .. NX` on the lock key with an error
//    while the key exists (it never blocks: it runs under the server lock); the wrapper recognizes that answer, counts the thread
//    as waiting and parks again. A waiting thread is not chosen again until the lock key has been deleted or has expired.
//  * lock expiry (directed): a writer is paused inside its write cycle for more than the TTL (srv.AdvanceClock(11 s)), a second
//    writer takes the lock and commits, the first one continues (and its Unlock deletes whatever lock key exists then).
//    Signatures of every execution in which the clock was advanced under a held lock start with "redis lock-expired: ".

import (
	"fmt"
	"hash/fnv"
	"strings"
	"sync"
	"time"

	"github.com/cossacklabs/acra/keystore/v2/keystore/filesystem/backend"
	backendAPI "github.com/cossacklabs/acra/keystore/v2/keystore/filesystem/backend/api"

	"verif/harness/internal/ev"
	"verif/harness/internal/gen"
	"verif/harness/internal/rig/fakeredis"
	"verif/harness/internal/rig/ksrig"
)

const (
	redisRoot    = "ks"
	redisLockKey = redisRoot + "/.lock"
	redisPrefix  = "redis "
	redisExpired = "redis lock-expired: "
	busyText     = "injected failure" // fakeredis FailBefore reply
)

// connection-level errors a client sees when the server closes the connection instead of answering
var droppedTexts = []string{"EOF", "connection reset", "broken pipe", "use of closed"}

func redisFactory(srv *fakeredis.Server) backendFactory {
	return func() (backendAPI.Backend, error) { return ksrig.V2RedisBackend(srv, 0, redisRoot) }
}

// isLockSet: the command RedisBackend.Lock issues (go-redis SetNX with expiration = SET key value EX n NX; without = SETNX).
func isLockSet(c *fakeredis.Cmd) (lock, nx bool) {
	if len(c.Args) == 0 || c.Args[0] != redisLockKey {
		return false, false
	}
	switch c.Name {
	case "SETNX":
		return true, true
	case "SET":
		for _, a := range c.Args[2:] {
			if strings.EqualFold(a, "NX") {
				return true, true
			}
		}
		return true, false
	}
	return false, false
}

func isLockDel(c *fakeredis.Cmd) bool {
	if c.Name != "DEL" && c.Name != "UNLINK" {
		return false
	}
	for _, a := range c.Args {
		if a == redisLockKey {
			return true
		}
	}
	return false
}

func filterInjected(bad []readerFinding, texts []string) []readerFinding {
	if len(texts) == 0 {
		return bad
	}
	var out []readerFinding
next:
	for _, f := range bad {
		if strings.Contains(f.Sig, "ring could not be opened: ") {
			for _, t := range texts {
				if strings.Contains(f.Sig, t) {
					continue next
				}
			}
		}
		out = append(out, f)
	}
	return out
}

// ---------------------------------------------------------------- stress

// redisStress: goroutines with their own keystore handle AND their own RedisBackend on one server, free-running in rounds
// (barrier after every action, as v2Stress). leak: the n-th lock SET of the run is applied and its connection dropped.
func redisStress(r *ev.Run, goroutines, actions int, targets []target, leak bool) {
	srv := fakeredis.Start()
	defer srv.Close()
	factory := redisFactory(srv)
	tag := "redis"
	workload := "redis-stress"
	var extra []string
	var hmu sync.Mutex
	var lockSets, afterLeak int64
	var leaked, advanced bool
	keyAbsent := true
	leakAt := int64(0)
	done := make(chan struct{})
	wdDone := make(chan struct{})
	if leak {
		tag, workload = "redis-leak", "redis-stress-leaked-lock"
		extra = droppedTexts
		leakAt = int64(goroutines*2 + int(r.Seed%7)) // some way into the run: all handles are open and working
		fired := make(chan struct{}, 1)
		srv.SetHook(func(c *fakeredis.Cmd) fakeredis.Action {
			hmu.Lock()
			defer hmu.Unlock()
			if lock, _ := isLockSet(c); lock {
				lockSets++
				if leaked && !advanced {
					afterLeak++
				}
				if keyAbsent {
					// this SET takes the key; the first one at or after leakAt loses its connection instead of being answered
					keyAbsent = false
					if !leaked && lockSets >= leakAt {
						leaked = true
						fired <- struct{}{}
						return fakeredis.DropAfter
					}
				}
			} else if isLockDel(c) {
				keyAbsent = true
			}
			return fakeredis.Proceed
		})
		// the watchdog: ONLY after the leak (no handle can hold the lock then: the leaked key keeps everybody out) it moves the
		// virtual clock past the TTL, after the others have been seen spinning (or 2 s of wall clock; not a verdict)
		go func() {
			defer close(wdDone)
			select {
			case <-fired:
			case <-done:
				return
			}
			t0 := time.Now()
			for time.Since(t0) < 2*time.Second {
				hmu.Lock()
				n := afterLeak
				hmu.Unlock()
				if n >= 50 {
					break
				}
				time.Sleep(time.Millisecond)
			}
			srv.AdvanceClock(11 * time.Second)
			hmu.Lock()
			advanced = true
			keyAbsent = true
			hmu.Unlock()
		}()
	}
	defer close(done)

	keys := ksrig.NewV2Keys()
	var specs []action
	for _, tg := range universe {
		specs = append(specs, action{Client: tg.Client, Ring: tg.Ring})
	}
	bundles, err := makeBundles(keys, specs)
	if err != nil {
		panic(err)
	}
	rec := newRecorder()
	progs := stressPrograms(r.Seed, tag, goroutines, actions, targets)
	ctxs := make([]*threadCtx, goroutines)
	for g := 0; g < goroutines; g++ {
		b, err := factory()
		if err != nil {
			panic(fmt.Sprintf("c17 redis stress: cannot open backend: %v", err))
		}
		h, err := openHandle(b, keys, rec, g)
		if err != nil {
			panic(err)
		}
		ctxs[g] = newThreadCtx(r, g, h, bundles, "redis")
	}
	var wg sync.WaitGroup
	bar := newBarrier(goroutines)
	for g := 0; g < goroutines; g++ {
		wg.Add(1)
		go func(g int) {
			defer wg.Done()
			for _, a := range progs[g] {
				bar.wait()
				ctxs[g].runProgram([]action{a})
			}
		}(g)
	}
	if !waitTimeout(&wg, 4*time.Minute) {
		r.Inconclusive("redis free-running stress did not finish (watchdog): " + workload)
		return
	}
	if leak {
		// the leak may have hit the last lock operation of the run: the watchdog is then still waiting to see others spin
		hmu.Lock()
		wait := leaked
		hmu.Unlock()
		if wait {
			select {
			case <-wdDone:
			case <-time.After(10 * time.Second):
			}
		}
	}
	srv.SetHook(nil)
	r.Cases(goroutines * actions)
	r.Count("redis_stress_actions", int64(goroutines*actions))
	detail := map[string]interface{}{"goroutines": goroutines, "actions_each": actions, "seed": r.Seed, "programs": progStrings(progs)}
	if leak {
		r.Count("redis_leak_stress_actions", int64(goroutines*actions))
		hmu.Lock()
		ok, spins := leaked && advanced, afterLeak
		hmu.Unlock()
		if !ok {
			r.Inconclusive("redis stress with a leaked lock key: the fault point was not reached")
			return
		}
		r.Count("redis_lock_sets_dropped_after_apply", 1)
		r.Count("redis_lock_attempts_behind_leaked_key", spins)
		r.Count("redis_watchdog_clock_advances", 1)
		detail["lock_set_dropped"] = leakAt
	}
	clean := true
	for _, x := range ctxs {
		for _, f := range filterInjected(x.bad, extra) {
			clean = false
			d := map[string]interface{}{"context": detail}
			for k, v := range f.Detail {
				d[k] = v
			}
			r.Violation(redisPrefix+f.Sig, d)
		}
	}
	fb, err := factory()
	if err != nil {
		panic(err)
	}
	finals, err := finalStates(fb, keys, universeRings())
	if err != nil {
		panic(err)
	}
	if _, stuck := srv.Get(0, redisLockKey); stuck {
		clean = false
		r.Violation(redisPrefix+"v2 lock key still present after every handle finished its operations: backend=redis", map[string]interface{}{"context": detail, "workload": workload})
	}
	hist := rec.history()
	if checkHistory(r, hist, finals, checkCtx{Backend: "redis", Workload: workload, Detail: detail, Timeout: 30 * time.Second, Prefix: redisPrefix, ExtraNoop: extra}) && clean {
		r.Distinct(fmt.Sprintf("redis-stress:%s:%d-goroutines", tag, goroutines))
		if len(hist) > 12 {
			r.SampleN("stress-"+tag, 1, map[string]interface{}{"kind": "free-running stress history (" + workload + ", first 12 operations)", "ops": renderOps(hist[:12])})
		}
	}
	if n := srv.Unknown(); n != 0 {
		r.Inconclusive(fmt.Sprintf("fakeredis: unknown command (%d) in %s", n, workload))
	}
	for _, x := range ctxs {
		x.h.close()
	}
}

// ---------------------------------------------------------------- controlled schedules

// nullBackend is what the ksrig.Sched of a Redis run "owns": parking only, the real call is made by rsBackend afterwards.
type nullBackend struct{}

func (nullBackend) Get(string) ([]byte, error)    { return nil, nil }
func (nullBackend) Put(string, []byte) error      { return nil }
func (nullBackend) ListAll() ([]string, error)    { return nil, nil }
func (nullBackend) Rename(string, string) error   { return nil }
func (nullBackend) RenameNX(string, string) error { return nil }
func (nullBackend) Lock() error                   { return nil }
func (nullBackend) Unlock() error                 { return nil }
func (nullBackend) RLock() error                  { return nil }
func (nullBackend) RUnlock() error                { return nil }
func (nullBackend) Close() error                  { return nil }

// redisRun is one controlled execution: the server, the lock-key bookkeeping of the hook, the waiting threads.
type redisRun struct {
	srv   *fakeredis.Server
	sched *ksrig.Sched

	mu       sync.Mutex
	keyHeld  bool         // the lock key exists (as far as SET NX / DEL / expiry tell)
	blocked  map[int]bool // threads whose last lock attempt found the key; cleared when the key goes away
	pending  map[int]string
	lockOKs  map[int]int // successful lock calls per thread
	sinceOK  map[int]int // back-end calls of the thread since its last successful lock call
	inside   map[int]bool
	dropNext bool // the next applied lock SET loses its connection (DropAfter)
	dropped  int
	busy     int
	// expiry
	mayAdvanceWhenStuck bool
	advancedStuck       int
	advancedHeld        int // clock advanced while some thread was inside its critical section
	stuck               bool
	overlap             int // a thread entered its critical section while another was inside (only possible after expiry or with a broken lock)
}

func newRedisRun() *redisRun {
	w := &redisRun{srv: fakeredis.Start(), blocked: map[int]bool{}, pending: map[int]string{}, lockOKs: map[int]int{}, sinceOK: map[int]int{}, inside: map[int]bool{}}
	w.sched = ksrig.NewSched(nullBackend{})
	w.srv.SetHook(w.hook)
	return w
}

// hook runs under the server lock: bookkeeping and immediate answers only.
func (w *redisRun) hook(c *fakeredis.Cmd) fakeredis.Action {
	w.mu.Lock()
	defer w.mu.Unlock()
	if lock, nx := isLockSet(c); lock {
		if nx && w.keyHeld {
			w.busy++
			return fakeredis.FailBefore // instead of the nil reply on which RedisBackend.Lock would spin
		}
		w.keyHeld = true
		if w.dropNext {
			w.dropNext = false
			w.dropped++
			return fakeredis.DropAfter
		}
	} else if isLockDel(c) {
		w.keyHeld = false
		w.blocked = map[int]bool{}
	}
	return fakeredis.Proceed
}

// expire moves the virtual clock past the lock TTL.
func (w *redisRun) expire() {
	w.srv.AdvanceClock(11 * time.Second)
	w.mu.Lock()
	w.keyHeld = false
	w.blocked = map[int]bool{}
	w.mu.Unlock()
}

// rsChooser filters the threads that wait for the lock key out of the enabled ones and lets the inner chooser pick.
type rsChooser struct {
	w     *redisRun
	inner func(step int, cands []int) int // returns a thread id out of cands
}

func (c rsChooser) Choose(step int, enabled []int) int {
	w := c.w
	pick := func() []int {
		w.mu.Lock()
		defer w.mu.Unlock()
		var cands []int
		for _, t := range enabled {
			if !(w.blocked[t] && strings.HasSuffix(w.pending[t], "Lock")) {
				cands = append(cands, t)
			}
		}
		return cands
	}
	cands := pick()
	if len(cands) == 0 {
		// every live thread waits for a lock key that none of them will delete
		if w.mayAdvanceWhenStuck {
			w.expire() // the deterministic stand-in for the watchdog: the TTL passes while everybody spins
			w.mu.Lock()
			w.advancedStuck++
			w.mu.Unlock()
		} else {
			w.mu.Lock()
			w.stuck = true
			w.blocked = map[int]bool{}
			w.mu.Unlock()
		}
		cands = enabled
	}
	t := c.inner(step, cands)
	for i, e := range enabled {
		if e == t {
			return i
		}
	}
	return 0
}

// rsBackend is one handle's back end: its own RedisBackend, every call a scheduling point of thread t.
type rsBackend struct {
	w    *redisRun
	t    int
	real *backend.RedisBackend
	park *ksrig.SchedBackend
	// dropAt: the lock call (0-based, of this handle) whose SET is applied with the connection dropped instead of the reply; -1 = none
	dropAt, lockCalls int
}

func (b *rsBackend) point(op string) {
	b.w.mu.Lock()
	b.w.pending[b.t] = op
	b.w.mu.Unlock()
	b.park.Get("#" + op) // parks as (t, Get, "#op"); the no-op back end answers
	b.w.mu.Lock()
	b.w.sinceOK[b.t]++
	b.w.mu.Unlock()
}

func (b *rsBackend) Get(path string) ([]byte, error) { b.point("Get"); return b.real.Get(path) }
func (b *rsBackend) Put(path string, d []byte) error { b.point("Put"); return b.real.Put(path, d) }
func (b *rsBackend) ListAll() ([]string, error)      { b.point("ListAll"); return b.real.ListAll() }
func (b *rsBackend) Rename(o, n string) error        { b.point("Rename"); return b.real.Rename(o, n) }
func (b *rsBackend) RenameNX(o, n string) error      { b.point("RenameNX"); return b.real.RenameNX(o, n) }
func (b *rsBackend) Close() error                    { return b.real.Close() }

func (b *rsBackend) lock(op string, f func() error) error {
	call := b.lockCalls
	b.lockCalls++
	for {
		b.point(op)
		b.w.mu.Lock()
		stuck := b.w.stuck
		b.w.dropNext = call == b.dropAt
		b.w.mu.Unlock()
		if stuck {
			return fmt.Errorf("harness: the lock key was never released")
		}
		err := f()
		b.w.mu.Lock()
		b.w.dropNext = false
		b.w.mu.Unlock()
		if err != nil && strings.Contains(err.Error(), busyText) {
			b.w.mu.Lock()
			b.w.blocked[b.t] = b.w.keyHeld // (a DEL cannot have come in between: one thread runs at a time)
			b.w.mu.Unlock()
			continue
		}
		if err == nil {
			b.w.mu.Lock()
			for t, in := range b.w.inside {
				if in && t != b.t {
					b.w.overlap++
				}
			}
			b.w.inside[b.t] = true
			b.w.lockOKs[b.t]++
			b.w.sinceOK[b.t] = 0
			b.w.mu.Unlock()
		}
		return err
	}
}

func (b *rsBackend) unlock(op string, f func() error) error {
	b.point(op)
	err := f()
	b.w.mu.Lock()
	b.w.inside[b.t] = false
	b.w.mu.Unlock()
	return err
}

func (b *rsBackend) Lock() error    { return b.lock("Lock", b.real.Lock) }
func (b *rsBackend) RLock() error   { return b.lock("RLock", b.real.RLock) }
func (b *rsBackend) Unlock() error  { return b.unlock("Unlock", b.real.Unlock) }
func (b *rsBackend) RUnlock() error { return b.unlock("RUnlock", b.real.RUnlock) }

func rsTrace(res *ksrig.SchedResult) (compact string, sig string, switches int) {
	h := fnv.New64a()
	parts := make([]string, len(res.Trace))
	for i, s := range res.Trace {
		parts[i] = fmt.Sprintf("%d:%s", s.Thread, strings.TrimPrefix(s.Path, "#"))
		fmt.Fprintf(h, "%s;", parts[i])
		if i > 0 && s.Thread != res.Trace[i-1].Thread {
			switches++
		}
	}
	return strings.Join(parts, " "), fmt.Sprintf("%016x", h.Sum64()), switches
}

// redisPlan says how one controlled execution is driven.
type redisPlan struct {
	Workload string
	// pick returns the thread to run next out of cands (random or directed); it may call w.expire() (lock expiry) first
	pick func(w *redisRun, step int, cands []int) int
	// dropLock: thread whose n-th lock call (0-based) has its SET applied and the connection dropped; -1 = none
	dropThread, dropCall int
}

// runRedisScenario executes one scenario: one RedisBackend per thread on a fresh server.
func (sw *schedWorld) runRedisScenario(r *ev.Run, sc *scenario, plan redisPlan, detail map[string]interface{}) bool {
	w := newRedisRun()
	defer w.srv.Close()
	rec := newRecorder()
	n := len(sc.Progs)
	factory := redisFactory(w.srv)
	if len(sc.Setup) > 0 {
		b, err := factory()
		if err != nil {
			panic(err)
		}
		h, err := openHandle(b, sw.keys, rec, n)
		if err != nil {
			panic(err)
		}
		x := newThreadCtx(r, n, h, sw.bundles, "redis")
		x.runProgram(sc.Setup)
		h.close()
	}
	var extra []string
	if plan.dropThread >= 0 {
		extra = droppedTexts
		w.mayAdvanceWhenStuck = true
	}
	ctxs := make([]*threadCtx, n)
	bodies := make([]func(), n)
	for i := 0; i < n; i++ {
		rb, err := ksrig.V2RedisBackend(w.srv, 0, redisRoot)
		if err != nil {
			panic(err)
		}
		be := &rsBackend{w: w, t: i, real: rb, park: w.sched.Handle(i), dropAt: -1}
		if i == plan.dropThread {
			be.dropAt = plan.dropCall
		}
		h, err := openHandle(be, sw.keys, rec, i)
		if err != nil {
			panic(err)
		}
		ctxs[i] = newThreadCtx(r, i, h, sw.bundles, "redis")
		prog := sc.Progs[i]
		x := ctxs[i]
		bodies[i] = func() { x.runProgram(prog) }
	}
	ch := rsChooser{w: w, inner: func(step int, cands []int) int { return plan.pick(w, step, cands) }}
	res := w.sched.Run(ch, 60*time.Second, bodies...)
	w.srv.SetHook(nil)
	r.Case()
	r.Count("redis_sched_executions", 1)
	r.Count("redis_sched_backend_calls_scheduled", int64(len(res.Trace)))
	compact, sig, switches := rsTrace(res)
	w.mu.Lock()
	expired, advStuck, dropped, busy, stuck, overlap := w.advancedHeld, w.advancedStuck, w.dropped, w.busy, w.stuck, w.overlap
	w.mu.Unlock()
	if _, left := w.srv.Get(0, redisLockKey); left && dropped > 0 && !stuck {
		// the dropped lock SET was (one of) the last lock operations: nobody was left to wait behind the leaked key. Every thread has
		// returned, so nobody holds the lock: the TTL passes before the final reads (which go through the lock like every reader)
		w.expire()
		r.Count("redis_sched_clock_advances_after_the_run", 1)
	}
	prefix := redisPrefix
	if expired > 0 {
		prefix = redisExpired
		r.Count("redis_sched_executions_with_lock_expiry", 1)
	}
	r.Count("redis_sched_lock_attempts_found_key", int64(busy))
	r.Count("redis_sched_lock_sets_dropped_after_apply", int64(dropped))
	r.Count("redis_sched_clock_advances_all_waiting", int64(advStuck))
	r.Count("redis_sched_critical_sections_overlapped", int64(overlap))
	full := func() map[string]interface{} {
		d := map[string]interface{}{"scenario": sc.Name, "setup": fmt.Sprint(sc.Setup), "programs": progStrings(sc.Progs),
			"interleaving": compact, "interleaving_threads": res.Threads(), "workload": plan.Workload,
			"clock_advanced_under_held_lock": expired, "clock_advanced_while_all_waited": advStuck, "lock_sets_dropped": dropped}
		for k, v := range detail {
			d[k] = v
		}
		var logs []string
		for _, x := range ctxs {
			logs = append(logs, x.log...)
		}
		d["action_results"] = logs
		return d
	}
	clean := true
	if res.Hung {
		r.Inconclusive(fmt.Sprintf("redis controlled schedule hung (watchdog): scenario=%s", sc.Name))
		return false
	}
	if res.Deadlock {
		r.Inconclusive(fmt.Sprintf("redis controlled schedule: scheduler reported a deadlock although nothing is modelled: scenario=%s", sc.Name))
		return false
	}
	if stuck {
		clean = false
		r.Violation(prefix+"v2 controlled schedule deadlocked: every live handle waits for a lock key that is never deleted: backend=redis", full())
	}
	if overlap > 0 && expired == 0 {
		clean = false
		r.Violation(prefix+"v2 two handles were inside the store lock at the same time: backend=redis", full())
	}
	for _, p := range res.Panics {
		clean = false
		r.Violation(prefix+"v2 keystore operation panicked: "+errClass(firstLine(p))+": backend=redis", full())
	}
	for _, x := range ctxs {
		x.h.close()
		for _, f := range filterInjected(x.bad, extra) {
			clean = false
			d := full()
			for k, v := range f.Detail {
				d[k] = v
			}
			r.Violation(prefix+f.Sig, d)
		}
	}
	fb, err := factory()
	if err != nil {
		panic(err)
	}
	finals, err := finalStates(fb, sw.keys, universeRings())
	if err != nil {
		panic(err)
	}
	if _, left := w.srv.Get(0, redisLockKey); left && !stuck {
		clean = false
		r.Violation(prefix+"v2 lock key still present after every handle finished its operations: backend=redis", full())
	}
	if stuck {
		extra = append(extra, "harness: the lock key was never released")
	}
	if !checkHistory(r, rec.history(), finals, checkCtx{Backend: "redis", Workload: plan.Workload, Detail: full(), Prefix: prefix, ExtraNoop: extra}) {
		clean = false
	}
	if un := w.srv.Unknown(); un != 0 {
		r.Inconclusive(fmt.Sprintf("fakeredis: unknown command (%d) in %s", un, plan.Workload))
	}
	if switches >= n {
		r.Distinct("redis-interleaving:" + sig)
		r.Count("redis_sched_executions_interleaved", 1)
	}
	r.SetAdd("redis_interleaving_signatures_all", sig)
	if clean && expired == 0 {
		r.SampleN("redis-sched-"+plan.Workload, 2, map[string]interface{}{"kind": "redis controlled schedule (" + plan.Workload + ")", "setup": fmt.Sprint(sc.Setup),
			"programs": progStrings(sc.Progs), "interleaving": compact})
	}
	return clean
}

// redisSchedules: count seeded random (scenario, schedule) pairs, a tenth of them with a lock SET dropped after being applied.
func (sw *schedWorld) redisSchedules(r *ev.Run, count, workers int) {
	var wg sync.WaitGroup
	jobs := make(chan int)
	for k := 0; k < workers; k++ {
		wg.Add(1)
		go func() {
			defer wg.Done()
			for i := range jobs {
				rng := gen.New(r.Seed, fmt.Sprintf("c17-redis-sched-%d", i))
				sc := randomScenario(rng, fmt.Sprintf("redis-2w1r#%d", i), 2, 1, 3, 4)
				plan := redisPlan{Workload: "redis-sched-random", dropThread: -1,
					pick: func(_ *redisRun, _ int, cands []int) int { return cands[rng.Intn(len(cands))] }}
				if i%5 == 4 {
					plan.Workload = "redis-sched-random-leaked-lock"
					plan.dropThread = rng.Intn(3)
					plan.dropCall = rng.Intn(4)
				}
				sw.runRedisScenario(r, sc, plan, map[string]interface{}{"schedule_index": i, "seed": r.Seed})
			}
		}()
	}
	for i := 0; i < count; i++ {
		jobs <- i
	}
	close(jobs)
	wg.Wait()
}

// redisLockExpiry: directed schedules. Thread 0 (the paused writer) runs until it has taken the lock for its LAST action and made
// k further back-end calls; the clock moves past the TTL; thread 1 runs to completion (variant 3-party: only until it is k2 calls
// into ITS last write cycle, then thread 0 finishes — its Unlock deletes thread 1's lock key — and thread 2 runs while thread 1
// is still inside); then everybody else, lowest thread first.
func (sw *schedWorld) redisLockExpiry(r *ev.Run, count int) {
	kinds := []string{"sym", "hmac", "pair"}
	for i := 0; i < count; i++ {
		rng := gen.New(r.Seed, fmt.Sprintf("c17-redis-expiry-%d", i))
		tg := target{[]string{"alpha", "bravo"}[i%2], kinds[i%3]}
		gk := map[string]string{"pair": "GenPair", "sym": "GenSym", "hmac": "GenHmac"}[tg.Ring]
		threeParty := i%4 == 3
		k := i % 4 // calls after the lock call: 0 = paused right after Lock, 1 = after the pull (Get), 2 = after Put, 3 = after Rename
		if threeParty {
			k = 1 + rng.Intn(2)
		}
		sc := &scenario{Name: fmt.Sprintf("redis-lock-expiry#%d(k=%d,3party=%v)", i, k, threeParty), Targets: []target{tg}}
		for n := 1 + rng.Intn(2); n > 0; n-- {
			sc.Setup = append(sc.Setup, action{Kind: gk, Client: tg.Client})
		}
		last := func() action {
			switch rng.Intn(4) {
			case 0:
				return action{Kind: "RingSetCur", Client: tg.Client, Ring: tg.Ring, Pick: rng.Intn(2)}
			case 1:
				return action{Kind: "RingSetState", Client: tg.Client, Ring: tg.Ring, Pick: rng.Intn(2), State: int(settableStates[0])}
			}
			return action{Kind: "RingAdd", Client: tg.Client, Ring: tg.Ring}
		}
		open := action{Kind: "RingOpen", Client: tg.Client, Ring: tg.Ring}
		sc.Progs = [][]action{{open, last()}, {open, action{Kind: "RingAdd", Client: tg.Client, Ring: tg.Ring}}}
		if threeParty {
			sc.Progs = append(sc.Progs, []action{open, action{Kind: "RingAdd", Client: tg.Client, Ring: tg.Ring}})
		} else {
			sc.Progs = append(sc.Progs, []action{genRead(rng, sc.Targets)})
		}
		k2 := 1 + rng.Intn(2)
		phase := 0
		has := func(cands []int, t int) bool {
			for _, c := range cands {
				if c == t {
					return true
				}
			}
			return false
		}
		// RingOpen = one lock cycle (OpenKeyRingRW), the last action = the second one
		inCycle := func(w *redisRun, t, calls int) bool {
			w.mu.Lock()
			defer w.mu.Unlock()
			return w.lockOKs[t] >= 2 && w.inside[t] && w.sinceOK[t] >= calls
		}
		plan := redisPlan{Workload: "redis-sched-lock-expiry", dropThread: -1}
		plan.pick = func(w *redisRun, _ int, cands []int) int {
			switch phase {
			case 0:
				if inCycle(w, 0, k) {
					// thread 0 is paused here for longer than the lock's TTL
					w.expire()
					w.mu.Lock()
					w.advancedHeld++
					w.mu.Unlock()
					phase = 1
				} else if has(cands, 0) {
					return 0
				} else {
					phase = 3 // thread 0 ended without getting there (refused earlier)
				}
			}
			if phase == 1 {
				if threeParty && inCycle(w, 1, k2) {
					phase = 2
				} else if has(cands, 1) {
					return 1
				} else {
					phase = 2
				}
			}
			if phase == 2 {
				if has(cands, 0) {
					return 0
				}
				phase = 3
			}
			if threeParty && has(cands, 2) {
				return 2
			}
			return cands[0]
		}
		sw.runRedisScenario(r, sc, plan, map[string]interface{}{"expiry_index": i, "seed": r.Seed, "paused_after_calls": k, "three_party": threeParty})
	}
}
