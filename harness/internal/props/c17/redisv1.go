package c17

// redisv1.go — the Redis layer, v1: several filesystem.KeyStore handles over filesystem.RedisStorage, each with its OWN
// RedisStorage (own connection pool), one key directory on one fakeredis server: the several-processes deployment.
// RedisStorage has no lock at all. What is demanded (and nothing more):
//   - the v1 clause of the property as the existing v1 layer applies it, now for every one of the handles at once:
//     every getter result equals the reference read sequentially beforehand, no errors, no panics, handed-out keys stay intact
//     (4 handles with cache sizes 1 / 2 / unbounded / off, each shared by several goroutines);
//   - "every successful operation is reflected in the final state exactly once", for writers that work through SEPARATE handles
//     at the same time on DIFFERENT keys (fresh client ids — disjoint Redis keys, so no lock is needed for this to hold):
//     after the run a fresh handle returns for every such client exactly the keys that were generated, newest first, each once,
//     and the readers above were not disturbed by the keys appearing in the database (SCAN-based listings run meanwhile).
// NOT demanded: anything about two v1 handles rotating the SAME key at the same moment (v1 has neither a lock nor sequence
// numbers on any storage; the existing v1 layer drives no writers for that reason), nor about a reader of a key while it is rotated.

import (
	"bytes"
	"fmt"
	"runtime/debug"
	"sync"
	"time"

	"github.com/cossacklabs/acra/keystore"
	"github.com/cossacklabs/acra/keystore/filesystem"

	"verif/harness/internal/ev"
	"verif/harness/internal/rig/fakeredis"
	"verif/harness/internal/rig/ksrig"
)

func redisV1(r *ev.Run, nClients, goroutines, iters, writers, freshEach int) {
	srv := fakeredis.Start()
	defer srv.Close()
	// keys of other applications in the same database: SCAN pages through them as well
	for i := 0; i < 64; i++ {
		srv.Put(0, fmt.Sprintf("otherapp:session:%03d", i), "eA==")
	}
	w := &v1World{dir: "keys", master: ksrig.RandBytes(32), ref: map[string][][]byte{}, prefix: redisPrefix, tag: "redis_"}
	w.open = func(cacheSize int) (*filesystem.KeyStore, error) {
		ks, _, err := ksrig.V1Redis(srv, 0, w.dir, w.master, cacheSize)
		return ks, err
	}
	w.populate(r, nClients)

	sizes := []int{1, 2, keystore.InfiniteCacheSize, keystore.WithoutCache}
	var wg sync.WaitGroup
	for _, size := range sizes {
		wg.Add(1)
		go func(size int) {
			defer wg.Done()
			w.stress(r, size, goroutines, iters) // one handle (own RedisStorage) per call, shared by its goroutines
		}(size)
	}
	// writers: own handle each, fresh clients, 1-3 generations of the symmetric key per client
	type made struct {
		id   []byte
		syms [][]byte // the writer's own read after each generation, oldest first
		bad  string
	}
	results := make([][]made, writers)
	for wi := 0; wi < writers; wi++ {
		wg.Add(1)
		go func(wi int) {
			defer wg.Done()
			defer func() {
				if v := recover(); v != nil {
					st := string(debug.Stack())
					r.Violation(redisPrefix+fmt.Sprintf("v1 writer handle panicked: %s at %s", errClass(fmt.Sprint(v)), panicSite(st)), map[string]interface{}{"panic": fmt.Sprint(v), "stack": st})
				}
			}()
			ks, err := w.open(keystore.WithoutCache)
			if err != nil {
				panic(err)
			}
			for k := 0; k < freshEach; k++ {
				m := made{id: []byte(fmt.Sprintf("fresh_w%d_%d", wi, k))}
				step := func(what string, err error) bool {
					if err != nil && m.bad == "" {
						m.bad = what + ": " + errClass(err.Error())
					}
					return err == nil
				}
				if step("GenerateDataEncryptionKeys", ks.GenerateDataEncryptionKeys(m.id)) && step("GenerateHmacKey", ks.GenerateHmacKey(m.id)) {
					for g := 0; g <= (wi+k)%3; g++ {
						if g > 0 {
							time.Sleep(3 * time.Millisecond) // rotated names carry a millisecond timestamp (workload pacing, no oracle)
						}
						if !step("GenerateClientIDSymmetricKey", ks.GenerateClientIDSymmetricKey(m.id)) {
							break
						}
						cur, err := ks.GetClientIDSymmetricKey(m.id)
						if !step("GetClientIDSymmetricKey(own handle)", err) {
							break
						}
						m.syms = append(m.syms, append([]byte(nil), cur...))
					}
				}
				results[wi] = append(results[wi], m)
			}
		}(wi)
	}
	if !waitTimeout(&wg, 3*time.Minute) {
		r.Inconclusive("redis v1 workload did not finish (watchdog)")
		return
	}
	// final state through a fresh handle
	fresh, err := w.open(keystore.WithoutCache)
	if err != nil {
		panic(err)
	}
	for wi := range results {
		for _, m := range results[wi] {
			r.Case()
			detail := map[string]interface{}{"client": string(m.id), "writer": wi, "generations": len(m.syms), "seed": r.Seed}
			if m.bad != "" {
				r.Violation(redisPrefix+"v1 writer on its own keys failed while other handles work on other keys: "+m.bad, detail)
				continue
			}
			got, err := fresh.GetClientIDSymmetricKeys(m.id)
			if err != nil {
				r.Violation(redisPrefix+"v1 final state: keys generated through another handle cannot be read: GetClientIDSymmetricKeys: "+errClass(err.Error()), detail)
				continue
			}
			ok := len(got) == len(m.syms)
			for i := 0; ok && i < len(got); i++ {
				ok = bytes.Equal(got[i], m.syms[len(m.syms)-1-i])
			}
			if !ok {
				detail["returned_keys"] = len(got)
				r.Violation(redisPrefix+"v1 final state: the symmetric keys of a client are not exactly the generated ones, newest first, each once", detail)
				continue
			}
			if _, err := fresh.GetServerDecryptionPrivateKey(m.id); err != nil {
				r.Violation(redisPrefix+"v1 final state: keys generated through another handle cannot be read: GetServerDecryptionPrivateKey: "+errClass(err.Error()), detail)
				continue
			}
			if _, err := fresh.GetHMACSecretKey(m.id); err != nil {
				r.Violation(redisPrefix+"v1 final state: keys generated through another handle cannot be read: GetHMACSecretKey: "+errClass(err.Error()), detail)
				continue
			}
			r.Count("redis_v1_generated_clients_reflected_exactly", 1)
			r.Count("redis_v1_generations_traced_to_final_state", int64(len(m.syms)))
			r.Distinct(fmt.Sprintf("redis-v1-writer:%d-generations", len(m.syms)))
		}
	}
	if n := srv.Unknown(); n != 0 {
		r.Inconclusive(fmt.Sprintf("fakeredis: unknown command (%d) in the v1 workload", n))
	}
}
