package c17

// v2dirshared.go — goroutines SHARING one keystore handle (readers and writers, the way acra-server's connection
// handlers and its key-rotation API share the server keystore) together with writers on a SECOND handle of the same
// store. On the directory back end the store lock is flock(2) on the handle's open lock file + an in-process mutex:
// flock locks belong to the open file, not to the goroutine, so what the goroutines of one handle do to each other's
// lock is invisible to workloads in which every goroutine has its own handle.
//
//   (1) lockSched: controlled schedules at back-end call granularity over the REAL lock. Every back-end call of a
//       thread parks until the scheduler grants it; nothing is modelled about the lock: a granted Lock/RLock is simply
//       performed, and a thread that stays inside the call is "blocked" until the lock lets it in. Seeded random
//       schedules (both tiers) and depth-first enumeration of one directed scenario (thorough).
//   (2) v2SharedHandleWriters: the same population free-running (-race), in rounds.
//
// Oracles: the existing ones (per-ring linearizability of the recorded history, final-state accounting, reader oracle,
// error classes, panics).

import (
	"bytes"
	"fmt"
	"runtime"
	"runtime/debug"
	"sort"
	"strconv"
	"sync"
	"time"

	backendAPI "github.com/cossacklabs/acra/keystore/v2/keystore/filesystem/backend/api"

	"verif/harness/internal/ev"
	"verif/harness/internal/gen"
	"verif/harness/internal/rig/ksrig"
)

// ---------------------------------------------------------------------------------------------
// scheduler over real locks

const (
	lsIdle = iota // not started yet
	lsRunning
	lsParked
	lsInLock // inside a granted Lock/RLock call of the real back end
	lsDone
)

type lsThread struct {
	status    int
	pending   ksrig.SchedStep
	granted   bool
	lockSince time.Time
	panicV    interface{}
	stack     string
}

type lockSched struct {
	mu      sync.Mutex
	cond    *sync.Cond
	active  bool
	threads []*lsThread
	goids   map[int64]int
	trace   []ksrig.SchedStep
	grace   time.Duration
	blocked int // how often a granted lock call was seen waiting
}

func newLockSched(grace time.Duration) *lockSched {
	s := &lockSched{goids: map[int64]int{}, grace: grace}
	s.cond = sync.NewCond(&s.mu)
	return s
}

func goid() int64 {
	var buf [64]byte
	b := buf[:runtime.Stack(buf[:], false)]
	b = bytes.TrimPrefix(b, []byte("goroutine "))
	if i := bytes.IndexByte(b, ' '); i > 0 {
		n, _ := strconv.ParseInt(string(b[:i]), 10, 64)
		return n
	}
	return -1
}

// current returns the scheduled thread the calling goroutine belongs to (-1: not one of them, e.g. a finalizer).
func (s *lockSched) current() int {
	id := goid()
	s.mu.Lock()
	defer s.mu.Unlock()
	if !s.active {
		return -1
	}
	if t, ok := s.goids[id]; ok {
		return t
	}
	return -1
}

func (s *lockSched) park(t int, op, path string) {
	s.mu.Lock()
	if !s.active || s.threads[t].status != lsRunning {
		s.mu.Unlock()
		return
	}
	th := s.threads[t]
	th.pending = ksrig.SchedStep{Thread: t, Op: op, Path: path}
	th.status = lsParked
	th.granted = false
	s.cond.Broadcast()
	for !th.granted {
		s.cond.Wait()
	}
	th.granted = false
	if th.status == lsParked {
		th.status = lsRunning
	}
	s.mu.Unlock()
}

func (s *lockSched) setStatus(t, st int) {
	s.mu.Lock()
	if s.active {
		th := s.threads[t]
		th.status = st
		th.lockSince = time.Now()
		s.cond.Broadcast()
	}
	s.mu.Unlock()
}

// lsBackend is the view of ONE handle's back end; the calling goroutine tells which thread it is.
type lsBackend struct {
	s     *lockSched
	inner backendAPI.Backend
}

var _ backendAPI.Backend = (*lsBackend)(nil)

func (b *lsBackend) data(op, path string) {
	if t := b.s.current(); t >= 0 {
		b.s.park(t, op, path)
	}
}

func (b *lsBackend) lock(op string, f func() error) error {
	t := b.s.current()
	if t < 0 {
		return f()
	}
	b.s.park(t, op, "")
	b.s.setStatus(t, lsInLock)
	err := f()
	b.s.setStatus(t, lsRunning)
	return err
}

func (b *lsBackend) unlock(op string, f func() error) error {
	if t := b.s.current(); t >= 0 {
		b.s.park(t, op, "")
	}
	err := f()
	// whoever waited for the lock gets a fresh period of grace to wake up before it counts as blocked again
	b.s.mu.Lock()
	now := time.Now()
	for _, th := range b.s.threads {
		if th.status == lsInLock {
			th.lockSince = now
		}
	}
	b.s.mu.Unlock()
	return err
}

func (b *lsBackend) Get(path string) ([]byte, error) { b.data("Get", path); return b.inner.Get(path) }
func (b *lsBackend) Put(path string, data []byte) error {
	b.data("Put", path)
	return b.inner.Put(path, data)
}
func (b *lsBackend) ListAll() ([]string, error) { b.data("ListAll", ""); return b.inner.ListAll() }
func (b *lsBackend) Rename(o, n string) error   { b.data("Rename", n); return b.inner.Rename(o, n) }
func (b *lsBackend) RenameNX(o, n string) error { b.data("RenameNX", n); return b.inner.RenameNX(o, n) }
func (b *lsBackend) Lock() error                { return b.lock("Lock", b.inner.Lock) }
func (b *lsBackend) RLock() error               { return b.lock("RLock", b.inner.RLock) }
func (b *lsBackend) Unlock() error              { return b.unlock("Unlock", b.inner.Unlock) }
func (b *lsBackend) RUnlock() error             { return b.unlock("RUnlock", b.inner.RUnlock) }
func (b *lsBackend) Close() error               { return b.inner.Close() }

type lsResult struct {
	ksrig.SchedResult
	BlockedWaits int // granted lock calls that were seen waiting for the lock
}

// quiet waits (mu held) until every thread is parked, done, or has been inside a lock call for the period of grace.
func (s *lockSched) quiet(limit time.Duration) bool {
	deadline := time.Now().Add(limit)
	for {
		ok := true
		now := time.Now()
		for _, th := range s.threads {
			switch th.status {
			case lsRunning:
				ok = false
			case lsInLock:
				if now.Sub(th.lockSince) < s.grace {
					ok = false
				}
			}
		}
		if ok {
			return true
		}
		if now.After(deadline) {
			return false
		}
		s.mu.Unlock()
		time.Sleep(300 * time.Microsecond)
		s.mu.Lock()
	}
}

// run executes the bodies (one goroutine each) under the chooser.
func (s *lockSched) run(ch ksrig.SchedChooser, watchdog time.Duration, bodies ...func()) *lsResult {
	res := &lsResult{}
	res.Panics = map[int]string{}
	s.mu.Lock()
	s.active = true
	s.threads = make([]*lsThread, len(bodies))
	s.goids = map[int64]int{}
	s.trace = nil
	for i := range bodies {
		s.threads[i] = &lsThread{status: lsIdle}
	}
	release := func() {
		s.active = false
		for _, th := range s.threads {
			th.granted = true
		}
		s.cond.Broadcast()
	}
	var wg sync.WaitGroup
	for i, body := range bodies {
		wg.Add(1)
		s.threads[i].status = lsRunning
		registered := make(chan struct{})
		go func(i int, body func()) {
			defer wg.Done()
			s.mu.Lock()
			s.goids[goid()] = i
			s.mu.Unlock()
			close(registered)
			defer func() {
				v := recover()
				s.mu.Lock()
				if v != nil {
					s.threads[i].panicV = v
					s.threads[i].stack = string(debug.Stack())
				}
				s.threads[i].status = lsDone
				s.cond.Broadcast()
				s.mu.Unlock()
			}()
			body()
		}(i, body)
		s.mu.Unlock()
		<-registered
		s.mu.Lock()
		if !s.quiet(watchdog) { // start them one at a time: each runs to its first back-end call
			res.Hung = true
			release()
			s.mu.Unlock()
			return res
		}
	}
	step := 0
	for {
		if !s.quiet(watchdog) {
			res.Hung = true
			release()
			break
		}
		var enabled []int
		live, waiting := 0, 0
		for i, th := range s.threads {
			switch th.status {
			case lsParked:
				live++
				enabled = append(enabled, i)
			case lsInLock:
				live++
				waiting++
			}
		}
		if live == 0 {
			break
		}
		if len(enabled) == 0 {
			// every live thread waits inside a lock call and nobody is left to release it: give the real lock a generous
			// moment (a waiter may just be waking up), then call it a deadlock
			s.mu.Unlock()
			time.Sleep(200 * time.Millisecond)
			s.mu.Lock()
			still := true
			for _, th := range s.threads {
				if th.status == lsParked || th.status == lsRunning {
					still = false
				}
			}
			done := true
			for _, th := range s.threads {
				if th.status != lsDone {
					done = false
				}
			}
			if done {
				break
			}
			if still {
				res.Deadlock = true
				release()
				break
			}
			continue
		}
		sort.Ints(enabled)
		k := ch.Choose(step, enabled)
		if k < 0 || k >= len(enabled) {
			k = 0
		}
		th := s.threads[enabled[k]]
		s.trace = append(s.trace, th.pending)
		th.status = lsRunning
		th.granted = true
		s.cond.Broadcast()
		step++
		// count lock calls that turn out to wait
		if th.pending.Op == "Lock" || th.pending.Op == "RLock" {
			if s.quiet(watchdog) && th.status == lsInLock {
				s.blocked++
			}
		}
	}
	s.active = false
	res.Trace = append([]ksrig.SchedStep(nil), s.trace...)
	res.BlockedWaits = s.blocked
	for i, th := range s.threads {
		if th.panicV != nil {
			res.Panics[i] = fmt.Sprintf("%v\n%s", th.panicV, th.stack)
		}
	}
	deadlock := res.Deadlock
	s.mu.Unlock()
	if !deadlock && !res.Hung {
		wg.Wait()
	}
	return res
}

// ---------------------------------------------------------------------------------------------
// scenarios on a directory: thread -> handle

type dirScenario struct {
	scenario
	HandleOf []int // thread -> handle index (threads with the same index share ONE keystore handle)
	// CloseBetween: after the first handle has been opened and before the others are, one more handle on the directory is
	// opened and closed (a tool run while the server keeps its keystore open)
	CloseBetween bool
}

func (w *schedWorld) runDirScenario(r *ev.Run, sc *dirScenario, ch ksrig.SchedChooser, workload string, detail map[string]interface{}) (clean bool, res *lsResult) {
	dir := ksrig.ScratchDir("c17-dirsched")
	factory := dirFactory(dir)
	rec := newRecorder()
	n := len(sc.Progs)
	if len(sc.Setup) > 0 {
		b, err := factory()
		if err != nil {
			panic(err)
		}
		h, err := openHandle(b, w.keys, rec, n)
		if err != nil {
			panic(err)
		}
		newThreadCtx(r, n, h, w.bundles, "dir").runProgram(sc.Setup)
		h.close()
	}
	sched := newLockSched(6 * time.Millisecond)
	handles := map[int]*handle{}
	ctxs := make([]*threadCtx, n)
	bodies := make([]func(), n)
	users := map[int]int{}
	for _, hi := range sc.HandleOf {
		users[hi]++
	}
	for i := 0; i < n; i++ {
		hi := sc.HandleOf[i]
		i := i
		opener := func() (*handle, error) {
			b, err := factory()
			if err != nil {
				return nil, err
			}
			return openHandle(&lsBackend{s: sched, inner: b}, w.keys, rec, i)
		}
		if handles[hi] == nil {
			if sc.CloseBetween && len(handles) == 1 {
				t, err := opener()
				if err != nil {
					panic(err)
				}
				t.close()
				r.Count("v2_handles_opened_and_closed", 1)
			}
			h, err := opener()
			if err != nil {
				panic(err)
			}
			handles[hi] = h
		}
		ctxs[i] = newThreadCtx(r, i, handles[hi].forThread(i), w.bundles, "dir")
		ctxs[i].open, ctxs[i].owns = opener, users[hi] == 1
		prog, x := sc.Progs[i], ctxs[i]
		bodies[i] = func() { x.runProgram(prog) }
	}
	res = sched.run(ch, 30*time.Second, bodies...)
	clean = true
	r.Case()
	r.Count("dirsched_executions", 1)
	r.Count("dirsched_backend_calls_scheduled", int64(len(res.Trace)))
	r.Count("dirsched_lock_calls_seen_waiting", int64(res.BlockedWaits))
	full := func() map[string]interface{} {
		d := map[string]interface{}{"scenario": sc.Name, "setup": fmt.Sprint(sc.Setup), "programs": progStrings(sc.Progs), "thread_to_handle": sc.HandleOf, "handle_opened_and_closed_between_the_opens": sc.CloseBetween,
			"interleaving": res.Compact(), "interleaving_threads": res.Threads(), "backend": "directory (flock + in-process mutex), real lock, nothing modelled"}
		for k, v := range detail {
			d[k] = v
		}
		var logs []string
		for _, x := range ctxs {
			logs = append(logs, x.log...)
		}
		d["action_results"] = logs
		return d
	}
	if res.Hung {
		r.Inconclusive(fmt.Sprintf("controlled directory schedule hung (watchdog): scenario=%s", sc.Name))
		return false, res
	}
	if res.Deadlock {
		// the goroutines stay inside flock: the handles are abandoned, not closed
		r.Violation("v2 controlled schedule deadlocked: every live thread waits for the store lock: backend=dir", full())
		return false, res
	}
	for _, p := range res.Panics {
		clean = false
		r.Violation("v2 keystore operation panicked: "+errClass(firstLine(p))+": backend=dir", full())
	}
	for _, x := range ctxs {
		for _, f := range x.bad {
			clean = false
			d := full()
			for k, v := range f.Detail {
				d[k] = v
			}
			r.Violation(f.Sig, d)
		}
	}
	for i, x := range ctxs {
		if x.owns {
			x.h.close() // the handle the thread ended with (Reopen closes the earlier ones itself)
			delete(handles, sc.HandleOf[i])
		}
	}
	for _, h := range handles {
		h.close()
	}
	fb, err := factory()
	if err != nil {
		panic(err)
	}
	finals, err := finalStates(fb, w.keys, universeRings())
	if err != nil {
		panic(err)
	}
	if !checkHistory(r, rec.history(), finals, checkCtx{Backend: "dir", Workload: workload, Detail: full()}) {
		clean = false
	}
	sig := "dir:" + res.Signature()
	if res.ContextSwitches() >= n {
		r.Distinct("interleaving:" + sig)
		r.Count("dirsched_executions_interleaved", 1)
	}
	r.SetAdd("interleaving_signatures_all", sig)
	return clean, res
}

// randomDirScenario: threads 0..readers-1 read and the next `writersA` write through handle 0; `writersB` write through handle 1.
// One hot ring (the store lock is store-wide, but a lost update needs two write cycles on the same ring).
func randomDirScenario(rng *gen.Rand, name string, readers, writersA, writersB int) *dirScenario {
	sc := &dirScenario{}
	sc.Name = name
	sc.Targets = []target{universe[rng.Intn(len(universe))]}
	tg := sc.Targets[0]
	for k := 1 + rng.Intn(2); k > 0; k-- {
		sc.Setup = append(sc.Setup, action{Kind: map[string]string{"pair": "GenPair", "sym": "GenSym", "hmac": "GenHmac"}[tg.Ring], Client: tg.Client})
	}
	add := func(handle int, a action) {
		sc.Progs = append(sc.Progs, []action{a})
		sc.HandleOf = append(sc.HandleOf, handle)
	}
	for i := 0; i < readers; i++ {
		add(0, genRead(rng, sc.Targets))
	}
	w := func() action {
		for {
			a := genWrite(rng, sc.Targets, 0)
			if a.Kind == "RingAdd" || a.Kind == "RingSetCur" || a.Kind == "RingSetState" || a.Kind == "RingDestroy" {
				return a // one write cycle each: short programs keep the tree small and the window wide
			}
		}
	}
	for i := 0; i < writersA; i++ {
		add(0, w())
	}
	for i := 0; i < writersB; i++ {
		a := w()
		if i == 0 {
			a.Kind = "RingAdd" // a successful AddKey is what the final-state oracle can trace
		}
		add(1, a)
	}
	return sc
}

// directedDirSchedule: the window random schedules reach rarely — a reader of the shared handle is inside its read while a
// writer of the SAME handle performs the first k calls of its write cycle (1 = Lock, 2 = + Get, 3 = + Put), then the reader
// finishes (RUnlock), then the writer of the other handle runs, then everybody else. Threads that cannot run (waiting for the
// real lock) are skipped by SchedReplay, so on a working lock this is just one more legal schedule.
func directedDirSchedule(readers, k int) ksrig.SchedReplay {
	rd, wa, wb := 0, readers, readers+1
	// both writers first open their ring handle (OpenKeyRingRW = Lock, Get, Unlock); the window is about the write cycle
	t := []int{wa, wa, wa, wb, wb, wb, rd}
	for i := 0; i < k; i++ {
		t = append(t, wa)
	}
	t = append(t, rd, rd)
	for i := 0; i < 6; i++ {
		t = append(t, wb)
	}
	for i := 0; i < 6; i++ {
		t = append(t, wa)
	}
	return ksrig.SchedReplay{Threads: t}
}

func (w *schedWorld) dirSchedules(r *ev.Run, count int) {
	// a third of the scenarios also run under the three directed schedules
	for i := 0; i < count/3; i++ {
		rng := gen.New(r.Seed, fmt.Sprintf("c17-dirsched-directed-%d", i))
		readers := 1 + i%2
		sc := randomDirScenario(rng, fmt.Sprintf("dir-shared-directed#%d", i), readers, 1, 1)
		for k := 1; k <= 3; k++ {
			w.runDirScenario(r, sc, directedDirSchedule(readers, k), "dirsched-directed", map[string]interface{}{"scenario_index": i, "writer_calls_before_reader_leaves": k, "seed": r.Seed})
			r.Count("dirsched_directed_executions", 1)
		}
	}
	for i := 0; i < count; i++ {
		rng := gen.New(r.Seed, fmt.Sprintf("c17-dirsched-%d", i))
		writersA := 1
		if i%3 == 2 {
			writersA = 2 // two writers sharing the handle: the flock of their common open file does not keep them apart, the process mutex must
		}
		sc := randomDirScenario(rng, fmt.Sprintf("dir-shared#%d", i), 1+i%2, writersA, 1)
		clean, res := w.runDirScenario(r, sc, ksrig.SchedRandom{Rng: rng}, "dirsched-random", map[string]interface{}{"schedule_index": i, "seed": r.Seed})
		if clean && i < 2 {
			r.SampleN("dirsched", 2, map[string]interface{}{"kind": "controlled schedule on a directory: threads sharing handle 0 + a writer on handle 1, real flock", "setup": fmt.Sprint(sc.Setup),
				"programs": progStrings(sc.Progs), "thread_to_handle": sc.HandleOf, "interleaving": res.Compact(), "lock_calls_seen_waiting": res.BlockedWaits})
		}
	}
}

// lifecycleDirScenario: handle life-cycle histories. Thread 0 = a writer whose handle stays open all the time (a server), thread 1 =
// a writer on another handle, thread 2 (variants 1, 2) = a tool that opens a handle, maybe reads one ring, and closes it.
//
//	variant 0: a handle is opened and closed between the opens of the two writers' handles
//	variant 1: writer 1 restarts (Reopen) before it writes; the tool runs once
//	variant 2: two writes each, writer 1 restarts between its writes, the tool runs twice and reads
func lifecycleDirScenario(rng *gen.Rand, name string, variant int) *dirScenario {
	sc := &dirScenario{HandleOf: []int{0, 1}}
	sc.Name = name
	sc.Targets = []target{universe[rng.Intn(len(universe))]}
	tg := sc.Targets[0]
	sc.Setup = []action{{Kind: map[string]string{"pair": "GenPair", "sym": "GenSym", "hmac": "GenHmac"}[tg.Ring], Client: tg.Client}}
	add := action{Kind: "RingAdd", Client: tg.Client, Ring: tg.Ring}
	other := func() action {
		for {
			if a := genWrite(rng, sc.Targets, 0); a.Kind == "RingSetCur" || a.Kind == "RingSetState" || a.Kind == "RingAdd" {
				return a
			}
		}
	}
	cycle := func(read int) action {
		return action{Kind: "CycleHandle", Client: tg.Client, Ring: tg.Ring, Pick: read}
	}
	switch variant {
	case 0:
		sc.CloseBetween = true
		sc.Progs = [][]action{{other()}, {add}}
	case 1:
		sc.Progs = [][]action{{other()}, {{Kind: "Reopen"}, add}, {cycle(0)}}
		sc.HandleOf = []int{0, 1, 2}
	default:
		sc.Progs = [][]action{{add, other()}, {other(), {Kind: "Reopen"}, add}, {cycle(1), cycle(1)}}
		sc.HandleOf = []int{0, 1, 2}
	}
	return sc
}

// dirLifecycleSchedules: every life-cycle scenario runs under a seeded random schedule and under a directed one that puts the
// whole write cycle of writer 1 between the pull (Lock, Get) and the push (Put, Rename) of writer 0 — which only happens when the
// lock does not keep them apart; otherwise writer 1 waits and SchedReplay moves on.
func (w *schedWorld) dirLifecycleSchedules(r *ev.Run, count int) {
	for i := 0; i < count; i++ {
		rng := gen.New(r.Seed, fmt.Sprintf("c17-dirsched-life-%d", i))
		sc := lifecycleDirScenario(rng, fmt.Sprintf("dir-life-cycle#%d", i), i%3)
		detail := map[string]interface{}{"scenario_index": i, "seed": r.Seed}
		clean, res := w.runDirScenario(r, sc, ksrig.SchedRandom{Rng: rng}, "dirsched-life-cycle-random", detail)
		directed := ksrig.SchedReplay{Threads: []int{0, 0, 0, 1, 1, 1, 0, 0, 1, 1, 1, 1, 1, 1, 0, 0, 0, 0}}
		w.runDirScenario(r, sc, directed, "dirsched-life-cycle-directed", detail)
		r.Count("dirsched_lifecycle_executions", 2)
		if clean && i < 3 {
			r.SampleN("dirsched-life", 2, map[string]interface{}{"kind": "controlled schedule on a directory with handle life-cycle events (handles opened and closed around the writers)",
				"programs": progStrings(sc.Progs), "thread_to_handle": sc.HandleOf, "handle_opened_and_closed_between_the_opens": sc.CloseBetween, "interleaving": res.Compact()})
		}
	}
}

// dirExhaustive enumerates depth first: reader + writer on one handle, writer on another, one ring.
func (w *schedWorld) dirExhaustive(r *ev.Run, maxRuns int) {
	a := "alpha"
	sc := &dirScenario{HandleOf: []int{0, 0, 1}}
	sc.Name = "dir-dfs: reader+SetCurrent on one handle, AddKey on another"
	sc.Setup = []action{{Kind: "GenSym", Client: a}}
	sc.Progs = [][]action{
		{{Kind: "ReadRing", Client: a, Ring: "sym"}},
		{{Kind: "RingSetCur", Client: a, Ring: "sym", Pick: 0}},
		{{Kind: "RingAdd", Client: a, Ring: "sym"}},
	}
	d := &ksrig.SchedDFS{}
	runs, unclean := 0, 0
	for {
		clean, _ := w.runDirScenario(r, sc, d, "dirsched-dfs", map[string]interface{}{"run": runs})
		runs++
		if !clean {
			unclean++
		}
		if !d.Next() {
			r.Count("dirsched_dfs_exhausted", 1)
			break
		}
		if runs >= maxRuns || unclean >= 20 {
			r.Count("dirsched_dfs_stopped_early", 1)
			break
		}
	}
	r.Count("dirsched_dfs_runs", int64(runs))
	if d.Diverged {
		r.Count("dirsched_dfs_diverged", 1) // which waiter the real lock lets in first is the OS's choice
	}
}

// ---------------------------------------------------------------------------------------------
// free-running: readers + writers on one shared handle, writers on a second one, in rounds

func v2SharedHandleWriters(r *ev.Run, kind string, factory backendFactory, readersA, writersA, writersB, rounds int) {
	keys := ksrig.NewV2Keys()
	var specs []action
	for _, tg := range universe {
		specs = append(specs, action{Client: tg.Client, Ring: tg.Ring})
	}
	bundles, err := makeBundles(keys, specs)
	if err != nil {
		panic(err)
	}
	rec := newRecorder()
	open := func(t int) *handle {
		b, err := factory()
		if err != nil {
			panic(err)
		}
		h, err := openHandle(b, keys, rec, t)
		if err != nil {
			panic(err)
		}
		return h
	}
	n := readersA + writersA + writersB
	hA, hB := open(0), open(n)
	hot := []target{{"alpha", "sym"}, {"bravo", "hmac"}}
	newThreadCtx(r, n, hB, bundles, kind).runProgram([]action{{Kind: "GenSym", Client: "alpha"}, {Kind: "GenHmac", Client: "bravo"}})
	ctxs := make([]*threadCtx, n)
	progs := make([][]action, n)
	for g := 0; g < n; g++ {
		h := hA
		if g >= readersA+writersA {
			h = hB
		}
		ctxs[g] = newThreadCtx(r, g, h.forThread(g), bundles, kind)
		rng := gen.New(r.Seed, fmt.Sprintf("c17-shared-writers-%s-%d", kind, g))
		for k := 0; k < rounds; k++ {
			if g < readersA {
				progs[g] = append(progs[g], genRead(rng, hot), genRead(rng, hot), genRead(rng, hot), genRead(rng, hot))
			} else {
				a := genWrite(rng, hot, len(universe))
				if a.Kind == "ImportNX" || a.Kind == "ImportOW" {
					a.Bundle = bundleIndex(hot[rng.Intn(len(hot))])
				}
				progs[g] = append(progs[g], a)
			}
		}
	}
	var wg sync.WaitGroup
	bar := newBarrier(n)
	for g := 0; g < n; g++ {
		wg.Add(1)
		go func(g int) {
			defer wg.Done()
			per := len(progs[g]) / rounds
			for k := 0; k < rounds; k++ {
				bar.wait()
				ctxs[g].runProgram(progs[g][k*per : (k+1)*per])
			}
		}(g)
	}
	if !waitTimeout(&wg, 4*time.Minute) {
		r.Inconclusive("shared handle with writers did not finish (watchdog): backend=" + kind)
		return
	}
	actions := 0
	for _, p := range progs {
		actions += len(p)
	}
	r.Cases(actions)
	r.Count("shared_handle_writers_actions_"+kind, int64(actions))
	detail := map[string]interface{}{"readers_on_shared_handle": readersA, "writers_on_shared_handle": writersA, "writers_on_second_handle": writersB, "rounds": rounds, "seed": r.Seed, "programs": progStrings(progs)}
	bad := 0
	for _, x := range ctxs {
		for _, f := range x.bad {
			bad++
			d := map[string]interface{}{"context": detail}
			for k, v := range f.Detail {
				d[k] = v
			}
			r.Violation("shared handle with writers: "+f.Sig, d)
		}
	}
	hA.close()
	hB.close()
	fb, err := factory()
	if err != nil {
		panic(err)
	}
	finals, err := finalStates(fb, keys, universeRings())
	if err != nil {
		panic(err)
	}
	if checkHistory(r, rec.history(), finals, checkCtx{Backend: kind, Workload: "shared-handle-writers", Detail: detail, Timeout: 30 * time.Second}) && bad == 0 {
		r.Distinct(fmt.Sprintf("shared-handle-writers:%s:%d+%d+%d", kind, readersA, writersA, writersB))
	}
}
