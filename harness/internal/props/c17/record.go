package c17

// record.go — observation at the keystore API boundary: a wrapper around api.MutableKeyStore that records
// {thread/handle, op, args, call seq, return seq, result} for every key-ring operation with one logical clock,
// and reads whole ring states through the public getters.

import (
	"crypto/sha256"
	"encoding/hex"
	"fmt"
	"sort"
	"strings"
	"sync"
	"sync/atomic"

	"github.com/cossacklabs/acra/keystore/v2/keystore/api"
	"github.com/cossacklabs/acra/keystore/v2/keystore/asn1"
	"github.com/cossacklabs/acra/keystore/v2/keystore/crypto"
)

const noKey = -1 // asn1.NoKey

func dg(b []byte) string {
	if len(b) == 0 {
		return ""
	}
	h := sha256.Sum256(b)
	return hex.EncodeToString(h[:6])
}

// keyView is what the API shows about one key of a ring; key material only as digests of the plaintext.
type keyView struct {
	Seq   int    `json:"seq"`
	State int    `json:"state"`
	Pub   string `json:"pub,omitempty"`
	Priv  string `json:"priv,omitempty"`
	Sym   string `json:"sym,omitempty"`
}

func (k keyView) data() string {
	if k.Pub == "" && k.Priv == "" && k.Sym == "" {
		return "-"
	}
	return k.Pub + "/" + k.Priv + "/" + k.Sym
}

func (k keyView) String() string { return fmt.Sprintf("%d:%d:%s", k.Seq, k.State, k.data()) }

// ringState is a whole key ring as seen through the API (ring order = oldest first).
type ringState struct {
	Exists bool      `json:"exists"`
	Cur    int       `json:"cur"`
	Keys   []keyView `json:"keys"`
	// Bad is set when a getter failed on a ring that was opened successfully (undecryptable / inconsistent ring).
	Bad string `json:"bad,omitempty"`
}

func (s ringState) String() string {
	if !s.Exists {
		return "absent"
	}
	parts := make([]string, len(s.Keys))
	for i, k := range s.Keys {
		parts[i] = k.String()
	}
	out := fmt.Sprintf("cur=%d[%s]", s.Cur, strings.Join(parts, " "))
	if s.Bad != "" {
		out += " BAD(" + s.Bad + ")"
	}
	return out
}

func (s ringState) key(seq int) *keyView {
	for i := range s.Keys {
		if s.Keys[i].Seq == seq {
			return &s.Keys[i]
		}
	}
	return nil
}

// snapshot reads everything the API exposes about an opened ring. Only local getters are used (no backend calls).
func snapshot(ring api.KeyRing) ringState {
	st := ringState{Exists: true, Cur: noKey}
	seqs, err := ring.AllKeys() // newest to oldest
	if err != nil {
		st.Bad = "AllKeys: " + err.Error()
		return st
	}
	for i := len(seqs) - 1; i >= 0; i-- {
		seq := seqs[i]
		kv := keyView{Seq: seq}
		state, err := ring.State(seq)
		if err != nil {
			st.Bad = fmt.Sprintf("State(%d): %v", seq, err)
			return st
		}
		kv.State = int(state)
		if state != api.KeyDestroyed {
			formats, err := ring.Formats(seq)
			if err != nil {
				st.Bad = fmt.Sprintf("Formats(%d): %v", seq, err)
				return st
			}
			for _, f := range formats {
				switch f {
				case api.ThemisKeyPairFormat:
					pub, err := ring.PublicKey(seq, f)
					if err != nil {
						st.Bad = fmt.Sprintf("PublicKey(%d): %v", seq, err)
						return st
					}
					kv.Pub = dg(pub)
					priv, err := ring.PrivateKey(seq, f)
					if err != nil && err != api.ErrNoKeyData {
						st.Bad = fmt.Sprintf("PrivateKey(%d): %v", seq, err)
						return st
					}
					kv.Priv = dg(priv)
				case api.ThemisSymmetricKeyFormat:
					sym, err := ring.SymmetricKey(seq, f)
					if err != nil {
						st.Bad = fmt.Sprintf("SymmetricKey(%d): %v", seq, err)
						return st
					}
					kv.Sym = dg(sym)
				}
			}
		}
		st.Keys = append(st.Keys, kv)
	}
	cur, err := ring.CurrentKey()
	if err == nil {
		st.Cur = cur
	} else if err != api.ErrNoCurrentKey {
		st.Bad = "CurrentKey: " + err.Error()
	}
	return st
}

func describeKey(k api.KeyDescription) keyView {
	kv := keyView{State: int(api.KeyPreActive)}
	for _, d := range k.Data {
		switch d.Format {
		case api.ThemisKeyPairFormat:
			kv.Pub, kv.Priv = dg(d.PublicKey), dg(d.PrivateKey)
		case api.ThemisSymmetricKeyFormat:
			kv.Sym = dg(d.SymmetricKey)
		}
	}
	return kv
}

// Operation kinds.
const (
	opOpenRW     = "OpenRW"
	opRead       = "Read"
	opAddKey     = "AddKey"
	opSetCurrent = "SetCurrent"
	opSetState   = "SetState"
	opDestroy    = "DestroyKey"
	opImportOpen = "ImportOpen" // first half of an import: the ring is made to exist (derived record, see model.go)
	opImportNX   = "ImportNX"   // default delegate: abort when the ring exists
	opImportOW   = "ImportOW"   // delegate decides "overwrite"
)

// opRec is one recorded operation on one key ring.
type opRec struct {
	Thread int        `json:"t"`
	Ring   string     `json:"ring"`
	Kind   string     `json:"op"`
	N      int        `json:"n,omitempty"`   // seqnum argument
	St     int        `json:"st,omitempty"`  // state argument
	Key    *keyView   `json:"key,omitempty"` // AddKey input
	Imp    *ringState `json:"imp,omitempty"` // imported ring content
	Call   int64      `json:"call"`
	Ret    int64      `json:"ret"`
	Err    string     `json:"err,omitempty"`
	OutSeq int        `json:"seq,omitempty"` // AddKey result
	Out    *ringState `json:"out,omitempty"` // Read/OpenRW: what was seen; successful writes: the handle's view after commit
}

func (o *opRec) String() string {
	var b strings.Builder
	fmt.Fprintf(&b, "[%d..%d] t%d %s %s", o.Call, o.Ret, o.Thread, o.Ring, o.Kind)
	switch o.Kind {
	case opSetCurrent, opDestroy:
		fmt.Fprintf(&b, "(%d)", o.N)
	case opSetState:
		fmt.Fprintf(&b, "(%d,%d)", o.N, o.St)
	case opAddKey:
		fmt.Fprintf(&b, "(%s)", o.Key.data())
	case opImportNX, opImportOW:
		fmt.Fprintf(&b, "(%s)", o.Imp)
	}
	if o.Err != "" {
		fmt.Fprintf(&b, " -> ERR %s", o.Err)
		return b.String()
	}
	if o.Kind == opAddKey {
		fmt.Fprintf(&b, " -> seq %d", o.OutSeq)
	}
	if o.Out != nil {
		fmt.Fprintf(&b, " -> %s", o.Out)
	}
	return b.String()
}

// clock is the single logical clock of a history.
type clock interface{ tick() int64 }

type memClock struct{ v int64 }

func (c *memClock) tick() int64 { return atomic.AddInt64(&c.v, 1) }

// recorder collects the history. Thread safe.
type recorder struct {
	clk clock
	mu  sync.Mutex
	ops []*opRec
}

func newRecorder() *recorder { return &recorder{clk: &memClock{}} }

func (r *recorder) add(o *opRec) {
	r.mu.Lock()
	r.ops = append(r.ops, o)
	r.mu.Unlock()
}

// history returns the recorded operations ordered by call time.
func (r *recorder) history() []*opRec {
	r.mu.Lock()
	out := append([]*opRec(nil), r.ops...)
	r.mu.Unlock()
	sort.Slice(out, func(i, j int) bool { return out[i].Call < out[j].Call })
	return out
}

func sortOps(ops []*opRec) {
	sort.SliceStable(ops, func(i, j int) bool { return ops[i].Call < ops[j].Call })
}

// recKS wraps one keystore handle for one thread. Several recKS may share one underlying handle (forThread).
type recKS struct {
	api.MutableKeyStore
	rec *recorder
	t   int
	// last successful or failed open per ring by this thread (used to explain getter results); owned by the thread.
	last map[string]*opRec
}

func newRecKS(inner api.MutableKeyStore, rec *recorder, thread int) *recKS {
	return &recKS{MutableKeyStore: inner, rec: rec, t: thread, last: map[string]*opRec{}}
}

// forThread gives another thread its own attribution over the same underlying handle.
func (k *recKS) forThread(thread int) *recKS { return newRecKS(k.MutableKeyStore, k.rec, thread) }

func errStr(err error) string {
	if err == nil {
		return ""
	}
	return err.Error()
}

// OpenKeyRing records a Read.
func (k *recKS) OpenKeyRing(path string) (api.KeyRing, error) {
	o := &opRec{Thread: k.t, Ring: path, Kind: opRead}
	o.Call = k.rec.clk.tick()
	ring, err := k.MutableKeyStore.OpenKeyRing(path)
	o.Ret = k.rec.clk.tick()
	o.Err = errStr(err)
	if err == nil {
		s := snapshot(ring)
		o.Out = &s
	}
	k.rec.add(o)
	k.last[path] = o
	return ring, err
}

// OpenKeyRingRW records an OpenRW (creates the ring when absent, and reads it).
func (k *recKS) OpenKeyRingRW(path string) (api.MutableKeyRing, error) {
	o := &opRec{Thread: k.t, Ring: path, Kind: opOpenRW}
	o.Call = k.rec.clk.tick()
	ring, err := k.MutableKeyStore.OpenKeyRingRW(path)
	o.Ret = k.rec.clk.tick()
	o.Err = errStr(err)
	if err != nil {
		k.rec.add(o)
		k.last[path] = o
		return nil, err
	}
	s := snapshot(ring)
	o.Out = &s
	k.rec.add(o)
	k.last[path] = o
	return &recRing{MutableKeyRing: ring, ks: k, path: path}, nil
}

// owDelegate answers "overwrite" for every conflict.
type owDelegate struct{}

func (owDelegate) DecideKeyRingOverwrite(_, _ *asn1.KeyRing) (api.ImportDecision, error) {
	return api.ImportOverwrite, nil
}

// importRing imports a one-ring bundle and records it. content is the ring state the bundle carries.
func (k *recKS) importRing(bundle []byte, suite *crypto.KeyStoreSuite, path string, content ringState, overwrite bool) error {
	o := &opRec{Thread: k.t, Ring: path, Kind: opImportNX, Imp: &content}
	var delegate api.KeyRingImportDelegate
	if overwrite {
		o.Kind = opImportOW
		delegate = owDelegate{}
	}
	o.Call = k.rec.clk.tick()
	_, err := k.MutableKeyStore.ImportKeyRings(bundle, suite, delegate)
	o.Ret = k.rec.clk.tick()
	o.Err = errStr(err)
	k.rec.add(o)
	return err
}

// recRing wraps a mutable ring handle (which keeps its own, possibly stale, view of the ring).
type recRing struct {
	api.MutableKeyRing
	ks   *recKS
	path string
}

func (r *recRing) finish(o *opRec, err error) {
	o.Ret = r.ks.rec.clk.tick()
	o.Err = errStr(err)
	if err == nil {
		s := snapshot(r.MutableKeyRing)
		o.Out = &s
	}
	r.ks.rec.add(o)
}

// AddKey records the operation.
func (r *recRing) AddKey(key api.KeyDescription) (int, error) {
	kv := describeKey(key)
	o := &opRec{Thread: r.ks.t, Ring: r.path, Kind: opAddKey, Key: &kv}
	o.Call = r.ks.rec.clk.tick()
	seq, err := r.MutableKeyRing.AddKey(key)
	o.OutSeq = seq
	r.finish(o, err)
	return seq, err
}

// SetCurrent records the operation.
func (r *recRing) SetCurrent(seqnum int) error {
	o := &opRec{Thread: r.ks.t, Ring: r.path, Kind: opSetCurrent, N: seqnum}
	o.Call = r.ks.rec.clk.tick()
	err := r.MutableKeyRing.SetCurrent(seqnum)
	r.finish(o, err)
	return err
}

// SetState records the operation.
func (r *recRing) SetState(seqnum int, st api.KeyState) error {
	o := &opRec{Thread: r.ks.t, Ring: r.path, Kind: opSetState, N: seqnum, St: int(st)}
	o.Call = r.ks.rec.clk.tick()
	err := r.MutableKeyRing.SetState(seqnum, st)
	r.finish(o, err)
	return err
}

// DestroyKey records the operation.
func (r *recRing) DestroyKey(seqnum int) error {
	o := &opRec{Thread: r.ks.t, Ring: r.path, Kind: opDestroy, N: seqnum}
	o.Call = r.ks.rec.clk.tick()
	err := r.MutableKeyRing.DestroyKey(seqnum)
	r.finish(o, err)
	return err
}
