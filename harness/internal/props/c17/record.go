package c17

// record.go — observation at the keystore API boundary: a wrapper around api.MutableKeyStore that records
// {thread/handle, op, args, call seq, return seq, result} for every key-ring operation with one logical clock,
// and reads whole ring states — the COMPLETE view of every key — through the public getters (ksdump.ViewRing): after OpenKeyRing /
// OpenKeyRingRW, after every ring-level update whether acknowledged or refused, and on demand through a held ring handle (View).

import (
	"crypto/sha256"
	"encoding/hex"
	"fmt"
	"sort"
	"strings"
	"sync"
	"sync/atomic"

	"github.com/cossacklabs/acra/keystore/v2/keystore/api"
	"github.com/cossacklabs/acra/keystore/v2/keystore/asn1"
	"github.com/cossacklabs/acra/keystore/v2/keystore/crypto"

	"verif/harness/internal/rig/ksdump"
)

const noKey = -1 // asn1.NoKey

func dg(b []byte) string {
	if len(b) == 0 {
		return ""
	}
	h := sha256.Sum256(b)
	return hex.EncodeToString(h[:6])
}

// mat is how key material appears in a view: the plaintext bytes in hex. Where a getter gave no bytes the view holds
// "!" + the class of its error (see ksdump: destroyed | noformat | nodata | invalidformat | err:<text>).
func mat(b []byte) string { return hex.EncodeToString(b) }

func matField(f ksdump.Field) string {
	if f.Err != "" {
		return "!" + f.Err
	}
	return mat(f.Val)
}

const (
	matNoFormat  = "!noformat"
	matNoData    = "!nodata"
	matDestroyed = "!destroyed"
)

// hasMat: the view holds bytes (not an error class) there.
func hasMat(s string) bool { return s != "" && s[0] != '!' }

func shortMat(s string) string {
	if !hasMat(s) {
		return s
	}
	b, _ := hex.DecodeString(s)
	return dg(b)
}

func formatName(f int) string {
	switch api.KeyFormat(f) {
	case api.ThemisKeyPairFormat:
		return "pair"
	case api.ThemisSymmetricKeyFormat:
		return "sym"
	}
	return fmt.Sprintf("format%d", f)
}

// keyView is the COMPLETE view the API gives of one key of a ring through one handle: state, validity (whole seconds, the
// precision of a stored ring), the list of data formats, and the key material itself — plaintext bytes (hex) of the public /
// private key of the key-pair format and of the symmetric key of the symmetric format, or the class of the getter's error.
type keyView struct {
	Seq   int    `json:"seq"`
	State int    `json:"state"`
	Since int64  `json:"since,omitempty"`
	Until int64  `json:"until,omitempty"`
	Fmts  string `json:"fmts"`
	Pub   string `json:"pub,omitempty"`
	Priv  string `json:"priv,omitempty"`
	Sym   string `json:"sym,omitempty"`
}

func (k keyView) data() string {
	if !hasMat(k.Pub) && !hasMat(k.Priv) && !hasMat(k.Sym) {
		if k.Pub == matNoFormat && k.Priv == matNoFormat && k.Sym == matNoFormat {
			return "NO-DATA"
		}
		return "-"
	}
	f := func(s string) string {
		if s == matNoFormat {
			return ""
		}
		return shortMat(s)
	}
	return f(k.Pub) + "/" + f(k.Priv) + "/" + f(k.Sym)
}

func (k keyView) String() string {
	return fmt.Sprintf("%d:%d:%s[%s]", k.Seq, k.State, k.data(), k.Fmts)
}

// long shows every field (violation details).
func (k keyView) long() string {
	return fmt.Sprintf("seq=%d state=%s valid=%d..%d formats=[%s] pub=%s priv=%s sym=%s", k.Seq, api.KeyState(k.State), k.Since, k.Until, k.Fmts,
		shortMat(k.Pub), shortMat(k.Priv), shortMat(k.Sym))
}

// ringState is a whole key ring as seen through the API (ring order = oldest first).
type ringState struct {
	Exists bool      `json:"exists"`
	Cur    int       `json:"cur"`
	Keys   []keyView `json:"keys"`
	// Bad is set when a getter failed on a ring that was opened successfully (undecryptable / inconsistent ring).
	Bad string `json:"bad,omitempty"`
}

func (s ringState) String() string {
	if !s.Exists {
		return "absent"
	}
	parts := make([]string, len(s.Keys))
	for i, k := range s.Keys {
		parts[i] = k.String()
	}
	out := fmt.Sprintf("cur=%d[%s]", s.Cur, strings.Join(parts, " "))
	if s.Bad != "" {
		out += " BAD(" + s.Bad + ")"
	}
	return out
}

func (s ringState) long() []string {
	if !s.Exists {
		return []string{"absent"}
	}
	out := []string{fmt.Sprintf("current=%d", s.Cur)}
	for _, k := range s.Keys {
		out = append(out, k.long())
	}
	if s.Bad != "" {
		out = append(out, "BAD: "+s.Bad)
	}
	return out
}

func (s ringState) key(seq int) *keyView {
	for i := range s.Keys {
		if s.Keys[i].Seq == seq {
			return &s.Keys[i]
		}
	}
	return nil
}

// snapshot reads everything the API exposes about an opened ring THROUGH THAT RING OBJECT (ksdump's ring-level view).
// Only local getters are used (no backend calls): the result is the handle's view, which may be older than the storage.
func snapshot(ring api.KeyRing) ringState {
	v := ksdump.ViewRing(ring)
	st := ringState{Exists: true, Cur: noKey}
	bad := func(format string, a ...interface{}) {
		if st.Bad == "" {
			st.Bad = fmt.Sprintf(format, a...)
		}
	}
	if v.Panic != "" {
		bad("getter panicked: %s", v.Panic)
	}
	if v.ListErr != "" {
		bad("AllKeys: %s", v.ListErr)
	}
	for _, e := range v.Keys {
		kv := keyView{Seq: e.Seq, State: e.State, Since: e.Since, Until: e.Until, Pub: matField(e.Pub), Priv: matField(e.Priv), Sym: matField(e.Sym)}
		names := make([]string, len(e.Formats))
		for i, f := range e.Formats {
			names[i] = formatName(f)
		}
		kv.Fmts = strings.Join(names, ",")
		switch {
		case e.StateErr != "":
			bad("State(%d): %s", e.Seq, e.StateErr)
		case e.ValidErr != "":
			bad("ValidSince/ValidUntil(%d): %s", e.Seq, e.ValidErr)
		case e.FormatsErr != "":
			bad("Formats(%d): %s", e.Seq, e.FormatsErr)
		}
		// a getter that fails for a reason other than "this key has no such data" means the key cannot be read (e.g. decryption)
		for _, f := range []struct{ name, v string }{{"PublicKey", kv.Pub}, {"PrivateKey", kv.Priv}, {"SymmetricKey", kv.Sym}} {
			if strings.HasPrefix(f.v, "!err:") {
				bad("%s(%d): %s", f.name, e.Seq, f.v[len("!err:"):])
			}
		}
		st.Keys = append(st.Keys, kv)
	}
	if v.CurrentErr != "" {
		bad("CurrentKey: %s", v.CurrentErr)
	} else if !v.NoCurrent {
		st.Cur = v.Current
	}
	return st
}

// describeKey: what a view must show of a key that was added from this description.
func describeKey(k api.KeyDescription) keyView {
	kv := keyView{State: int(api.KeyPreActive), Since: k.ValidSince.Unix(), Until: k.ValidUntil.Unix(), Pub: matNoFormat, Priv: matNoFormat, Sym: matNoFormat}
	var names []string
	for _, d := range k.Data {
		names = append(names, formatName(int(d.Format)))
		switch d.Format {
		case api.ThemisKeyPairFormat:
			kv.Pub, kv.Priv = mat(d.PublicKey), mat(d.PrivateKey)
			if len(d.PrivateKey) == 0 {
				kv.Priv = matNoData
			}
		case api.ThemisSymmetricKeyFormat:
			kv.Sym = mat(d.SymmetricKey)
		}
	}
	kv.Fmts = strings.Join(names, ",")
	return kv
}

// destroyedView: what a view must show of that key once it has been destroyed.
func destroyedView(k keyView) keyView {
	return keyView{Seq: k.Seq, State: int(api.KeyDestroyed), Since: k.Since, Until: k.Until, Pub: matDestroyed, Priv: matDestroyed, Sym: matDestroyed}
}

// Operation kinds.
const (
	opOpenRW     = "OpenRW"
	opRead       = "Read"
	opAddKey     = "AddKey"
	opSetCurrent = "SetCurrent"
	opSetState   = "SetState"
	opDestroy    = "DestroyKey"
	opImportOpen = "ImportOpen" // first half of an import: the ring is made to exist (derived record, see model.go)
	opImportNX   = "ImportNX"   // default delegate: abort when the ring exists
	opImportOW   = "ImportOW"   // delegate decides "overwrite"
	opView       = "View"       // complete view read through an already open ring handle (local getters, no store access)
)

// opRec is one recorded operation on one key ring.
type opRec struct {
	Thread int        `json:"t"`
	Ring   string     `json:"ring"`
	Kind   string     `json:"op"`
	N      int        `json:"n,omitempty"`   // seqnum argument
	St     int        `json:"st,omitempty"`  // state argument
	Key    *keyView   `json:"key,omitempty"` // AddKey input
	Imp    *ringState `json:"imp,omitempty"` // imported ring content
	Call   int64      `json:"call"`
	Ret    int64      `json:"ret"`
	Err    string     `json:"err,omitempty"`
	OutSeq int        `json:"seq,omitempty"` // AddKey result
	Out    *ringState `json:"out,omitempty"` // Read/OpenRW/View: what was seen; writes (acknowledged AND refused): the ring handle's view after the call
	// H names the ring handle (one OpenKeyRingRW result) a ring-level operation went through; Unch: the view after a REFUSED
	// write equals the view the same ring handle showed before it.
	H    string `json:"h,omitempty"`
	Unch bool   `json:"unch,omitempty"`
}

func (o *opRec) String() string {
	var b strings.Builder
	fmt.Fprintf(&b, "[%d..%d] t%d %s %s", o.Call, o.Ret, o.Thread, o.Ring, o.Kind)
	switch o.Kind {
	case opSetCurrent, opDestroy:
		fmt.Fprintf(&b, "(%d)", o.N)
	case opSetState:
		fmt.Fprintf(&b, "(%d,%d)", o.N, o.St)
	case opAddKey:
		fmt.Fprintf(&b, "(%s)", o.Key.data())
	case opImportNX, opImportOW:
		fmt.Fprintf(&b, "(%s)", o.Imp)
	}
	if o.H != "" {
		fmt.Fprintf(&b, " via %s", o.H)
	}
	if o.Err != "" {
		fmt.Fprintf(&b, " -> ERR %s", o.Err)
		if o.Out != nil {
			if o.Unch {
				fmt.Fprintf(&b, " | handle's view unchanged: %s", o.Out)
			} else {
				fmt.Fprintf(&b, " | handle's view now: %s", o.Out)
			}
		}
		return b.String()
	}
	if o.Kind == opAddKey {
		fmt.Fprintf(&b, " -> seq %d", o.OutSeq)
	}
	if o.Out != nil {
		fmt.Fprintf(&b, " -> %s", o.Out)
	}
	return b.String()
}

// clock is the single logical clock of a history.
type clock interface{ tick() int64 }

type memClock struct{ v int64 }

func (c *memClock) tick() int64 { return atomic.AddInt64(&c.v, 1) }

// recorder collects the history. Thread safe.
type recorder struct {
	clk clock
	mu  sync.Mutex
	ops []*opRec
}

func newRecorder() *recorder { return &recorder{clk: &memClock{}} }

func (r *recorder) add(o *opRec) {
	r.mu.Lock()
	r.ops = append(r.ops, o)
	r.mu.Unlock()
}

// history returns the recorded operations ordered by call time.
func (r *recorder) history() []*opRec {
	r.mu.Lock()
	out := append([]*opRec(nil), r.ops...)
	r.mu.Unlock()
	sort.Slice(out, func(i, j int) bool { return out[i].Call < out[j].Call })
	return out
}

func sortOps(ops []*opRec) {
	sort.SliceStable(ops, func(i, j int) bool { return ops[i].Call < ops[j].Call })
}

// recKS wraps one keystore handle for one thread. Several recKS may share one underlying handle (forThread).
type recKS struct {
	api.MutableKeyStore
	rec *recorder
	t   int
	// last successful or failed open per ring by this thread (used to explain getter results); owned by the thread.
	last map[string]*opRec
	// ring handles opened by this thread so far (names them)
	opened int
}

func newRecKS(inner api.MutableKeyStore, rec *recorder, thread int) *recKS {
	return &recKS{MutableKeyStore: inner, rec: rec, t: thread, last: map[string]*opRec{}}
}

// forThread gives another thread its own attribution over the same underlying handle.
func (k *recKS) forThread(thread int) *recKS { return newRecKS(k.MutableKeyStore, k.rec, thread) }

func errStr(err error) string {
	if err == nil {
		return ""
	}
	return err.Error()
}

// OpenKeyRing records a Read.
func (k *recKS) OpenKeyRing(path string) (api.KeyRing, error) {
	o := &opRec{Thread: k.t, Ring: path, Kind: opRead}
	o.Call = k.rec.clk.tick()
	ring, err := k.MutableKeyStore.OpenKeyRing(path)
	o.Ret = k.rec.clk.tick()
	o.Err = errStr(err)
	if err == nil {
		s := snapshot(ring)
		o.Out = &s
	}
	k.rec.add(o)
	k.last[path] = o
	return ring, err
}

// OpenKeyRingRW records an OpenRW (creates the ring when absent, and reads it).
func (k *recKS) OpenKeyRingRW(path string) (api.MutableKeyRing, error) {
	o := &opRec{Thread: k.t, Ring: path, Kind: opOpenRW}
	o.Call = k.rec.clk.tick()
	ring, err := k.MutableKeyStore.OpenKeyRingRW(path)
	o.Ret = k.rec.clk.tick()
	o.Err = errStr(err)
	if err != nil {
		k.rec.add(o)
		k.last[path] = o
		return nil, err
	}
	s := snapshot(ring)
	o.Out = &s
	k.opened++
	o.H = fmt.Sprintf("t%d#%d", k.t, k.opened)
	k.rec.add(o)
	k.last[path] = o
	return &recRing{MutableKeyRing: ring, ks: k, path: path, id: o.H, last: &s}, nil
}

// owDelegate answers "overwrite" for every conflict.
type owDelegate struct{}

func (owDelegate) DecideKeyRingOverwrite(_, _ *asn1.KeyRing) (api.ImportDecision, error) {
	return api.ImportOverwrite, nil
}

// importRing imports a one-ring bundle and records it. content is the ring state the bundle carries.
func (k *recKS) importRing(bundle []byte, suite *crypto.KeyStoreSuite, path string, content ringState, overwrite bool) error {
	o := &opRec{Thread: k.t, Ring: path, Kind: opImportNX, Imp: &content}
	var delegate api.KeyRingImportDelegate
	if overwrite {
		o.Kind = opImportOW
		delegate = owDelegate{}
	}
	o.Call = k.rec.clk.tick()
	_, err := k.MutableKeyStore.ImportKeyRings(bundle, suite, delegate)
	o.Ret = k.rec.clk.tick()
	o.Err = errStr(err)
	k.rec.add(o)
	return err
}

// recRing wraps a mutable ring handle (which keeps its own, possibly stale, view of the ring).
type recRing struct {
	api.MutableKeyRing
	ks   *recKS
	path string
	id   string
	last *ringState // the view recorded last through this ring handle
	// what the last update through this handle was and whether it was refused (counters of the views taken afterwards)
	lastKind    string
	lastRefused bool
}

// finish completes the record of an update: whether acknowledged or refused, the complete view through this ring handle is
// read immediately afterwards (local getters only: no back-end call, hence no scheduling point and nothing another thread
// could do in between).
func (r *recRing) finish(o *opRec, err error) {
	o.Ret = r.ks.rec.clk.tick()
	o.Err = errStr(err)
	o.H = r.id
	s := snapshot(r.MutableKeyRing)
	o.Out = &s
	if err != nil && r.last != nil {
		o.Unch = sameState(s, *r.last)
	}
	r.last = &s
	r.lastKind, r.lastRefused = o.Kind, err != nil
	r.ks.rec.add(o)
}

// view records a complete read through this ring handle (no store access).
func (r *recRing) view() ringState {
	o := &opRec{Thread: r.ks.t, Ring: r.path, Kind: opView, H: r.id}
	o.Call = r.ks.rec.clk.tick()
	s := snapshot(r.MutableKeyRing)
	o.Ret = r.ks.rec.clk.tick()
	o.Out = &s
	r.ks.rec.add(o)
	return s
}

// AddKey records the operation.
func (r *recRing) AddKey(key api.KeyDescription) (int, error) {
	kv := describeKey(key)
	o := &opRec{Thread: r.ks.t, Ring: r.path, Kind: opAddKey, Key: &kv}
	o.Call = r.ks.rec.clk.tick()
	seq, err := r.MutableKeyRing.AddKey(key)
	o.OutSeq = seq
	r.finish(o, err)
	return seq, err
}

// SetCurrent records the operation.
func (r *recRing) SetCurrent(seqnum int) error {
	o := &opRec{Thread: r.ks.t, Ring: r.path, Kind: opSetCurrent, N: seqnum}
	o.Call = r.ks.rec.clk.tick()
	err := r.MutableKeyRing.SetCurrent(seqnum)
	r.finish(o, err)
	return err
}

// SetState records the operation.
func (r *recRing) SetState(seqnum int, st api.KeyState) error {
	o := &opRec{Thread: r.ks.t, Ring: r.path, Kind: opSetState, N: seqnum, St: int(st)}
	o.Call = r.ks.rec.clk.tick()
	err := r.MutableKeyRing.SetState(seqnum, st)
	r.finish(o, err)
	return err
}

// DestroyKey records the operation.
func (r *recRing) DestroyKey(seqnum int) error {
	o := &opRec{Thread: r.ks.t, Ring: r.path, Kind: opDestroy, N: seqnum}
	o.Call = r.ks.rec.clk.tick()
	err := r.MutableKeyRing.DestroyKey(seqnum)
	r.finish(o, err)
	return err
}
