package c17

// v2stale.go — stale-view schedules with COMPLETE views through every handle.
//
// Every update of a v2 key ring is one pull-apply-sign-write cycle under the exclusive store lock, so what two handles can
// do to each other is decided by the ORDER of their operations and by how old the view is that each of them validates its
// update against. This layer generates those orders systematically at operation granularity: handle B opens the ring
// (its view starts ageing), handle A updates the ring (the same key, the other key, the current marker, the key list, the
// whole ring), B updates with its stale, locally valid transition — acknowledged or refused — and goes on with a second
// update. After EVERY operation the complete view (state, validity, formats, key material or the exact error class, current
// marker) is read through EVERY open ring handle — the handle whose update has just been refused first of all, before it
// does anything else — and through a fresh reader. One goroutine executes the operations one after another on real keystore
// handles over one shared back end (shared in-memory back end / one directory with a DirectoryBackend and flock per handle).
//
// Oracle: the recorded history including those views must be linearizable (checkHistory): an acknowledged update shows in
// the updater's view at once and in every later pull; a refused update leaves NO trace — the refused handle's view is either
// its previous one or the ring as the store holds it at that moment, never a mixture (e.g. state pulled from the store, key
// data wiped by the first transaction of the refused DestroyKey); a view read again without an operation of its handle in
// between has not changed.

import (
	"fmt"
	"os"
	"sort"

	"github.com/cossacklabs/acra/keystore/v2/keystore/api"

	"verif/harness/internal/ev"
	"verif/harness/internal/gen"
	"verif/harness/internal/rig/ksrig"
)

// staleStep: one operation of one handle (H: 0 = A, 1 = B, 2 = C the bystander that only ever opened the ring).
type staleStep struct {
	H int
	A action
}

type staleCase struct {
	Name  string
	Class string // what B's stale update meets (for the distinct-class count)
	Core  bool   // B's update consists of several transactions (runs in both tiers)
	Order int
	Tg    target
	Setup []action
	Steps []staleStep
}

func (c *staleCase) render() []string {
	out := []string{"setup: " + fmt.Sprint(c.Setup)}
	for _, s := range c.Steps {
		out = append(out, fmt.Sprintf("%c: %s", 'A'+s.H, s.A))
	}
	return out
}

// stateSetup brings the ring of tg to: two keys (seqnums 1 and 2, 2 current), key `pick` (0 = newest) in state st.
func stateSetup(tg target, pick int, st api.KeyState) []action {
	mkKey := action{Kind: map[string]string{"pair": "GenPair", "sym": "GenSym", "hmac": "GenHmac"}[tg.Ring], Client: tg.Client}
	set := func(s api.KeyState) action {
		return action{Kind: "RingSetState", Client: tg.Client, Ring: tg.Ring, Pick: pick, State: int(s)}
	}
	out := []action{mkKey, mkKey}
	switch st {
	case api.KeyPreActive:
	case api.KeySuspended:
		out = append(out, set(api.KeyActive), set(api.KeySuspended))
	default:
		out = append(out, set(st))
	}
	return out
}

var staleStates = []api.KeyState{api.KeyPreActive, api.KeyActive, api.KeySuspended, api.KeyDeactivated, api.KeyCompromised}

// updatesOn lists the ring-level updates that are locally valid for a handle whose view shows key `pick` in state st (the
// other key pre-active): every state change of that key, its destruction, the current marker, a new key, and the same on the
// other key. multi: the update is applied as several transactions.
type staleUpdate struct {
	A     action
	Multi bool
	Same  bool // touches the key under test
}

func updatesOn(tg target, pick int, st api.KeyState) []staleUpdate {
	mk := func(kind string, p int, s api.KeyState) action {
		return action{Kind: kind, Client: tg.Client, Ring: tg.Ring, Pick: p, State: int(s)}
	}
	other := 1 - pick
	var out []staleUpdate
	for _, s := range settableStates {
		if api.KeyStateTransitionValid(st, s) {
			out = append(out, staleUpdate{A: mk("RingSetState", pick, s), Same: true})
		}
	}
	if api.KeyStateTransitionValid(st, api.KeyDestroyed) {
		out = append(out, staleUpdate{A: mk("RingDestroy", pick, 0), Multi: true, Same: true})
	}
	out = append(out,
		staleUpdate{A: mk("RingSetCur", pick, 0), Same: true},
		staleUpdate{A: mk("RingSetCur", other, 0)},
		staleUpdate{A: mk("RingAdd", 0, 0)},
		staleUpdate{A: mk("RingSetState", other, api.KeyActive)},
		staleUpdate{A: mk("RingDestroy", other, 0), Multi: true},
	)
	return out
}

// staleCases generates the schedules for one ring. Orders (B's view is stale in 0-2, fresh in 3):
//
//	0: C opens, B opens, A opens, A: uA, B: uB, B: uB2, A: uA2
//	1: B opens, A opens + uA + second update of the same kind of key, B: uB, A: uA2, B: uB2        (two updates behind)
//	2: A opens, A: uA, B opens, A: uA2', B: uB, B: uB2                                               (opened in between)
//	3: B opens, B: uB, A opens, A: uA, B: uB2                                                        (control: nothing stale at uB)
func staleCases(tg target) []*staleCase {
	var out []*staleCase
	open := action{Kind: "RingOpen", Client: tg.Client, Ring: tg.Ring}
	add := action{Kind: "RingAdd", Client: tg.Client, Ring: tg.Ring}
	imp := action{Kind: "ImportOW", Bundle: bundleIndex(tg)}
	for _, st := range staleStates {
		for pick := 0; pick < 2; pick++ {
			ups := updatesOn(tg, pick, st)
			as := append([]staleUpdate{}, ups...)
			as = append(as, staleUpdate{A: imp, Same: true}) // the whole ring replaced (the key under test may be gone or be another key)
			for ai, ua := range as {
				for bi, ub := range ups {
					for order := 0; order < 4; order++ {
						if order != 0 && !(ub.Multi || ua.Multi) && (ai+bi+order)%3 != 0 {
							continue // the other orders: always for several-transaction updates, a third of the rest
						}
						c := &staleCase{Tg: tg, Setup: stateSetup(tg, pick, st), Order: order}
						c.Core = ub.Multi && ua.Same && ub.Same && order <= 1
						// B's follow-up: whatever is valid in the ring as B believes it to be — a new key always is
						ub2 := add
						// A's second update: the current marker (orders 1 and 2: moved to the older key, so that A has changed two things
						// B does not know of)
						ua2 := action{Kind: "RingSetCur", Client: tg.Client, Ring: tg.Ring, Pick: (ai + bi) % 2}
						if order == 1 || order == 2 {
							ua2.Pick = 1
						}
						s := func(h int, a action) staleStep { return staleStep{H: h, A: a} }
						switch order {
						case 0:
							c.Steps = []staleStep{s(2, open), s(1, open), s(0, open), s(0, ua.A), s(1, ub.A), s(1, ub2), s(0, ua2)}
						case 1:
							c.Steps = []staleStep{s(1, open), s(0, open), s(0, ua.A), s(0, ua2), s(1, ub.A), s(0, add), s(1, ub2)}
						case 2:
							c.Steps = []staleStep{s(0, open), s(0, ua2), s(1, open), s(0, ua.A), s(1, ub.A), s(1, ub2)}
						default:
							c.Steps = []staleStep{s(1, open), s(1, ub.A), s(0, open), s(0, ua.A), s(1, ub2)}
						}
						c.Class = fmt.Sprintf("%s key in state %s: A %s / B %s (order %d)", tg.Ring, st, kindOf(ua, pick), kindOf(ub, pick), order)
						c.Name = fmt.Sprintf("stale/%s/%s/pick%d/A=%s/B=%s/order%d", tg.Ring, st, pick, ua.A, ub.A, order)
						out = append(out, c)
					}
				}
			}
		}
	}
	return out
}

func kindOf(u staleUpdate, pick int) string {
	s := u.A.Kind
	if u.A.Kind == "RingSetState" {
		s += ">" + api.KeyState(u.A.State).String()
	}
	if u.A.Kind == "ImportOW" || u.A.Kind == "RingAdd" {
		return s
	}
	if u.Same {
		return s + "(same key)"
	}
	return s + "(other key)"
}

// runStale executes one case on one back end and judges it.
func (w *schedWorld) runStale(r *ev.Run, c *staleCase, kind string, factory backendFactory) bool {
	rec := newRecorder()
	open := func(t int) *threadCtx {
		b, err := factory()
		if err != nil {
			panic(err)
		}
		h, err := openHandle(b, w.keys, rec, t)
		if err != nil {
			panic(err)
		}
		return newThreadCtx(r, t, h, w.bundles, kind)
	}
	const nHandles = 3
	sx := open(nHandles)
	sx.runProgram(c.Setup)
	sx.h.close()
	ctxs := make([]*threadCtx, nHandles)
	for i := range ctxs {
		ctxs[i] = open(i)
	}
	reader := open(nHandles + 1) // a reader that opens the ring afresh every time
	view := action{Kind: "RingView", Client: c.Tg.Client, Ring: c.Tg.Ring}
	path := ringPath(c.Tg.Client, c.Tg.Ring)
	for _, st := range c.Steps {
		x := ctxs[st.H]
		x.runProgram([]action{st.A})
		// the handle that has just operated (maybe: that has just been refused) first, then every other handle, then a fresh reader
		order := []int{st.H}
		for i := range ctxs {
			if i != st.H {
				order = append(order, i)
			}
		}
		for _, i := range order {
			if _, held := ctxs[i].rings[path]; held {
				ctxs[i].runProgram([]action{view})
			}
		}
		reader.runProgram([]action{view})
	}
	r.Case()
	r.Count("stale_view_executions_"+kind, 1)
	detail := map[string]interface{}{"case": c.Name, "schedule": c.render(), "handles": "A = thread 0, B = thread 1, C = thread 2 (bystander), thread 4 = fresh reader, thread 3 = set-up"}
	var logs []string
	clean := true
	for _, x := range append(append([]*threadCtx{sx}, ctxs...), reader) {
		logs = append(logs, x.log...)
		for _, f := range x.bad {
			clean = false
			d := map[string]interface{}{"context": detail}
			for k, v := range f.Detail {
				d[k] = v
			}
			r.Violation(f.Sig, d)
		}
	}
	detail["action_results"] = logs
	for _, x := range ctxs {
		x.h.close()
	}
	reader.h.close()
	fb, err := factory()
	if err != nil {
		panic(err)
	}
	finals, err := finalStates(fb, w.keys, []string{path})
	if err != nil {
		panic(err)
	}
	hist := rec.history()
	if !checkHistory(r, hist, finals, checkCtx{Backend: kind, Workload: "stale-views", Detail: detail}) {
		clean = false
	}
	// what the schedule really produced: B's first update acknowledged / refused with what
	outcome := "?"
	seen := 0
	for _, o := range hist {
		if o.Thread == 1 && o.H != "" && o.Kind != opOpenRW && o.Kind != opView {
			seen++
			if seen == 1 {
				outcome = "acknowledged"
				if o.Err != "" {
					outcome = "refused: " + errClass(o.Err)
					if o.Unch {
						outcome += " (view kept)"
					} else {
						outcome += " (view pulled)"
					}
				}
			}
		}
	}
	if clean {
		r.Distinct("stale-view:" + kind + ":" + c.Class + ": " + outcome)
		r.SetAdd("stale_view_outcomes", c.Tg.Ring+": "+outcome)
		if c.Core {
			r.Count("stale_view_core_executions", 1)
			r.SampleN("stale-core-"+kind, 1, map[string]interface{}{"kind": "stale-view schedule, several-transaction update on a stale view (" + kind + ")", "schedule": c.render(), "outcome_of_B": outcome, "history": renderOps(hist)})
		}
	}
	return clean
}

// staleViews: the core (several-transaction update of B on the key A has just updated) always, plus a seeded sample of the rest
// (sample < 0: all of it); ring kinds pair / sym / hmac in turn. maxCoreOrder: the core schedules of the orders up to it always run.
func (w *schedWorld) staleViews(r *ev.Run, kind string, store func() (backendFactory, func()), sample, maxCoreOrder int) {
	// every schedule on ONE of the three ring kinds, in turn (the full product with the ring kinds would triple the run time)
	var cases []*staleCase
	for ki, tg := range []target{{"alpha", "pair"}, {"alpha", "sym"}, {"bravo", "hmac"}} {
		for i, c := range staleCases(tg) {
			if i%3 == ki {
				cases = append(cases, c)
			}
		}
	}
	r.Extra("stale_view_cases_generated", len(cases))
	var run []*staleCase
	var rest []*staleCase
	for _, c := range cases {
		if c.Core && c.Order <= maxCoreOrder {
			run = append(run, c)
		} else {
			rest = append(rest, c)
		}
	}
	if sample < 0 || sample >= len(rest) {
		run = append(run, rest...)
	} else {
		rng := gen.New(r.Seed, "c17-stale-"+kind)
		idx := rng.Perm(len(rest))[:sample]
		sort.Ints(idx)
		for _, i := range idx {
			run = append(run, rest[i])
		}
	}
	unclean := 0
	for _, c := range run {
		factory, cleanup := store()
		clean := w.runStale(r, c, kind, factory)
		cleanup()
		if !clean {
			unclean++
			if unclean >= 25 {
				r.Count("stale_view_stopped_after_many_violations", 1)
				break // nothing new is learnt from going on
			}
		}
	}
}

// one fresh store per case
func staleMemStore() (backendFactory, func()) { return memFactory(), func() {} }

func staleDirStore() (backendFactory, func()) {
	dir := ksrig.ScratchDir("c17-stale")
	return dirFactory(dir), func() { os.RemoveAll(dir) }
}
