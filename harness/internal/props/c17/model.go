package c17

// model.go — the sequential key-ring model, the linearizability check (porcupine) and the final-state oracle.

import (
	"fmt"
	"regexp"
	"sort"
	"strings"
	"time"

	"github.com/anishathalye/porcupine"
	"github.com/cossacklabs/acra/keystore/v2/keystore/api"

	"verif/harness/internal/ev"
)

// Error texts that mean "the operation did not happen" (no-ops of the model). Everything else is unexpected.
const (
	errConcurrent  = "concurrent keystore modification"
	errDuplicate   = "duplicate key with seqnum in key ring"
	errTxNotFound  = "no key with such seqnum in key ring"
	errRingExists  = "imported key ring already exists"
	errPathMissing = "key path does not exist"
)

var allowedErrors = map[string][]string{
	opRead:       {errPathMissing},
	opOpenRW:     {},
	opAddKey:     {errDuplicate, errConcurrent},
	opSetCurrent: {errConcurrent, errTxNotFound},
	opSetState:   {errConcurrent, errTxNotFound, api.ErrKeyNotExist.Error(), api.ErrInvalidState.Error()},
	opDestroy:    {errConcurrent, errTxNotFound, api.ErrKeyNotExist.Error(), api.ErrInvalidState.Error()},
	opImportNX:   {errRingExists, errConcurrent},
	opImportOW:   {errConcurrent},
}

func errorAllowed(kind, msg string) bool {
	for _, a := range allowedErrors[kind] {
		if a == msg {
			return true
		}
	}
	return false
}

var (
	reDigits = regexp.MustCompile(`[0-9]+`)
	rePathy  = regexp.MustCompile(`(/[A-Za-z0-9_.\-]+){2,}`)
)

// errClass strips numbers and paths so that the text can be part of a stable signature.
func errClass(msg string) string {
	msg = rePathy.ReplaceAllString(msg, "<path>")
	msg = reDigits.ReplaceAllString(msg, "N")
	if len(msg) > 120 {
		msg = msg[:120]
	}
	return msg
}

// panicSite extracts the function in which a recovered panic was raised from debug.Stack() output taken inside the
// deferred recover: the first frame after the runtime's panic frames. Stable (no addresses, no line numbers).
func panicSite(stack string) string {
	lines := strings.Split(stack, "\n")
	seenPanic := false
	for _, l := range lines {
		if strings.HasPrefix(l, "\t") || strings.HasPrefix(l, "goroutine ") || l == "" {
			continue
		}
		fn := l
		if i := strings.LastIndex(fn, "("); i > 0 {
			fn = fn[:i]
		}
		if strings.HasPrefix(fn, "panic") {
			seenPanic = true
			continue
		}
		if !seenPanic || strings.HasPrefix(fn, "runtime.") {
			continue
		}
		return fn
	}
	return "unknown"
}

// sameState: two complete views are equal (every field of every key, the current marker, readability).
func sameState(a, b ringState) bool {
	if !a.Exists || !b.Exists {
		return a.Exists == b.Exists
	}
	if a.Cur != b.Cur || a.Bad != b.Bad || len(a.Keys) != len(b.Keys) {
		return false
	}
	for i := range a.Keys {
		if a.Keys[i] != b.Keys[i] {
			return false
		}
	}
	return true
}

func lastSeq(s ringState) int {
	if len(s.Keys) == 0 {
		return 0
	}
	return s.Keys[len(s.Keys)-1].Seq
}

func cloneState(s ringState) ringState {
	n := s
	n.Keys = append([]keyView(nil), s.Keys...)
	return n
}

// step is the sequential specification of one key ring. States are treated as immutable.
//
// Imports are composite (like Generate* = AddKey + SetCurrent): the keystore first makes sure the ring exists
// (opImportOpen, may create an empty ring that readers can see) and later replaces its content (the ImportNX / ImportOW
// record). An import with the default "abort if the ring exists" policy (NX) must find the ring still pristine when it
// writes; otherwise it destroys successful updates of other writers although its policy promised not to overwrite.
// relax.NX drops that demand, relax.Order lets AddKey return any unused sequence number instead of one above the
// ring's last (both used only to diagnose why a history is illegal, never to accept it).
// relax.Refused forgets the view read through the handle of a refused update.
type relax struct{ NX, Order, Refused bool }

func seqUsable(s ringState, seq int, r relax) bool {
	if seq < 1 {
		return false
	}
	if r.Order {
		return s.key(seq) == nil
	}
	return seq > lastSeq(s)
}

func step(s ringState, o *opRec, rx relax) (bool, ringState) {
	if o.Err != "" {
		switch {
		case o.Kind == opRead && o.Err == errPathMissing:
			// "does not exist" is only an honest answer while the ring does not exist
			return !s.Exists, s
		case o.Kind == opImportNX && o.Err == errRingExists:
			return s.Exists, s
		}
		// failed operations are no-ops that may occur at any time — and they leave no trace: the view through the ring handle
		// whose update was refused is afterwards either what that handle showed before (refused on its own view, nothing pulled)
		// or the ring as it is in the store at that moment (the write cycle pulled it under the lock before it refused)
		if o.Out != nil && !rx.Refused && !o.Unch && !(s.Exists && sameState(s, *o.Out)) {
			return false, s
		}
		return true, s
	}
	switch o.Kind {
	case opRead:
		return s.Exists && o.Out != nil && sameState(s, *o.Out), s
	case opOpenRW:
		ns := s
		if !s.Exists {
			ns = ringState{Exists: true, Cur: noKey}
		}
		return o.Out != nil && sameState(ns, *o.Out), ns
	case opAddKey:
		if !s.Exists || !seqUsable(s, o.OutSeq, rx) {
			return false, s
		}
		ns := cloneState(s)
		k := *o.Key
		k.Seq = o.OutSeq
		k.State = int(api.KeyPreActive)
		ns.Keys = append(ns.Keys, k)
		return o.Out == nil || sameState(ns, *o.Out), ns
	case opSetCurrent:
		if !s.Exists || s.key(o.N) == nil {
			return false, s
		}
		ns := cloneState(s)
		ns.Cur = o.N
		return o.Out == nil || sameState(ns, *o.Out), ns
	case opSetState:
		k := s.key(o.N)
		if !s.Exists || k == nil || !api.KeyStateTransitionValid(api.KeyState(k.State), api.KeyState(o.St)) {
			return false, s
		}
		ns := cloneState(s)
		ns.key(o.N).State = o.St
		return o.Out == nil || sameState(ns, *o.Out), ns
	case opDestroy:
		k := s.key(o.N)
		if !s.Exists || k == nil || !api.KeyStateTransitionValid(api.KeyState(k.State), api.KeyDestroyed) {
			return false, s
		}
		ns := cloneState(s)
		nk := ns.key(o.N)
		*nk = destroyedView(*nk)
		return o.Out == nil || sameState(ns, *o.Out), ns
	case opImportOpen:
		if !s.Exists {
			return true, ringState{Exists: true, Cur: noKey}
		}
		return true, s
	case opImportNX:
		if !rx.NX && (!s.Exists || len(s.Keys) != 0 || s.Cur != noKey) {
			return false, s
		}
		ns := cloneState(*o.Imp)
		ns.Exists = true
		return true, ns
	case opImportOW:
		ns := cloneState(*o.Imp)
		ns.Exists = true
		return true, ns
	}
	return false, s
}

func makeModel(rx relax) porcupine.Model {
	m := ringModelBase
	m.Step = func(state, input, _ interface{}) (bool, interface{}) {
		ok, ns := step(state.(ringState), input.(*opRec), rx)
		return ok, ns
	}
	return m
}

var ringModel = makeModel(relax{})

// diagnoses: the weakest relaxation of the model that accepts an illegal history names what went wrong.
var diagnoses = []struct {
	rx   relax
	what string
}{
	{relax{NX: true}, "v2 import with abort-if-exists policy replaced a ring that concurrent writers had filled meanwhile (their successful updates are lost)"},
	{relax{Order: true}, "v2 AddKey through a handle with a stale view appended a sequence number below the ring's last one (ring order no longer increasing)"},
	{relax{NX: true, Order: true}, "v2 abort-if-exists import replaced a filled ring and AddKey appended a sequence number below the ring's last one"},
}

var ringModelBase = porcupine.Model{
	Init:  func() interface{} { return ringState{} },
	Equal: func(a, b interface{}) bool { return sameState(a.(ringState), b.(ringState)) },
	DescribeOperation: func(input, _ interface{}) string {
		return input.(*opRec).String()
	},
	DescribeState: func(state interface{}) string { return state.(ringState).String() },
}

func toPorcupine(ops []*opRec) []porcupine.Operation {
	out := make([]porcupine.Operation, len(ops))
	for i, o := range ops {
		cid := o.Thread
		if cid < 0 {
			cid = 0
		}
		out[i] = porcupine.Operation{ClientId: cid, Input: o, Call: o.Call, Return: o.Ret}
	}
	return out
}

// checkCtx says where a history came from (goes into violation details and signatures).
type checkCtx struct {
	Backend  string      // mem | dir | dir-multiproc
	Workload string      // sched-random | sched-dfs | stress | multiproc | shared-handle
	Detail   interface{} // seed, schedule number, scenario, interleaving ...
	Timeout  time.Duration
	// Prefix is put in front of every violation signature of this history ("redis ", "redis lock-expired: ").
	Prefix string
	// ExtraNoop: error texts (substring match) that the WORKLOAD itself injected into lock acquisition (dropped connection on the
	// lock SET, lock wait timed out behind a leaked lock key): such an operation failed before its write cycle began and is a no-op.
	ExtraNoop []string
}

func renderOps(ops []*opRec) []string {
	out := make([]string, len(ops))
	for i, o := range ops {
		out[i] = o.String()
	}
	return out
}

// refusedTraces finds the refused operations whose recorded view makes the history illegal (forgetting that one view, or
// failing that all of them, makes it legal).
func refusedTraces(ops []*opRec, timeout time.Duration) (string, []interface{}) {
	kinds := map[string]bool{}
	var views []interface{}
	var refused []int
	for i, o := range ops {
		if o.Err != "" && o.Out != nil && !o.Unch {
			refused = append(refused, i)
		}
	}
	note := func(o *opRec) {
		kinds[o.Kind] = true
		v := map[string]interface{}{"op": o.String(), "view_after_refusal": o.Out.long()}
		for _, p := range ops {
			if p.H == o.H && p.Call < o.Call && p.Out != nil {
				v["view_of_the_same_handle_before"] = p.Out.long() // the latest one wins
			}
		}
		views = append(views, v)
	}
	for _, i := range refused {
		c := *ops[i]
		c.Out = nil
		rest := append(append(append([]*opRec{}, ops[:i]...), &c), ops[i+1:]...)
		if porcupine.CheckOperationsTimeout(ringModel, toPorcupine(rest), timeout) == porcupine.Ok {
			note(ops[i])
		}
	}
	if len(kinds) == 0 {
		for _, i := range refused {
			note(ops[i])
		}
	}
	ks := make([]string, 0, len(kinds))
	for k := range kinds {
		ks = append(ks, k)
	}
	sort.Strings(ks)
	return strings.Join(ks, "+"), views
}

// blame finds the successful operations whose removal makes the ring history linearizable.
func blame(ops []*opRec) string {
	kinds := map[string]bool{}
	for i, o := range ops {
		if o.Err != "" || o.Thread == finalThread {
			continue
		}
		rest := make([]*opRec, 0, len(ops)-1)
		rest = append(rest, ops[:i]...)
		rest = append(rest, ops[i+1:]...)
		if porcupine.CheckOperationsTimeout(ringModel, toPorcupine(rest), 5*time.Second) == porcupine.Ok {
			kinds[o.Kind] = true
		}
	}
	if len(kinds) == 0 {
		return "several"
	}
	ks := make([]string, 0, len(kinds))
	for k := range kinds {
		ks = append(ks, k)
	}
	sort.Strings(ks)
	return strings.Join(ks, "+")
}

const finalThread = 1000

// checkHistory judges one recorded history: per-operation checks, linearizability per ring, final-state oracle.
// finals holds each ring read through a fresh handle after all writers finished. Returns false when anything was reported.
func checkHistory(r *ev.Run, ops []*opRec, finals map[string]ringState, ctx checkCtx) bool {
	clean := true
	if ctx.Timeout == 0 {
		ctx.Timeout = 60 * time.Second
	}
	report := func(sig string, extra map[string]interface{}) {
		clean = false
		d := map[string]interface{}{"backend": ctx.Backend, "workload": ctx.Workload, "context": ctx.Detail}
		for k, v := range extra {
			d[k] = v
		}
		r.Violation(ctx.Prefix+sig, d)
	}
	injected := func(msg string) bool {
		for _, e := range ctx.ExtraNoop {
			if strings.Contains(msg, e) {
				return true
			}
		}
		return false
	}
	// per-operation checks
	var maxClock int64
	byRing := map[string][]*opRec{}
	lastOf := map[string]*opRec{} // ring handle -> its last recorded operation that carries a view
	for _, o := range ops {
		if o.Ret > maxClock {
			maxClock = o.Ret
		}
		if o.H != "" {
			prev := lastOf[o.H]
			if o.Out != nil {
				lastOf[o.H] = o
			}
			if o.Kind == opView {
				// a complete read through an open ring handle: local getters, so it shows what the handle showed after its last
				// operation (that view is judged against the ring's history there) — in particular after a refused update
				r.Count("v2_handle_views_checked", 1)
				if o.Out != nil && o.Out.Bad != "" {
					report(fmt.Sprintf("v2 %s returned a ring whose keys cannot be read: %s: backend=%s", o.Kind, errClass(o.Out.Bad), ctx.Backend),
						map[string]interface{}{"op": o.String()})
				}
				if prev != nil && prev.Out != nil && o.Out != nil {
					after := prev.Kind
					if prev.Kind == opView {
						after = "earlier view"
					} else if prev.Err != "" {
						after += "(refused)"
						r.Count("v2_views_through_refused_handle", 1)
					}
					if sameState(*prev.Out, *o.Out) {
						r.Count("v2_handle_views_stable", 1)
					} else {
						report(fmt.Sprintf("v2 view through a ring handle changed although the handle performed no operation: after=%s: backend=%s", after, ctx.Backend),
							map[string]interface{}{"ring": o.Ring, "handle": o.H, "view_before": prev.Out.long(), "view_now": o.Out.long(), "previous_operation": prev.String()})
					}
				}
				continue // not an operation on the ring
			}
			if o.Err != "" && o.Out != nil {
				r.Count("v2_refused_updates_with_view", 1)
				if o.Unch {
					r.Count("v2_refused_updates_view_unchanged", 1)
				} else {
					r.Count("v2_refused_updates_view_advanced_to_store", 1)
				}
				if o.Kind == opDestroy && o.Err == errConcurrent {
					r.Count("v2_refused_multi_transaction_updates", 1)
				}
			}
		}
		if (o.Kind == opImportNX || o.Kind == opImportOW) && (o.Err == "" || o.Err == errConcurrent) {
			// first half of the composite import: the ring is made to exist
			byRing[o.Ring] = append(byRing[o.Ring], &opRec{Thread: o.Thread, Ring: o.Ring, Kind: opImportOpen, Call: o.Call, Ret: o.Ret})
		}
		byRing[o.Ring] = append(byRing[o.Ring], o)
		r.Count("v2_ops_recorded", 1)
		if o.Err == "" {
			r.Count("v2_ok_"+o.Kind, 1)
		} else {
			r.Count("v2_failed_"+o.Kind, 1)
			r.SetAdd("v2_failure_texts", o.Kind+": "+errClass(o.Err))
			if ctx.Prefix != "" && strings.Contains(o.Err, "i/o timeout") {
				// go-redis' client-side timeout (wall clock) on a saturated machine; the outcome of the operation is unknown
				r.Inconclusive("redis v2: a Redis command timed out on the client side (wall-clock timeout of go-redis; machine overloaded): workload=" + ctx.Workload)
			} else if injected(o.Err) {
				r.Count("v2_failed_by_injected_lock_fault", 1)
			} else if !errorAllowed(o.Kind, o.Err) {
				report(fmt.Sprintf("v2 %s failed with an error that is not a concurrency refusal: %s: backend=%s", o.Kind, errClass(o.Err), ctx.Backend),
					map[string]interface{}{"op": o.String(), "ring_history": renderOps(byRing[o.Ring])})
			}
		}
		if o.Out != nil && o.Out.Bad != "" {
			report(fmt.Sprintf("v2 %s returned a ring whose keys cannot be read: %s: backend=%s", o.Kind, errClass(o.Out.Bad), ctx.Backend),
				map[string]interface{}{"op": o.String()})
		}
	}
	// final reads become part of the history
	rings := make([]string, 0, len(byRing))
	for ring := range byRing {
		rings = append(rings, ring)
	}
	sort.Strings(rings)
	for _, ring := range rings {
		if f, ok := finals[ring]; ok {
			fo := &opRec{Thread: finalThread, Ring: ring, Kind: opRead, Call: maxClock + 1, Ret: maxClock + 2}
			if f.Exists {
				fc := f
				fo.Out = &fc
			} else {
				fo.Err = errPathMissing
			}
			byRing[ring] = append(byRing[ring], fo)
		}
	}
	for _, ring := range rings {
		h := byRing[ring]
		r.Count("v2_ring_histories_checked", 1)
		res := porcupine.CheckOperationsTimeout(ringModel, toPorcupine(h), ctx.Timeout)
		switch res {
		case porcupine.Ok:
			r.Count("v2_ring_histories_linearizable", 1)
		case porcupine.Unknown:
			r.Inconclusive(fmt.Sprintf("porcupine timeout on ring %s (%d ops) workload=%s", ring, len(h), ctx.Workload))
		default:
			diagnosed := false
			if porcupine.CheckOperationsTimeout(makeModel(relax{Refused: true}), toPorcupine(h), ctx.Timeout) == porcupine.Ok {
				// legal but for what some handle shows after its update was refused: name the refused operations whose view
				// cannot be placed
				kinds, views := refusedTraces(h, ctx.Timeout)
				report(fmt.Sprintf("v2 refused update left a trace: the view through the refused handle is neither its previous view nor a state the ring was in: refused=%s: backend=%s", kinds, ctx.Backend),
					map[string]interface{}{"ring": ring, "ring_history": renderOps(h), "views_that_cannot_be_placed": views})
				diagnosed = true
			}
			for _, dgn := range diagnoses {
				if diagnosed {
					break
				}
				if porcupine.CheckOperationsTimeout(makeModel(dgn.rx), toPorcupine(h), ctx.Timeout) == porcupine.Ok {
					// the only thing wrong with this history is what the relaxation forgives
					report(fmt.Sprintf("%s: backend=%s", dgn.what, ctx.Backend), map[string]interface{}{"ring": ring, "ring_history": renderOps(h)})
					diagnosed = true
					break
				}
			}
			if !diagnosed {
				report(fmt.Sprintf("v2 ring history not linearizable: backend=%s culprit=%s", ctx.Backend, blame(h)),
					map[string]interface{}{"ring": ring, "ring_history": renderOps(h)})
			}
		}
		// final-state oracle
		f, ok := finals[ring]
		if !ok {
			continue
		}
		r.Count("v2_final_states_checked", 1)
		prev := 0
		seen := map[int]bool{}
		dup, unordered := false, false
		for _, k := range f.Keys {
			if seen[k.Seq] {
				dup = true
			} else if k.Seq <= prev {
				unordered = true
			}
			seen[k.Seq] = true
			prev = k.Seq
		}
		if dup {
			report(fmt.Sprintf("v2 final state: one sequence number occurs more than once in the ring: backend=%s", ctx.Backend),
				map[string]interface{}{"ring": ring, "final": f.String(), "ring_history": renderOps(h)})
		} else if unordered {
			report(fmt.Sprintf("v2 final state: sequence numbers unique but not increasing in ring order: backend=%s", ctx.Backend),
				map[string]interface{}{"ring": ring, "final": f.String(), "ring_history": renderOps(h)})
		}
		var lastImportRet int64 = -1
		for _, o := range h {
			if (o.Kind == opImportNX || o.Kind == opImportOW) && o.Err == "" && o.Ret > lastImportRet {
				lastImportRet = o.Ret
			}
		}
		produced := map[int]int{}
		for _, o := range h {
			if o.Kind != opAddKey || o.Err != "" {
				continue
			}
			produced[o.OutSeq]++
			if o.Call < lastImportRet {
				continue // an import may legitimately have replaced it
			}
			r.Count("v2_successful_addkeys_traced_to_final_state", 1)
			n := 0
			for _, k := range f.Keys {
				if k.Seq == o.OutSeq {
					n++
					// the key must carry the material that was added (or have been destroyed since)
					if k.State != int(api.KeyDestroyed) && (k.Pub != o.Key.Pub || k.Priv != o.Key.Priv || k.Sym != o.Key.Sym) {
						n = -1000
					}
				}
			}
			if n != 1 {
				what := "missing from"
				if n > 1 {
					what = "duplicated in"
				} else if n < 0 {
					what = "replaced by other key material in"
				}
				report(fmt.Sprintf("v2 final state: successful AddKey %s the final ring: backend=%s", what, ctx.Backend),
					map[string]interface{}{"ring": ring, "op": o.String(), "final": f.String(), "ring_history": renderOps(h)})
			}
		}
		for seq, n := range produced {
			if n > 1 && lastImportRet < 0 {
				report(fmt.Sprintf("v2 final state: one sequence number handed to several successful AddKey calls: backend=%s", ctx.Backend),
					map[string]interface{}{"ring": ring, "seqnum": seq, "final": f.String(), "ring_history": renderOps(h)})
			}
		}
		if lastImportRet < 0 {
			// without imports every key of the final ring stems from exactly one successful AddKey
			for _, k := range f.Keys {
				if produced[k.Seq] == 0 {
					report(fmt.Sprintf("v2 final state: key that no successful AddKey produced: backend=%s", ctx.Backend),
						map[string]interface{}{"ring": ring, "seqnum": k.Seq, "final": f.String(), "ring_history": renderOps(h)})
				}
			}
		}
	}
	return clean
}
