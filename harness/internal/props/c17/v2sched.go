package c17

// v2sched.go — controlled schedules: several keystore handles over ONE in-memory backend, every backend call of a
// thread is a scheduling point (ksrig.Sched). Random schedules (seeded) and exhaustive depth-first enumeration.

import (
	"fmt"
	"sync"
	"time"

	"github.com/cossacklabs/acra/keystore/v2/keystore/api"
	"github.com/cossacklabs/acra/keystore/v2/keystore/filesystem/backend"
	backendAPI "github.com/cossacklabs/acra/keystore/v2/keystore/filesystem/backend/api"

	"verif/harness/internal/ev"
	"verif/harness/internal/gen"
	"verif/harness/internal/rig/ksrig"
)

// scenario is a set of thread programs over one shared backend.
type scenario struct {
	Name    string     `json:"name"`
	Setup   []action   `json:"setup,omitempty"` // executed before the threads start (unscheduled, recorded)
	Progs   [][]action `json:"programs"`        // one program per thread/handle
	Targets []target   `json:"-"`
}

// universe of rings the controlled workloads use, and one import bundle per ring.
var universe = []target{{"alpha", "pair"}, {"alpha", "sym"}, {"alpha", "hmac"}, {"bravo", "pair"}, {"bravo", "sym"}, {"bravo", "hmac"}}

type schedWorld struct {
	keys    ksrig.V2Keys
	bundles []bundle
}

func newSchedWorld() *schedWorld {
	w := &schedWorld{keys: ksrig.NewV2Keys()}
	var specs []action
	for _, tg := range universe {
		specs = append(specs, action{Client: tg.Client, Ring: tg.Ring})
	}
	b, err := makeBundles(w.keys, specs)
	if err != nil {
		panic(fmt.Sprintf("c17: cannot prepare import bundles: %v", err))
	}
	w.bundles = b
	return w
}

func bundleIndex(tg target) int {
	for i, u := range universe {
		if u == tg {
			return i
		}
	}
	return 0
}

// finalStates reads every ring of the universe through a fresh handle.
func finalStates(b backendAPI.Backend, k ksrig.V2Keys, rings []string) (map[string]ringState, error) {
	ks, err := ksrig.V2OnBackend(b, k)
	if err != nil {
		return nil, err
	}
	defer ks.Close()
	out := map[string]ringState{}
	for _, path := range rings {
		ring, err := ks.OpenKeyRing(path)
		if err == backendAPI.ErrNotExist {
			out[path] = ringState{}
			continue
		}
		if err != nil {
			out[path] = ringState{Exists: true, Cur: noKey, Bad: "final OpenKeyRing: " + err.Error()}
			continue
		}
		out[path] = snapshot(ring)
	}
	return out, nil
}

func universeRings() []string {
	var out []string
	for _, tg := range universe {
		out = append(out, ringPath(tg.Client, tg.Ring))
	}
	return out
}

type schedOutcome struct {
	res   *ksrig.SchedResult
	clean bool
}

// runScenario executes one scenario under one chooser and judges it.
func (w *schedWorld) runScenario(r *ev.Run, sc *scenario, ch ksrig.SchedChooser, workload string, detail map[string]interface{}) schedOutcome {
	mem := backend.NewInMemory()
	sched := ksrig.NewSched(mem)
	rec := newRecorder()
	n := len(sc.Progs)
	// set-up through its own handle, recorded as thread n
	if len(sc.Setup) > 0 {
		h, err := openHandle(mem, w.keys, rec, n)
		if err != nil {
			panic(err)
		}
		x := newThreadCtx(r, n, h, w.bundles, "mem")
		x.runProgram(sc.Setup)
		h.close()
	}
	ctxs := make([]*threadCtx, n)
	bodies := make([]func(), n)
	for i := 0; i < n; i++ {
		h, err := openHandle(sched.Handle(i), w.keys, rec, i)
		if err != nil {
			panic(err)
		}
		ctxs[i] = newThreadCtx(r, i, h, w.bundles, "mem")
		prog := sc.Progs[i]
		x := ctxs[i]
		bodies[i] = func() { x.runProgram(prog) }
	}
	res := sched.Run(ch, 60*time.Second, bodies...)
	out := schedOutcome{res: res, clean: true}
	r.Case()
	r.Count("sched_executions", 1)
	r.Count("sched_backend_calls_scheduled", int64(len(res.Trace)))
	full := func() map[string]interface{} {
		d := map[string]interface{}{"scenario": sc.Name, "setup": fmt.Sprint(sc.Setup), "programs": progStrings(sc.Progs),
			"interleaving": res.Compact(), "interleaving_threads": res.Threads()}
		for k, v := range detail {
			d[k] = v
		}
		var logs []string
		for _, x := range ctxs {
			logs = append(logs, x.log...)
		}
		d["action_results"] = logs
		return d
	}
	if res.Hung {
		r.Inconclusive(fmt.Sprintf("controlled schedule hung (watchdog): scenario=%s", sc.Name))
		return out
	}
	if res.Deadlock {
		out.clean = false
		r.Violation("v2 controlled schedule deadlocked: every live handle waits for the store lock: backend=mem", full())
		return out
	}
	for _, p := range res.Panics {
		out.clean = false
		r.Violation("v2 keystore operation panicked: "+errClass(firstLine(p))+": backend=mem", full())
	}
	for _, x := range ctxs {
		x.h.close()
		for _, f := range x.bad {
			out.clean = false
			d := full()
			for k, v := range f.Detail {
				d[k] = v
			}
			r.Violation(f.Sig, d)
		}
	}
	finals, err := finalStates(mem, w.keys, universeRings())
	if err != nil {
		panic(err)
	}
	if !checkHistory(r, rec.history(), finals, checkCtx{Backend: "mem", Workload: workload, Detail: full()}) {
		out.clean = false
	}
	// what was explored
	sig := res.Signature()
	if res.ContextSwitches() >= n {
		r.Distinct("interleaving:" + sig)
		r.Count("sched_executions_interleaved", 1)
	} else {
		r.SetAdd("serial_interleavings", sig)
	}
	r.SetAdd("interleaving_signatures_all", sig)
	return out
}

func firstLine(s string) string {
	for i := 0; i < len(s); i++ {
		if s[i] == '\n' {
			return s[:i]
		}
	}
	return s
}

// randomScenario draws programs: writers × wOps write actions, readers × rOps reads, on 1-2 rings.
func randomScenario(rng *gen.Rand, name string, writers, readers, minOps, maxOps int) *scenario {
	sc := &scenario{Name: name}
	nT := 1 + rng.Intn(2)
	perm := rng.Perm(len(universe))
	for i := 0; i < nT; i++ {
		sc.Targets = append(sc.Targets, universe[perm[i]])
	}
	// set-up: sometimes the rings already hold keys
	for _, tg := range sc.Targets {
		for k := rng.Intn(3); k > 0; k-- {
			sc.Setup = append(sc.Setup, action{Kind: map[string]string{"pair": "GenPair", "sym": "GenSym", "hmac": "GenHmac"}[tg.Ring], Client: tg.Client})
		}
	}
	fixBundle := func(a action) action {
		if a.Kind == "ImportNX" || a.Kind == "ImportOW" {
			a.Bundle = bundleIndex(sc.Targets[rng.Intn(len(sc.Targets))])
		}
		return a
	}
	for wi := 0; wi < writers; wi++ {
		var p []action
		for k := minOps + rng.Intn(maxOps-minOps+1); k > 0; k-- {
			p = append(p, fixBundle(genWrite(rng, sc.Targets, len(universe))))
		}
		sc.Progs = append(sc.Progs, p)
	}
	for ri := 0; ri < readers; ri++ {
		var p []action
		for k := minOps + rng.Intn(maxOps-minOps+1); k > 0; k-- {
			p = append(p, genRead(rng, sc.Targets))
		}
		sc.Progs = append(sc.Progs, p)
	}
	return sc
}

// randomSchedules runs count seeded (scenario, schedule) pairs on `workers` goroutines.
func (w *schedWorld) randomSchedules(r *ev.Run, tag string, count, writers, readers, minOps, maxOps, workers int) {
	var wg sync.WaitGroup
	jobs := make(chan int)
	for k := 0; k < workers; k++ {
		wg.Add(1)
		go func() {
			defer wg.Done()
			for i := range jobs {
				rng := gen.New(r.Seed, fmt.Sprintf("c17-%s-%d", tag, i))
				sc := randomScenario(rng, fmt.Sprintf("%s#%d", tag, i), writers, readers, minOps, maxOps)
				out := w.runScenario(r, sc, ksrig.SchedRandom{Rng: rng}, "sched-random", map[string]interface{}{"schedule_index": i, "seed": r.Seed})
				if i < 3 && out.clean {
					r.SampleN("sched-"+tag, 3, map[string]interface{}{"kind": "controlled schedule (" + tag + ")", "setup": fmt.Sprint(sc.Setup),
						"programs": progStrings(sc.Progs), "interleaving": out.res.Compact()})
				}
			}
		}()
	}
	for i := 0; i < count; i++ {
		jobs <- i
	}
	close(jobs)
	wg.Wait()
}

// directedScenarios are small scenarios enumerated exhaustively in BOTH tiers: they aim at windows the random
// schedules of the quick tier reach only rarely.
func directedScenarios() []*scenario {
	a := "alpha"
	return []*scenario{
		// a writer keeps a ring handle (view [1,2,3]) across an overwriting import by another handle, which then adds a key itself
		{Name: "dfs-stale-handle-add-after-overwriting-import", Setup: []action{{Kind: "GenSym", Client: a}, {Kind: "GenSym", Client: a}, {Kind: "GenSym", Client: a}},
			Progs: [][]action{
				{{Kind: "RingSetCur", Client: a, Ring: "sym", Pick: 1}, {Kind: "RingAdd", Client: a, Ring: "sym"}},
				{{Kind: "ImportOW", Bundle: bundleIndex(target{a, "sym"})}, {Kind: "RingAdd", Client: a, Ring: "sym"}},
				{{Kind: "ReadSymKeys", Client: a}},
			}},
	}
}

// dfsScenarios are the fixed 2 writers × 2 operations (+ 1 reader) scenarios enumerated exhaustively in the thorough tier.
func dfsScenarios() []*scenario {
	a, b := "alpha", "bravo"
	return []*scenario{
		{Name: "dfs-same-ring-ring-level-ops", Setup: []action{{Kind: "GenHmac", Client: a}},
			Progs: [][]action{
				{{Kind: "RingAdd", Client: a, Ring: "hmac"}, {Kind: "RingSetCur", Client: a, Ring: "hmac", Pick: 0}},
				{{Kind: "RingAdd", Client: a, Ring: "hmac"}, {Kind: "RingDestroy", Client: a, Ring: "hmac", Pick: 1}},
				{{Kind: "ReadRing", Client: a, Ring: "hmac"}, {Kind: "ReadHmac", Client: a}},
			}},
		{Name: "dfs-same-ring-rotate-and-destroy-via-server-keystore",
			Progs: [][]action{
				{{Kind: "GenSym", Client: a}, {Kind: "DestroyCurSym", Client: a}},
				{{Kind: "GenSym", Client: a}, {Kind: "DestroyCurSym", Client: a}},
				{{Kind: "ReadSymKeys", Client: a}},
			}},
		{Name: "dfs-import-into-absent-ring-vs-first-add",
			Progs: [][]action{
				{{Kind: "ImportNX", Bundle: bundleIndex(target{b, "sym"})}, {Kind: "RingAdd", Client: b, Ring: "sym"}},
				{{Kind: "RingAdd", Client: b, Ring: "sym"}, {Kind: "RingSetCur", Client: b, Ring: "sym", Pick: 0}},
				{{Kind: "ReadRing", Client: b, Ring: "sym"}, {Kind: "ReadSym", Client: b}},
			}},
		{Name: "dfs-different-rings", Setup: []action{{Kind: "GenSym", Client: b}},
			Progs: [][]action{
				{{Kind: "GenPair", Client: a}, {Kind: "RingSetState", Client: a, Ring: "pair", Pick: 0, State: int(api.KeyActive)}},
				{{Kind: "RingAdd", Client: b, Ring: "sym"}, {Kind: "RingSetCur", Client: b, Ring: "sym", Pick: 0}},
				{{Kind: "ReadPub", Client: a}, {Kind: "ReadSymKeys", Client: b}},
			}},
		{Name: "dfs-import-overwrite-vs-state-changes", Setup: []action{{Kind: "GenPair", Client: a}, {Kind: "GenPair", Client: a}},
			Progs: [][]action{
				{{Kind: "ImportOW", Bundle: bundleIndex(target{a, "pair"})}, {Kind: "RingSetState", Client: a, Ring: "pair", Pick: 0, State: int(api.KeyActive)}},
				{{Kind: "RingSetState", Client: a, Ring: "pair", Pick: 1, State: int(api.KeyActive)}, {Kind: "RingDestroy", Client: a, Ring: "pair", Pick: 1}},
				{{Kind: "ReadPrivKeys", Client: a}, {Kind: "ReadPriv", Client: a}},
			}},
	}
}

// exhaustive enumerates all interleavings of each DFS scenario (bounded by maxRuns per scenario; hitting the bound
// makes the enumeration non-exhaustive and is reported as such).
func (w *schedWorld) exhaustive(r *ev.Run, scs []*scenario, maxRuns int, workers int) {
	var wg sync.WaitGroup
	var mu sync.Mutex
	allExhaustive := true
	sem := make(chan struct{}, workers)
	for _, sc := range scs {
		wg.Add(1)
		sem <- struct{}{}
		go func(sc *scenario) {
			defer wg.Done()
			defer func() { <-sem }()
			d := &ksrig.SchedDFS{}
			runs, unclean := 0, 0
			complete := false
			for {
				out := w.runScenario(r, sc, d, "sched-dfs", map[string]interface{}{"dfs_run": runs})
				runs++
				if runs == 1 {
					r.SampleN("dfs", 5, map[string]interface{}{"kind": "exhaustive enumeration scenario", "name": sc.Name, "setup": fmt.Sprint(sc.Setup),
						"programs": progStrings(sc.Progs), "first_interleaving": out.res.Compact()})
				}
				if out.res.Hung || out.res.Deadlock {
					break
				}
				if !out.clean {
					// a broken tree multiplies the interleavings (calls interleave inside what used to be critical
					// sections); once a scenario has shown violations many times nothing new is learnt from going on
					unclean++
					if unclean >= 50 {
						break
					}
				}
				if !d.Next() {
					complete = true
					break
				}
				if runs >= maxRuns {
					break
				}
			}
			mu.Lock()
			if !complete || d.Diverged {
				allExhaustive = false
			}
			if (!complete || d.Diverged) && unclean == 0 {
				r.Inconclusive(fmt.Sprintf("enumeration of %s not exhaustive: runs=%d complete=%v diverged=%v", sc.Name, runs, complete, d.Diverged))
			}
			mu.Unlock()
			r.Extra("dfs_runs_"+sc.Name, runs)
			r.Count("dfs_scenarios_enumerated", 1)
		}(sc)
	}
	wg.Wait()
	if r.Thorough() {
		r.SetExhaustive(allExhaustive)
	}
}
