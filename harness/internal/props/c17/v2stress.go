package c17

// v2stress.go — free-running workloads: many goroutines with separate handles on one in-memory backend / one
// directory backend (flock), one handle shared by many reader goroutines, and several OS processes on one directory.

import (
	"encoding/hex"
	"encoding/json"
	"fmt"
	"os"
	"os/exec"
	"path/filepath"
	"strconv"
	"sync"
	"sync/atomic"
	"syscall"
	"time"
	"unsafe"

	"github.com/cossacklabs/acra/keystore/v2/keystore/filesystem/backend"
	backendAPI "github.com/cossacklabs/acra/keystore/v2/keystore/filesystem/backend/api"

	"verif/harness/internal/ev"
	"verif/harness/internal/gen"
	"verif/harness/internal/rig/ksrig"
)

// backendFactory opens one more handle-private backend object on the shared store.
type backendFactory func() (backendAPI.Backend, error)

func memFactory() backendFactory {
	mem := backend.NewInMemory()
	return func() (backendAPI.Backend, error) { return mem, nil }
}

func dirFactory(dir string) backendFactory {
	return func() (backendAPI.Backend, error) { return backend.CreateDirectoryBackend(dir) }
}

// stressPrograms draws one program per goroutine: mostly writes, some reads, on a few rings of the universe.
// With life, about a fifth of the actions are handle life-cycle events (CycleHandle: another handle opened and closed; Reopen:
// the goroutine's own handle closed and replaced), so that writers work on handles opened before and after Closes of other handles.
func stressPrograms(seed int64, tag string, goroutines, actions int, targets []target, life ...bool) [][]action {
	progs := make([][]action, goroutines)
	for g := 0; g < goroutines; g++ {
		rng := gen.New(seed, fmt.Sprintf("c17-stress-%s-%d", tag, g))
		for k := 0; k < actions; k++ {
			var a action
			if len(life) > 0 && life[0] && rng.Intn(5) == 0 {
				tg := targets[rng.Intn(len(targets))]
				a = action{Kind: []string{"CycleHandle", "Reopen"}[rng.Intn(2)], Client: tg.Client, Ring: tg.Ring, Pick: rng.Intn(2)}
				if g%2 == 0 && a.Kind == "Reopen" {
					a.Kind = "CycleHandle" // half of the goroutines keep the handle they started with (a long-running server)
				}
			} else if rng.Intn(10) < 7 {
				a = genWrite(rng, targets, len(universe))
				if a.Kind == "ImportNX" || a.Kind == "ImportOW" {
					a.Bundle = bundleIndex(targets[rng.Intn(len(targets))])
				}
			} else {
				a = genRead(rng, targets)
			}
			progs[g] = append(progs[g], a)
		}
	}
	return progs
}

// v2Stress runs goroutines, each with its OWN keystore handle, against one shared store. After every action all
// goroutines meet at a barrier (keeps the concurrency windows of the recorded history bounded; inside a round
// everything runs freely).
func v2Stress(r *ev.Run, kind string, factory backendFactory, goroutines, actions int, targets []target, life ...bool) {
	withLife := len(life) > 0 && life[0]
	workload, tag := "stress", kind
	if withLife {
		workload, tag = "stress-handle-life-cycle", kind+"-life"
	}
	keys := ksrig.NewV2Keys()
	var specs []action
	for _, tg := range universe {
		specs = append(specs, action{Client: tg.Client, Ring: tg.Ring})
	}
	bundles, err := makeBundles(keys, specs)
	if err != nil {
		panic(err)
	}
	rec := newRecorder()
	progs := stressPrograms(r.Seed, tag, goroutines, actions, targets, withLife)
	ctxs := make([]*threadCtx, goroutines)
	for g := 0; g < goroutines; g++ {
		b, err := factory()
		if err != nil {
			panic(fmt.Sprintf("c17 stress: cannot open backend: %v", err))
		}
		h, err := openHandle(b, keys, rec, g)
		if err != nil {
			panic(err)
		}
		ctxs[g] = newThreadCtx(r, g, h, bundles, kind)
		if withLife {
			g := g
			ctxs[g].owns = true
			ctxs[g].open = func() (*handle, error) {
				b, err := factory()
				if err != nil {
					return nil, err
				}
				return openHandle(b, keys, rec, g)
			}
		}
	}
	var wg sync.WaitGroup
	bar := newBarrier(goroutines)
	for g := 0; g < goroutines; g++ {
		wg.Add(1)
		go func(g int) {
			defer wg.Done()
			for _, a := range progs[g] {
				bar.wait()
				ctxs[g].runProgram([]action{a})
			}
		}(g)
	}
	if !waitTimeout(&wg, 4*time.Minute) {
		r.Inconclusive("free-running stress did not finish (watchdog): backend=" + kind)
		return
	}
	r.Cases(goroutines * actions)
	r.Count("stress_actions_"+tag, int64(goroutines*actions))
	detail := map[string]interface{}{"goroutines": goroutines, "actions_each": actions, "seed": r.Seed, "programs": progStrings(progs)}
	for _, x := range ctxs {
		for _, f := range x.bad {
			d := map[string]interface{}{"context": detail}
			for k, v := range f.Detail {
				d[k] = v
			}
			r.Violation(f.Sig, d)
		}
	}
	fb, err := factory()
	if err != nil {
		panic(err)
	}
	finals, err := finalStates(fb, keys, universeRings())
	if err != nil {
		panic(err)
	}
	hist := rec.history()
	if checkHistory(r, hist, finals, checkCtx{Backend: kind, Workload: workload, Detail: detail, Timeout: 30 * time.Second}) {
		r.Distinct(fmt.Sprintf("stress:%s:%d-goroutines", tag, goroutines))
		if len(hist) > 12 {
			r.SampleN("stress-"+kind, 1, map[string]interface{}{"kind": "free-running stress history (" + kind + ", first 12 operations)", "ops": renderOps(hist[:12])})
		}
	}
	for _, x := range ctxs {
		x.h.close()
	}
}

type barrier struct {
	mu    sync.Mutex
	cond  *sync.Cond
	n     int
	count int
	gen   int
}

func newBarrier(n int) *barrier {
	b := &barrier{n: n}
	b.cond = sync.NewCond(&b.mu)
	return b
}

func (b *barrier) wait() {
	b.mu.Lock()
	g := b.gen
	b.count++
	if b.count == b.n {
		b.count = 0
		b.gen++
		b.cond.Broadcast()
	} else {
		for g == b.gen {
			b.cond.Wait()
		}
	}
	b.mu.Unlock()
}

func waitTimeout(wg *sync.WaitGroup, d time.Duration) bool {
	done := make(chan struct{})
	go func() { wg.Wait(); close(done) }()
	select {
	case <-done:
		return true
	case <-time.After(d):
		return false
	}
}

// v2SharedHandle: ONE keystore handle used by many goroutines for reads, the way AcraServer's connection handlers
// share the server keystore; a writer with a separate handle rotates keys meanwhile. No reader may fail, panic or
// see key material that differs from the ring it opened (regression for the shared-HMAC-state defect df33965).
func v2SharedHandle(r *ev.Run, kind string, factory backendFactory, goroutines, reads int) {
	keys := ksrig.NewV2Keys()
	rec := newRecorder()
	clients := []string{"alpha", "bravo", "charlie"}
	b0, err := factory()
	if err != nil {
		panic(err)
	}
	wh, err := openHandle(b0, keys, rec, goroutines) // the writer's own handle
	if err != nil {
		panic(err)
	}
	wx := newThreadCtx(r, goroutines, wh, nil, kind)
	var setup []action
	for _, c := range clients {
		setup = append(setup, action{Kind: "GenPair", Client: c}, action{Kind: "GenSym", Client: c}, action{Kind: "GenHmac", Client: c}, action{Kind: "GenSym", Client: c})
	}
	wx.runProgram(setup)
	b1, err := factory()
	if err != nil {
		panic(err)
	}
	shared, err := openHandle(b1, keys, rec, 0)
	if err != nil {
		panic(err)
	}
	var targets []target
	for _, c := range clients {
		for _, k := range ringKinds {
			targets = append(targets, target{c, k})
		}
	}
	ctxs := make([]*threadCtx, goroutines)
	var wg sync.WaitGroup
	start := make(chan struct{})
	for g := 0; g < goroutines; g++ {
		ctxs[g] = newThreadCtx(r, g, shared.forThread(g), nil, kind)
		wg.Add(1)
		go func(g int) {
			defer wg.Done()
			rng := gen.New(r.Seed, fmt.Sprintf("c17-shared-%s-%d", kind, g))
			var prog []action
			for k := 0; k < reads; k++ {
				prog = append(prog, genRead(rng, targets))
			}
			<-start
			ctxs[g].runProgram(prog)
		}(g)
	}
	wg.Add(1)
	go func() {
		defer wg.Done()
		rng := gen.New(r.Seed, "c17-shared-writer-"+kind)
		var prog []action
		for k := 0; k < reads/4+2; k++ {
			c := clients[rng.Intn(len(clients))]
			prog = append(prog, action{Kind: []string{"GenPair", "GenSym", "GenHmac"}[rng.Intn(3)], Client: c})
		}
		<-start
		wx.runProgram(prog)
	}()
	close(start)
	if !waitTimeout(&wg, 4*time.Minute) {
		r.Inconclusive("shared-handle readers did not finish (watchdog): backend=" + kind)
		return
	}
	r.Cases(goroutines * reads)
	r.Count("shared_handle_reads_"+kind, int64(goroutines*reads))
	detail := map[string]interface{}{"goroutines": goroutines, "reads_each": reads, "seed": r.Seed}
	bad := 0
	for _, x := range append(ctxs, wx) {
		for _, f := range x.bad {
			bad++
			d := map[string]interface{}{"context": detail}
			for k, v := range f.Detail {
				d[k] = v
			}
			r.Violation("shared handle: "+f.Sig, d)
		}
	}
	fb, err := factory()
	if err != nil {
		panic(err)
	}
	var rings []string
	for _, tg := range targets {
		rings = append(rings, ringPath(tg.Client, tg.Ring))
	}
	finals, err := finalStates(fb, keys, rings)
	if err != nil {
		panic(err)
	}
	if checkHistory(r, rec.history(), finals, checkCtx{Backend: kind, Workload: "shared-handle", Detail: detail, Timeout: 30 * time.Second}) && bad == 0 {
		r.Distinct(fmt.Sprintf("shared-handle:%s:%d-goroutines", kind, goroutines))
	}
	shared.close()
	wh.close()
}

// --- several OS processes on one directory keystore ---

// mmapClock is the logical clock shared by the processes: 8-byte words in a file mapped MAP_SHARED.
// word 0 = clock, word 1 = ready count, word 2 = go flag.
type mmapClock struct{ mem []byte }

func openMmapClock(path string) (*mmapClock, error) {
	f, err := os.OpenFile(path, os.O_RDWR|os.O_CREATE, 0o600)
	if err != nil {
		return nil, err
	}
	defer f.Close()
	if err := f.Truncate(4096); err != nil {
		return nil, err
	}
	mem, err := syscall.Mmap(int(f.Fd()), 0, 4096, syscall.PROT_READ|syscall.PROT_WRITE, syscall.MAP_SHARED)
	if err != nil {
		return nil, err
	}
	return &mmapClock{mem: mem}, nil
}

func (c *mmapClock) word(i int) *int64 { return (*int64)(unsafe.Pointer(&c.mem[i*8])) }
func (c *mmapClock) tick() int64       { return atomic.AddInt64(c.word(0), 1) }

type childOutput struct {
	Ops      []*opRec        `json:"ops"`
	Findings []readerFinding `json:"findings"`
	Log      []string        `json:"log"`
}

// childMain: mon C17 child mp <dir> <enc-hex> <sig-hex> <clockfile> <outfile> <proc> <seed> <goroutines> <actions>
func childMain(args []string) int {
	if len(args) != 10 || args[0] != "mp" {
		fmt.Fprintln(os.Stderr, "c17 child: bad arguments")
		return 2
	}
	dir, clockFile, outFile := args[1], args[4], args[5]
	enc, _ := hex.DecodeString(args[2])
	sig, _ := hex.DecodeString(args[3])
	proc, _ := strconv.Atoi(args[6])
	seed, _ := strconv.ParseInt(args[7], 10, 64)
	goroutines, _ := strconv.Atoi(args[8])
	actions, _ := strconv.Atoi(args[9])
	keys := ksrig.V2Keys{Enc: enc, Sig: sig}
	clk, err := openMmapClock(clockFile)
	if err != nil {
		fmt.Fprintln(os.Stderr, "c17 child: clock:", err)
		return 2
	}
	var specs []action
	for _, tg := range universe {
		specs = append(specs, action{Client: tg.Client, Ring: tg.Ring})
	}
	bundles, err := makeBundles(keys, specs)
	if err != nil {
		fmt.Fprintln(os.Stderr, "c17 child: bundles:", err)
		return 2
	}
	rec := &recorder{clk: clk}
	quiet := ev.New("C17-child", "exploration") // counters only; never finished, nothing is written
	targets := mpTargets()
	progs := stressPrograms(seed, fmt.Sprintf("mp-%d", proc), goroutines, actions, targets)
	ctxs := make([]*threadCtx, goroutines)
	for g := 0; g < goroutines; g++ {
		b, err := backend.CreateDirectoryBackend(dir)
		if err != nil {
			fmt.Fprintln(os.Stderr, "c17 child: backend:", err)
			return 2
		}
		h, err := openHandle(b, keys, rec, proc*100+g)
		if err != nil {
			fmt.Fprintln(os.Stderr, "c17 child: handle:", err)
			return 2
		}
		ctxs[g] = newThreadCtx(quiet, proc*100+g, h, bundles, "dir-multiproc")
	}
	// start together with the other processes
	atomic.AddInt64(clk.word(1), 1)
	deadline := time.Now().Add(60 * time.Second)
	for atomic.LoadInt64(clk.word(2)) == 0 {
		if time.Now().After(deadline) {
			fmt.Fprintln(os.Stderr, "c17 child: never released")
			return 2
		}
		time.Sleep(time.Millisecond)
	}
	var wg sync.WaitGroup
	for g := 0; g < goroutines; g++ {
		wg.Add(1)
		go func(g int) {
			defer wg.Done()
			ctxs[g].runProgram(progs[g])
		}(g)
	}
	wg.Wait()
	out := childOutput{Ops: rec.history()}
	for _, x := range ctxs {
		out.Findings = append(out.Findings, x.bad...)
		out.Log = append(out.Log, x.log...)
		x.h.close()
	}
	b, _ := json.Marshal(out)
	if err := os.WriteFile(outFile, b, 0o600); err != nil {
		fmt.Fprintln(os.Stderr, "c17 child: write:", err)
		return 2
	}
	return 0
}

func mpTargets() []target {
	return []target{{"alpha", "sym"}, {"alpha", "pair"}, {"bravo", "hmac"}}
}

// v2MultiProcess starts `procs` copies of the monitor binary hammering one directory keystore.
func v2MultiProcess(r *ev.Run, procs, goroutines, actions int) {
	bin := os.Getenv("VERIF_MON_BIN")
	if bin == "" {
		var err error
		if bin, err = os.Executable(); err != nil {
			r.Inconclusive("multi-process stress: monitor binary unknown")
			return
		}
	}
	dir := ksrig.ScratchDir("c17-mp-store")
	work := ksrig.ScratchDir("c17-mp-work")
	keys := ksrig.NewV2Keys()
	// create the store once so that the children only open it
	b, err := backend.CreateDirectoryBackend(dir)
	if err != nil {
		panic(err)
	}
	b.Close()
	clockFile := filepath.Join(work, "clock")
	clk, err := openMmapClock(clockFile)
	if err != nil {
		r.Inconclusive("multi-process stress: cannot map the shared clock: " + err.Error())
		return
	}
	cmds := make([]*exec.Cmd, procs)
	outs := make([]string, procs)
	for p := 0; p < procs; p++ {
		outs[p] = filepath.Join(work, fmt.Sprintf("out-%d.json", p))
		cmds[p] = exec.Command(bin, "C17", "child", "mp", dir, hex.EncodeToString(keys.Enc), hex.EncodeToString(keys.Sig), clockFile, outs[p],
			strconv.Itoa(p), strconv.FormatInt(r.Seed, 10), strconv.Itoa(goroutines), strconv.Itoa(actions))
		cmds[p].Stderr = os.Stderr
		if err := cmds[p].Start(); err != nil {
			r.Inconclusive("multi-process stress: cannot start child: " + err.Error())
			return
		}
	}
	deadline := time.Now().Add(60 * time.Second)
	for atomic.LoadInt64(clk.word(1)) < int64(procs) && time.Now().Before(deadline) {
		time.Sleep(time.Millisecond)
	}
	atomic.StoreInt64(clk.word(2), 1)
	failed := false
	for p, c := range cmds {
		done := make(chan error, 1)
		go func() { done <- c.Wait() }()
		select {
		case err := <-done:
			if err != nil {
				failed = true
				r.Violation("v2 multi-process: child process died: backend=dir-multiproc", map[string]interface{}{"proc": p, "error": err.Error()})
			}
		case <-time.After(4 * time.Minute):
			c.Process.Kill()
			failed = true
			r.Inconclusive(fmt.Sprintf("multi-process stress: child %d did not finish (watchdog)", p))
		}
	}
	if failed {
		return
	}
	var hist []*opRec
	for p := range cmds {
		raw, err := os.ReadFile(outs[p])
		if err != nil {
			r.Inconclusive("multi-process stress: child output missing")
			return
		}
		var co childOutput
		if err := json.Unmarshal(raw, &co); err != nil {
			r.Inconclusive("multi-process stress: child output unreadable")
			return
		}
		hist = append(hist, co.Ops...)
		for _, f := range co.Findings {
			r.Violation(f.Sig, f.Detail)
		}
	}
	r.Cases(procs * goroutines * actions)
	r.Count("multiprocess_actions", int64(procs*goroutines*actions))
	r.Count("multiprocess_processes", int64(procs))
	fb, err := backend.CreateDirectoryBackend(dir)
	if err != nil {
		panic(err)
	}
	finals, err := finalStates(fb, keys, universeRings())
	if err != nil {
		panic(err)
	}
	sortOps(hist)
	detail := map[string]interface{}{"processes": procs, "goroutines_each": goroutines, "actions_each": actions, "seed": r.Seed}
	if checkHistory(r, hist, finals, checkCtx{Backend: "dir-multiproc", Workload: "multiproc", Detail: detail, Timeout: 30 * time.Second}) {
		r.Distinct(fmt.Sprintf("multiproc:%d-processes", procs))
		if len(hist) > 10 {
			r.SampleN("multiproc", 1, map[string]interface{}{"kind": "multi-process history (first 10 operations; thread = process*100+goroutine)", "ops": renderOps(hist[:10])})
		}
	}
}
