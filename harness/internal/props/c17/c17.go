// Package c17 monitors "concurrent keystore writers never lose each other's updates".
package c17

import (
	"fmt"
	"os"
	"strings"
	"time"

	"github.com/cossacklabs/acra/keystore"

	"verif/harness/internal/ev"
	"verif/harness/internal/props"
	"verif/harness/internal/rig/ksrig"
)

func init() { props.Register("C17", props.Monitor{Level: "exploration", Run: Run, Child: Child}) }

// Child handles "mon C17 child ..." re-executions (the processes of the multi-process workload).
func Child(args []string) int { return childMain(args) }

// Run is the monitor.
func Run(r *ev.Run) {
	r.Rule = "cases = (a) controlled executions: several v2 keystore handles over ONE in-memory backend, every backend call (Lock/RLock/Get/Put/Rename/Unlock...) of a thread is a scheduling point and a scheduler that models the store lock picks the next call — seeded random programs and schedules (quick: 300 × (2 writers + 1 reader) × 3-4 operations; thorough: + 20000 × (3 writers + 1 reader)) and, thorough only, exhaustive depth-first enumeration of all interleavings of five fixed 2-writers × 2-operations (+1 reader) scenarios; " +
		"(a') controlled executions over the REAL lock of the directory back end (flock + in-process mutex, nothing modelled): 1-2 reader and 1-2 ring-level writer goroutines SHARING one keystore handle plus a writer on a second handle of the same directory, every back-end call a scheduling point, a granted lock call that stays inside the call is a waiting thread — seeded random schedules (quick 30, thorough 200), three directed schedules per scenario (reader inside while the writer of the same handle performs the first 1/2/3 calls of its write cycle, then the other handle's writer), thorough: depth-first enumeration (capped) of one scenario; " +
		"(a'') stale-view schedules at operation granularity, one goroutine executing the operations of three ring handles A, B, C on real keystore handles over a shared in-memory back end and over one directory (a DirectoryBackend with its flock per handle): B (and a bystander C) opens the ring — two keys, the key under test in each of the five live states — A updates (each valid state change of that key, its destruction, the current marker, a new key, the other key, an overwriting import; in some orders two updates), B updates on its stale view with each locally valid update (the several-transaction DestroyKey on the key A touched always; a seeded sample of the other combinations in the quick tier; orders: stale by one update, by two, opened between A's updates, control), B updates again; after EVERY operation the complete view (state, validity, formats, public/private/symmetric key bytes or the exact error class, current marker) is read through every open ring handle — first through the one that has just operated or been refused — and through a fresh reader; in ALL workloads every ring-level update, acknowledged or refused, is followed at once by such a complete read through its ring handle; " +
		"(b) free-running -race stress: 6 readers + 2 writers sharing one handle with 2 writers sharing a second handle (in-memory and directory),  8-32 goroutines with separate handles on one in-memory backend and on one directory backend (flock), 3 OS processes × 2 goroutines on one directory, one handle shared by 8-32 reader goroutines while another handle rotates keys; (c) v1: one filesystem keystore handle shared by 8-32 goroutines calling 12 read-only getters over 4-6 clients with cache sizes {1,2,unbounded,off}. " +
		"(r) Redis back ends on an in-process stand-in server (rig/fakeredis), every handle with its OWN connection pool as separate processes have: v2 over backend.RedisBackend with one RootDir — controlled executions at back-end-call granularity parked through ksrig.Sched with the REAL lock key (a lock attempt that finds the key is answered at once instead of spinning and the thread waits until the key is deleted or expires): seeded random 2 writers + 1 reader × 3-4 operations (quick 60, thorough 600), every fifth with one lock SET applied but its connection dropped (then, with every handle waiting, the virtual clock passes the TTL), and directed lock-expiry schedules (quick 12, thorough 48: a writer paused 0-3 calls into its write cycle while the clock advances 11 s, a second writer commits, in a quarter a third one enters after the first one's Unlock removed the second one's key) whose findings carry the prefix 'redis lock-expired: '; free-running -race stress of 6-12 goroutines with own handles, plain and with one leaked lock key (a watchdog advances the virtual clock only there); v1 over filesystem.RedisStorage: 4 handles (cache 1/2/unbounded/off) × 3-6 reader goroutines against sequential reference values while 2 further handles generate and rotate keys of fresh clients, which a fresh handle must afterwards return exactly, newest first. " +
		"Every v2 history is recorded at the API boundary with one logical clock and judged per key ring by porcupine against the sequential key-ring model plus the final-state oracle; every v1 result is compared with the value read sequentially beforehand. " +
		"A refused update must leave no trace: the view through the refused handle is its previous view or the ring as the store holds it at a point inside the call (part of the linearizability check), and a view read again without an operation of its handle has not changed. " +
		"evaluations = controlled executions + stale-view executions + stress actions + v1 getter calls. distinct_nontrivial = distinct interleaving signatures (sequence of (thread, backend op)) of controlled executions in which the threads really interleaved (at least as many context switches as threads), plus one class per (back end, ring kind, state of the key, A's update, B's update, order, outcome of B's update) of a clean stale-view execution, per clean stress configuration and per (v1 getter, cache size) that returned a verified-correct key"
	r.Assumptions = []string{
		"crypto library replaced by the pure-Go gothemis stand-in (Secure Cell Seal / EC keys contract)",
		"fully controlled (modelled-lock) schedules cover the in-memory backend only; the directory backend is driven under schedules controlled at back-end call granularity as far as its real lock is deterministic (a thread inside a granted lock call for 6 ms counts as waiting; wall clock is used for that only, never by an oracle) and by free-running stress; several processes by free-running stress",
		"Redis: the server is the in-process stand-in rig/fakeredis (atomic, totally ordered commands; key expiry on a virtual clock), everything above the TCP connection is Acra's code and go-redis v7; in controlled Redis schedules a `SET .. NX` on the lock key that would find the key is answered with an error by the stand-in's hook so that RedisBackend.Lock returns instead of busy-waiting up to 10 s of wall clock — the retry loop is the harness's, the decision (key present or not) is the server's; a lost update after the lock key EXPIRED under a paused holder is judged a violation (a process paused for more than 10 s is a schedule) and reported under 'redis lock-expired: ', everything without clock advancement under a held lock is judged strictly; v1 over Redis: concurrent rotation of the SAME key through two handles is not driven (v1 has no lock on any storage)",
		"interleavings are explored at backend-call granularity with one thread running at a time (sequentially consistent executions); weak-memory effects are left to the race detector in the free-running workloads",
		"imports are driven with one-ring containers; an import is modelled as composite (make the ring exist, then replace its content), an overwrite-policy import may replace anything, an abort-if-exists import must find the ring still pristine when it writes",
		"v1 reference values are read through a cache-less handle before the concurrent phase; no writer runs during the v1 phase (the property's v1 clause is about read-only connection traffic)",
	}
	th := r.Thorough()
	w := newSchedWorld()
	phases := map[string]float64{}
	only := os.Getenv("VERIF_C17_PHASES") // development aid: run only the phases whose name contains this (the non-vacuity guards then fail the run)
	phase := func(name string, f func()) {
		if only != "" && !strings.Contains(name, only) {
			return
		}
		t0 := time.Now()
		f()
		phases[name] = time.Since(t0).Seconds() // reporting only
		if os.Getenv("VERIF_PROGRESS") != "" {
			fmt.Fprintf(os.Stderr, "c17: %s done in %.1fs\n", name, phases[name])
		}
	}

	// (a) controlled schedules
	phase("controlled random 2w1r", func() { w.randomSchedules(r, "2w1r", 300, 2, 1, 3, 4, 4) })
	scs := directedScenarios()
	if th {
		scs = append(scs, dfsScenarios()...)
	}
	phase("controlled exhaustive", func() { w.exhaustive(r, scs, r.Pick(4000, 60000), 6) })
	if th {
		phase("controlled random 3w1r", func() { w.randomSchedules(r, "3w1r", 20000, 3, 1, 3, 3, 6) })
	}

	// (a') controlled schedules over the REAL lock of the directory back end: goroutines sharing one handle + a writer on a second handle
	phase("controlled dir shared handle", func() { w.dirSchedules(r, r.Pick(30, 200)) })
	phase("controlled dir handle life cycle", func() { w.dirLifecycleSchedules(r, r.Pick(12, 90)) })
	if th {
		phase("controlled dir exhaustive", func() { w.dirExhaustive(r, 800) })
	}

	// (a'') stale-view schedules at operation granularity with complete views through every handle after every operation
	phase("stale views mem", func() { w.staleViews(r, "mem", staleMemStore, r.Pick(50, -1), 1) })
	phase("stale views dir", func() { w.staleViews(r, "dir", staleDirStore, r.Pick(20, 250), r.Pick(0, 1)) })

	// (b) free-running stress
	g := r.Pick(8, 32)
	hot := []target{{"alpha", "sym"}, {"alpha", "pair"}, {"bravo", "hmac"}}
	phase("stress mem", func() { v2Stress(r, "mem", memFactory(), g, r.Pick(10, 12), hot) })
	phase("stress dir", func() { v2Stress(r, "dir", dirFactory(ksrig.ScratchDir("c17-dir")), r.Pick(8, 16), 8, hot) })
	phase("stress dir handle life cycle", func() {
		v2Stress(r, "dir", dirFactory(ksrig.ScratchDir("c17-dir-life")), r.Pick(8, 16), r.Pick(10, 14), hot, true)
	})
	phase("multi-process", func() { v2MultiProcess(r, 3, 2, r.Pick(12, 30)) })
	phase("shared handle mem", func() { v2SharedHandle(r, "mem", memFactory(), g, r.Pick(40, 80)) })
	phase("shared handle dir", func() {
		v2SharedHandle(r, "dir", dirFactory(ksrig.ScratchDir("c17-shared")), r.Pick(8, 16), r.Pick(20, 40))
	})

	phase("shared handle with writers mem", func() { v2SharedHandleWriters(r, "mem", memFactory(), 6, 2, 2, r.Pick(15, 30)) })
	phase("shared handle with writers dir", func() {
		v2SharedHandleWriters(r, "dir", dirFactory(ksrig.ScratchDir("c17-shared-w")), 6, 2, 2, r.Pick(15, 30))
	})

	// (r) Redis layer: one RedisBackend (own connection pool) per handle on one fakeredis server
	phase("redis controlled random", func() { w.redisSchedules(r, r.Pick(60, 600), 4) })
	phase("redis lock expiry", func() { w.redisLockExpiry(r, r.Pick(12, 48)) })
	phase("redis stress", func() { redisStress(r, r.Pick(8, 16), r.Pick(10, 12), hot, false) })
	phase("redis stress leaked lock", func() { redisStress(r, r.Pick(6, 8), r.Pick(6, 10), hot, true) })
	phase("redis v1 handles", func() { redisV1(r, r.Pick(3, 5), r.Pick(3, 6), r.Pick(60, 150), 2, r.Pick(4, 8)) })

	// (c) v1 readers
	phase("v1 readers", func() {
		vw := newV1World(r, r.Pick(4, 6))
		for _, size := range []int{1, 2, keystore.InfiniteCacheSize, keystore.WithoutCache} {
			vw.stress(r, size, g, r.Pick(150, 300))
		}
	})
	r.Extra("phase_seconds", phases)

	// non-vacuity: the workloads must really have produced contention, successful operations of every kind and verified reads
	for _, c := range []string{"sched_executions_interleaved", "v2_ok_AddKey", "v2_ok_SetCurrent", "v2_ok_DestroyKey", "v2_ok_SetState", "v2_ok_ImportOW", "v2_ok_ImportNX",
		"v2_ok_Read", "v2_ok_OpenRW", "v2_failed_AddKey", "v2_failed_SetCurrent", "v2_reader_results_consistent", "v2_final_states_checked",
		"v2_successful_addkeys_traced_to_final_state", "v2_ring_histories_linearizable", "stress_actions_mem", "stress_actions_dir", "multiprocess_actions",
		"shared_handle_reads_mem", "shared_handle_reads_dir", "shared_handle_writers_actions_mem", "shared_handle_writers_actions_dir",
		"dirsched_lifecycle_executions", "v2_handles_opened_and_closed", "v2_handles_reopened", "stress_actions_dir-life",
		"stale_view_executions_mem", "stale_view_executions_dir", "stale_view_core_executions", "v2_handle_views_checked", "v2_views_through_refused_handle",
		"v2_refused_updates_view_unchanged", "v2_refused_updates_view_advanced_to_store", "v2_refused_multi_transaction_updates", "v2_view_actions_right_after_refusal",
		"dirsched_executions", "dirsched_directed_executions", "dirsched_executions_interleaved", "dirsched_lock_calls_seen_waiting", "v1_getter_results_correct", "v1_held_keys_still_intact"} {
		r.RequireAtLeast(c, 1)
	}
	// Redis layer
	for _, c := range []string{"redis_sched_executions", "redis_sched_executions_interleaved", "redis_sched_lock_attempts_found_key", "redis_sched_executions_with_lock_expiry",
		"redis_sched_lock_sets_dropped_after_apply", "redis_sched_clock_advances_all_waiting", "redis_stress_actions", "redis_leak_stress_actions",
		"redis_lock_sets_dropped_after_apply", "redis_lock_attempts_behind_leaked_key", "redis_watchdog_clock_advances", "v2_failed_by_injected_lock_fault",
		"redis_v1_getter_results_correct", "redis_v1_held_keys_still_intact", "redis_v1_generated_clients_reflected_exactly"} {
		r.RequireAtLeast(c, 1)
	}
	r.RequireSetAtLeast("redis_v1_getter_x_cache", 40)
	r.RequireSetAtLeast("v1_getter_x_cache", 40)
	r.RequireSetAtLeast("v2_views_after_refused", 3) // complete views right after a refused DestroyKey, SetState, SetCurrent (and AddKey)
	r.RequireSetAtLeast("stale_view_outcomes", 4)    // B's stale update acknowledged / refused on its own view / refused after the pull, per ring kind
	r.Extra("distinct_interleavings_all", r.SetSize("interleaving_signatures_all"))

	r.CollectRaces("github.com/cossacklabs/acra")
}
