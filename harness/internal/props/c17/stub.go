// Package c17 will hold the monitor of property C17 (not built yet; nothing is registered).
package c17
