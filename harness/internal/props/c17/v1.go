package c17

// v1.go — "Concurrent use of one v1 keystore handle by many connections always returns complete, correct keys."
// One filesystem keystore handle, 8-32 goroutines issuing the read-only calls connection handlers make, over several
// clients, with cache sizes {1, 2, unbounded, off}. Every returned key must equal the key generated for that
// (client, kind): reference values are read beforehand, sequentially, through a cache-less handle.

import (
	"bytes"
	"fmt"
	"runtime/debug"
	"strings"
	"sync"
	"time"

	"github.com/cossacklabs/acra/keystore"
	"github.com/cossacklabs/acra/keystore/filesystem"

	"verif/harness/internal/ev"
	"verif/harness/internal/gen"
	"verif/harness/internal/rig/ksrig"
)

// v1Getter is one read-only call; it returns the key material as a list of byte strings (references to what the
// keystore returned, not copies — the caller holds them like a connection handler would).
type v1Getter struct {
	Name      string
	PerClient bool
	Call      func(ks *filesystem.KeyStore, id []byte) ([][]byte, error)
}

func v1Getters() []v1Getter {
	one := func(b []byte, err error) ([][]byte, error) {
		if err != nil {
			return nil, err
		}
		return [][]byte{b}, nil
	}
	return []v1Getter{
		{"GetHMACSecretKey", true, func(ks *filesystem.KeyStore, id []byte) ([][]byte, error) { return one(ks.GetHMACSecretKey(id)) }},
		{"GetClientIDEncryptionPublicKey", true, func(ks *filesystem.KeyStore, id []byte) ([][]byte, error) {
			k, err := ks.GetClientIDEncryptionPublicKey(id)
			if err != nil {
				return nil, err
			}
			return [][]byte{k.Value}, nil
		}},
		{"GetServerDecryptionPrivateKey", true, func(ks *filesystem.KeyStore, id []byte) ([][]byte, error) {
			k, err := ks.GetServerDecryptionPrivateKey(id)
			if err != nil {
				return nil, err
			}
			return [][]byte{k.Value}, nil
		}},
		{"GetServerDecryptionPrivateKeys", true, func(ks *filesystem.KeyStore, id []byte) ([][]byte, error) {
			ks2, err := ks.GetServerDecryptionPrivateKeys(id)
			if err != nil {
				return nil, err
			}
			out := make([][]byte, len(ks2))
			for i, k := range ks2 {
				out[i] = k.Value
			}
			return out, nil
		}},
		{"GetClientIDSymmetricKeys", true, func(ks *filesystem.KeyStore, id []byte) ([][]byte, error) { return ks.GetClientIDSymmetricKeys(id) }},
		{"GetClientIDSymmetricKey", true, func(ks *filesystem.KeyStore, id []byte) ([][]byte, error) { return one(ks.GetClientIDSymmetricKey(id)) }},
		{"GetPeerPublicKey", true, func(ks *filesystem.KeyStore, id []byte) ([][]byte, error) {
			k, err := ks.GetPeerPublicKey(id)
			if err != nil {
				return nil, err
			}
			return [][]byte{k.Value}, nil
		}},
		{"GetPrivateKey", true, func(ks *filesystem.KeyStore, id []byte) ([][]byte, error) {
			k, err := ks.GetPrivateKey(id)
			if err != nil {
				return nil, err
			}
			return [][]byte{k.Value}, nil
		}},
		{"GetPoisonKeyPair", false, func(ks *filesystem.KeyStore, _ []byte) ([][]byte, error) {
			kp, err := ks.GetPoisonKeyPair()
			if err != nil {
				return nil, err
			}
			return [][]byte{kp.Public.Value, kp.Private.Value}, nil
		}},
		{"GetPoisonPrivateKeys", false, func(ks *filesystem.KeyStore, _ []byte) ([][]byte, error) {
			ks2, err := ks.GetPoisonPrivateKeys()
			if err != nil {
				return nil, err
			}
			out := make([][]byte, len(ks2))
			for i, k := range ks2 {
				out[i] = k.Value
			}
			return out, nil
		}},
		{"GetPoisonSymmetricKeys", false, func(ks *filesystem.KeyStore, _ []byte) ([][]byte, error) { return ks.GetPoisonSymmetricKeys() }},
		{"GetPoisonSymmetricKey", false, func(ks *filesystem.KeyStore, _ []byte) ([][]byte, error) { return one(ks.GetPoisonSymmetricKey()) }},
	}
}

func cacheClass(size int) string {
	switch size {
	case keystore.WithoutCache:
		return "off"
	case keystore.InfiniteCacheSize:
		return "unbounded"
	}
	return fmt.Sprint(size)
}

func copyAll(v [][]byte) [][]byte {
	out := make([][]byte, len(v))
	for i, b := range v {
		out[i] = append([]byte(nil), b...)
	}
	return out
}

// classify says how got differs from want (for the signature): which kind of wrong key was returned.
func classifyWrong(got, want [][]byte, others map[string][][]byte) string {
	if len(got) != len(want) {
		return "wrong number of keys"
	}
	for i := range got {
		if bytes.Equal(got[i], want[i]) {
			continue
		}
		if len(got[i]) == len(want[i]) && len(got[i]) > 0 && bytes.Equal(got[i], make([]byte, len(got[i]))) {
			return "zeroed key"
		}
		if len(got[i]) < len(want[i]) && bytes.HasPrefix(want[i], got[i]) {
			return "truncated key"
		}
		for _, o := range others {
			for _, ob := range o {
				if bytes.Equal(got[i], ob) {
					return "key of another client or kind"
				}
			}
		}
		if len(got[i]) == len(want[i]) {
			// partly zeroed: every byte that differs from the expected key is a zero byte (the eviction callback was
			// wiping the slice while it was being copied)
			onlyZeroed := true
			for j, c := range got[i] {
				if c != want[i][j] && c != 0 {
					onlyZeroed = false
					break
				}
			}
			if onlyZeroed {
				return "partly zeroed key"
			}
		}
		return "different key material"
	}
	return "equal"
}

type v1World struct {
	dir     string
	master  []byte
	clients [][]byte
	ref     map[string][][]byte // getter|client -> expected values
	// Redis layer (redisv1.go): how a handle is opened (default: ksrig.V1 on dir), signature prefix, counter/class tag
	open   func(cacheSize int) (*filesystem.KeyStore, error)
	prefix string
	tag    string
}

func (w *v1World) openHandle(cacheSize int) (*filesystem.KeyStore, error) {
	if w.open != nil {
		return w.open(cacheSize)
	}
	return ksrig.V1(w.dir, w.master, cacheSize)
}

// newV1World generates the keys (through a cache-less handle) and reads the reference values twice.
func newV1World(r *ev.Run, nClients int) *v1World {
	w := &v1World{dir: ksrig.ScratchDir("c17-v1"), master: ksrig.RandBytes(32), ref: map[string][][]byte{}}
	w.populate(r, nClients)
	return w
}

func (w *v1World) populate(r *ev.Run, nClients int) {
	ks, err := w.openHandle(keystore.WithoutCache)
	if err != nil {
		panic(err)
	}
	must := func(err error) {
		if err != nil {
			panic(fmt.Sprintf("c17 v1 set-up: %v", err))
		}
	}
	for i := 0; i < nClients; i++ {
		id := []byte(fmt.Sprintf("client_%c%d", 'a'+i, i))
		w.clients = append(w.clients, id)
		must(ksrig.GenClient(ks, id))
		must(ks.GenerateConnectorKeys(id))
		must(ks.GenerateServerKeys(id))
		// some clients have rotated keys (history directories), as deployments do. Rotated file names carry a
		// timestamp, hence the pause (set-up only, not part of any oracle).
		for k := 0; k < i%3; k++ {
			time.Sleep(3 * time.Millisecond)
			must(ks.GenerateDataEncryptionKeys(id))
			must(ks.GenerateClientIDSymmetricKey(id))
		}
	}
	must(ks.GeneratePoisonKeyPair())
	must(ks.GeneratePoisonSymmetricKey())
	time.Sleep(3 * time.Millisecond)
	must(ks.GeneratePoisonSymmetricKey())
	read := func() map[string][][]byte {
		h, err := w.openHandle(keystore.WithoutCache)
		must(err)
		out := map[string][][]byte{}
		for _, g := range v1Getters() {
			ids := w.clients
			if !g.PerClient {
				ids = [][]byte{nil}
			}
			for _, id := range ids {
				v, err := g.Call(h, id)
				if err != nil {
					panic(fmt.Sprintf("c17 v1 set-up: sequential %s(%s): %v", g.Name, id, err))
				}
				out[g.Name+"|"+string(id)] = copyAll(v)
			}
		}
		return out
	}
	w.ref = read()
	again := read()
	for k, v := range w.ref {
		if classifyWrong(again[k], v, nil) != "equal" {
			panic("c17 v1 set-up: sequential cache-less reads disagree for " + k)
		}
		r.Count(w.tag+"v1_reference_values", 1)
	}
}

type v1Held struct {
	key  string
	vals [][]byte // what the keystore handed out (not copied)
	want [][]byte
	g    string
}

// stress runs goroutines × iters getter calls against ONE handle with the given cache size.
func (w *v1World) stress(r *ev.Run, cacheSize, goroutines, iters int) {
	cc := cacheClass(cacheSize)
	ks, err := w.openHandle(cacheSize)
	if err != nil {
		panic(err)
	}
	getters := v1Getters()
	var wg sync.WaitGroup
	start := make(chan struct{})
	for gi := 0; gi < goroutines; gi++ {
		wg.Add(1)
		go func(gi int) {
			defer wg.Done()
			rng := gen.New(r.Seed, fmt.Sprintf("c17-v1-%s%s-%d", w.tag, cc, gi))
			var held []v1Held
			recheck := func(h v1Held) {
				// a key the keystore handed to a caller must stay what it was while the caller uses it
				if cls := classifyWrong(h.vals, h.want, nil); cls != "equal" {
					r.Violation(w.prefix+fmt.Sprintf("v1 %s: key handed to the caller changed afterwards (%s): cache=%s", h.g, cls, cc),
						map[string]interface{}{"getter": h.g, "key": h.key, "goroutines": goroutines, "seed": r.Seed})
				} else {
					r.Count(w.tag+"v1_held_keys_still_intact", 1)
				}
			}
			<-start
			for it := 0; it < iters; it++ {
				g := getters[rng.Intn(len(getters))]
				var id []byte
				if g.PerClient {
					id = w.clients[rng.Intn(len(w.clients))]
				}
				key := g.Name + "|" + string(id)
				want := w.ref[key]
				var got [][]byte
				var err error
				func() {
					defer func() {
						if v := recover(); v != nil {
							st := string(debug.Stack())
							r.Violation(w.prefix+fmt.Sprintf("v1 %s panicked under concurrent use: %s at %s: cache=%s", g.Name, errClass(fmt.Sprint(v)), panicSite(st), cc),
								map[string]interface{}{"panic": fmt.Sprint(v), "stack": st, "client": string(id)})
							err = fmt.Errorf("panic")
						}
					}()
					got, err = g.Call(ks, id)
				}()
				r.Case()
				r.Count(w.tag+"v1_getter_calls", 1)
				r.SetAdd(w.tag+"v1_getter_x_cache", g.Name+"/"+cc)
				if err != nil {
					if w.tag != "" && strings.Contains(err.Error(), "i/o timeout") {
					// go-redis' read/write timeout (3 s of WALL clock) on a saturated machine: says nothing about the keystore
					r.Inconclusive("redis v1: a Redis command timed out on the client side (wall-clock timeout of go-redis; machine overloaded)")
				} else if err.Error() != "panic" {
						r.Violation(w.prefix+fmt.Sprintf("v1 %s failed under concurrent use: %s: cache=%s", g.Name, errClass(err.Error()), cc),
							map[string]interface{}{"getter": g.Name, "client": string(id), "error": err.Error(), "goroutines": goroutines, "seed": r.Seed})
					}
					continue
				}
				snap := copyAll(got)
				if cls := classifyWrong(snap, want, w.ref); cls != "equal" {
					var hx []string
					for _, b := range snap {
						hx = append(hx, ev.Hex(b))
					}
					r.Violation(w.prefix+fmt.Sprintf("v1 %s returned a wrong key (%s): cache=%s", g.Name, cls, cc),
						map[string]interface{}{"getter": g.Name, "client": string(id), "returned": hx, "goroutines": goroutines, "seed": r.Seed})
					continue
				}
				r.Count(w.tag+"v1_getter_results_correct", 1)
				r.Distinct(w.tag + "v1:" + g.Name + "/cache=" + cc)
				if gi == 0 && it < 2 {
					var ds []string
					for _, b := range snap {
						ds = append(ds, dg(b))
					}
					r.SampleN(w.tag+"v1-"+cc, 1, map[string]interface{}{"kind": "v1 getter result equal to the reference", "getter": g.Name, "client": string(id),
						"cache": cc, "goroutines": goroutines, "key_digests": ds})
				}
				held = append(held, v1Held{key: key, vals: got, want: want, g: g.Name})
				if len(held) > 6 {
					recheck(held[0])
					held = held[1:]
				}
			}
			for _, h := range held {
				recheck(h)
			}
		}(gi)
	}
	close(start)
	done := make(chan struct{})
	go func() { wg.Wait(); close(done) }()
	select {
	case <-done:
	case <-time.After(90 * time.Second):
		r.Inconclusive(w.tag + "v1 reader stress did not finish (watchdog), cache=" + cc)
	}
}
