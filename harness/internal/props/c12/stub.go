// Package c12 will hold the monitor of property C12 (not built yet; nothing is registered).
package c12
