// Package c12 monitors "relayed protocol messages stay byte-identical; rewritten ones stay well-formed" on the PostgreSQL wire rig.
package c12

import (
	"os"
	"bytes"
	"fmt"

	"github.com/cossacklabs/acra/keystore"
	"github.com/jackc/pgx/v5/pgproto3"

	"verif/harness/internal/ev"
	"verif/harness/internal/gen"
	"verif/harness/internal/props"
	"verif/harness/internal/props/c04"
	"verif/harness/internal/rig/fakepg"
	"verif/harness/internal/rig/ksrig"
	"verif/harness/internal/rig/proxyrig"
)

func init() { props.Register("C12", props.Monitor{Level: "exploration", Run: Run}) }

// MySQLLayer, when set, runs the MySQL part of the monitor.
var MySQLLayer func(r *ev.Run)

// Run is the C12 monitor.
func Run(r *ev.Run) {
	r.Rule = "phase A (empty and unrelated configuration): sessions mixing every frontend message type (Query, Parse, Bind, Describe S/P, Execute with row limits, Sync, Flush, Close, CopyData/CopyDone/CopyFail, FunctionCall, password message, Terminate) with scripted database replies covering every backend message type (authentication requests, ParameterStatus, BackendKeyData, Notice, Notification, RowDescription, DataRow with NULL/empty/1 MiB fields in text and binary, CommandComplete, EmptyQueryResponse, ErrorResponse with all fields, PortalSuspended, NoData, ParameterDescription, CopyIn/CopyOut/CopyData/CopyDone, FunctionCallResponse): the byte stream arriving at the database must equal the one the client sent and vice versa. phase B (generated column configurations): every message of generated sessions is aligned client-side vs database-side; only Query/Parse text, Bind parameters of configured columns (the effective format code of every parameter - none = text, one = for all, else per parameter - must stay, also when the Bind is rewritten; mixtures incl. first and last alike with another format in between are forced), DataRow fields of configured columns, RowDescription/ParameterDescription type OIDs may differ, everything else byte-identical, field counts and NULL markers preserved, every message re-parses with an independent codec. distinct = (phase, message type, direction, outcome) tuples"
	r.Assumptions = []string{
		"crypto library replaced by the pure-Go gothemis stand-in",
		"database and client codecs are pgproto3 (pgx), independent of Acra's packet handler; PostgreSQL protocol in this part (MySQL part reported separately when built)",
		"TLS negotiation (SSLRequest) and GSS are not exercised",
	}
	rng := gen.New(r.Seed, "c12")
	nA := r.Pick(40, 1500)
	only := -1
	if v := os.Getenv("VERIF_C12_SESSION"); v != "" {
		fmt.Sscan(v, &only)
	}
	for s := 0; s < nA; s++ {
		srng := gen.New(r.Seed, fmt.Sprintf("c12a-%d-%d", s, rng.Int63()))
		if only >= 0 && s != only {
			continue
		}
		relaySession(r, srng, s)
	}
	nB := r.Pick(20, 600)
	for s := 0; s < nB; s++ {
		shapeSession(r, gen.New(r.Seed, fmt.Sprintf("c12b-%d-%d", s, rng.Int63())), s)
	}
	if MySQLLayer != nil {
		MySQLLayer(r)
	}
	r.RequireAtLeast("relay_sessions_byte_identical", 20)
	r.RequireAtLeast("shape_messages_aligned", 500)
	r.RequireAtLeast("rewritten_binds_with_mixed_formats_and_3plus_parameters", 10)
	r.RequireAtLeast("rewritten_binds_first_and_last_format_alike_middle_different", 3)
	r.RequireSetAtLeast("frontend_types_relayed", 10)
	r.RequireSetAtLeast("backend_types_relayed", 14)
}

// --- phase A: relay identity ---

func bigValue(r *gen.Rand) []byte {
	switch r.Intn(8) {
	case 0:
		return gen.Bytes(r, 1<<20)
	case 1:
		return gen.Bytes(r, 65536)
	case 2:
		return []byte{}
	default:
		return gen.Bytes(r, r.Intn(300))
	}
}

// scriptedReply builds a protocol-valid reply to one simple Query: asynchronous messages (Notice, Notification, ParameterStatus)
// anywhere, exactly one statement outcome (row set + CommandComplete | CommandComplete | EmptyQueryResponse | ErrorResponse), ReadyForQuery.
func scriptedReply(r *gen.Rand) []pgproto3.BackendMessage {
	var out []pgproto3.BackendMessage
	async := func() {
		for k := r.Intn(3); k > 0; k-- {
			switch r.Intn(3) {
			case 0:
				out = append(out, &pgproto3.NoticeResponse{Severity: "WARNING", SeverityUnlocalized: "WARNING", Code: "01000", Message: "notice " + string(gen.Content(r, "ascii", 5+r.Intn(20))), Detail: "d", Hint: "h", Where: "w"})
			case 1:
				out = append(out, &pgproto3.NotificationResponse{PID: r.Uint32(), Channel: "chan", Payload: string(gen.Content(r, "ascii", r.Intn(40)))})
			default:
				out = append(out, &pgproto3.ParameterStatus{Name: "application_name", Value: string(gen.Content(r, "ascii", r.Intn(12)))})
			}
		}
	}
	async()
	switch r.Intn(6) {
	case 0, 1, 2:
		nf := 1 + r.Intn(5)
		rd := &pgproto3.RowDescription{}
		for f := 0; f < nf; f++ {
			rd.Fields = append(rd.Fields, pgproto3.FieldDescription{Name: []byte(fmt.Sprintf("f%d", f)), TableOID: r.Uint32(), TableAttributeNumber: uint16(r.Intn(100)), DataTypeOID: []uint32{17, 23, 25, 20, 1043, 2950}[r.Intn(6)], DataTypeSize: int16(r.Intn(20) - 1), TypeModifier: -1, Format: 0})
		}
		out = append(out, rd)
		nrows := r.Intn(4)
		for rows := nrows; rows > 0; rows-- {
			dr := &pgproto3.DataRow{}
			for f := 0; f < nf; f++ {
				if r.Intn(5) == 0 {
					dr.Values = append(dr.Values, nil)
				} else {
					dr.Values = append(dr.Values, bigValue(r))
				}
			}
			out = append(out, dr)
			if r.Intn(6) == 0 {
				async()
			}
		}
		out = append(out, &pgproto3.CommandComplete{CommandTag: []byte(fmt.Sprintf("SELECT %d", nrows))})
	case 3:
		out = append(out, &pgproto3.EmptyQueryResponse{})
	case 4:
		out = append(out, &pgproto3.ErrorResponse{Severity: "ERROR", SeverityUnlocalized: "ERROR", Code: "42P01", Message: "relation does not exist", Detail: "detail", Hint: "hint", Position: 15, InternalPosition: 2, InternalQuery: "iq", Where: "where", SchemaName: "s", TableName: "t", ColumnName: "c", DataTypeName: "d", ConstraintName: "k", File: "f.c", Line: 42, Routine: "r"})
	default:
		out = append(out, &pgproto3.CommandComplete{CommandTag: []byte("UPDATE 0")})
	}
	async()
	out = append(out, &pgproto3.ReadyForQuery{TxStatus: []byte{'I', 'T', 'E'}[r.Intn(3)]})
	return out
}

const emptySchema = "schemas: []\n"

const unrelatedSchema = `
schemas:
  - table: configured_elsewhere
    columns: [id, secret, tok, srch]
    encrypted:
      - column: secret
      - column: tok
        token_type: str
        consistent_tokenization: true
      - column: srch
        searchable: true
`

func relaySession(r *ev.Run, rng *gen.Rand, sidx int) {
	r.Case()
	dir := ksrig.ScratchDir("c12")
	ks, err := ksrig.V1(dir, ksrig.RandBytes(32), keystore.InfiniteCacheSize)
	if err != nil {
		panic(err)
	}
	ksrig.GenClient(ks, []byte(c04.Owner))
	db := fakepg.NewDB()
	db.CreateTable("plain", []fakepg.Column{{Name: "id", Type: fakepg.Int4}, {Name: "t", Type: fakepg.Text}, {Name: "b", Type: fakepg.Bytea}, {Name: "n", Type: fakepg.Int8}})
	srv, err := fakepg.NewServer(db)
	if err != nil {
		panic(err)
	}
	defer srv.Close()
	authKind := rng.Intn(3)
	switch authKind {
	case 1:
		srv.StartupAuth = &pgproto3.AuthenticationCleartextPassword{}
	case 2:
		srv.StartupAuth = &pgproto3.AuthenticationMD5Password{Salt: [4]byte{1, 2, 3, 4}}
	}
	schema := emptySchema
	cfgName := "empty"
	if rng.Intn(2) == 0 {
		schema, cfgName = unrelatedSchema, "unrelated-tables"
	}
	a, err := proxyrig.Start(proxyrig.Opts{KS: ks, ClientID: []byte(c04.Owner), DBPort: srv.Port(), SchemaYAML: schema})
	if err != nil {
		r.Violation("rig: acra could not be started", map[string]interface{}{"err": err.Error()})
		return
	}
	defer a.Stop()
	var c *proxyrig.PGClient
	if authKind == 0 {
		c, _, err = proxyrig.DialPG(a.Port)
	} else {
		c, err = proxyrig.DialPGAuth(a.Port, "secret-password")
	}
	if err != nil {
		r.Violation(fmt.Sprintf("relay: session could not be established: auth=%d config=%s", authKind, cfgName), map[string]interface{}{"err": err.Error()})
		return
	}
	var script []string
	// register scripted replies
	nScripts := 3 + rng.Intn(4)
	for i := 0; i < nScripts; i++ {
		sql := fmt.Sprintf("select scripted_%d()", i)
		reply := scriptedReply(rng)
		srv.SetScript(sql, func(string) []pgproto3.BackendMessage { return reply })
	}
	srv.SetScript("copy plain from stdin", func(string) []pgproto3.BackendMessage {
		return []pgproto3.BackendMessage{&pgproto3.CopyInResponse{OverallFormat: 0, ColumnFormatCodes: []uint16{0, 0, 0, 0}}}
	})
	srv.SetScript("copy plain to stdout", func(string) []pgproto3.BackendMessage {
		return []pgproto3.BackendMessage{&pgproto3.CopyOutResponse{OverallFormat: 0, ColumnFormatCodes: []uint16{0, 0}}, &pgproto3.CopyData{Data: []byte("1\tabc\n")}, &pgproto3.CopyData{Data: gen.Bytes(rng, 70000)}, &pgproto3.CopyDone{}, &pgproto3.CommandComplete{CommandTag: []byte("COPY 2")}, &pgproto3.ReadyForQuery{TxStatus: 'I'}}
	})
	g := proxyrig.NewSessGen(rng, []proxyrig.TableSpec{{Name: "plain", Cols: []proxyrig.ColSpec{{Name: "id", AppType: fakepg.Int4, StoreType: fakepg.Int4}, {Name: "t", AppType: fakepg.Text, StoreType: fakepg.Text}, {Name: "b", AppType: fakepg.Bytea, StoreType: fakepg.Bytea}, {Name: "n", AppType: fakepg.Int8, StoreType: fakepg.Int8}}}})
	steps := 6 + rng.Intn(20)
	ok := true
	for i := 0; i < steps && ok; i++ {
		switch x := rng.Intn(100); {
		case x < 45:
			st := g.Next()
			script = append(script, st.Proto+": "+clip(st.SQL, 120))
			for _, grp := range st.Groups {
				if err := c.Send(grp...); err != nil {
					ok = false
					break
				}
				if _, err := c.ReadUntilReady(); err != nil {
					ok = false
					break
				}
			}
		case x < 70:
			sql := fmt.Sprintf("select scripted_%d()", rng.Intn(nScripts))
			script = append(script, "scripted: "+sql)
			if _, err := c.Simple(sql); err != nil {
				ok = false
			}
		case x < 78:
			script = append(script, "copy in")
			c.Send(&pgproto3.Query{String: "copy plain from stdin"})
			if _, err := c.ReadUntil(func(m proxyrig.BackendMsg) bool { return m.Type == "CopyInResponse" || m.Type == "ErrorResponse" }); err != nil {
				ok = false
				break
			}
			c.Send(&pgproto3.CopyData{Data: []byte("1\tx\t\\\\x00\t5\n")}, &pgproto3.CopyData{Data: gen.Bytes(rng, 1+rng.Intn(100000))})
			if rng.Intn(3) == 0 {
				c.Send(&pgproto3.CopyFail{Message: "client gave up"})
			} else {
				c.Send(&pgproto3.CopyDone{})
			}
			if _, err := c.ReadUntilReady(); err != nil {
				ok = false
			}
		case x < 84:
			script = append(script, "copy out")
			if _, err := c.Simple("copy plain to stdout"); err != nil {
				ok = false
			}
		case x < 90:
			script = append(script, "function call")
			c.Send(&pgproto3.FunctionCall{Function: 1234, ArgFormatCodes: []uint16{1, 0}, Arguments: [][]byte{gen.Bytes(rng, rng.Intn(50)), gen.Bytes(rng, 3)}, ResultFormatCode: 1})
			if _, err := c.ReadUntilReady(); err != nil {
				ok = false
			}
		case x < 95:
			script = append(script, "parse+flush, then sync")
			c.Send(&pgproto3.Parse{Name: "fl", Query: "select id from plain"}, &pgproto3.Flush{})
			if _, err := c.ReadUntil(func(m proxyrig.BackendMsg) bool { return m.Type == "ParseComplete" || m.Type == "ErrorResponse" }); err != nil {
				ok = false
				break
			}
			c.Send(&pgproto3.Close{ObjectType: 'S', Name: "fl"}, &pgproto3.Sync{})
			if _, err := c.ReadUntilReady(); err != nil {
				ok = false
			}
		default:
			script = append(script, "empty query")
			if _, err := c.Simple(""); err != nil {
				ok = false
			}
		}
	}
	detail := func(extra map[string]interface{}) map[string]interface{} {
		m := map[string]interface{}{"session": sidx, "config": cfgName, "auth": authKind, "script": script}
		for k, v := range extra {
			m[k] = v
		}
		return m
	}
	if !ok {
		r.Violation(fmt.Sprintf("relay: connection broke during a valid message sequence: config=%s last=%s", cfgName, kindOf(script)), detail(nil))
		return
	}
	c.Close()
	// wait (bounded, logical: poll the recorded stream until it stops growing) for the Terminate to arrive
	sent := c.RawOut()
	var got []byte
	for i := 0; i < 400; i++ {
		got = srv.RawInConn(srv.Conns())
		if len(got) >= len(sent) {
			break
		}
		sleepShort()
	}
	dbOut := srv.RawOutConn(srv.Conns())
	recv := c.RawIn()
	if !bytes.Equal(got, sent) {
		at := firstDiff(got, sent)
		r.Violation(fmt.Sprintf("relay: client->database stream altered: config=%s at-message=%s", cfgName, msgAt(sent, at, true)), detail(map[string]interface{}{"offset": at, "sent_len": len(sent), "arrived_len": len(got), "sent_at": ev.Hex(window(sent, at)), "arrived_at": ev.Hex(window(got, at))}))
		return
	}
	if !bytes.Equal(recv, dbOut) {
		at := firstDiff(recv, dbOut)
		r.Violation(fmt.Sprintf("relay: database->client stream altered: config=%s at-message=%s", cfgName, msgAt(dbOut, at, false)), detail(map[string]interface{}{"offset": at, "db_sent_len": len(dbOut), "client_got_len": len(recv), "db_sent_at": ev.Hex(window(dbOut, at)), "client_got_at": ev.Hex(window(recv, at))}))
		return
	}
	r.Count("relay_sessions_byte_identical", 1)
	r.Count("relay_bytes_compared", int64(len(sent)+len(recv)))
	for _, m := range srv.Log() {
		r.SetAdd("frontend_types_relayed", m.Type)
		r.Distinct("A|" + cfgName + "|F|" + m.Type)
	}
	for _, m := range srv.SentLog() {
		r.SetAdd("backend_types_relayed", m.Type)
		r.Distinct("A|" + cfgName + "|B|" + m.Type)
	}
	r.SampleN("relay", 3, map[string]interface{}{"config": cfgName, "auth": authKind, "script": script, "bytes_to_db": len(sent), "bytes_to_client": len(recv)})
}

func kindOf(script []string) string {
	if len(script) == 0 {
		return "startup"
	}
	s := script[len(script)-1]
	for i := 0; i < len(s); i++ {
		if s[i] == ':' {
			return s[:i]
		}
	}
	return s
}

func clip(s string, n int) string {
	if len(s) > n {
		return s[:n] + "..."
	}
	return s
}

func firstDiff(a, b []byte) int {
	n := len(a)
	if len(b) < n {
		n = len(b)
	}
	for i := 0; i < n; i++ {
		if a[i] != b[i] {
			return i
		}
	}
	return n
}

func window(b []byte, at int) []byte {
	lo, hi := at-16, at+32
	if lo < 0 {
		lo = 0
	}
	if hi > len(b) {
		hi = len(b)
	}
	if lo > hi {
		lo = hi
	}
	return b[lo:hi]
}

// msgAt names the type byte of the message that contains offset `at` of a PostgreSQL stream (frontend streams start with the untyped startup message).
func msgAt(stream []byte, at int, frontend bool) string {
	i := 0
	if frontend {
		if len(stream) < 4 {
			return "startup"
		}
		n := int(uint32(stream[0])<<24 | uint32(stream[1])<<16 | uint32(stream[2])<<8 | uint32(stream[3]))
		if at < n {
			return "startup"
		}
		i = n
	}
	for i+5 <= len(stream) {
		n := int(uint32(stream[i+1])<<24 | uint32(stream[i+2])<<16 | uint32(stream[i+3])<<8 | uint32(stream[i+4]))
		if at < i+1+n || n < 4 {
			return fmt.Sprintf("%q", stream[i])
		}
		i += 1 + n
	}
	return "beyond-end"
}
