package c12

import (
	"bytes"
	"fmt"
	"strings"

	"github.com/jackc/pgx/v5/pgproto3"

	"verif/harness/internal/ev"
	"verif/harness/internal/gen"
	"verif/harness/internal/props/c04"
	"verif/harness/internal/rig/proxyrig"
)

// --- phase B: rewritten messages keep their shape ---

func shapeSession(r *ev.Run, rng *gen.Rand, sidx int) {
	tables := proxyrig.GenTables(rng, 1+rng.Intn(2), c04.Other, nil)
	w, ac, rc, closeAll, ok := c04.OpenWorld(r, tables, "")
	if !ok {
		return
	}
	defer closeAll()
	rc.Close() // the reference database is not used in this phase
	g := proxyrig.NewSessGen(rng, tables)
	n := 6 + rng.Intn(25)
	var history []string
	for i := 0; i < n; i++ {
		st := g.Next()
		history = append(history, fmt.Sprintf("[%s %s/%s] %s", st.Proto, st.ParamFmt, st.ResFmt, clip(st.SQL, 200)))
		if !shapeStep(r, w, ac, st, history, sidx) {
			return
		}
	}
}

func tableOf(w *c04.World, name string) proxyrig.TableSpec {
	for _, t := range w.Tables {
		if t.Name == name {
			return t
		}
	}
	return proxyrig.TableSpec{}
}

func encodeF(m pgproto3.FrontendMessage) []byte { b, _ := m.Encode(nil); return b }

func shapeStep(r *ev.Run, w *c04.World, ac *proxyrig.PGClient, st proxyrig.Step, history []string, sidx int) bool {
	r.Case()
	t := tableOf(w, st.Table)
	logStart, sentStart := w.Store.LogLen(), w.Store.SentLen()
	var clientSent []pgproto3.FrontendMessage
	var clientGot []proxyrig.BackendMsg
	for _, grp := range st.Groups {
		clientSent = append(clientSent, grp...)
		if err := ac.Send(grp...); err != nil {
			r.Violation("shape: connection broke", map[string]interface{}{"history": history})
			return false
		}
		msgs, err := ac.ReadUntilReady()
		clientGot = append(clientGot, msgs...)
		if err != nil {
			if err == proxyrig.ErrTimeout {
				r.Inconclusive("watchdog in shape step")
			} else {
				r.Violation(fmt.Sprintf("shape: connection broke: stmt=%s proto=%s", st.Kind, st.Proto), map[string]interface{}{"history": history, "schema": w.Schema, "err": err.Error()})
			}
			return false
		}
	}
	if len(w.Store.Unsupported()) > 0 {
		r.Count("rig_inconclusive_forwarded_statement_not_evaluable", 1)
		return false
	}
	dbGot := w.Store.Log()[logStart:]
	dbSent := w.Store.SentLog()[sentStart:]
	detail := func(extra map[string]interface{}) map[string]interface{} {
		m := map[string]interface{}{"session": sidx, "schema": w.Schema, "history": history, "statement": st.SQL, "proto": st.Proto, "detail": st.Detail}
		for k, v := range extra {
			m[k] = v
		}
		return m
	}
	sig := func(what, mtype string) string {
		return fmt.Sprintf("shape: %s: message=%s stmt=%s proto=%s params=%s results=%s", what, mtype, st.Kind, st.Proto, st.ParamFmt, st.ResFmt)
	}
	// client -> database
	if len(dbGot) != len(clientSent) {
		r.Violation(sig("number of forwarded messages differs", "-"), detail(map[string]interface{}{"client_sent": len(clientSent), "db_got": len(dbGot)}))
		return false
	}
	configuredParam := func(i int) bool {
		if i >= len(st.ParamDesc) {
			return true
		}
		name := st.ParamDesc[i][:strings.Index(st.ParamDesc[i], ":")]
		c := t.Col(name)
		return c != nil && c.Configured()
	}
	for i, m := range clientSent {
		typ := fmt.Sprintf("%T", m)[len("*pgproto3."):]
		if dbGot[i].Type != typ {
			r.Violation(sig("forwarded message type differs", typ), detail(map[string]interface{}{"got": dbGot[i].Type}))
			return false
		}
		r.Count("shape_messages_aligned", 1)
		switch x := m.(type) {
		case *pgproto3.Query, *pgproto3.Parse:
			// the statement text may be re-serialised (its meaning is C13's subject); the rest of a Parse must be kept
			if p, ok := x.(*pgproto3.Parse); ok {
				var got pgproto3.Parse
				if err := got.Decode(dbGot[i].Raw[5:]); err != nil || got.Name != p.Name || len(got.ParameterOIDs) != len(p.ParameterOIDs) {
					r.Violation(sig("Parse name or parameter type list changed", typ), detail(nil))
				}
			}
			r.Distinct("B|F|" + typ + "|rewritable")
		case *pgproto3.Bind:
			got := dbGot[i].Bind
			if got == nil || got.PreparedStatement != x.PreparedStatement || got.DestinationPortal != x.DestinationPortal {
				r.Violation(sig("Bind names changed", typ), detail(nil))
				break
			}
			if len(got.Parameters) != len(x.Parameters) {
				r.Violation(sig("Bind parameter count changed", typ), detail(map[string]interface{}{"sent": len(x.Parameters), "got": len(got.Parameters)}))
				break
			}
			if fmt.Sprint(got.ResultFormatCodes) != fmt.Sprint(x.ResultFormatCodes) {
				r.Violation(sig("Bind result format codes changed", typ), detail(nil))
			}
			// effective format of every parameter: no code = all text, one code = that code for all, else one per parameter
			eff := func(codes []int16, i int) int16 {
				switch len(codes) {
				case 0:
					return 0
				case 1:
					return codes[0]
				}
				if i < len(codes) {
					return codes[i]
				}
				return 0
			}
			if n := len(got.ParameterFormatCodes); n > 1 && n != len(got.Parameters) {
				r.Violation(sig("forwarded Bind has a format code list that is neither empty, single nor one per parameter", typ), detail(map[string]interface{}{"codes": fmt.Sprint(got.ParameterFormatCodes), "params": len(got.Parameters)}))
			}
			mixed := false
			for pi := range x.Parameters {
				if eff(x.ParameterFormatCodes, pi) != eff(x.ParameterFormatCodes, 0) {
					mixed = true
				}
			}
			for pi := range x.Parameters {
				fs, fg := eff(x.ParameterFormatCodes, pi), eff(got.ParameterFormatCodes, pi)
				if fs != fg {
					if !configuredParam(pi) {
						r.Violation(sig("format code of a parameter of an unconfigured column changed", typ), detail(map[string]interface{}{"param": pi, "sent_codes": fmt.Sprint(x.ParameterFormatCodes), "forwarded_codes": fmt.Sprint(got.ParameterFormatCodes), "sent": ev.Hex(x.Parameters[pi]), "got": ev.Hex(got.Parameters[pi])}))
					} else {
						r.Count("bind_configured_parameter_format_changed", 1)
					}
				} else {
					r.Count("bind_parameter_formats_compared", 1)
				}
			}
			rewritten := false
			for pi := range x.Parameters {
				if !bytes.Equal(x.Parameters[pi], got.Parameters[pi]) {
					rewritten = true
				}
			}
			if rewritten && mixed && len(x.Parameters) >= 3 {
				r.Count("rewritten_binds_with_mixed_formats_and_3plus_parameters", 1)
				if st.FormatPattern != "" {
					r.Count("rewritten_binds_first_and_last_format_alike_middle_different", 1)
				}
			}
			for pi := range x.Parameters {
				if (x.Parameters[pi] == nil) != (got.Parameters[pi] == nil) {
					r.Violation(sig("Bind NULL marker changed", typ), detail(map[string]interface{}{"param": pi}))
				}
				if !configuredParam(pi) && !bytes.Equal(x.Parameters[pi], got.Parameters[pi]) {
					r.Violation(sig("Bind parameter of an unconfigured column changed", typ), detail(map[string]interface{}{"param": pi, "sent": ev.Hex(x.Parameters[pi]), "got": ev.Hex(got.Parameters[pi])}))
				}
			}
			r.Distinct("B|F|Bind|shape-kept")
		default:
			if !bytes.Equal(encodeF(m), dbGot[i].Raw) {
				r.Violation(sig("message that needs no rewriting was changed", typ), detail(map[string]interface{}{"sent": ev.Hex(encodeF(m)), "got": ev.Hex(dbGot[i].Raw)}))
			}
			r.Distinct("B|F|" + typ + "|identical")
		}
	}
	// database -> client
	if len(clientGot) != len(dbSent) {
		r.Violation(sig("number of delivered messages differs", "-"), detail(map[string]interface{}{"db_sent": len(dbSent), "client_got": len(clientGot)}))
		return false
	}
	configuredField := func(i int) bool {
		if i >= len(st.ResultCols) {
			return true
		}
		c := t.Col(st.ResultCols[i])
		return c != nil && c.Configured()
	}
	for i, m := range clientGot {
		if m.Type != dbSent[i].Type {
			r.Violation(sig("delivered message type differs", dbSent[i].Type), detail(map[string]interface{}{"got": m.Type}))
			return false
		}
		r.Count("shape_messages_aligned", 1)
		switch m.Type {
		case "DataRow":
			var a, b pgproto3.DataRow
			if a.Decode(append([]byte{}, m.Raw[5:]...)) != nil || b.Decode(append([]byte{}, dbSent[i].Raw[5:]...)) != nil {
				r.Violation(sig("DataRow does not re-parse", m.Type), detail(nil))
				break
			}
			if len(a.Values) != len(b.Values) {
				r.Violation(sig("DataRow field count changed", m.Type), detail(map[string]interface{}{"db": len(b.Values), "client": len(a.Values)}))
				break
			}
			for fi := range a.Values {
				if (a.Values[fi] == nil) != (b.Values[fi] == nil) {
					r.Violation(sig("DataRow NULL marker changed", m.Type), detail(map[string]interface{}{"field": fi}))
				}
				if !configuredField(fi) && !bytes.Equal(a.Values[fi], b.Values[fi]) {
					r.Violation(sig("DataRow field of an unconfigured column changed", m.Type), detail(map[string]interface{}{"field": fi, "db": ev.Hex(b.Values[fi]), "client": ev.Hex(a.Values[fi])}))
				}
			}
			r.Distinct("B|B|DataRow|shape-kept")
		case "RowDescription":
			var a, b pgproto3.RowDescription
			if a.Decode(m.Raw[5:]) != nil || b.Decode(dbSent[i].Raw[5:]) != nil || len(a.Fields) != len(b.Fields) {
				r.Violation(sig("RowDescription field count changed or does not re-parse", m.Type), detail(nil))
				break
			}
			for fi := range a.Fields {
				x, y := a.Fields[fi], b.Fields[fi]
				if string(x.Name) != string(y.Name) || x.TableOID != y.TableOID || x.TableAttributeNumber != y.TableAttributeNumber || x.Format != y.Format {
					r.Violation(sig("RowDescription field attributes other than the type changed", m.Type), detail(map[string]interface{}{"field": fi}))
				}
				if x.DataTypeOID != y.DataTypeOID && !configuredField(fi) {
					r.Violation(sig("RowDescription type of an unconfigured column changed", m.Type), detail(map[string]interface{}{"field": fi}))
				}
			}
			r.Distinct("B|B|RowDescription|shape-kept")
		case "ParameterDescription":
			var a, b pgproto3.ParameterDescription
			if a.Decode(m.Raw[5:]) != nil || b.Decode(dbSent[i].Raw[5:]) != nil || len(a.ParameterOIDs) != len(b.ParameterOIDs) {
				r.Violation(sig("ParameterDescription count changed or does not re-parse", m.Type), detail(nil))
				break
			}
			for pi := range a.ParameterOIDs {
				if a.ParameterOIDs[pi] != b.ParameterOIDs[pi] && !configuredParam(pi) {
					r.Violation(sig("ParameterDescription type of an unconfigured column changed", m.Type), detail(map[string]interface{}{"param": pi}))
				}
			}
			r.Distinct("B|B|ParameterDescription|shape-kept")
		default:
			if !bytes.Equal(m.Raw, dbSent[i].Raw) {
				r.Violation(sig("message that needs no rewriting was changed", m.Type), detail(map[string]interface{}{"db": ev.Hex(dbSent[i].Raw), "client": ev.Hex(m.Raw)}))
			}
			r.Distinct("B|B|" + m.Type + "|identical")
		}
	}
	return true
}
