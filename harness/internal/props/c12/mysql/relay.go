// Package mysql is the MySQL part of the C12 monitor ("relayed protocol messages stay byte-identical; rewritten ones stay
// well-formed"): phase A relay identity under an empty / unrelated encryptor configuration, phase B shape preservation under
// generated column configurations, over the fake MySQL server and two independent clients (stock go-sql-driver/mysql and a
// scripted client on the harness codec).
package mysql

import (
	"bytes"
	"encoding/binary"
	"fmt"
	"math"
	"os"
	"strconv"
	"strings"
	"time"

	"github.com/cossacklabs/acra/keystore"

	"verif/harness/internal/ev"
	"verif/harness/internal/gen"
	"verif/harness/internal/props/c04"
	"verif/harness/internal/props/c12"
	"verif/harness/internal/rig/fakemysql"
	"verif/harness/internal/rig/fakepg"
	"verif/harness/internal/rig/ksrig"
	"verif/harness/internal/rig/proxyrig"
)

func init() { c12.MySQLLayer = Layer }

// Layer runs the MySQL part. Acra's SQL dialect is process-global: it is switched to MySQL here and back at the end.
func Layer(r *ev.Run) {
	proxyrig.SetDialect(true)
	defer proxyrig.SetDialect(false)
	t0 := time.Now()
	defer func() { r.Extra("mysql_layer_wall_s", time.Since(t0).Seconds()) }()
	r.Rule += " || MySQL part: phase A (empty and unrelated configuration): sessions of the stock go-sql-driver client and of a scripted client (with and without CLIENT_DEPRECATE_EOF) mixing COM_QUERY, COM_STMT_PREPARE/EXECUTE (all fixed-width and string parameter types, NULL bitmap)/SEND_LONG_DATA/CLOSE/RESET, COM_PING, COM_INIT_DB, COM_STATISTICS, COM_QUIT with evaluated and scripted replies (OK with info, ERR, text and binary result sets over 12 column types with NULL/empty/250/251/252/65535/65536-byte fields; dedicated sessions with payloads of 2^24-2, 2^24-1 and 2^24 bytes in both directions): bytes arriving at the database = bytes the client sent and vice versa. phase B (generated column configurations): per statement, client-side and database-side packets are aligned; only statement text, parameters of configured columns, type/charset/length/flags of column definitions of configured typed columns and row fields of configured columns may differ; sequence ids, field counts, NULL markers, unconfigured fields, OK/ERR/EOF packets identical; every packet re-parses with the harness codec"
	r.Assumptions = append(r.Assumptions, "MySQL part: database = fake MySQL server with a codec written for the harness; clients = go-sql-driver/mysql v1.5.0 and a scripted client on the same harness codec; no TLS, no compression, no LOCAL INFILE, no multi-statements/multi-resultsets, no cursors")
	rng := gen.New(r.Seed, "c12-mysql")
	only := -1
	if v := os.Getenv("VERIF_C12MY_SESSION"); v != "" {
		fmt.Sscan(v, &only)
	}
	nA := r.Pick(30, 600)
	for s := 0; s < nA; s++ {
		srng := gen.New(r.Seed, fmt.Sprintf("c12my-a-%d-%d", s, rng.Int63()))
		if only >= 0 && s != only {
			continue
		}
		relaySession(r, srng, s, nil)
	}
	r.Extra("mysql_phase_a_wall_s", time.Since(t0).Seconds())
	tBig := time.Now()
	if only < 0 || only >= 1000 {
		for i, bc := range bigCases(r) {
			if only >= 1000 && only-1000 != i {
				continue
			}
			bc := bc
			relaySession(r, gen.New(r.Seed, fmt.Sprintf("c12my-big-%d", i)), 1000+i, &bc)
		}
	}
	r.Extra("mysql_big_sessions_wall_s", time.Since(tBig).Seconds())
	nB := r.Pick(14, 350)
	for s := 0; s < nB; s++ {
		srng := gen.New(r.Seed, fmt.Sprintf("c12my-b-%d-%d", s, rng.Int63()))
		if only >= 0 && only != 2000+s {
			continue
		}
		shapeSession(r, srng, 2000+s)
	}
	capsLayer(r, only)
	metaHistLayer(r, only)
	if only >= 0 {
		return
	}
	r.RequireAtLeast("mysql_relay_sessions_byte_identical", 15)
	r.RequireAtLeast("mysql_shape_packets_aligned", 300)
	r.RequireSetAtLeast("mysql_commands_relayed", 10)
	r.RequireSetAtLeast("mysql_server_packet_kinds_relayed", 9)
	r.RequireSetAtLeast("mysql_length_boundaries_crossed", 5)
}

const emptySchema = "schemas: []\n"

const unrelatedSchema = `
schemas:
  - table: configured_elsewhere
    columns: [id, secret, tok, srch]
    encrypted:
      - column: secret
      - column: tok
        token_type: str
        consistent_tokenization: true
      - column: srch
        searchable: true
`

// bigCase is a dedicated session crossing the 16 MiB packet boundary in one direction.
type bigCase struct {
	Name    string
	Dir     string // query | execute | textrow | binaryrow
	Payload int    // exact payload size of the big message
}

func bigCases(r *ev.Run) []bigCase {
	cs := []bigCase{
		{"payload=2^24-2", "execute", fakemysql.MaxFrame - 1},
		{"payload=2^24-1", "execute", fakemysql.MaxFrame},
		{"payload=2^24", "execute", fakemysql.MaxFrame + 1},
		{"payload=2^24-1", "textrow", fakemysql.MaxFrame},
		{"payload=2^24", "textrow", fakemysql.MaxFrame + 1},
		{"payload=2^24", "binaryrow", fakemysql.MaxFrame + 1},
	}
	if r.Thorough() {
		cs = append(cs,
			bigCase{"payload=2^24", "query", fakemysql.MaxFrame + 1},
			bigCase{"payload=2^24-2", "textrow", fakemysql.MaxFrame - 1},
			bigCase{"payload=2^24-1", "query", fakemysql.MaxFrame},
			bigCase{"payload=2^24-1", "binaryrow", fakemysql.MaxFrame},
			bigCase{"payload=2*(2^24-1)", "textrow", 2 * fakemysql.MaxFrame},
			bigCase{"payload=2*(2^24-1)+5", "execute", 2*fakemysql.MaxFrame + 5},
		)
	}
	return cs
}

var boundaryLens = []int{0, 1, 250, 251, 252, 65535, 65536}

func lenClass(n int) string {
	switch {
	case n == 0:
		return "0"
	case n <= 250:
		return "1-byte-length"
	case n < 65536:
		return "2-byte-length"
	case n < 1<<24:
		return "3-byte-length"
	}
	return "8-byte-length"
}

// scriptCol is one column of a scripted result set with a generator of values in both protocols.
type scriptCol struct {
	def fakemysql.ColDef
}

func scriptedValue(rng *gen.Rand, t byte) (text, bin []byte) {
	le := func(v uint64, n int) []byte {
		b := make([]byte, 8)
		binary.LittleEndian.PutUint64(b, v)
		return b[:n]
	}
	switch t {
	case fakemysql.TypeTiny:
		v := int8(rng.Intn(256) - 128)
		return []byte(strconv.Itoa(int(v))), []byte{byte(v)}
	case fakemysql.TypeShort:
		v := int16(rng.Intn(65536) - 32768)
		return []byte(strconv.Itoa(int(v))), le(uint64(uint16(v)), 2)
	case fakemysql.TypeYear:
		v := 1901 + rng.Intn(200)
		return []byte(strconv.Itoa(v)), le(uint64(v), 2)
	case fakemysql.TypeLong, fakemysql.TypeInt24:
		v := int32(rng.Uint32())
		if t == fakemysql.TypeInt24 {
			v = v >> 8
		}
		if rng.Intn(4) == 0 {
			v = []int32{0, -1, math.MaxInt32, math.MinInt32}[rng.Intn(4)]
			if t == fakemysql.TypeInt24 {
				v = v >> 8
			}
		}
		return []byte(strconv.FormatInt(int64(v), 10)), le(uint64(uint32(v)), 4)
	case fakemysql.TypeLongLong:
		v := int64(rng.Uint64())
		if rng.Intn(4) == 0 {
			v = []int64{0, -1, math.MaxInt64, math.MinInt64}[rng.Intn(4)]
		}
		return []byte(strconv.FormatInt(v, 10)), le(uint64(v), 8)
	case fakemysql.TypeFloat:
		v := float32(rng.NormFloat64() * 1000)
		return []byte(strconv.FormatFloat(float64(v), 'g', -1, 32)), le(uint64(math.Float32bits(v)), 4)
	case fakemysql.TypeDouble:
		v := rng.NormFloat64() * 1e6
		if rng.Intn(4) == 0 {
			v = []float64{0, 0.1, 1.0 / 3.0, 1234567.890123456}[rng.Intn(4)]
		}
		return []byte(strconv.FormatFloat(v, 'g', -1, 64)), le(math.Float64bits(v), 8)
	case fakemysql.TypeDatetime, fakemysql.TypeTimestamp:
		y, mo, d, h, mi, s := 1990+rng.Intn(60), 1+rng.Intn(12), 1+rng.Intn(28), rng.Intn(24), rng.Intn(60), rng.Intn(60)
		b := []byte{byte(y), byte(y >> 8), byte(mo), byte(d), byte(h), byte(mi), byte(s)}
		return []byte(fmt.Sprintf("%04d-%02d-%02d %02d:%02d:%02d", y, mo, d, h, mi, s)), b
	case fakemysql.TypeNewDecimal:
		s := fmt.Sprintf("%d.%02d", rng.Intn(100000)-50000, rng.Intn(100))
		return []byte(s), []byte(s)
	default:
		var n int
		switch rng.Intn(7) {
		case 0:
			n = boundaryLens[rng.Intn(len(boundaryLens))]
		case 1:
			n = 0
		default:
			n = rng.Intn(300)
		}
		var v []byte
		if t == fakemysql.TypeBlob || t == fakemysql.TypeMediumBlob {
			v = gen.Bytes(rng, n)
		} else {
			v = gen.Content(rng, "ascii", n)
		}
		return v, v
	}
}

var scriptTypes = []struct {
	t       byte
	charset uint16
	flags   uint16
	length  uint32
}{
	{fakemysql.TypeLong, 63, fakemysql.FlagNum, 11}, {fakemysql.TypeLongLong, 63, fakemysql.FlagNum, 20}, {fakemysql.TypeVarString, 33, 0, 765},
	{fakemysql.TypeBlob, 63, fakemysql.FlagBlob | fakemysql.FlagBinary, 65535}, {fakemysql.TypeTiny, 63, fakemysql.FlagNum, 4}, {fakemysql.TypeShort, 63, fakemysql.FlagNum, 6},
	{fakemysql.TypeInt24, 63, fakemysql.FlagNum, 9}, {fakemysql.TypeFloat, 63, fakemysql.FlagNum, 12}, {fakemysql.TypeDouble, 63, fakemysql.FlagNum, 22},
	{fakemysql.TypeNewDecimal, 63, fakemysql.FlagNum, 12}, {fakemysql.TypeDatetime, 63, fakemysql.FlagBinary, 19}, {fakemysql.TypeString, 33, 0, 30},
	{fakemysql.TypeYear, 63, fakemysql.FlagNum | fakemysql.FlagUnsigned, 4}, {fakemysql.TypeMediumBlob, 63, fakemysql.FlagBlob | fakemysql.FlagBinary, 16777215}, {fakemysql.TypeBlob, 33, fakemysql.FlagBlob, 196605},
}

// scriptInfo describes a generated script for evidence.
type scriptInfo struct {
	Kind  string
	Types []byte
	Lens  []int
}

// scriptedReply builds one canned statement outcome: a result set (text and binary encodings of the same values), OK with info, or ERR.
func scriptedReply(rng *gen.Rand) (fakemysql.Script, scriptInfo) {
	switch rng.Intn(8) {
	case 0:
		rep := &fakemysql.Reply{Err: &fakemysql.ErrInfo{Code: 1146, State: "42S02", Msg: "Table 'db.nothing' doesn't exist " + string(gen.Content(rng, "ascii", rng.Intn(40)))}}
		return func(string, bool) *fakemysql.Reply { return rep }, scriptInfo{Kind: "ERR"}
	case 1:
		rep := &fakemysql.Reply{Affected: uint64(rng.Intn(70000)), LastID: uint64(rng.Int63n(1 << 40)), Warnings: uint16(rng.Intn(3)), Info: []string{"", "Rows matched: 3  Changed: 2  Warnings: 0", "Records: 100  Duplicates: 0  Warnings: 0"}[rng.Intn(3)]}
		return func(string, bool) *fakemysql.Reply { return rep }, scriptInfo{Kind: "OK"}
	}
	nf := 1 + rng.Intn(5)
	var cols []fakemysql.ColDef
	info := scriptInfo{Kind: "resultset"}
	for f := 0; f < nf; f++ {
		st := scriptTypes[rng.Intn(len(scriptTypes))]
		cols = append(cols, fakemysql.ColDef{Schema: "db", Table: "scr", OrgTable: "scripted", Name: fmt.Sprintf("f%d", f), OrgName: fmt.Sprintf("of%d", f), Charset: st.charset, Length: st.length, Type: st.t, Flags: st.flags, Decimals: byte(rng.Intn(3))})
		info.Types = append(info.Types, st.t)
	}
	nrows := rng.Intn(5)
	var trows, brows [][]fakemysql.Field
	for i := 0; i < nrows; i++ {
		var tr, br []fakemysql.Field
		for f := 0; f < nf; f++ {
			if rng.Intn(5) == 0 {
				tr = append(tr, fakemysql.Field{Null: true})
				br = append(br, fakemysql.Field{Null: true})
				continue
			}
			tx, bn := scriptedValue(rng, cols[f].Type)
			tr = append(tr, fakemysql.Field{Data: tx})
			br = append(br, fakemysql.Field{Data: bn})
			info.Lens = append(info.Lens, len(tx))
		}
		trows, brows = append(trows, tr), append(brows, br)
	}
	warn := uint16(rng.Intn(2))
	return func(_ string, bin bool) *fakemysql.Reply {
		if bin {
			return &fakemysql.Reply{Cols: cols, Rows: brows, Warnings: warn}
		}
		return &fakemysql.Reply{Cols: cols, Rows: trows, Warnings: warn}
	}, info
}

var plainTable = proxyrig.TableSpec{Name: "plain", Cols: []proxyrig.ColSpec{{Name: "id", AppType: fakepg.Int4, StoreType: fakepg.Int4}, {Name: "t", AppType: fakepg.Text, StoreType: fakepg.Text}, {Name: "b", AppType: fakepg.Bytea, StoreType: fakepg.Bytea}, {Name: "n", AppType: fakepg.Int8, StoreType: fakepg.Int8}}}

func clip(s string, n int) string {
	if len(s) > n {
		return s[:n] + "..."
	}
	return s
}

// rawParam draws a typed parameter value for the scripted client.
func rawParam(rng *gen.Rand, forCol string) (fakemysql.BoundParam, string) {
	le := func(v uint64, n int) []byte {
		b := make([]byte, 8)
		binary.LittleEndian.PutUint64(b, v)
		return b[:n]
	}
	if rng.Intn(8) == 0 && forCol != "id" {
		return fakemysql.BoundParam{Type: fakemysql.TypeNull, Null: true}, "NULL"
	}
	switch forCol {
	case "id", "n":
		switch rng.Intn(4) {
		case 0:
			v := rng.Intn(128)
			return fakemysql.BoundParam{Type: fakemysql.TypeTiny, Data: []byte{byte(v)}}, "TINY"
		case 1:
			v := rng.Intn(30000)
			return fakemysql.BoundParam{Type: fakemysql.TypeShort, Data: le(uint64(v), 2)}, "SHORT"
		case 2:
			v := int32(rng.Intn(1 << 30))
			return fakemysql.BoundParam{Type: fakemysql.TypeLong, Data: le(uint64(uint32(v)), 4), Unsigned: rng.Intn(2) == 0}, "LONG"
		default:
			v := int64(rng.Int63n(1 << 31))
			if forCol == "n" {
				v = rng.Int63() - rng.Int63()
			}
			return fakemysql.BoundParam{Type: fakemysql.TypeLongLong, Data: le(uint64(v), 8)}, "LONGLONG"
		}
	case "t":
		n := rng.Intn(120)
		if rng.Intn(5) == 0 {
			n = []int{0, 250, 251, 252}[rng.Intn(4)]
		}
		return fakemysql.BoundParam{Type: []byte{fakemysql.TypeVarString, fakemysql.TypeString, fakemysql.TypeVarchar}[rng.Intn(3)], Data: gen.Content(rng, "ascii", n)}, "STRING"
	default:
		n := rng.Intn(400)
		if rng.Intn(4) == 0 {
			n = boundaryLens[rng.Intn(len(boundaryLens))]
		}
		return fakemysql.BoundParam{Type: []byte{fakemysql.TypeBlob, fakemysql.TypeLongBlob, fakemysql.TypeVarString}[rng.Intn(3)], Data: gen.Bytes(rng, n)}, "BLOB"
	}
}

func relaySession(r *ev.Run, rng *gen.Rand, sidx int, big *bigCase) {
	r.Case()
	dir := ksrig.ScratchDir("c12my")
	defer os.RemoveAll(dir)
	ks, err := ksrig.V1(dir, ksrig.RandBytes(32), keystore.InfiniteCacheSize)
	if err != nil {
		panic(err)
	}
	ksrig.GenClient(ks, []byte(c04.Owner))
	db := fakepg.NewDB()
	var cols []fakepg.Column
	for _, c := range plainTable.Cols {
		cols = append(cols, fakepg.Column{Name: c.Name, Type: c.StoreType})
	}
	db.CreateTable("plain", cols)
	srv, err := fakemysql.NewServer(db)
	if err != nil {
		panic(err)
	}
	defer srv.Close()
	schema, cfgName := emptySchema, "empty"
	if rng.Intn(2) == 0 {
		schema, cfgName = unrelatedSchema, "unrelated-tables"
	}
	a, err := proxyrig.Start(proxyrig.Opts{KS: ks, ClientID: []byte(c04.Owner), DBPort: srv.Port(), SchemaYAML: schema, MySQL: true})
	if err != nil {
		r.Violation("mysql rig: acra could not be started", map[string]interface{}{"err": err.Error()})
		return
	}
	defer a.Stop()
	clientKind := []string{"go-sql-driver", "scripted", "scripted-deprecate-eof"}[rng.Intn(3)]
	if big != nil {
		clientKind = []string{"go-sql-driver", "scripted"}[rng.Intn(2)]
	}
	// scripted replies
	nScripts := 3 + rng.Intn(4)
	var infos []scriptInfo
	for i := 0; i < nScripts; i++ {
		sc, info := scriptedReply(rng)
		infos = append(infos, info)
		srv.SetScript(fmt.Sprintf("select scripted_%d()", i), sc)
		srv.SetScript(fmt.Sprintf("select scripted_%d(?)", i), sc)
	}
	var script []string
	bigClass := ""
	if big != nil {
		bigClass = " big=" + big.Dir + "/" + big.Name
	}
	detail := func(extra map[string]interface{}) map[string]interface{} {
		m := map[string]interface{}{"session": sidx, "config": cfgName, "client": clientKind, "script": script}
		if big != nil {
			m["big"] = *big
		}
		for k, v := range extra {
			m[k] = v
		}
		return m
	}
	ok, timeout := true, false
	var rec *proxyrig.MyRec
	steps := 6 + rng.Intn(18)
	if big != nil {
		steps = 2
	}
	g := proxyrig.NewMySessGen(rng, []proxyrig.TableSpec{plainTable})
	lastKind := "login"
	bigAltered := false
	// compare applies the relay-identity oracle to what was recorded so far. prefixOnly: only bytes present on both sides are compared
	// (used when the session did not end normally: a missing tail is then not evidence).
	compare := func(prefixOnly bool) bool {
		sent := rec.RawOut()
		maxWait := 2000 // up to 10 s on a loaded machine; the loop ends as soon as the bytes are there
		if prefixOnly {
			maxWait = 40 // the session already ended abnormally: only what has arrived is compared
		}
		for i := 0; i < maxWait && srv.RawInLen(1) < len(sent); i++ {
			time.Sleep(5 * time.Millisecond) // bounded wait for bytes already sent to arrive; never a verdict input
			if i%40 == 39 {
				// what has arrived already differs: no point in waiting for the rest
				part := srv.RawInConn(1)
				if len(part) <= len(sent) && !bytes.Equal(part, sent[:len(part)]) {
					break
				}
			}
		}
		got := srv.RawInConn(1)
		dbOut := srv.RawOutConn(1)
		recv := rec.RawIn()
		cut := func(a, b []byte) ([]byte, []byte) {
			if !prefixOnly {
				return a, b
			}
			n := len(a)
			if len(b) < n {
				n = len(b)
			}
			return a[:n], b[:n]
		}
		g2, s2 := cut(got, sent)
		if !prefixOnly && len(got) < len(sent) && bytes.Equal(got, sent[:len(got)]) && len(sent)-len(got) <= 5 {
			// only the final COM_QUIT (which has no reply) has not arrived within the bounded wait: nothing was altered
			r.Inconclusive("mysql relay: COM_QUIT still in flight after the bounded wait")
			return false
		}
		if !bytes.Equal(g2, s2) {
			at := firstDiff(got, sent)
			r.Violation(fmt.Sprintf("mysql relay: client->database stream altered: config=%s at-message=%s%s", cfgName, msgAt(sent, at, true), bigClass), detail(map[string]interface{}{"offset": at, "sent_len": len(sent), "arrived_len": len(got), "sent_at": ev.Hex(window(sent, at)), "arrived_at": ev.Hex(window(got, at))}))
			return false
		}
		r2, d2 := cut(recv, dbOut)
		if !bytes.Equal(r2, d2) {
			at := firstDiff(recv, dbOut)
			r.Violation(fmt.Sprintf("mysql relay: database->client stream altered: config=%s at-message=%s%s", cfgName, serverMsgAt(srv, at), bigClass), detail(map[string]interface{}{"offset": at, "db_sent_len": len(dbOut), "client_got_len": len(recv), "db_sent_at": ev.Hex(window(dbOut, at)), "client_got_at": ev.Hex(window(recv, at))}))
			return false
		}
		return true
	}
	if clientKind == "go-sql-driver" {
		maxPacket := 0
		if rng.Intn(3) > 0 || big != nil {
			maxPacket = 1 << 30
		}
		c, err := proxyrig.DialMy(a.Port, maxPacket)
		if err != nil {
			r.Violation(fmt.Sprintf("mysql relay: session could not be established: client=%s config=%s", clientKind, cfgName), detail(map[string]interface{}{"err": err.Error()}))
			return
		}
		rec = c.MyRec
		check := func(res *proxyrig.MyResult) {
			if res.Broken {
				ok = false
				timeout = res.Timeout
			}
		}
		for i := 0; i < steps && ok; i++ {
			switch x := rng.Intn(100); {
			case big != nil && i == 0:
				lastKind = "big-" + big.Dir
				script = append(script, lastKind)
				check(bigStepDriver(c, srv, rng, *big))
				if ok && !compare(false) {
					bigAltered, ok = true, false
				}
			case x < 45:
				st := g.Next()
				lastKind = "generated-" + st.Proto
				script = append(script, st.Proto+": "+clip(st.SQL, 120))
				for _, res := range proxyrig.RunMyStep(c, st) {
					check(res)
				}
			case x < 60:
				lastKind = "scripted-text"
				sql := fmt.Sprintf("select scripted_%d()", rng.Intn(nScripts))
				script = append(script, "scripted text: "+sql)
				check(c.Query(sql))
			case x < 78:
				lastKind = "scripted-binary"
				sql := fmt.Sprintf("select scripted_%d(?)", rng.Intn(nScripts))
				script = append(script, "scripted binary: "+sql)
				check(c.Query(sql, int64(rng.Intn(100))))
			case x < 84:
				lastKind = "ping"
				script = append(script, "ping")
				if c.Ping() != nil {
					ok = false
					timeout = c.TimedOut()
				}
			case x < 92:
				// a value larger than maxAllowedPacket/(params+1) makes the driver use COM_STMT_SEND_LONG_DATA
				lastKind = "long-data"
				n := 600000 + rng.Intn(100000)
				if maxPacket == 0 {
					n = 1500000 + rng.Intn(100000)
				}
				g.IDs["plain"] = append(g.IDs["plain"], 5000+i)
				script = append(script, fmt.Sprintf("insert with a %d-byte blob parameter (long data when maxAllowedPacket is the default)", n))
				check(c.Exec("insert into plain (id, b, t) values (?, ?, ?)", int64(5000+i), gen.Bytes(rng, n), "after-long"))
			default:
				lastKind = "error-statement"
				script = append(script, "statement the database rejects")
				check(c.Query("select no_such_column from plain"))
			}
		}
		c.Close()
	} else {
		extra := uint32(0)
		if clientKind == "scripted-deprecate-eof" {
			extra = fakemysql.CapDeprecateEOF
		}
		c, err := proxyrig.DialMyRaw(a.Port, extra)
		if err != nil {
			r.Violation(fmt.Sprintf("mysql relay: session could not be established: client=%s config=%s", clientKind, cfgName), detail(map[string]interface{}{"err": err.Error()}))
			return
		}
		rec = c.MyRec
		c.SetNegotiated((proxyrig.MyRawBaseCaps | extra) & srv.Caps)
		g.TextOnly = true
		do := func(payload []byte, kind string) []fakemysql.Frame {
			fr, err := c.Command(payload, kind)
			if err != nil {
				ok = false
				timeout = err == proxyrig.ErrTimeout
			}
			return fr
		}
		nextRawID := 7000
		for i := 0; i < steps && ok; i++ {
			switch x := rng.Intn(100); {
			case big != nil && i == 0:
				lastKind = "big-" + big.Dir
				script = append(script, lastKind)
				if !bigStepRaw(c, srv, rng, *big) {
					ok = false
				} else if !compare(false) {
					bigAltered, ok = true, false
				}
			case x < 30:
				st := g.Next()
				lastKind = "generated-text"
				script = append(script, "COM_QUERY: "+clip(st.SQL, 120))
				do(append([]byte{fakemysql.ComQuery}, st.SQL...), "query")
			case x < 42:
				lastKind = "scripted-text"
				sql := fmt.Sprintf("select scripted_%d()", rng.Intn(nScripts))
				script = append(script, "COM_QUERY: "+sql)
				do(append([]byte{fakemysql.ComQuery}, sql...), "query")
			case x < 72:
				// prepare / execute (typed parameters) / maybe reset / close
				var sql string
				var params []fakemysql.BoundParam
				var names []string
				respScripted := false
				switch rng.Intn(3) {
				case 0:
					sql = fmt.Sprintf("select scripted_%d(?)", rng.Intn(nScripts))
					p, n := rawParam(rng, "n")
					params, names = append(params, p), append(names, n)
					respScripted = true
				case 1:
					nextRawID++
					sql = "insert into plain (id, t, b, n) values (?, ?, ?, ?)"
					for _, col := range []string{"id", "t", "b", "n"} {
						p, n := rawParam(rng, col)
						if col == "id" {
							le := make([]byte, 4)
							binary.LittleEndian.PutUint32(le, uint32(nextRawID))
							p, n = fakemysql.BoundParam{Type: fakemysql.TypeLong, Data: le}, "LONG"
						}
						params, names = append(params, p), append(names, n)
					}
				default:
					sql = "select id, t, b, n from plain where id <> ? order by id"
					p, n := rawParam(rng, "id")
					params, names = append(params, p), append(names, n)
				}
				_ = respScripted
				lastKind = "prepare-execute"
				script = append(script, "COM_STMT_PREPARE: "+sql+" params="+strings.Join(names, ","))
				fr := do(append([]byte{fakemysql.ComStmtPrepare}, sql...), "prepare")
				if !ok || len(fr) == 0 {
					break
				}
				pok, err := fakemysql.DecodePrepareOK(fr[0].Payload)
				if err != nil {
					break // ERR to the prepare: nothing to execute
				}
				useLong := -1
				if len(params) == 4 && rng.Intn(4) == 0 && !params[2].Null {
					useLong = 2
				}
				if useLong >= 0 {
					lastKind = "send-long-data"
					script = append(script, "COM_STMT_SEND_LONG_DATA x2 for parameter 2")
					half := len(params[2].Data) / 2
					for _, part := range [][]byte{params[2].Data[:half], params[2].Data[half:]} {
						p := []byte{fakemysql.ComStmtSendLong, byte(pok.StmtID), byte(pok.StmtID >> 8), byte(pok.StmtID >> 16), byte(pok.StmtID >> 24), 2, 0}
						do(append(p, part...), "none")
					}
					params[2].Omit = true
					params[2].Type = fakemysql.TypeBlob
				}
				do(fakemysql.EncodeExecute(pok.StmtID, params), "execute")
				if ok && rng.Intn(3) == 0 && useLong < 0 {
					script = append(script, "COM_STMT_EXECUTE again")
					do(fakemysql.EncodeExecute(pok.StmtID, params), "execute")
				}
				if ok && rng.Intn(3) == 0 {
					lastKind = "stmt-reset"
					script = append(script, "COM_STMT_RESET")
					do([]byte{fakemysql.ComStmtReset, byte(pok.StmtID), byte(pok.StmtID >> 8), byte(pok.StmtID >> 16), byte(pok.StmtID >> 24)}, "single")
				}
				if ok && rng.Intn(4) != 0 {
					script = append(script, "COM_STMT_CLOSE")
					do([]byte{fakemysql.ComStmtClose, byte(pok.StmtID), byte(pok.StmtID >> 8), byte(pok.StmtID >> 16), byte(pok.StmtID >> 24)}, "none")
				}
			case x < 80:
				lastKind = "ping"
				script = append(script, "COM_PING")
				do([]byte{fakemysql.ComPing}, "single")
			case x < 87:
				lastKind = "init-db"
				script = append(script, "COM_INIT_DB")
				do(append([]byte{fakemysql.ComInitDB}, fmt.Sprintf("db%d", rng.Intn(3))...), "single")
			case x < 93:
				lastKind = "statistics"
				script = append(script, "COM_STATISTICS")
				do([]byte{fakemysql.ComStatistics}, "single")
			default:
				lastKind = "error-statement"
				script = append(script, "COM_QUERY the database rejects")
				do(append([]byte{fakemysql.ComQuery}, "select no_such_column from plain"...), "query")
			}
		}
		if ok {
			c.Close()
		} else {
			c.Abort()
		}
	}
	if bigAltered {
		return
	}
	if timeout {
		// the bytes relayed so far are still evidence: an altered byte inside the common prefix is a violation, a missing tail is not
		if !compare(true) {
			return
		}
		r.Inconclusive(fmt.Sprintf("watchdog: no reply through acra (mysql relay session %d, %s, %s): %v", sidx, clientKind, lastKind, script[len(script)-1:]))
		r.Count("mysql_relay_watchdog", 1)
		return
	}
	if !ok {
		if !compare(true) {
			return
		}
		r.Violation(fmt.Sprintf("mysql relay: connection broke during a valid message sequence: config=%s last=%s%s", cfgName, lastKind, bigClass), detail(nil))
		return
	}
	if un := srv.Unsupported(); len(un) > 0 {
		r.Count("mysql_rig_inconclusive_statement_not_evaluable", int64(len(un)))
		r.SampleN("mysql-unsupported", 3, map[string]interface{}{"forwarded": un[0]})
	}
	if !compare(false) {
		return
	}
	sent, recv := rec.RawOut(), rec.RawIn()
	r.Count("mysql_relay_sessions_byte_identical", 1)
	r.Count("mysql_relay_bytes_compared", int64(len(sent)+len(recv)))
	for _, m := range srv.Log() {
		r.SetAdd("mysql_commands_relayed", m.Name)
		r.Distinct("MyA|" + cfgName + "|C|" + m.Name + "|" + clientKind)
		if m.Packets > 1 {
			r.SetAdd("mysql_length_boundaries_crossed", "client-multi-packet")
			r.Count("mysql_multi_packet_messages_relayed", 1)
		}
		if m.Exec != nil {
			for _, p := range m.Exec.Params {
				r.SetAdd("mysql_param_types_relayed", fmt.Sprint(p.Type))
				if p.Null {
					r.SetAdd("mysql_param_types_relayed", "NULL-bit")
				}
			}
		}
	}
	for _, m := range srv.SentLog() {
		r.SetAdd("mysql_server_packet_kinds_relayed", m.Kind)
		r.Distinct("MyA|" + cfgName + "|S|" + m.Kind + "|" + clientKind)
		if m.Packets > 1 {
			r.SetAdd("mysql_length_boundaries_crossed", "server-multi-packet")
			r.Count("mysql_multi_packet_messages_relayed", 1)
		}
	}
	for _, in := range infos {
		for _, n := range in.Lens {
			r.SetAdd("mysql_length_boundaries_crossed", "field:"+lenClass(n))
		}
		for _, t := range in.Types {
			r.SetAdd("mysql_column_types_relayed", fmt.Sprint(t))
		}
	}
	r.SampleN("mysql-relay-"+clientKind, 2, map[string]interface{}{"config": cfgName, "client": clientKind, "script": script, "bytes_to_db": len(sent), "bytes_to_client": len(recv)})
}

// bigStepDriver sends / receives one message whose payload has exactly big.Payload bytes, through the stock driver.
func bigStepDriver(c *proxyrig.MyClient, srv *fakemysql.Server, rng *gen.Rand, big bigCase) *proxyrig.MyResult {
	switch big.Dir {
	case "query":
		// COM_QUERY payload = 1 + len(sql)
		head := "insert into plain (id, t) values (900, '"
		n := big.Payload - 1 - len(head) - 2
		return c.Exec(head + string(bytes.Repeat([]byte{'q'}, n)) + "')")
	case "execute":
		// COM_STMT_EXECUTE payload = 10 + bitmap(1) + 1 + 2*2 + 8 (LONGLONG id) + lenenc(n) + n
		n := big.Payload - (10 + 1 + 1 + 4 + 8)
		switch {
		case n-4 >= 1<<24: // 8-byte length prefix
			n -= 9
		default:
			n -= 4
		}
		return c.Exec("insert into plain (id, b) values (?, ?)", int64(901), gen.Bytes(rng, n))
	case "textrow", "binaryrow":
		sql := "select scripted_big()"
		args := []interface{}{}
		if big.Dir == "binaryrow" {
			sql = "select scripted_big(?)"
			args = append(args, int64(1))
		}
		srv.SetScript(sql, bigRowScript(rng, big))
		return c.Query(sql, args...)
	}
	return &proxyrig.MyResult{}
}

// bigRowScript answers with one row (id, blob) whose payload has exactly big.Payload bytes, followed by a small row.
func bigRowScript(rng *gen.Rand, big bigCase) fakemysql.Script {
	cols := []fakemysql.ColDef{
		{Schema: "db", Table: "scr", OrgTable: "scripted", Name: "id", OrgName: "id", Charset: 63, Length: 11, Type: fakemysql.TypeLong, Flags: fakemysql.FlagNum},
		{Schema: "db", Table: "scr", OrgTable: "scripted", Name: "b", OrgName: "b", Charset: 63, Length: 1 << 30, Type: fakemysql.TypeLongBlob, Flags: fakemysql.FlagBlob | fakemysql.FlagBinary},
	}
	return func(_ string, bin bool) *fakemysql.Reply {
		var over int
		var id fakemysql.Field
		if bin {
			over = 1 + 1 + 4 // header, NULL bitmap, int
			id = fakemysql.Field{Data: []byte{7, 0, 0, 0}}
		} else {
			over = 2 // "7" as length-encoded string
			id = fakemysql.Field{Data: []byte("7")}
		}
		n := big.Payload - over
		if n-4 >= 1<<24 {
			n -= 9
		} else {
			n -= 4
		}
		small := fakemysql.Field{Data: []byte("8")}
		if bin {
			small = fakemysql.Field{Data: []byte{8, 0, 0, 0}}
		}
		return &fakemysql.Reply{Cols: cols, Rows: [][]fakemysql.Field{{id, {Data: gen.Bytes(rng, n)}}, {small, {Data: []byte("tail")}}}}
	}
}

func bigStepRaw(c *proxyrig.MyRaw, srv *fakemysql.Server, rng *gen.Rand, big bigCase) bool {
	switch big.Dir {
	case "query":
		head := "insert into plain (id, t) values (900, '"
		n := big.Payload - 1 - len(head) - 2
		_, err := c.Command([]byte(string([]byte{fakemysql.ComQuery})+head+string(bytes.Repeat([]byte{'q'}, n))+"')"), "query")
		return err == nil
	case "execute":
		fr, err := c.Command(append([]byte{fakemysql.ComStmtPrepare}, "insert into plain (id, b) values (?, ?)"...), "prepare")
		if err != nil || len(fr) == 0 {
			return false
		}
		pok, err := fakemysql.DecodePrepareOK(fr[0].Payload)
		if err != nil {
			return false
		}
		n := big.Payload - (10 + 1 + 1 + 4 + 8)
		if n-4 >= 1<<24 {
			n -= 9
		} else {
			n -= 4
		}
		_, err = c.Command(fakemysql.EncodeExecute(pok.StmtID, []fakemysql.BoundParam{{Type: fakemysql.TypeLongLong, Data: []byte{0x85, 3, 0, 0, 0, 0, 0, 0}}, {Type: fakemysql.TypeLongBlob, Data: gen.Bytes(rng, n)}}), "execute")
		return err == nil
	case "textrow":
		srv.SetScript("select scripted_big()", bigRowScript(rng, big))
		_, err := c.Command(append([]byte{fakemysql.ComQuery}, "select scripted_big()"...), "query")
		return err == nil
	case "binaryrow":
		srv.SetScript("select scripted_big(?)", bigRowScript(rng, big))
		fr, err := c.Command(append([]byte{fakemysql.ComStmtPrepare}, "select scripted_big(?)"...), "prepare")
		if err != nil || len(fr) == 0 {
			return false
		}
		pok, err := fakemysql.DecodePrepareOK(fr[0].Payload)
		if err != nil {
			return false
		}
		_, err = c.Command(fakemysql.EncodeExecute(pok.StmtID, []fakemysql.BoundParam{{Type: fakemysql.TypeTiny, Data: []byte{1}}}), "execute")
		return err == nil
	}
	return true
}

func firstDiff(a, b []byte) int {
	n := len(a)
	if len(b) < n {
		n = len(b)
	}
	for i := 0; i < n; i++ {
		if a[i] != b[i] {
			return i
		}
	}
	return n
}

func window(b []byte, at int) []byte {
	lo, hi := at-16, at+32
	if lo < 0 {
		lo = 0
	}
	if hi > len(b) {
		hi = len(b)
	}
	if lo > hi {
		lo = hi
	}
	return b[lo:hi]
}

// msgAt names the message of a MySQL stream that contains offset `at`: the command name for client streams, the packet's
// first byte class for server streams.
func msgAt(stream []byte, at int, client bool) string {
	frames, _, _ := fakemysql.SplitFrames(stream)
	pos := 0
	for i, f := range frames {
		size := len(f.Payload) + 4*f.Packets
		if at < pos+size {
			if client {
				if i == 0 {
					return "HandshakeResponse"
				}
				if len(f.Payload) > 0 {
					return fakemysql.CommandName(f.Payload[0])
				}
				return "empty"
			}
			if i == 0 {
				return "Handshake"
			}
			if len(f.Payload) > 0 {
				switch f.Payload[0] {
				case 0x00:
					return "0x00(OK/binary-row)"
				case 0xff:
					return "ERR"
				case 0xfe:
					return "0xfe(EOF)"
				}
			}
			return "data"
		}
		pos += size
	}
	return "beyond-parsed-part"
}

// serverMsgAt names what the database sent at offset `at` of its output stream on connection 1, using the server's own
// record of the packets it emitted: the packet kind and, inside a row, the type id of the field that contains the offset.
func serverMsgAt(srv *fakemysql.Server, at int) string {
	pos := 0
	var defs []fakemysql.ColDef
	for _, m := range srv.SentLog() {
		if m.Conn != 1 {
			continue
		}
		switch m.Kind {
		case "ColumnCount", "PrepareOK":
			defs = nil
		case "ColumnDef":
			if cd, err := fakemysql.DecodeColDef(m.Payload); err == nil {
				defs = append(defs, cd)
			}
		}
		size := len(m.Payload) + 4*m.Packets
		if at >= pos+size {
			pos += size
			continue
		}
		if m.Kind != "TextRow" && m.Kind != "BinaryRow" {
			return m.Kind
		}
		if m.Packets > 1 {
			return m.Kind + "(multi-packet)"
		}
		off := at - pos - 4 // offset inside the payload
		if off < 0 {
			return m.Kind + "(header)"
		}
		var fields []fakemysql.Field
		var err error
		types := make([]byte, len(defs))
		for i := range defs {
			types[i] = defs[i].Type
		}
		if m.Kind == "TextRow" {
			fields, err = fakemysql.DecodeTextRow(m.Payload, len(defs))
		} else {
			fields, err = fakemysql.DecodeBinaryRow(m.Payload, types)
		}
		if err != nil {
			return m.Kind
		}
		// fields alias the payload: locate by address arithmetic on slice offsets
		for i, f := range fields {
			if f.Null || len(f.Data) == 0 {
				continue
			}
			start := cap(m.Payload) - cap(f.Data)
			if off < start+len(f.Data) {
				return fmt.Sprintf("%s(field-type=%d)", m.Kind, types[i])
			}
		}
		return m.Kind
	}
	return "beyond-recorded-part"
}
