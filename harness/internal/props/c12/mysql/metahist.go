package mysql

// Metadata histories of prepared statements (MARIADB_CLIENT_CACHE_METADATA): the scripted database CHANGES the column
// definitions of a prepared statement between its executions, the way a MariaDB server does after the table was altered.
//
//   COM_STMT_PREPARE            definitions D0
//   COM_STMT_EXECUTE            without definitions (metadata-follows = 0): rows laid out by D0
//   COM_STMT_EXECUTE            WITH definitions D1 != D0 (metadata-follows = 1): the client replaces what it holds
//   COM_STMT_EXECUTE            without definitions: rows laid out by D1 - only well-formed under the LATEST definitions
//   COM_STMT_EXECUTE            with definitions D2 ... and so on
//
// D(k+1) differs from D(k) in the wire layout of binary rows (fixed-width type of another width, fixed-width <-> length-encoded,
// columns that exchange their types, a column more / less), in the type id only (same width) or in attributes only (UNSIGNED,
// charset, length, names); a refresh may also repeat the definitions unchanged. Several statements with histories of their own
// are interleaved on one connection, together with COM_QUERY result sets whose definitions change from query to query, COM_PING,
// COM_STMT_RESET and COM_STMT_CLOSE of the others, so that "the definitions in force for a result set without definitions" is
// always "the latest ones THIS statement's client got".
//
// Oracle (online, packet by packet, against what the database logged): statements that select no configured column must be
// delivered byte for byte ("relayed byte-for-byte and in order"); statements with configured columns are judged by the shape
// oracle of the capability matrix (capsJudge: definitions re-parse, names / extended type info kept, rows re-parse against the
// definitions the client holds, field counts, NULL markers and unconfigured fields kept). In sessions with an empty / unrelated
// configuration the whole byte streams of both directions are compared at the end as well.

import (
	"bytes"
	"context"
	"encoding/binary"
	"fmt"
	"os"
	"strings"
	"sync"
	"time"

	trcommon "github.com/cossacklabs/acra/cmd/acra-translator/common"
	"github.com/cossacklabs/acra/keystore"

	"verif/harness/internal/ev"
	"verif/harness/internal/gen"
	"verif/harness/internal/props/c04"
	"verif/harness/internal/rig/fakemysql"
	"verif/harness/internal/rig/fakepg"
	"verif/harness/internal/rig/ksrig"
	"verif/harness/internal/rig/proxyrig"
)

// mhType is one way the database may describe a column no transformation is configured for.
type mhType struct {
	t       byte
	charset uint16
	flags   uint16
	length  uint32
}

var mhTypes = []mhType{
	{fakemysql.TypeTiny, 63, fakemysql.FlagNum, 4}, {fakemysql.TypeTiny, 63, fakemysql.FlagNum | fakemysql.FlagUnsigned, 3},
	{fakemysql.TypeShort, 63, fakemysql.FlagNum, 6}, {fakemysql.TypeYear, 63, fakemysql.FlagNum | fakemysql.FlagUnsigned, 4},
	{fakemysql.TypeInt24, 63, fakemysql.FlagNum, 9}, {fakemysql.TypeLong, 63, fakemysql.FlagNum, 11}, {fakemysql.TypeLong, 63, fakemysql.FlagNum | fakemysql.FlagUnsigned, 10},
	{fakemysql.TypeFloat, 63, fakemysql.FlagNum, 12},
	{fakemysql.TypeLongLong, 63, fakemysql.FlagNum, 20}, {fakemysql.TypeLongLong, 63, fakemysql.FlagNum | fakemysql.FlagUnsigned, 20}, {fakemysql.TypeDouble, 63, fakemysql.FlagNum, 22},
	{fakemysql.TypeVarString, 33, 0, 765}, {fakemysql.TypeVarString, 45, 0, 1020}, {fakemysql.TypeString, 33, 0, 30},
	{fakemysql.TypeBlob, 63, fakemysql.FlagBlob | fakemysql.FlagBinary, 65535}, {fakemysql.TypeMediumBlob, 63, fakemysql.FlagBlob | fakemysql.FlagBinary, 16777215}, {fakemysql.TypeBlob, 33, fakemysql.FlagBlob, 196605},
	{fakemysql.TypeNewDecimal, 63, fakemysql.FlagNum, 12}, {fakemysql.TypeDatetime, 63, fakemysql.FlagBinary, 19}, {fakemysql.TypeTimestamp, 63, fakemysql.FlagBinary, 19},
}

// mhWidth is the width of a binary-protocol value of the type; 0 = preceded by its length (strings, decimals, temporal values).
func mhWidth(t byte) int {
	switch t {
	case fakemysql.TypeTiny:
		return 1
	case fakemysql.TypeShort, fakemysql.TypeYear:
		return 2
	case fakemysql.TypeLong, fakemysql.TypeInt24, fakemysql.TypeFloat:
		return 4
	case fakemysql.TypeLongLong, fakemysql.TypeDouble:
		return 8
	}
	return 0
}

func mhPick(rng *gen.Rand, pred func(mhType) bool) (mhType, bool) {
	var cand []mhType
	for _, t := range mhTypes {
		if pred(t) {
			cand = append(cand, t)
		}
	}
	if len(cand) == 0 {
		return mhType{}, false
	}
	return cand[rng.Intn(len(cand))], true
}

// mhCol is one column of a statement's result.
type mhCol struct {
	name string
	conf *capCol // the configured column of the table it is (shape mode), nil = no transformation configured
	ty   mhType  // how the database describes it (configured columns: the stored type, BLOB family / VAR_STRING)
}

// mhVersion is one state of the statement's metadata.
type mhVersion struct {
	cols   []mhCol
	defs   []fakemysql.ColDef
	change string // how it differs from the version before
}

func (v *mhVersion) types() []byte { return typesOf(v.defs) }

func (v *mhVersion) wire() string {
	var b strings.Builder
	for _, c := range v.cols {
		fmt.Fprintf(&b, "%d,", mhWidth(c.ty.t))
	}
	return b.String()
}

func (v *mhVersion) describe() string {
	var parts []string
	for _, c := range v.cols {
		parts = append(parts, fmt.Sprintf("%s:type=%d/flags=%#x", c.name, c.ty.t, c.ty.flags))
	}
	return strings.Join(parts, " ")
}

func mhDef(rng *gen.Rand, c mhCol, table string, ext bool) fakemysql.ColDef {
	cd := fakemysql.ColDef{Schema: "db", Table: table, OrgTable: table, Name: c.name, OrgName: c.name, Charset: c.ty.charset, Length: c.ty.length, Type: c.ty.t, Flags: c.ty.flags}
	cd, _ = capRichDef(rng, cd, ext)
	return cd
}

var mhStoredTypes = []mhType{
	{fakemysql.TypeBlob, 63, fakemysql.FlagBlob | fakemysql.FlagBinary, 65535}, {fakemysql.TypeMediumBlob, 63, fakemysql.FlagBlob | fakemysql.FlagBinary, 16777215},
	{fakemysql.TypeLongBlob, 63, fakemysql.FlagBlob | fakemysql.FlagBinary, 0xffffffff}, {fakemysql.TypeTinyBlob, 63, fakemysql.FlagBlob | fakemysql.FlagBinary, 255},
	{fakemysql.TypeVarString, 63, fakemysql.FlagBinary, 65535},
}

var mhOps = []string{"fixed-wider", "fixed-narrower", "fixed-to-length-encoded", "length-encoded-to-fixed", "columns-exchange-types", "same-width-other-type", "attributes-only", "column-added", "column-dropped"}

// mhMutate derives the next version: one change of the drawn class (the next applicable one when the drawn class has no
// column to apply to). Definitions of untouched columns stay byte-identical.
func mhMutate(rng *gen.Rand, prev *mhVersion, table string, ext bool, allowCount bool, nextName func() string) *mhVersion {
	v := &mhVersion{cols: append([]mhCol{}, prev.cols...), defs: append([]fakemysql.ColDef{}, prev.defs...)}
	plain := func(pred func(mhCol) bool) []int {
		var out []int
		for i, c := range v.cols {
			if c.conf == nil && pred(c) {
				out = append(out, i)
			}
		}
		return out
	}
	set := func(i int, t mhType) {
		v.cols[i].ty = t
		v.defs[i] = mhDef(rng, v.cols[i], table, ext)
	}
	retype := func(cands []int, pred func(old, nw mhType) bool) bool {
		if len(cands) == 0 {
			return false
		}
		i := cands[rng.Intn(len(cands))]
		old := v.cols[i].ty
		t, ok := mhPick(rng, func(n mhType) bool { return pred(old, n) })
		if !ok {
			return false
		}
		set(i, t)
		return true
	}
	apply := func(op string) bool {
		switch op {
		case "fixed-wider":
			return retype(plain(func(c mhCol) bool { w := mhWidth(c.ty.t); return w > 0 && w < 8 }), func(o, n mhType) bool { return mhWidth(n.t) > mhWidth(o.t) })
		case "fixed-narrower":
			return retype(plain(func(c mhCol) bool { return mhWidth(c.ty.t) > 1 }), func(o, n mhType) bool { return mhWidth(n.t) > 0 && mhWidth(n.t) < mhWidth(o.t) })
		case "fixed-to-length-encoded":
			return retype(plain(func(c mhCol) bool { return mhWidth(c.ty.t) > 0 }), func(o, n mhType) bool { return mhWidth(n.t) == 0 })
		case "length-encoded-to-fixed":
			return retype(plain(func(c mhCol) bool { return mhWidth(c.ty.t) == 0 }), func(o, n mhType) bool { return mhWidth(n.t) > 0 })
		case "same-width-other-type":
			return retype(plain(func(mhCol) bool { return true }), func(o, n mhType) bool { return mhWidth(n.t) == mhWidth(o.t) && n.t != o.t })
		case "columns-exchange-types":
			all := plain(func(mhCol) bool { return true })
			rng.Shuffle(len(all), func(a, b int) { all[a], all[b] = all[b], all[a] })
			for x := 0; x < len(all); x++ {
				for y := x + 1; y < len(all); y++ {
					a, b := all[x], all[y]
					if mhWidth(v.cols[a].ty.t) != mhWidth(v.cols[b].ty.t) {
						ta, tb := v.cols[a].ty, v.cols[b].ty
						set(a, tb)
						set(b, ta)
						return true
					}
				}
			}
			return false
		case "column-added":
			if !allowCount || len(v.cols) >= 7 {
				return false
			}
			c := mhCol{name: nextName(), ty: mhTypes[rng.Intn(len(mhTypes))]}
			at := rng.Intn(len(v.cols) + 1)
			v.cols = append(v.cols[:at], append([]mhCol{c}, v.cols[at:]...)...)
			v.defs = append(v.defs[:at], append([]fakemysql.ColDef{mhDef(rng, c, table, ext)}, v.defs[at:]...)...)
			return true
		case "column-dropped":
			all := plain(func(mhCol) bool { return true })
			if !allowCount || len(v.cols) < 2 || len(all) == 0 {
				return false
			}
			at := all[rng.Intn(len(all))]
			v.cols = append(v.cols[:at], v.cols[at+1:]...)
			v.defs = append(v.defs[:at], v.defs[at+1:]...)
			return true
		default: // attributes-only: the layout of rows stays, the description changes
			i := rng.Intn(len(v.cols))
			c := v.cols[i]
			switch {
			case c.conf != nil:
				c.ty = mhStoredTypes[rng.Intn(len(mhStoredTypes))]
			case mhWidth(c.ty.t) > 0 && c.ty.t != fakemysql.TypeYear && c.ty.t != fakemysql.TypeFloat && c.ty.t != fakemysql.TypeDouble:
				c.ty.flags ^= fakemysql.FlagUnsigned
			default:
				c.ty.length = uint32(1 + rng.Intn(1<<16))
				if c.ty.charset != 63 {
					c.ty.charset = []uint16{33, 45, 8, 224}[rng.Intn(4)]
				}
			}
			v.cols[i] = c
			v.defs[i] = mhDef(rng, c, table, ext)
			return true
		}
	}
	start := rng.Intn(len(mhOps))
	for k := 0; k < len(mhOps); k++ {
		op := mhOps[(start+k)%len(mhOps)]
		if apply(op) {
			v.change = op
			break
		}
	}
	return v
}

// mhStep is one use of the statement (COM_STMT_EXECUTE, or COM_QUERY for a text statement).
type mhStep struct {
	kind string // without-definitions | definitions-changed | definitions-repeated
	ver  int
	rows [][]fakemysql.Field
}

type mhStmt struct {
	n          int
	sql        string
	text       bool
	hasParam   bool
	configured bool // the statement selects a configured column
	versions   []*mhVersion
	steps      []mhStep
	next       int
	prepared   bool
	closed     bool
	id         uint32
	judge      *capsJudge
	held       string // where the definitions the client holds came from: prepare | execute
	heldVer    int
	prevVer    int // what the client held before the last replacement
	lastChange string
}

func (st *mhStmt) done() bool { return st.next >= len(st.steps) }

// script answers the statement at the database: the first call of a prepared statement is its COM_STMT_PREPARE.
func (st *mhStmt) script() fakemysql.Script {
	var mu sync.Mutex
	calls := 0
	return func(string, bool) *fakemysql.Reply {
		mu.Lock()
		k := calls
		calls++
		mu.Unlock()
		if !st.text {
			if k == 0 {
				return &fakemysql.Reply{Cols: st.versions[0].defs}
			}
			k--
		}
		if k >= len(st.steps) {
			k = len(st.steps) - 1
		}
		sp := st.steps[k]
		md := fakemysql.MetadataSend
		if sp.kind == "without-definitions" {
			md = fakemysql.MetadataSkip
		}
		return &fakemysql.Reply{Cols: st.versions[sp.ver].defs, Rows: sp.rows, Metadata: md}
	}
}

type mhSession struct {
	r       *ev.Run
	rng     *gen.Rand
	prof    capProfile
	mode    string // relay | shape
	cfgName string
	srv     *fakemysql.Server
	c       *proxyrig.MyRaw
	shape   *capsShape
	encrypt func(capCol, []byte) []byte
	stmts   []*mhStmt
	lastN   int
	broken  bool
	timeout bool
}

func (s *mhSession) rowsFor(v *mhVersion, text bool) [][]fakemysql.Field {
	rng := s.rng
	n := 1 + rng.Intn(3)
	var rows [][]fakemysql.Field
	for i := 0; i < n; i++ {
		var row []fakemysql.Field
		for _, c := range v.cols {
			// the first row has a value in every column: a row split by other definitions than its own cannot come out right
			if i > 0 && rng.Intn(5) == 0 {
				row = append(row, fakemysql.Field{Null: true})
				continue
			}
			if c.conf != nil {
				plain := capPlain(rng, c.conf.DataType)
				val := plain
				if len(plain) > 0 {
					val = s.encrypt(*c.conf, plain)
				}
				row = append(row, fakemysql.Field{Data: val})
				continue
			}
			tx, bn := scriptedValue(rng, c.ty.t)
			if text {
				row = append(row, fakemysql.Field{Data: tx})
			} else {
				row = append(row, fakemysql.Field{Data: bn})
			}
		}
		rows = append(rows, row)
	}
	return rows
}

// plan draws the history of one statement.
func (s *mhSession) plan(st *mhStmt, cols []mhCol, table string, nSteps int) {
	rng, ext := s.rng, s.prof.extBoth()
	v0 := &mhVersion{cols: cols, change: "-"}
	for _, c := range cols {
		v0.defs = append(v0.defs, mhDef(rng, c, table, ext))
	}
	st.versions = []*mhVersion{v0}
	nameN := 0
	nextName := func() string { nameN++; return fmt.Sprintf("added%d", nameN) }
	allowCount := s.mode == "relay"
	kinds := make([]string, nSteps)
	for i := range kinds {
		switch x := rng.Intn(100); {
		case st.text && x < 70, !st.text && x < 35:
			kinds[i] = "definitions-changed"
		case st.text, x < 50:
			kinds[i] = "definitions-repeated"
		default:
			kinds[i] = "without-definitions"
		}
	}
	if !st.text && nSteps >= 2 {
		// every history holds the sequence the layer exists for: changed definitions, then a result set without any
		k := rng.Intn(nSteps - 1)
		kinds[k], kinds[k+1] = "definitions-changed", "without-definitions"
	}
	cur := 0
	for i, kind := range kinds {
		if kind == "definitions-changed" {
			st.versions = append(st.versions, mhMutate(rng, st.versions[cur], table, ext, allowCount, nextName))
			cur = len(st.versions) - 1
		}
		st.steps = append(st.steps, mhStep{kind: kinds[i], ver: cur, rows: s.rowsFor(st.versions[cur], st.text)})
	}
}

func (s *mhSession) label(st *mhStmt, stepKind string) string {
	if st.text {
		return fmt.Sprintf("metadata-history[text-resultset:%s last-change=%s]", stepKind, st.lastChange)
	}
	return fmt.Sprintf("metadata-history[execute:%s client-holds-definitions-of=%s last-change=%s]", stepKind, st.held, st.lastChange)
}

// feed judges one delivered packet of a response that belongs to st.
func (s *mhSession) feed(st *mhStmt, proto string, f fakemysql.Frame) bool {
	j := st.judge
	if !st.configured {
		dbSent := s.srv.SentLog()
		if i := j.sentStart + j.idx; i < len(dbSent) {
			d := dbSent[i]
			if f.Seq == d.Seq && !bytes.Equal(f.Payload, d.Payload) {
				kind := d.Kind
				if j.skipped && (kind == "BinaryRow" || kind == "TextRow") {
					kind += "/metadata-skipped"
				}
				held := "-"
				if st.heldVer < len(st.versions) {
					held = st.versions[st.heldVer].describe()
				}
				s.r.Violation(fmt.Sprintf("mysql metadata history: packet of a statement that selects no configured column was changed: message=%s stmt=%s proto=%s config=%s %s", kind, s.shape.stmtKind, proto, s.cfgName, s.prof.Key()),
					s.shape.detail(map[string]interface{}{"db": ev.Hex(d.Payload), "client": ev.Hex(f.Payload), "index_in_response": j.idx, "definitions_the_client_holds": held, "definitions_at_prepare": st.versions[0].describe()}))
				j.failed = true
				return false
			}
		}
	}
	return j.feed(f)
}

// run sends one command whose response belongs to st (nil: a command that concerns no statement) and has it judged online.
func (s *mhSession) run(st *mhStmt, label, proto string, payload []byte, respKind string) ([]fakemysql.Frame, bool) {
	r := s.r
	if st == nil {
		st = &mhStmt{n: -1, judge: &capsJudge{s: s.shape, srv: s.srv}}
	}
	j := st.judge
	j.sentStart, j.idx, j.proto = s.srv.SentLen(), 0, proto
	s.shape.stmtKind = label
	fr, err := s.c.CommandCapsEach(payload, respKind, func(f fakemysql.Frame) bool { return s.feed(st, proto, f) })
	switch {
	case err == proxyrig.ErrAborted:
		s.broken = true
		return fr, false // the judge reported what it saw
	case err == proxyrig.ErrTimeout:
		r.Inconclusive("watchdog in mysql metadata history step (" + label + ")")
		r.Count("mysql_metahist_watchdog", 1)
		s.broken, s.timeout = true, true
		return fr, false
	case err != nil:
		r.Violation(fmt.Sprintf("mysql metadata history: connection broke during a valid message sequence: stmt=%s proto=%s config=%s %s", label, proto, s.cfgName, s.prof.Key()), s.shape.detail(map[string]interface{}{"err": err.Error()}))
		s.broken = true
		return fr, false
	}
	if j.failed {
		s.broken = true
		return fr, false
	}
	if respKind != "none" {
		if dbSent := s.srv.SentLog()[j.sentStart:]; j.idx != len(dbSent) {
			var kinds []string
			for _, m := range dbSent {
				kinds = append(kinds, m.Kind)
			}
			r.Violation(s.shape.sig("number of delivered packets differs", "-", proto), s.shape.detail(map[string]interface{}{"db_sent": len(dbSent), "client_got": j.idx, "db_kinds": strings.Join(kinds, ",")}))
			s.broken = true
			return fr, false
		}
	}
	return fr, true
}

func (s *mhSession) note(format string, a ...interface{}) {
	s.shape.history = append(s.shape.history, fmt.Sprintf(format, a...))
}

// forwardedUnchanged: the statement reached the database in the client's spelling (the script was found by it).
func (s *mhSession) forwardedUnchanged(st *mhStmt, logStart int) bool {
	for _, m := range s.srv.Log()[logStart:] {
		if (m.Cmd == fakemysql.ComQuery || m.Cmd == fakemysql.ComStmtPrepare) && m.SQL != st.sql {
			s.r.Count("mysql_metahist_rig_inconclusive_statement_text_changed", 1)
			s.r.SampleN("mysql-metahist-statement-text-changed", 2, map[string]interface{}{"sent": st.sql, "forwarded": m.SQL})
			s.broken = true
			return false
		}
	}
	return true
}

// misSplit: would the row come out differently when it is cut by `stale` instead of by its own definitions?
func misSplit(row []byte, stale []byte) bool {
	fields, err := fakemysql.DecodeBinaryRow(row, stale)
	return err != nil || !bytes.Equal(fakemysql.EncodeBinaryRow(fields, stale), row)
}

// step runs the next use of st.
func (s *mhSession) step(st *mhStmt) bool {
	r, rng := s.r, s.rng
	if !st.text && !st.prepared {
		s.note("stmt#%d COM_STMT_PREPARE %s: %s", st.n, st.sql, st.versions[0].describe())
		logStart := s.srv.LogLen()
		fr, ok := s.run(st, "metadata-history[prepare]", "binary", append([]byte{fakemysql.ComStmtPrepare}, st.sql...), "prepare")
		if !ok || len(fr) == 0 {
			return false
		}
		pok, err := fakemysql.DecodePrepareOK(fr[0].Payload)
		if err != nil {
			s.broken = true
			return false
		}
		if !s.forwardedUnchanged(st, logStart) {
			return false
		}
		st.id, st.prepared, st.held, st.heldVer, st.lastChange = pok.StmtID, true, "prepare", 0, "none"
		r.Count("mysql_metahist_statements_prepared", 1)
		s.lastN = st.n
		return true
	}
	sp := st.steps[st.next]
	v := st.versions[sp.ver]
	cache := s.prof.cacheBoth()
	if sp.kind == "definitions-changed" {
		st.lastChange = v.change
	}
	kind := sp.kind
	if !cache && !st.text && kind == "without-definitions" {
		kind = "definitions-repeated" // the capability is not in force: the server sends them
	}
	label := s.label(st, kind)
	interleaved := s.lastN != st.n
	var ok bool
	logStart := s.srv.LogLen()
	if st.text {
		s.note("stmt#%d COM_QUERY %s [%s]: %s", st.n, st.sql, kind, v.describe())
		_, ok = s.run(st, label, "text", append([]byte{fakemysql.ComQuery}, st.sql...), "query")
	} else {
		s.note("stmt#%d COM_STMT_EXECUTE id=%d [%s, change=%s]: %s", st.n, st.id, kind, st.lastChange, v.describe())
		var params []fakemysql.BoundParam
		if st.hasParam {
			le := make([]byte, 4)
			binary.LittleEndian.PutUint32(le, uint32(rng.Intn(100)))
			params = []fakemysql.BoundParam{{Type: fakemysql.TypeLong, Data: le}}
		}
		_, ok = s.run(st, label, "binary", fakemysql.EncodeExecute(st.id, params), "execute")
	}
	if !ok {
		return false
	}
	if st.text && !s.forwardedUnchanged(st, logStart) {
		return false
	}
	st.next++
	s.lastN = st.n
	// what was exercised (measured on the packets the database sent and the client received unharmed)
	mode := s.mode
	if !st.configured {
		mode += "/no-configured-column"
	}
	r.Distinct("MyH|" + mode + "|" + s.prof.Key() + "|" + label)
	if st.text {
		r.Count("mysql_metahist_text_result_sets_judged", 1)
		if sp.kind == "definitions-changed" {
			r.Count("mysql_metahist_text_result_sets_with_changed_definitions", 1)
			r.SetAdd("mysql_metahist_change_classes_text", v.change)
		}
		return true
	}
	r.Count("mysql_metahist_executions_judged", 1)
	if interleaved {
		r.Count("mysql_metahist_executions_after_a_command_for_another_statement", 1)
	}
	if kind != "without-definitions" {
		if sp.kind == "definitions-changed" {
			r.Count("mysql_metahist_refreshes_with_changed_definitions", 1)
			r.SetAdd("mysql_metahist_change_classes", v.change)
		} else {
			r.Count("mysql_metahist_refreshes_with_repeated_definitions", 1)
		}
		if cache {
			if st.heldVer != sp.ver {
				st.prevVer = st.heldVer
			}
			st.held, st.heldVer = "execute", sp.ver
		}
		return true
	}
	r.Count("mysql_metahist_result_sets_without_definitions", 1)
	if st.held == "execute" {
		r.Count("mysql_metahist_result_sets_without_definitions_after_a_refresh", 1)
		if v.wire() != st.versions[0].wire() {
			r.Count("mysql_metahist_result_sets_without_definitions_whose_layout_differs_from_prepare_time", 1)
			r.SetAdd("mysql_metahist_change_classes_followed_by_result_set_without_definitions", st.lastChange)
		}
		for _, row := range sp.rows {
			enc := fakemysql.EncodeBinaryRow(row, v.types())
			if misSplit(enc, st.versions[0].types()) {
				r.Count("mysql_metahist_rows_without_definitions_mis_split_by_prepare_time_definitions", 1)
			}
			if st.prevVer != sp.ver && misSplit(enc, st.versions[st.prevVer].types()) {
				r.Count("mysql_metahist_rows_without_definitions_mis_split_by_superseded_definitions", 1)
			}
		}
	}
	return true
}

// mhProfile: the capability is in force in six sessions of seven (the seventh is the control group: every result set carries
// its definitions, which change all the same); the rest of the matrix is enumerated / drawn as everywhere.
func mhProfile(rng *gen.Rand, n int) capProfile {
	p := drawProfile(rng, n)
	p.Maria, p.CacheMeta, p.SkipMetadata = true, "both", "never"
	p.DeprecateEOF = n%2 == 1
	p.ExtInfo = capExtCycle[n%len(capExtCycle)]
	if n%7 == 6 {
		p.CacheMeta = []string{"none", "client-only", "server-only"}[(n/7)%3]
	}
	return p
}

func metaHistSession(r *ev.Run, rng *gen.Rand, sidx, n int) {
	r.Case()
	prof := mhProfile(rng, n)
	mode := "relay"
	if n%3 == 2 {
		mode = "shape"
	}
	dir := ksrig.ScratchDir("c12mymh")
	defer os.RemoveAll(dir)
	ks, err := ksrig.V1(dir, ksrig.RandBytes(32), keystore.InfiniteCacheSize)
	if err != nil {
		panic(err)
	}
	ksrig.GenClient(ks, []byte(c04.Owner))
	s := &mhSession{r: r, rng: rng, prof: prof, mode: mode, lastN: -1}
	var cols []capCol
	var table string
	schema := emptySchema
	s.cfgName = "empty"
	switch {
	case mode == "shape":
		ts, err := trcommon.NewTranslatorService(&trcommon.TranslatorData{Keystorage: ks})
		if err != nil {
			panic(err)
		}
		s.encrypt = func(c capCol, plain []byte) []byte {
			var out []byte
			var err error
			if c.Envelope == "acrablock" {
				out, err = ts.EncryptSym(context.Background(), plain, []byte(c04.Owner), nil)
			} else {
				out, err = ts.Encrypt(context.Background(), plain, []byte(c04.Owner), nil)
			}
			if err != nil {
				panic(err)
			}
			return out
		}
		var spec proxyrig.TableSpec
		cols, spec = capTable(rng, sidx%7)
		for _, name := range []string{"p0", "p1", "p2", "p3"} {
			spec.Cols = append(spec.Cols, proxyrig.ColSpec{Name: name, AppType: fakepg.Bytea, StoreType: fakepg.Bytea})
		}
		table = spec.Name
		schema = proxyrig.YAML([]proxyrig.TableSpec{spec})
		s.cfgName = "encrypted-typed-columns"
	case rng.Intn(2) == 0:
		schema, s.cfgName = unrelatedSchema, "unrelated-tables"
	}
	srv, err := fakemysql.NewServer(fakepg.NewDB())
	if err != nil {
		panic(err)
	}
	defer srv.Close()
	srv.Hand = prof.greeting(rng)
	s.srv = srv
	a, err := proxyrig.Start(proxyrig.Opts{KS: ks, ClientID: []byte(c04.Owner), DBPort: srv.Port(), SchemaYAML: schema, MySQL: true})
	if err != nil {
		r.Violation("mysql rig: acra could not be started (generated configuration rejected)", map[string]interface{}{"err": err.Error(), "schema": schema})
		return
	}
	defer a.Stop()
	s.shape = &capsShape{r: r, prof: prof, sidx: sidx, table: table, cols: map[string]capCol{}, schema: schema, stmtKind: "metadata-history[login]"}
	for _, c := range cols {
		s.shape.cols[c.Name] = c
	}
	c, g, _, err := proxyrig.DialMyRawLogin(a.Port, prof.login(rng))
	if err != nil {
		r.Violation(s.shape.sig("session could not be established", "-", "-"), s.shape.detail(map[string]interface{}{"err": err.Error()}))
		return
	}
	defer c.Abort()
	s.c = c
	c.SetWatchdog(4 * time.Second) // expiry is inconclusive, never a verdict: every complete packet delivered before it has been judged
	if (c.Ext&fakemysql.MariaExtendedTypeInfo != 0) != prof.extBoth() || (c.Ext&fakemysql.MariaCacheMetadata != 0) != prof.cacheBoth() || g.MariaDB != prof.Maria {
		r.Inconclusive("mysql metadata history: negotiated capabilities are not the profile's (rig)")
		return
	}
	// the statements of the session and their histories
	nBin := 2 + rng.Intn(2)
	for k := 0; k < nBin+1; k++ {
		st := &mhStmt{n: k, text: k == nBin, hasParam: rng.Intn(2) == 0, lastChange: "none", held: "-"}
		st.judge = &capsJudge{s: s.shape, srv: srv}
		var mc []mhCol
		var tbl string
		if mode == "shape" {
			tbl = table
			var names []string
			var typed []capCol
			for _, cc := range cols {
				if cc.Kind != "" {
					typed = append(typed, cc)
				}
			}
			rng.Shuffle(len(typed), func(i, j int) { typed[i], typed[j] = typed[j], typed[i] })
			nConf := 1 + rng.Intn(2)
			if k == 1 {
				nConf = 0 // one statement of the session selects unconfigured columns only
			}
			for i := 0; i < nConf && i < len(typed); i++ {
				cc := typed[i]
				mc = append(mc, mhCol{name: cc.Name, conf: &cc, ty: mhStoredTypes[rng.Intn(len(mhStoredTypes))]})
				st.configured = true
			}
			pool := []string{"id", "note", "raw", "p0", "p1", "p2", "p3"}
			rng.Shuffle(len(pool), func(i, j int) { pool[i], pool[j] = pool[j], pool[i] })
			for _, name := range pool[:2+rng.Intn(3)] {
				mc = append(mc, mhCol{name: name, ty: mhTypes[rng.Intn(len(mhTypes))]})
			}
			rng.Shuffle(len(mc), func(i, j int) { mc[i], mc[j] = mc[j], mc[i] })
			for _, c := range mc {
				names = append(names, c.name)
			}
			st.sql = fmt.Sprintf("select %s from %s", strings.Join(names, ", "), tbl)
		} else {
			tbl = fmt.Sprintf("mh_%d", k)
			for f := 0; f < 2+rng.Intn(4); f++ {
				mc = append(mc, mhCol{name: fmt.Sprintf("f%d", f), ty: mhTypes[rng.Intn(len(mhTypes))]})
			}
			st.sql = "select * from " + tbl
		}
		if st.text {
			st.hasParam = false
		}
		if st.hasParam {
			st.sql += " where id <> ?"
		}
		st.sql += fmt.Sprintf(" limit %d", 100+k) // every statement of the session has a text of its own
		nSteps := 4 + rng.Intn(4)
		if st.text {
			nSteps = 2 + rng.Intn(3)
		}
		s.plan(st, mc, tbl, nSteps)
		srv.SetScript(st.sql, st.script())
		s.stmts = append(s.stmts, st)
	}
	// the schedule: the next use of a randomly chosen unfinished statement, with other commands in between
	for !s.broken {
		var open []*mhStmt
		for _, st := range s.stmts {
			if !st.done() {
				open = append(open, st)
			}
		}
		if len(open) == 0 {
			break
		}
		st := open[rng.Intn(len(open))]
		if !s.step(st) {
			break
		}
		if st.done() && !st.text && rng.Intn(3) > 0 {
			s.note("stmt#%d COM_STMT_CLOSE", st.n)
			s.run(nil, "metadata-history[close]", "binary", stmtIDBytes(fakemysql.ComStmtClose, st.id), "none")
			st.closed = true
			r.Count("mysql_metahist_statements_closed_while_others_go_on", 1)
		}
		switch x := rng.Intn(100); {
		case x < 8:
			s.note("COM_PING")
			s.run(nil, "metadata-history[ping]", "-", []byte{fakemysql.ComPing}, "single")
			s.lastN = -1
		case x < 16:
			var prepared []*mhStmt
			for _, o := range s.stmts {
				if o.prepared && !o.closed {
					prepared = append(prepared, o)
				}
			}
			if len(prepared) > 0 {
				o := prepared[rng.Intn(len(prepared))]
				s.note("stmt#%d COM_STMT_RESET", o.n)
				s.run(nil, "metadata-history[stmt-reset]", "binary", stmtIDBytes(fakemysql.ComStmtReset, o.id), "single")
				r.Count("mysql_metahist_statement_resets", 1)
				s.lastN = -1
			}
		}
	}
	if s.broken {
		return
	}
	c.Close()
	if mode == "relay" {
		sigTail := "metadata-history config=" + s.cfgName + " " + prof.Key()
		if !compareRelay(r, srv, c.MyRec, false, prof.cacheBoth(), sigTail, s.shape.detail) {
			return
		}
		r.Count("mysql_metahist_relay_sessions_byte_identical", 1)
		r.Count("mysql_metahist_relay_bytes_compared", int64(len(c.RawOut())+len(c.RawIn())))
	}
	r.Count("mysql_metahist_sessions_completed", 1)
	r.SetAdd("mysql_metahist_profiles", prof.Key()+" config="+s.cfgName)
	var hist []string
	for _, st := range s.stmts {
		var ks []string
		for _, sp := range st.steps {
			ks = append(ks, fmt.Sprintf("%s(v%d)", sp.kind, sp.ver))
		}
		var ch []string
		for _, v := range st.versions[1:] {
			ch = append(ch, v.change)
		}
		hist = append(hist, fmt.Sprintf("%s: %s; changes: %s", st.sql, strings.Join(ks, " "), strings.Join(ch, ",")))
	}
	r.SampleN("mysql-metadata-history:"+mode, 3, map[string]interface{}{"capabilities": prof.Key(), "config": s.cfgName, "statements": hist, "commands": s.shape.history})
}

// metaHistLayer runs the metadata histories.
func metaHistLayer(r *ev.Run, only int) {
	t0 := time.Now()
	defer func() { r.Extra("mysql_metahist_layer_wall_s", time.Since(t0).Seconds()) }()
	r.Rule += " || MySQL metadata histories (MARIADB_CLIENT_CACHE_METADATA in force in 6 sessions of 7, CLIENT_DEPRECATE_EOF on/off, extended type info cycled): 3-4 statements per connection (2-3 prepared, one COM_QUERY text statement), each with a scripted history at the database: definitions D0 at COM_STMT_PREPARE; 4-7 executions that come without definitions, with CHANGED definitions (one change per refresh: fixed-width type of another width, fixed-width <-> length-encoded, two columns exchange their types, same width but other type id, attributes only (UNSIGNED / charset / length / names), with an empty / unrelated configuration also a column more / less) or with repeated definitions; every history holds 'changed, then without definitions', rows are encoded by the definitions in force and the first row of every result set has no NULL, so that it is well-formed under the latest definitions only; the uses of the statements are interleaved at random with each other, COM_PING, COM_STMT_RESET and COM_STMT_CLOSE of finished statements. Judged packet by packet against the database's log: statements that select no configured column byte-identical (empty / unrelated configuration: both whole streams as well); statements with encrypted typed columns by the shape oracle against the definitions the client holds for THAT statement (prepare response or the last execution that carried definitions). distinct = (mode, capabilities, kind of use, origin of the held definitions, class of the last change)"
	rng := gen.New(r.Seed, "c12-mysql-metahist")
	nS := r.Pick(30, 240)
	for n := 0; n < nS; n++ {
		srng := gen.New(r.Seed, fmt.Sprintf("c12my-mh-%d-%d", n, rng.Int63()))
		if only >= 0 && only != 7000+n {
			continue
		}
		metaHistSession(r, srng, 7000+n, n)
	}
	if only >= 0 {
		return
	}
	r.RequireAtLeast("mysql_metahist_sessions_completed", 15)
	r.RequireAtLeast("mysql_metahist_relay_sessions_byte_identical", 8)
	r.RequireAtLeast("mysql_metahist_refreshes_with_changed_definitions", 40)
	r.RequireAtLeast("mysql_metahist_result_sets_without_definitions_after_a_refresh", 30)
	r.RequireAtLeast("mysql_metahist_result_sets_without_definitions_whose_layout_differs_from_prepare_time", 15)
	r.RequireAtLeast("mysql_metahist_rows_without_definitions_mis_split_by_prepare_time_definitions", 20)
	r.RequireAtLeast("mysql_metahist_rows_without_definitions_mis_split_by_superseded_definitions", 20)
	r.RequireAtLeast("mysql_metahist_executions_after_a_command_for_another_statement", 30)
	r.RequireAtLeast("mysql_metahist_text_result_sets_with_changed_definitions", 10)
	r.RequireSetAtLeast("mysql_metahist_change_classes_followed_by_result_set_without_definitions", 5)
}
