package mysql

import (
	"fmt"
	"os"
	"testing"

	"verif/harness/internal/ev"
	"verif/harness/internal/rig/proxyrig"
)

// TestMetaHistDev runs the metadata histories alone (development aid); evidence goes to $VERIF_ROOT.
func TestMetaHistDev(t *testing.T) {
	if os.Getenv("VERIF_ROOT") == "" {
		t.Skip("set VERIF_ROOT to a scratch directory")
	}
	proxyrig.SetDialect(true)
	defer proxyrig.SetDialect(false)
	r := ev.New("C12", "exploration")
	only := -1
	if v := os.Getenv("VERIF_C12MY_SESSION"); v != "" {
		fmt.Sscan(v, &only)
	}
	metaHistLayer(r, only)
	r.Distinct("dev-run")
	r.Distinct("dev-run2")
	if rc := r.Finish(); rc != 0 {
		t.Fatalf("layer reported violations (rc=%d)", rc)
	}
}
