package mysql

import (
	"testing"

	"verif/harness/internal/ev"
	"verif/harness/internal/props/c12"
)

func TestFullDev(t *testing.T) {
	r := ev.New("C12", "exploration")
	c12.Run(r)
	r.Finish()
}
