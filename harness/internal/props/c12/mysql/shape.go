package mysql

import (
	"bytes"
	"fmt"
	"os"
	"strings"
	"time"

	"github.com/cossacklabs/acra/keystore"

	"verif/harness/internal/ev"
	"verif/harness/internal/gen"
	"verif/harness/internal/props/c04"
	"verif/harness/internal/rig/fakemysql"
	"verif/harness/internal/rig/fakepg"
	"verif/harness/internal/rig/ksrig"
	"verif/harness/internal/rig/proxyrig"
)

// --- phase B: rewritten messages keep their shape ---

var shapeLens = []int{130, 180, 240, 250, 251, 252, 300, 65400, 65535, 65536, 65600}

func openWorld(r *ev.Run, tables []proxyrig.TableSpec) (*proxyrig.MyWorld, func(), bool) {
	dir := ksrig.ScratchDir("c12myw")
	ks, err := ksrig.V1(dir, ksrig.RandBytes(32), keystore.InfiniteCacheSize)
	if err != nil {
		panic(err)
	}
	for _, id := range []string{c04.Owner, c04.Other} {
		if err := ksrig.GenClient(ks, []byte(id)); err != nil {
			panic(err)
		}
	}
	w, err := proxyrig.NewMyWorld(proxyrig.WorldOpts{Tables: tables, KS: ks, Clients: []string{c04.Owner}})
	if err != nil {
		os.RemoveAll(dir)
		r.Violation("mysql rig: world could not be built (generated configuration rejected)", map[string]interface{}{"err": err.Error()})
		return nil, func() {}, false
	}
	return w, func() { w.Close(); os.RemoveAll(dir) }, true
}

func shapeSession(r *ev.Run, rng *gen.Rand, sidx int) {
	tables := proxyrig.GenTables(rng, 1+rng.Intn(2), c04.Other, nil)
	w, closeAll, ok := openWorld(r, tables)
	if !ok {
		return
	}
	defer closeAll()
	c, err := proxyrig.DialMy(w.Acras[c04.Owner].Port, 1<<26)
	if err != nil {
		r.Inconclusive("cannot connect to acra (mysql): " + err.Error())
		return
	}
	defer c.Close()
	g := proxyrig.NewMySessGen(rng, tables)
	n := 6 + rng.Intn(22)
	var history []string
	for i := 0; i < n; i++ {
		var st proxyrig.MyStep
		if i > 0 && rng.Intn(7) == 0 {
			st = boundaryInsert(g, rng)
		} else if i > 0 && rng.Intn(8) == 0 {
			st = signedParamUpdate(g, rng)
		} else {
			st = g.Next()
		}
		history = append(history, fmt.Sprintf("[%s] %s", st.Proto, clip(st.SQL, 200)))
		if !shapeStep(r, w, c, st, history, sidx) {
			return
		}
	}
}

// boundaryInsert writes a value whose plaintext/ciphertext lengths straddle a length-encoding boundary into a configured bytes/text column.
func boundaryInsert(g *proxyrig.MySessGen, rng *gen.Rand) proxyrig.MyStep {
	st := g.Insert()
	t := g.Tables[0]
	for _, tt := range g.Tables {
		if tt.Name == st.Table {
			t = tt
		}
	}
	var cands []proxyrig.ColSpec
	for _, c := range t.Cols {
		if c.Configured() && c.Kind != "token" && (c.AppType == fakepg.Bytea || c.AppType == fakepg.Text) {
			cands = append(cands, c)
		}
	}
	if len(cands) == 0 {
		return st
	}
	c := cands[rng.Intn(len(cands))]
	n := shapeLens[rng.Intn(len(shapeLens))]
	var v proxyrig.Val
	if c.AppType == fakepg.Text {
		v = proxyrig.Val{Type: fakepg.Text, S: "MKB" + string(gen.Content(rng, "ascii", n-3))}
		v.S = strings.Map(func(r rune) rune {
			if r == '\\' || r == '\'' || r == '"' {
				return 'z'
			}
			return r
		}, v.S)
	} else {
		v = proxyrig.Val{Type: fakepg.Bytea, B: append([]byte("MKB"), gen.Bytes(rng, n-3)...)}
	}
	id := 8000 + rng.Intn(1000)
	g.IDs[t.Name] = append(g.IDs[t.Name], id)
	usePrepared := rng.Intn(2) == 0
	out := proxyrig.MyStep{Kind: "insert", Table: t.Name, Tag: fmt.Sprintf("boundary-length-%d", n), Writes: []proxyrig.Written{{Table: t.Name, Col: c.Name, V: v}}}
	if usePrepared {
		out.SQL = fmt.Sprintf("insert into %s (id, %s) values (?, ?)", t.Name, c.Name)
		out.Args = []interface{}{int64(id), proxyrig.MyArg(v)}
		out.ArgCols = []string{"id", c.Name}
		out.Proto = "prepared-oneshot"
	} else {
		out.SQL = fmt.Sprintf("insert into %s (id, %s) values (%d, %s)", t.Name, c.Name, id, proxyrig.MyLiteral(v, 0))
		out.Proto = "text"
	}
	return out
}

// signedParamUpdate binds, next to a parameter of a configured column (which Acra rewrites, re-encoding the whole parameter
// block), integer parameters of the unconfigured id column whose value depends on the signedness flag: a negative BIGINT
// and an unsigned BIGINT above 2^63.
func signedParamUpdate(g *proxyrig.MySessGen, rng *gen.Rand) proxyrig.MyStep {
	t := g.Tables[rng.Intn(len(g.Tables))]
	var cands []proxyrig.ColSpec
	for _, c := range t.Cols {
		if c.Configured() && c.Kind != "token" && c.AppType == fakepg.Bytea {
			cands = append(cands, c)
		}
	}
	if len(cands) == 0 {
		return g.Update()
	}
	c := cands[rng.Intn(len(cands))]
	v := proxyrig.GenColVal(rng, c)
	st := proxyrig.MyStep{Kind: "update", Table: t.Name, Proto: "prepared-oneshot", ArgCols: []string{c.Name, "id", "id"}}
	if !v.Null {
		st.Writes = []proxyrig.Written{{Table: t.Name, Col: c.Name, V: v}}
	}
	st.SQL = fmt.Sprintf("update %s set %s = ? where id = ? or id = ?", t.Name, c.Name)
	if rng.Intn(2) == 0 {
		st.Tag = "negative-integer-parameter"
		st.Args = []interface{}{proxyrig.MyArg(v), int64(-1 - rng.Intn(1000)), int64(1 + rng.Intn(5))}
	} else {
		st.Tag = "unsigned-bigint-parameter-above-2^63"
		st.Args = []interface{}{proxyrig.MyArg(v), uint64(1<<63) + uint64(rng.Intn(1000)), int64(1 + rng.Intn(5))}
	}
	return st
}

func shapeStep(r *ev.Run, w *proxyrig.MyWorld, c *proxyrig.MyClient, st proxyrig.MyStep, history []string, sidx int) bool {
	r.Case()
	t := w.Table(st.Table)
	logStart, sentStart := w.Store.LogLen(), w.Store.SentLen()
	mark := c.Mark()
	results := proxyrig.RunMyStep(c, st)
	detail := func(extra map[string]interface{}) map[string]interface{} {
		m := map[string]interface{}{"session": sidx, "schema": w.Schema, "history": history, "statement": st.SQL, "proto": st.Proto, "params": st.ParamDesc}
		for k, v := range extra {
			m[k] = v
		}
		return m
	}
	sig := func(what, msg string) string {
		tag := ""
		if st.Tag != "" {
			tag = " " + st.Tag
		}
		return fmt.Sprintf("mysql shape: %s: message=%s stmt=%s proto=%s%s", what, msg, st.Kind, st.Proto, tag)
	}
	for _, res := range results {
		if res.Timeout {
			r.Inconclusive("watchdog in mysql shape step")
			return false
		}
		if res.Broken {
			r.Violation(sig("connection broke", "-"), detail(map[string]interface{}{"err": res.Err.Error()}))
			return false
		}
	}
	sentBytes, recvBytes := c.Since(mark)
	cSent, rest, err := fakemysql.SplitFrames(sentBytes)
	if err != nil || len(rest) > 0 {
		r.Inconclusive("client-side sent stream does not segment (rig)")
		return false
	}
	// COM_STMT_CLOSE has no reply: wait (bounded) until the database has seen as many messages as the client sent
	for i := 0; i < 2000 && w.Store.LogLen()-logStart < len(cSent); i++ {
		time.Sleep(5 * time.Millisecond)
	}
	if n := w.Store.LogLen() - logStart; n < len(cSent) {
		onlyClose := true
		for _, f := range cSent[n:] {
			if len(f.Payload) == 0 || f.Payload[0] != fakemysql.ComStmtClose {
				onlyClose = false
			}
		}
		if onlyClose {
			// a command without reply is still in flight after the bounded wait: not evidence of anything
			r.Inconclusive("mysql shape: COM_STMT_CLOSE still in flight after the bounded wait")
			return false
		}
	}
	dbGot := w.Store.Log()[logStart:]
	dbSent := w.Store.SentLog()[sentStart:]
	cGot, rest, err := fakemysql.SplitFrames(recvBytes)
	if err != nil || len(rest) > 0 {
		r.Violation(sig("stream delivered to the client does not segment into packets (declared length / sequence id)", "-"), detail(map[string]interface{}{"err": fmt.Sprint(err), "unparsed": len(rest)}))
		return false
	}
	// client -> database
	if len(dbGot) != len(cSent) {
		r.Violation(sig("number of forwarded messages differs", "-"), detail(map[string]interface{}{"client_sent": len(cSent), "db_got": len(dbGot)}))
		return false
	}
	configuredArg := func(i int) bool {
		if i >= len(st.ArgCols) {
			return true
		}
		cs := t.Col(st.ArgCols[i])
		return cs != nil && cs.Configured()
	}
	for i, f := range cSent {
		if len(f.Payload) == 0 {
			continue
		}
		name := fakemysql.CommandName(f.Payload[0])
		d := dbGot[i]
		if d.Cmd != f.Payload[0] {
			r.Violation(sig("forwarded command differs", name), detail(map[string]interface{}{"got": d.Name}))
			return false
		}
		if d.Seq != f.Seq {
			r.Violation(sig("sequence id of a forwarded command changed", name), detail(map[string]interface{}{"sent": f.Seq, "got": d.Seq}))
		}
		r.Count("mysql_shape_packets_aligned", 1)
		switch f.Payload[0] {
		case fakemysql.ComQuery, fakemysql.ComStmtPrepare:
			r.Distinct("MyB|C|" + name + "|rewritable")
		case fakemysql.ComStmtExecute:
			ce, err1 := fakemysql.DecodeExecute(f.Payload, len(st.Args), nil)
			if err1 != nil {
				r.Inconclusive("client-side COM_STMT_EXECUTE does not parse (rig): " + err1.Error())
				return false
			}
			if d.Exec == nil {
				r.Violation(sig("forwarded COM_STMT_EXECUTE does not re-parse", name), detail(map[string]interface{}{"forwarded": ev.Hex(d.Payload)}))
				return false
			}
			de := *d.Exec
			if ce.StmtID != de.StmtID || ce.Flags != de.Flags || ce.Iterations != de.Iterations || ce.NewBound != de.NewBound || len(ce.Params) != len(de.Params) {
				r.Violation(sig("COM_STMT_EXECUTE header or parameter count changed", name), detail(map[string]interface{}{"sent": ev.Hex(f.Payload), "forwarded": ev.Hex(d.Payload)}))
				break
			}
			for pi := range ce.Params {
				a, b := ce.Params[pi], de.Params[pi]
				if a.Null != b.Null {
					r.Violation(sig("NULL bit of a parameter changed", name), detail(map[string]interface{}{"param": pi}))
					continue
				}
				if configuredArg(pi) || a.Null {
					continue
				}
				if a.Type != b.Type || !bytes.Equal(a.Data, b.Data) {
					r.Violation(sig("parameter of an unconfigured column changed", name), detail(map[string]interface{}{"param": pi, "sent_type": a.Type, "forwarded_type": b.Type, "sent": ev.Hex(a.Data), "forwarded": ev.Hex(b.Data)}))
					continue
				}
				if a.Unsigned != b.Unsigned {
					// the flag byte is metadata of the value: a change matters when it changes the number denoted
					av, aok := a.Int()
					bv, bok := b.Int()
					if !aok || !bok || av != bv {
						r.Violation(sig("signedness flag of an unconfigured integer parameter changed its value", name), detail(map[string]interface{}{"param": pi, "data": ev.Hex(a.Data)}))
					} else {
						r.Count("mysql_unsigned_flag_rewritten_same_value", 1)
					}
				}
				r.Count("mysql_unconfigured_params_identical", 1)
			}
			r.Distinct("MyB|C|COM_STMT_EXECUTE|shape-kept")
		default:
			if !bytes.Equal(f.Payload, d.Payload) {
				r.Violation(sig("command that needs no rewriting was changed", name), detail(map[string]interface{}{"sent": ev.Hex(f.Payload), "forwarded": ev.Hex(d.Payload)}))
			}
			r.Distinct("MyB|C|" + name + "|identical")
		}
	}
	// database -> client
	if len(cGot) != len(dbSent) {
		kinds := []string{}
		for _, m := range dbSent {
			kinds = append(kinds, m.Kind)
		}
		r.Violation(sig("number of delivered packets differs", "-"), detail(map[string]interface{}{"db_sent": len(dbSent), "client_got": len(cGot), "db_kinds": strings.Join(kinds, ",")}))
		return false
	}
	configuredCol := func(cd fakemysql.ColDef) bool {
		if cd.OrgTable != t.Name {
			return false
		}
		cs := t.Col(cd.OrgName)
		return cs != nil && cs.Configured()
	}
	var dbDefs, cDefs []fakemysql.ColDef
	inDefs := false
	paramIdx := 0
	for i, f := range cGot {
		d := dbSent[i]
		if f.Seq != d.Seq {
			r.Violation(sig("sequence id of a delivered packet changed", d.Kind), detail(map[string]interface{}{"db": d.Seq, "client": f.Seq, "index": i}))
		}
		r.Count("mysql_shape_packets_aligned", 1)
		switch d.Kind {
		case "ColumnCount", "PrepareOK":
			dbDefs, cDefs, inDefs, paramIdx = nil, nil, true, 0
			if !bytes.Equal(f.Payload, d.Payload) {
				r.Violation(sig("packet that needs no rewriting was changed", d.Kind), detail(map[string]interface{}{"db": ev.Hex(d.Payload), "client": ev.Hex(f.Payload)}))
			}
			r.Distinct("MyB|S|" + d.Kind + "|identical")
		case "ParamDef":
			a, errA := fakemysql.DecodeColDef(f.Payload)
			b, _ := fakemysql.DecodeColDef(d.Payload)
			if errA != nil {
				r.Violation(sig("parameter definition does not re-parse", d.Kind), detail(map[string]interface{}{"client": ev.Hex(f.Payload), "err": errA.Error()}))
				break
			}
			a2 := a
			if configuredArg(paramIdx) {
				a2.Type, a2.Charset, a2.Length, a2.Flags, a2.Decimals = b.Type, b.Charset, b.Length, b.Flags, b.Decimals
			}
			if a2 != b {
				r.Violation(sig("parameter definition changed beyond the type of a configured column", d.Kind), detail(map[string]interface{}{"db": fmt.Sprintf("%+v", b), "client": fmt.Sprintf("%+v", a)}))
			}
			paramIdx++
			r.Distinct("MyB|S|ParamDef|shape-kept")
		case "ColumnDef":
			a, errA := fakemysql.DecodeColDef(f.Payload)
			b, _ := fakemysql.DecodeColDef(d.Payload)
			if errA != nil {
				r.Violation(sig("column definition does not re-parse", d.Kind), detail(map[string]interface{}{"client": ev.Hex(f.Payload), "err": errA.Error()}))
				return false
			}
			dbDefs, cDefs = append(dbDefs, b), append(cDefs, a)
			if !configuredCol(b) {
				if !bytes.Equal(f.Payload, d.Payload) {
					r.Violation(sig("column definition of an unconfigured column changed", d.Kind), detail(map[string]interface{}{"db": fmt.Sprintf("%+v", b), "client": fmt.Sprintf("%+v", a)}))
				}
				r.Distinct("MyB|S|ColumnDef|identical")
				break
			}
			a2 := a
			a2.Type, a2.Charset, a2.Length, a2.Flags, a2.Decimals = b.Type, b.Charset, b.Length, b.Flags, b.Decimals
			if a2 != b {
				r.Violation(sig("column definition changed beyond type/charset/length/flags", d.Kind), detail(map[string]interface{}{"db": fmt.Sprintf("%+v", b), "client": fmt.Sprintf("%+v", a)}))
			}
			if a.Type != b.Type {
				r.Distinct("MyB|S|ColumnDef|type-rewritten")
			} else {
				r.Distinct("MyB|S|ColumnDef|shape-kept")
			}
		case "TextRow", "BinaryRow":
			inDefs = false
			var a, b []fakemysql.Field
			var errA, errB error
			if d.Kind == "TextRow" {
				a, errA = fakemysql.DecodeTextRow(f.Payload, len(cDefs))
				b, errB = fakemysql.DecodeTextRow(d.Payload, len(dbDefs))
			} else {
				ta, tb := make([]byte, len(cDefs)), make([]byte, len(dbDefs))
				for k := range cDefs {
					ta[k], tb[k] = cDefs[k].Type, dbDefs[k].Type
				}
				a, errA = fakemysql.DecodeBinaryRow(f.Payload, ta)
				b, errB = fakemysql.DecodeBinaryRow(d.Payload, tb)
			}
			if errB != nil {
				r.Inconclusive("database-side row does not parse (rig): " + errB.Error())
				return false
			}
			if errA != nil {
				r.Violation(sig("row delivered to the client does not re-parse against its column definitions", d.Kind), detail(map[string]interface{}{"err": errA.Error(), "client": ev.Hex(f.Payload), "db": ev.Hex(d.Payload)}))
				return false
			}
			if len(a) != len(b) {
				r.Violation(sig("row field count changed", d.Kind), detail(map[string]interface{}{"db": len(b), "client": len(a)}))
				break
			}
			for fi := range a {
				if a[fi].Null != b[fi].Null {
					r.Violation(sig("NULL marker of a row field changed", d.Kind), detail(map[string]interface{}{"field": fi, "column": dbDefs[fi].OrgName, "db_null": b[fi].Null}))
					continue
				}
				if configuredCol(dbDefs[fi]) {
					if !bytes.Equal(a[fi].Data, b[fi].Data) {
						r.Count("mysql_row_fields_transformed", 1)
						if lenClass(len(a[fi].Data)) != lenClass(len(b[fi].Data)) {
							r.SetAdd("mysql_length_boundaries_crossed", "transform:"+lenClass(len(b[fi].Data))+"->"+lenClass(len(a[fi].Data)))
						}
					}
					continue
				}
				if !bytes.Equal(a[fi].Data, b[fi].Data) {
					r.Violation(sig("row field of an unconfigured column changed", d.Kind), detail(map[string]interface{}{"field": fi, "column": dbDefs[fi].OrgName, "db": ev.Hex(b[fi].Data), "client": ev.Hex(a[fi].Data)}))
				} else {
					r.Count("mysql_unconfigured_fields_identical", 1)
				}
			}
			r.Distinct("MyB|S|" + d.Kind + "|shape-kept")
		default: // OK ERR EOF
			if !bytes.Equal(f.Payload, d.Payload) {
				r.Violation(sig("packet that needs no rewriting was changed", d.Kind), detail(map[string]interface{}{"db": ev.Hex(d.Payload), "client": ev.Hex(f.Payload)}))
			}
			r.Distinct("MyB|S|" + d.Kind + "|identical")
		}
	}
	_ = inDefs
	if len(w.Store.Unsupported()) > 0 {
		// the packets were compared (that needs no evaluation); the database state is no longer meaningful, the session ends
		r.Count("mysql_rig_inconclusive_statement_not_evaluable", 1)
		r.SampleN("mysql-unsupported", 3, map[string]interface{}{"forwarded": w.Store.Unsupported()[0], "client_sql": clip(st.SQL, 200)})
		return false
	}
	r.SampleN("mysql-shape:"+st.Kind+st.Proto, 1, map[string]interface{}{"client_sql": clip(st.SQL, 300), "proto": st.Proto, "client_packets": len(cSent), "server_packets": len(dbSent)})
	return true
}
