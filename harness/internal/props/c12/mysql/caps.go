package mysql

// Capability / metadata matrix of the MySQL part: sessions in which the scripted client and the fake server negotiate the
// optional protocol features Acra's MySQL handler has code for (handshake flavour MySQL / MariaDB, CLIENT_DEPRECATE_EOF,
// MARIADB_CLIENT_EXTENDED_TYPE_INFO, MARIADB_CLIENT_CACHE_METADATA) or must pass through untouched (CLIENT_SESSION_TRACK OK
// packets, every layout of HandshakeResponse41, COM_FIELD_LIST default values), with column definitions carrying unusual
// but valid metadata. Phase A' applies the relay-identity oracle, phase B' the shape oracle under configurations that make
// Acra rewrite column and parameter definitions.

import (
	"bytes"
	"context"
	"encoding/binary"
	"fmt"
	"os"
	"strconv"
	"strings"
	"time"

	trcommon "github.com/cossacklabs/acra/cmd/acra-translator/common"
	"github.com/cossacklabs/acra/keystore"

	"verif/harness/internal/ev"
	"verif/harness/internal/gen"
	"verif/harness/internal/props/c04"
	"verif/harness/internal/rig/fakemysql"
	"verif/harness/internal/rig/fakepg"
	"verif/harness/internal/rig/ksrig"
	"verif/harness/internal/rig/proxyrig"
)

// capProfile is one point of the matrix.
type capProfile struct {
	Maria         bool
	DeprecateEOF  bool
	ExtInfo       string // both | client-only | server-only | none
	CacheMeta     string // both | client-only | server-only | none
	SkipMetadata  string // always | alternate | never (server policy under cache metadata)
	SessionTrack  bool
	ConnectWithDB bool
	PluginAuth    bool
	AuthLayout    string // lenenc | one-byte-length | nul-terminated
	AuthLen       int
	ConnectAttrs  bool
	FoundRows     bool
}

// Key names the capabilities that change the layout of server messages (signatures and distinct classes are built from it).
func (p capProfile) Key() string {
	fl := "mysql"
	if p.Maria {
		fl = "mariadb"
	}
	eof := "classic"
	if p.DeprecateEOF {
		eof = "deprecated"
	}
	cm := p.CacheMeta
	if cm == "both" {
		cm += "/" + p.SkipMetadata
	}
	st := "off"
	if p.SessionTrack {
		st = "on"
	}
	return fmt.Sprintf("flavour=%s eof=%s ext-type-info=%s cache-metadata=%s session-track=%s", fl, eof, p.ExtInfo, cm, st)
}

// LoginKey names the layout of the handshake response.
func (p capProfile) LoginKey() string {
	return fmt.Sprintf("db=%v plugin=%v auth=%s/%d attrs=%v found-rows=%v", p.ConnectWithDB, p.PluginAuth, p.AuthLayout, p.AuthLen, p.ConnectAttrs, p.FoundRows)
}

func (p capProfile) extBoth() bool   { return p.Maria && p.ExtInfo == "both" }
func (p capProfile) cacheBoth() bool { return p.Maria && p.CacheMeta == "both" }

var (
	capExtCycle   = []string{"both", "both", "none", "client-only", "server-only"}
	capCacheCycle = []string{"none", "both", "none", "both", "client-only", "both", "server-only"}
	capSkipCycle  = []string{"always", "alternate", "never"}
)

// drawProfile enumerates the layout-relevant capabilities systematically (cycles of co-prime lengths over the session
// number) and draws the rest.
func drawProfile(rng *gen.Rand, n int) capProfile {
	p := capProfile{Maria: n%9 != 8, DeprecateEOF: n%2 == 1, ExtInfo: "none", CacheMeta: "none", SkipMetadata: "never"}
	if p.Maria {
		p.ExtInfo = capExtCycle[n%len(capExtCycle)]
		p.CacheMeta = capCacheCycle[n%len(capCacheCycle)]
		p.SkipMetadata = capSkipCycle[(n/2)%len(capSkipCycle)]
	}
	p.SessionTrack = rng.Intn(2) == 0
	p.ConnectWithDB = rng.Intn(3) > 0
	p.PluginAuth = rng.Intn(4) > 0
	p.AuthLayout = []string{"lenenc", "one-byte-length", "one-byte-length", "nul-terminated"}[rng.Intn(4)]
	switch p.AuthLayout {
	case "lenenc":
		p.PluginAuth = true // CLIENT_PLUGIN_AUTH_LENENC_CLIENT_DATA is an extension of CLIENT_PLUGIN_AUTH
		p.AuthLen = []int{0, 20, 32, 250, 251, 300}[rng.Intn(6)]
	case "one-byte-length":
		p.AuthLen = []int{0, 20, 20, 32, 255}[rng.Intn(5)]
	default:
		p.AuthLen = []int{0, 8, 20}[rng.Intn(3)]
	}
	p.ConnectAttrs = rng.Intn(2) == 0
	p.FoundRows = rng.Intn(3) == 0
	return p
}

const capServerBase = fakemysql.CapLongPassword | fakemysql.CapFoundRows | fakemysql.CapLongFlag | fakemysql.CapConnectWithDB | fakemysql.CapLocalFiles | fakemysql.CapProtocol41 | fakemysql.CapTransactions | fakemysql.CapSecureConn | fakemysql.CapMultiResults | fakemysql.CapPluginAuth | fakemysql.CapConnectAttrs | fakemysql.CapPluginAuthLenc

// greeting is what the server announces for the profile.
func (p capProfile) greeting(rng *gen.Rand) *fakemysql.Greeting {
	g := &fakemysql.Greeting{MariaDB: p.Maria, Caps: capServerBase, Charset: []byte{33, 45, 8, 224}[rng.Intn(4)], Status: 2, Plugin: "mysql_native_password", SkipMetadata: p.SkipMetadata, TrackSchema: true}
	seed := make([]byte, 20)
	for i := range seed {
		seed[i] = byte(33 + rng.Intn(90)) // the seed holds no zero byte
	}
	g.Seed = seed
	if p.DeprecateEOF {
		g.Caps |= fakemysql.CapDeprecateEOF
	}
	if p.SessionTrack {
		g.Caps |= fakemysql.CapSessionTrack
	}
	if p.Maria {
		g.ExtCaps = fakemysql.MariaProgress | fakemysql.MariaStmtBulk
		if p.ExtInfo == "both" || p.ExtInfo == "server-only" {
			g.ExtCaps |= fakemysql.MariaExtendedTypeInfo
		}
		if p.CacheMeta == "both" || p.CacheMeta == "server-only" {
			g.ExtCaps |= fakemysql.MariaCacheMetadata
		}
	}
	return g
}

// login builds the handshake response of the profile for the greeting that arrived.
func (p capProfile) login(rng *gen.Rand) func(g fakemysql.Greeting) fakemysql.Login {
	auth := make([]byte, p.AuthLen)
	for i := range auth {
		// the first byte is kept away from the command numbers: whether Acra may read later connection-phase packets
		// as commands is not what this layer examines; no zero byte (NUL-terminated layout)
		auth[i] = byte(0x40 + rng.Intn(0xbf))
	}
	attrs := [][2]string{{"_client_name", "verif-scripted"}, {"_pid", strconv.Itoa(1000 + rng.Intn(9000))}, {"program_name", string(gen.Content(rng, "ascii", []int{0, 5, 250, 251, 300}[rng.Intn(5)]))}}
	return func(g fakemysql.Greeting) fakemysql.Login {
		l := fakemysql.Login{MaxPacket: 1 << 24, Charset: 33, User: "app", Auth: auth, DB: "db", Plugin: "mysql_native_password", Attrs: attrs}
		l.Caps = fakemysql.CapLongFlag | fakemysql.CapProtocol41 | fakemysql.CapTransactions | fakemysql.CapMultiResults
		if !g.MariaDB {
			l.Caps |= fakemysql.CapLongPassword
		}
		if p.FoundRows {
			l.Caps |= fakemysql.CapFoundRows
		}
		if p.ConnectWithDB {
			l.Caps |= fakemysql.CapConnectWithDB
		}
		if p.PluginAuth {
			l.Caps |= fakemysql.CapPluginAuth
		}
		switch p.AuthLayout {
		case "lenenc":
			l.Caps |= fakemysql.CapPluginAuthLenc | fakemysql.CapSecureConn
		case "one-byte-length":
			l.Caps |= fakemysql.CapSecureConn
		}
		if p.ConnectAttrs {
			l.Caps |= fakemysql.CapConnectAttrs
		}
		if p.DeprecateEOF {
			l.Caps |= fakemysql.CapDeprecateEOF
		}
		if p.SessionTrack {
			l.Caps |= fakemysql.CapSessionTrack
		}
		if g.MariaDB {
			l.ExtCaps = fakemysql.MariaStmtBulk
			if p.ExtInfo == "both" || p.ExtInfo == "client-only" {
				l.ExtCaps |= fakemysql.MariaExtendedTypeInfo
			}
			if p.CacheMeta == "both" || p.CacheMeta == "client-only" {
				l.ExtCaps |= fakemysql.MariaCacheMetadata
			}
		}
		return l
	}
}

// --- unusual but valid column metadata ---

var capNameLens = []int{1, 2, 64, 250, 251, 252, 300, 1024}

func capName(rng *gen.Rand, prefix string) string {
	n := capNameLens[rng.Intn(len(capNameLens))]
	if n <= len(prefix) {
		return prefix
	}
	return prefix + string(gen.Content(rng, "ascii", n-len(prefix)))
}

// capExtInfos are contents of the extended type info block: no entry, one, several; block lengths around 0 / 1 / 250 / 251.
func capExtInfo(rng *gen.Rand) (string, string) {
	e := func(es ...fakemysql.ExtEntry) string { return fakemysql.EncodeExtInfo(es) }
	pad := func(n int) string { return string(gen.Content(rng, "ascii", n)) }
	switch rng.Intn(14) {
	case 0, 1:
		return "", "none"
	case 2:
		return e(fakemysql.ExtEntry{Kind: 0, Value: "point"}), "type=point"
	case 3:
		return e(fakemysql.ExtEntry{Kind: 1, Value: "json"}), "format=json"
	case 4:
		return e(fakemysql.ExtEntry{Kind: 0, Value: "uuid"}), "type=uuid"
	case 5:
		return e(fakemysql.ExtEntry{Kind: 0, Value: []string{"inet6", "inet4"}[rng.Intn(2)]}), "type=inet"
	case 6:
		return e(fakemysql.ExtEntry{Kind: 0, Value: "multipolygon"}, fakemysql.ExtEntry{Kind: 1, Value: "json"}), "two-entries"
	case 7:
		return e(fakemysql.ExtEntry{Kind: 0, Value: "geometrycollection"}, fakemysql.ExtEntry{Kind: 1, Value: "json"}, fakemysql.ExtEntry{Kind: 0, Value: "x"}), "three-entries"
	case 8:
		return e(fakemysql.ExtEntry{Kind: 0, Value: ""}), "empty-value(block=2)"
	case 9:
		return e(fakemysql.ExtEntry{Kind: 1, Value: "x"}), "one-byte-value(block=3)"
	case 10:
		return e(fakemysql.ExtEntry{Kind: 0, Value: pad(248)}), "block=250"
	case 11:
		return e(fakemysql.ExtEntry{Kind: 0, Value: pad(249)}), "block=251"
	case 12:
		return e(fakemysql.ExtEntry{Kind: 0, Value: pad(251)}), "value=251"
	default:
		return e(fakemysql.ExtEntry{Kind: 0, Value: pad(100)}, fakemysql.ExtEntry{Kind: 1, Value: pad(200)}), "block=304"
	}
}

var capCharsets = []uint16{63, 33, 45, 8, 224, 255, 309}

var capFlagBits = []uint16{0x0001, 0x0002, 0x0004, 0x0008, 0x0040, 0x0200, 0x0400, 0x1000, 0x2000, 0x4000}

// capRichDef dresses a column definition with unusual but valid metadata. Type, the BLOB / BINARY / NUM / UNSIGNED flags
// (which belong to the type) and the original names (by which Acra finds the column) are the caller's.
func capRichDef(rng *gen.Rand, cd fakemysql.ColDef, ext bool) (fakemysql.ColDef, string) {
	class := []string{}
	switch rng.Intn(5) {
	case 0:
		cd.Schema = ""
		class = append(class, "empty-schema")
	case 1:
		cd.Schema = capName(rng, "db_")
	}
	switch rng.Intn(5) {
	case 0:
		cd.Table = capName(rng, "al_")
		class = append(class, fmt.Sprintf("table-alias-%d", len(cd.Table)))
	}
	switch rng.Intn(3) {
	case 0:
		cd.Name = capName(rng, "n_")
		class = append(class, fmt.Sprintf("name-%d", len(cd.Name)))
	}
	if rng.Intn(2) == 0 {
		cd.Charset = capCharsets[rng.Intn(len(capCharsets))]
	}
	switch rng.Intn(5) {
	case 0:
		cd.Length = 0
	case 1:
		cd.Length = 0xffffffff
	case 2:
		cd.Length = uint32(rng.Intn(1 << 20))
	}
	for _, f := range capFlagBits {
		if rng.Intn(5) == 0 {
			cd.Flags |= f
		}
	}
	cd.Decimals = []byte{0, 0, 2, 6, 30, 31, 0x51}[rng.Intn(7)]
	if ext {
		var c string
		cd.ExtInfo, c = capExtInfo(rng)
		class = append(class, "ext:"+c)
	}
	return cd, strings.Join(class, ",")
}

// capScriptedResult builds a canned result set over metadata-rich column definitions (text and binary encoding of the same values).
func capScriptedResult(rng *gen.Rand, ext bool) (fakemysql.Script, []string) {
	nf := 1 + rng.Intn(5)
	var cols []fakemysql.ColDef
	var classes []string
	for f := 0; f < nf; f++ {
		st := scriptTypes[rng.Intn(len(scriptTypes))]
		cd := fakemysql.ColDef{Schema: "db", Table: "scr", OrgTable: "scripted", Name: fmt.Sprintf("f%d", f), OrgName: fmt.Sprintf("of%d", f), Charset: st.charset, Length: st.length, Type: st.t, Flags: st.flags}
		switch rng.Intn(6) {
		case 0: // an expression column: no table, no original names
			cd.Schema, cd.Table, cd.OrgTable, cd.OrgName = "", "", "", ""
		case 1:
			cd.Type, cd.Charset, cd.Flags, cd.Length = []byte{fakemysql.TypeGeometry, fakemysql.TypeJSON, fakemysql.TypeLongBlob, fakemysql.TypeTinyBlob}[rng.Intn(4)], 63, fakemysql.FlagBlob|fakemysql.FlagBinary, 0xffffffff
		}
		cd, cl := capRichDef(rng, cd, ext)
		if cd.Type == fakemysql.TypeJSON {
			cl = strings.TrimPrefix(cl+",json-column", ",")
		}
		cols = append(cols, cd)
		classes = append(classes, cl)
	}
	nrows := rng.Intn(4)
	var trows, brows [][]fakemysql.Field
	for i := 0; i < nrows; i++ {
		var tr, br []fakemysql.Field
		for f := 0; f < nf; f++ {
			if rng.Intn(5) == 0 {
				tr, br = append(tr, fakemysql.Field{Null: true}), append(br, fakemysql.Field{Null: true})
				continue
			}
			tx, bn := scriptedValue(rng, cols[f].Type)
			tr, br = append(tr, fakemysql.Field{Data: tx}), append(br, fakemysql.Field{Data: bn})
		}
		trows, brows = append(trows, tr), append(brows, br)
	}
	return func(_ string, bin bool) *fakemysql.Reply {
		if bin {
			return &fakemysql.Reply{Cols: cols, Rows: brows}
		}
		return &fakemysql.Reply{Cols: cols, Rows: trows}
	}, classes
}

// capFieldList builds the answer to COM_FIELD_LIST: column definitions followed by their default values.
func capFieldList(rng *gen.Rand, ext bool) fakemysql.Script {
	n := 1 + rng.Intn(4)
	var cols []fakemysql.ColDef
	for f := 0; f < n; f++ {
		st := scriptTypes[rng.Intn(len(scriptTypes))]
		cd := fakemysql.ColDef{Schema: "db", Table: "plain", OrgTable: "plain", Name: fmt.Sprintf("c%d", f), OrgName: fmt.Sprintf("c%d", f), Charset: st.charset, Length: st.length, Type: st.t, Flags: st.flags}
		cd, _ = capRichDef(rng, cd, ext)
		cd.HasDefault = true
		switch rng.Intn(5) {
		case 0:
			cd.DefaultNull = true
		case 1:
			cd.Default = ""
		case 2:
			cd.Default = string(gen.Content(rng, "ascii", []int{250, 251, 300}[rng.Intn(3)]))
		default:
			cd.Default = []string{"0", "CURRENT_TIMESTAMP", "n/a", "1.50"}[rng.Intn(4)]
		}
		cols = append(cols, cd)
	}
	return func(string, bool) *fakemysql.Reply { return &fakemysql.Reply{Cols: cols} }
}

// --- phase A': relay identity over the matrix ---

type capsSession struct {
	r       *ev.Run
	rng     *gen.Rand
	sidx    int
	prof    capProfile
	cfgName string
	srv     *fakemysql.Server
	c       *proxyrig.MyRaw
	script  []string
	ok      bool
	timeout bool
	last    string
}

func (s *capsSession) detail(extra map[string]interface{}) map[string]interface{} {
	m := map[string]interface{}{"session": s.sidx, "config": s.cfgName, "capabilities": s.prof.Key(), "login": s.prof.LoginKey(), "script": s.script}
	for k, v := range extra {
		m[k] = v
	}
	return m
}

func (s *capsSession) do(payload []byte, kind string) []fakemysql.Frame {
	fr, err := s.c.CommandCaps(payload, kind)
	if err != nil {
		s.ok = false
		s.timeout = err == proxyrig.ErrTimeout
	}
	return fr
}

func stmtIDBytes(cmd byte, id uint32) []byte {
	return []byte{cmd, byte(id), byte(id >> 8), byte(id >> 16), byte(id >> 24)}
}

// compareRelay applies the relay-identity oracle to everything recorded on connection 1 of the server and on the client.
func compareRelay(r *ev.Run, srv *fakemysql.Server, rec *proxyrig.MyRec, prefixOnly bool, cacheMetadata bool, sigTail string, detail func(map[string]interface{}) map[string]interface{}) bool {
	sent := rec.RawOut()
	maxWait := 2000
	if prefixOnly {
		maxWait = 40
	}
	for i := 0; i < maxWait && srv.RawInLen(1) < len(sent); i++ {
		time.Sleep(5 * time.Millisecond) // bounded wait for bytes already sent to arrive; never a verdict input
		if i%40 == 39 {
			part := srv.RawInConn(1)
			if len(part) <= len(sent) && !bytes.Equal(part, sent[:len(part)]) {
				break
			}
		}
	}
	got, dbOut, recv := srv.RawInConn(1), srv.RawOutConn(1), rec.RawIn()
	cut := func(a, b []byte) ([]byte, []byte) {
		if !prefixOnly {
			return a, b
		}
		n := len(a)
		if len(b) < n {
			n = len(b)
		}
		return a[:n], b[:n]
	}
	g2, s2 := cut(got, sent)
	if !prefixOnly && len(got) < len(sent) && bytes.Equal(got, sent[:len(got)]) && len(sent)-len(got) <= 9 {
		r.Inconclusive("mysql caps relay: a command without reply still in flight after the bounded wait")
		return false
	}
	if !bytes.Equal(g2, s2) {
		at := firstDiff(got, sent)
		r.Violation(fmt.Sprintf("mysql caps relay: client->database stream altered: at-message=%s %s", msgAt(sent, at, true), sigTail), detail(map[string]interface{}{"offset": at, "sent_len": len(sent), "arrived_len": len(got), "sent_at": ev.Hex(window(sent, at)), "arrived_at": ev.Hex(window(got, at))}))
		return false
	}
	r2, d2 := cut(recv, dbOut)
	if !bytes.Equal(r2, d2) {
		at := firstDiff(recv, dbOut)
		r.Violation(fmt.Sprintf("mysql caps relay: database->client stream altered: at-message=%s %s", capServerMsgAt(srv, at, cacheMetadata), sigTail), detail(map[string]interface{}{"offset": at, "db_sent_len": len(dbOut), "client_got_len": len(recv), "db_sent_at": ev.Hex(window(dbOut, at)), "client_got_at": ev.Hex(window(recv, at))}))
		return false
	}
	return true
}

// capServerMsgAt names the kind of the server message that contains offset `at` of the database's output on connection 1;
// rows of a result set that was sent without column definitions (MARIADB_CLIENT_CACHE_METADATA) are marked.
func capServerMsgAt(srv *fakemysql.Server, at int, cacheMetadata bool) string {
	pos := 0
	skipped := false
	for _, m := range srv.SentLog() {
		if m.Conn != 1 {
			continue
		}
		if m.Kind == "ColumnCount" {
			skipped = cacheMetadata && len(m.Payload) >= 2 && m.Payload[len(m.Payload)-1] == 0
		}
		size := len(m.Payload) + 4*m.Packets
		if at < pos+size {
			if skipped && (m.Kind == "BinaryRow" || m.Kind == "TextRow") {
				return m.Kind + "/metadata-skipped"
			}
			return m.Kind
		}
		pos += size
	}
	return "beyond-recorded-part"
}

func capsRelaySession(r *ev.Run, rng *gen.Rand, sidx, n int) {
	r.Case()
	prof := drawProfile(rng, n)
	dir := ksrig.ScratchDir("c12myc")
	defer os.RemoveAll(dir)
	ks, err := ksrig.V1(dir, ksrig.RandBytes(32), keystore.InfiniteCacheSize)
	if err != nil {
		panic(err)
	}
	ksrig.GenClient(ks, []byte(c04.Owner))
	db := fakepg.NewDB()
	var cols []fakepg.Column
	for _, c := range plainTable.Cols {
		cols = append(cols, fakepg.Column{Name: c.Name, Type: c.StoreType})
	}
	db.CreateTable("plain", cols)
	srv, err := fakemysql.NewServer(db)
	if err != nil {
		panic(err)
	}
	defer srv.Close()
	srv.Hand = prof.greeting(rng)
	schema, cfgName := emptySchema, "empty"
	if rng.Intn(2) == 0 {
		schema, cfgName = unrelatedSchema, "unrelated-tables"
	}
	a, err := proxyrig.Start(proxyrig.Opts{KS: ks, ClientID: []byte(c04.Owner), DBPort: srv.Port(), SchemaYAML: schema, MySQL: true})
	if err != nil {
		r.Violation("mysql rig: acra could not be started", map[string]interface{}{"err": err.Error()})
		return
	}
	defer a.Stop()
	s := &capsSession{r: r, rng: rng, sidx: sidx, prof: prof, cfgName: cfgName, srv: srv, ok: true, last: "login"}
	sigTail := "config=" + cfgName + " " + prof.Key()
	c, g, _, err := proxyrig.DialMyRawLogin(a.Port, prof.login(rng))
	if err != nil {
		r.Violation(fmt.Sprintf("mysql caps relay: session could not be established: %s", sigTail), s.detail(map[string]interface{}{"err": err.Error()}))
		return
	}
	s.c = c
	c.SetWatchdog(4 * time.Second) // expiry is inconclusive, never a verdict (the bytes relayed until then are still compared)
	ext := c.Ext&fakemysql.MariaExtendedTypeInfo != 0
	if ext != prof.extBoth() || (c.Ext&fakemysql.MariaCacheMetadata != 0) != prof.cacheBoth() || g.MariaDB != prof.Maria {
		r.Inconclusive("mysql caps relay: negotiated capabilities are not the profile's (rig)")
		c.Abort()
		return
	}
	nScripts := 3
	var classes []string
	jsonTag := make([]string, nScripts)
	for i := 0; i < nScripts; i++ {
		sc, cl := capScriptedResult(rng, ext)
		classes = append(classes, cl...)
		for _, one := range cl {
			if strings.Contains(one, "json-column") {
				jsonTag[i] = "+json-column"
			}
		}
		srv.SetScript(fmt.Sprintf("select rich_%d()", i), sc)
		srv.SetScript(fmt.Sprintf("select rich_%d(?)", i), sc)
	}
	srv.SetScript(fakemysql.FieldListKey("plain"), capFieldList(rng, ext))
	okInfo := &fakemysql.Reply{Affected: uint64(rng.Intn(300)), LastID: uint64(rng.Intn(1 << 20)), Warnings: uint16(rng.Intn(2)), Info: []string{"", "Rows matched: 3  Changed: 2  Warnings: 0", string(gen.Content(rng, "ascii", 260))}[rng.Intn(3)]}
	switch rng.Intn(4) {
	case 0:
		okInfo.SessionState = fakemysql.SessionStateVariable("autocommit", "OFF")
	case 1:
		okInfo.SessionState = append(fakemysql.SessionStateVariable("character_set_client", "utf8mb4"), fakemysql.SessionStateSchema(string(gen.Content(rng, "ascii", 255)))...)
	case 2:
		okInfo.SessionState = []byte{}
	}
	srv.SetScript("set names utf8mb4", func(string, bool) *fakemysql.Reply { return okInfo })
	g2 := proxyrig.NewMySessGen(rng, []proxyrig.TableSpec{plainTable})
	g2.TextOnly = true
	steps := 8 + rng.Intn(8)
	kinds := map[string]bool{}
	prepared := func(sql string, params []fakemysql.BoundParam, executions int, closeIt bool) {
		fr := s.do(append([]byte{fakemysql.ComStmtPrepare}, sql...), "prepare")
		if !s.ok || len(fr) == 0 {
			return
		}
		pok, err := fakemysql.DecodePrepareOK(fr[0].Payload)
		if err != nil {
			return
		}
		for e := 0; e < executions && s.ok; e++ {
			s.do(fakemysql.EncodeExecute(pok.StmtID, params), "execute")
		}
		if closeIt && s.ok {
			s.do(stmtIDBytes(fakemysql.ComStmtClose, pok.StmtID), "none")
		}
	}
	unexecuted := false
	for i := 0; i < steps && s.ok; i++ {
		x := rng.Intn(100)
		switch {
		case x < 16:
			k := rng.Intn(nScripts)
			s.last = "rich-text-resultset" + jsonTag[k]
			sql := fmt.Sprintf("select rich_%d()", k)
			s.script = append(s.script, "COM_QUERY: "+sql)
			s.do(append([]byte{fakemysql.ComQuery}, sql...), "query")
		case x < 36:
			k := rng.Intn(nScripts)
			s.last = "rich-binary-resultset" + jsonTag[k]
			sql := fmt.Sprintf("select rich_%d(?)", k)
			ex := 1 + rng.Intn(3)
			s.script = append(s.script, fmt.Sprintf("COM_STMT_PREPARE: %s, COM_STMT_EXECUTE x%d", sql, ex))
			p, _ := rawParam(rng, "n")
			prepared(sql, []fakemysql.BoundParam{p}, ex, rng.Intn(3) > 0)
		case x < 46:
			st := g2.Next()
			s.last = "generated-text"
			s.script = append(s.script, "COM_QUERY: "+clip(st.SQL, 120))
			s.do(append([]byte{fakemysql.ComQuery}, st.SQL...), "query")
		case x < 56:
			s.last = "evaluated-binary-resultset"
			ex := 1 + rng.Intn(3)
			var sql string
			var params []fakemysql.BoundParam
			if rng.Intn(2) == 0 {
				sql = "select id, t, b, n from plain where id <> ? order by id"
				p, _ := rawParam(rng, "id")
				params = append(params, p)
			} else {
				sql = "select n, b, id from plain order by id"
			}
			s.script = append(s.script, fmt.Sprintf("COM_STMT_PREPARE: %s, COM_STMT_EXECUTE x%d", sql, ex))
			prepared(sql, params, ex, rng.Intn(3) > 0)
		case x < 63:
			// a prepared statement that is not executed (right away): the command that follows is one Acra only relays
			var sql string
			switch rng.Intn(3) {
			case 0:
				sql = fmt.Sprintf("select rich_%d(?)", rng.Intn(nScripts))
			case 1:
				sql = "select id, t, b, n from plain where id <> ? order by id"
			default:
				sql = "select n, b, id from plain order by id"
			}
			next := []string{"ping", "init-db", "reset-connection", "statistics", "field-list"}[rng.Intn(5)]
			closeFirst := rng.Intn(3) == 0
			s.last = "prepare-then-" + next
			s.script = append(s.script, fmt.Sprintf("COM_STMT_PREPARE: %s (not executed), close=%v, then %s", sql, closeFirst, next))
			fr := s.do(append([]byte{fakemysql.ComStmtPrepare}, sql...), "prepare")
			if !s.ok || len(fr) == 0 {
				break
			}
			if pok, err := fakemysql.DecodePrepareOK(fr[0].Payload); err == nil && closeFirst {
				s.do(stmtIDBytes(fakemysql.ComStmtClose, pok.StmtID), "none")
			}
			switch next {
			case "ping":
				s.do([]byte{fakemysql.ComPing}, "single")
			case "init-db":
				s.do(append([]byte{fakemysql.ComInitDB}, "db2"...), "single")
			case "reset-connection":
				s.do([]byte{fakemysql.ComResetConn}, "single")
			case "statistics":
				s.do([]byte{fakemysql.ComStatistics}, "single")
			default:
				s.do(append([]byte{fakemysql.ComFieldList}, "plain\x00"...), "fieldlist")
			}
		case x < 68:
			s.last = "ok-with-info-and-session-state"
			s.script = append(s.script, "COM_QUERY: set names utf8mb4")
			s.do(append([]byte{fakemysql.ComQuery}, "set names utf8mb4"...), "query")
		case x < 73:
			s.last = "init-db"
			s.script = append(s.script, "COM_INIT_DB")
			s.do(append([]byte{fakemysql.ComInitDB}, capName(rng, "db")...), "single")
		case x < 79:
			s.last = "ping"
			s.script = append(s.script, "COM_PING")
			s.do([]byte{fakemysql.ComPing}, "single")
		case x < 85:
			s.last = "field-list"
			s.script = append(s.script, "COM_FIELD_LIST plain")
			s.do(append([]byte{fakemysql.ComFieldList}, "plain\x00"...), "fieldlist")
		case x < 90:
			s.last = "reset-connection"
			s.script = append(s.script, "COM_RESET_CONNECTION")
			s.do([]byte{fakemysql.ComResetConn}, "single")
		case x < 95:
			s.last = "error-statement"
			s.script = append(s.script, "COM_QUERY the database rejects")
			s.do(append([]byte{fakemysql.ComQuery}, "select no_such_column from plain"...), "query")
		default:
			s.last = "statistics"
			s.script = append(s.script, "COM_STATISTICS")
			s.do([]byte{fakemysql.ComStatistics}, "single")
		}
		// commands Acra only relays do not choose a response handler: they meet what the unexecuted prepare left behind
		switch {
		case strings.HasPrefix(s.last, "prepare-then-"):
			unexecuted = true
		case s.last == "ping" || s.last == "init-db" || s.last == "reset-connection" || s.last == "statistics" || s.last == "field-list":
			if unexecuted {
				s.last += "/after-unexecuted-prepare"
			}
		default:
			unexecuted = false
		}
		kinds[s.last] = true
	}
	if s.ok {
		c.Close()
	} else {
		c.Abort()
	}
	if s.timeout {
		if !compareRelay(r, srv, c.MyRec, true, prof.cacheBoth(), sigTail, s.detail) {
			return
		}
		r.Inconclusive(fmt.Sprintf("watchdog: no reply through acra (mysql caps relay session %d, %s, %s)", sidx, prof.Key(), s.last))
		r.Count("mysql_caps_relay_watchdog", 1)
		return
	}
	if !s.ok {
		if !compareRelay(r, srv, c.MyRec, true, prof.cacheBoth(), sigTail, s.detail) {
			return
		}
		r.Violation(fmt.Sprintf("mysql caps relay: connection broke during a valid message sequence: last=%s %s", s.last, sigTail), s.detail(nil))
		return
	}
	if un := srv.Unsupported(); len(un) > 0 {
		r.Count("mysql_rig_inconclusive_statement_not_evaluable", int64(len(un)))
	}
	if !compareRelay(r, srv, c.MyRec, false, prof.cacheBoth(), sigTail, s.detail) {
		return
	}
	// the login packet the database received must also be the layout the profile asked for (rig self-check)
	if raw := srv.Log(); len(raw) > 0 {
		if l, err := fakemysql.DecodeLogin(raw[0].Payload, prof.Maria); err != nil || len(l.Auth) != prof.AuthLen {
			r.Inconclusive("mysql caps relay: login packet at the database does not decode to the profile (rig)")
			return
		}
	}
	r.Count("mysql_caps_relay_sessions_byte_identical", 1)
	r.Count("mysql_caps_relay_bytes_compared", int64(len(c.RawOut())+len(c.RawIn())))
	r.SetAdd("mysql_caps_profiles_relayed", prof.Key())
	r.SetAdd("mysql_caps_login_layouts_relayed", prof.LoginKey())
	for k := range kinds {
		r.Distinct("MyC|A|" + prof.Key() + "|" + k)
		r.SetAdd("mysql_caps_step_kinds_relayed", k)
	}
	for _, cl := range classes {
		for _, one := range strings.Split(cl, ",") {
			if one != "" {
				r.SetAdd("mysql_caps_metadata_classes_relayed", one)
			}
		}
	}
	for _, m := range srv.SentLog() {
		if m.Kind == "ColumnCount" && prof.cacheBoth() && len(m.Payload) == 2 && m.Payload[1] == 0 {
			r.Count("mysql_caps_relay_result_sets_without_metadata", 1)
		}
		if m.Kind == "OK" && prof.SessionTrack && len(m.Payload) > 7 {
			r.Count("mysql_caps_relay_ok_packets_with_session_track_layout", 1)
		}
	}
	r.SampleN("mysql-caps-relay", 3, map[string]interface{}{"capabilities": prof.Key(), "login": prof.LoginKey(), "config": cfgName, "script": s.script, "bytes_to_db": len(c.RawOut()), "bytes_to_client": len(c.RawIn())})
}

// --- phase B': rewritten definitions keep their shape under every capability set ---

// capCol is one column of the configured table.
type capCol struct {
	Name     string
	Kind     string // "" | enc
	DataType string // "" | str | bytes | int32 | int64
	ByID     bool   // configured with data_type_db_identifier
	Envelope string
}

func (c capCol) typed() bool { return c.Kind != "" && c.DataType != "" }

func capTable(rng *gen.Rand, idx int) ([]capCol, proxyrig.TableSpec) {
	name := fmt.Sprintf("cm%d", idx)
	cols := []capCol{{Name: "id"}, {Name: "note"}}
	k := 2 + rng.Intn(4)
	for i := 0; i < k; i++ {
		c := capCol{Name: fmt.Sprintf("c%d", i+1), Kind: "enc", Envelope: []string{"acrablock", "acrastruct"}[rng.Intn(2)]}
		if i == 0 || rng.Intn(5) > 0 {
			c.DataType = []string{"str", "bytes", "int32", "int64"}[rng.Intn(4)]
			c.ByID = rng.Intn(3) == 0
		}
		cols = append(cols, c)
	}
	cols = append(cols, capCol{Name: "raw"})
	spec := proxyrig.TableSpec{Name: name}
	for _, c := range cols {
		cs := proxyrig.ColSpec{Name: c.Name, AppType: fakepg.Bytea, StoreType: fakepg.Bytea, Kind: c.Kind, Envelope: c.Envelope}
		if c.typed() {
			if c.ByID {
				cs.TypeID = proxyrig.MyTypeID[c.DataType]
			} else {
				cs.DataType = c.DataType
			}
		}
		spec.Cols = append(spec.Cols, cs)
	}
	return cols, spec
}

// capPlain draws a plaintext that is valid for the declared type.
func capPlain(rng *gen.Rand, dt string) []byte {
	switch dt {
	case "int32":
		return []byte(strconv.FormatInt(int64(int32(rng.Uint32())), 10))
	case "int64":
		return []byte(strconv.FormatInt(int64(rng.Uint64()), 10))
	case "str":
		return gen.Content(rng, "ascii", []int{0, 1, 10, 100, 200, 250, 251, 300}[rng.Intn(8)])
	default:
		return gen.Bytes(rng, []int{0, 1, 10, 100, 200, 250, 251, 300}[rng.Intn(8)])
	}
}

type capsShape struct {
	r        *ev.Run
	prof     capProfile
	sidx     int
	table    string
	cols     map[string]capCol
	schema   string
	history  []string
	stmtKind string
}

func (s *capsShape) sig(what, msg, proto string) string {
	return fmt.Sprintf("mysql caps shape: %s: message=%s stmt=%s proto=%s %s", what, msg, s.stmtKind, proto, s.prof.Key())
}

func (s *capsShape) detail(extra map[string]interface{}) map[string]interface{} {
	m := map[string]interface{}{"session": s.sidx, "schema": s.schema, "capabilities": s.prof.Key(), "login": s.prof.LoginKey(), "history": s.history}
	for k, v := range extra {
		m[k] = v
	}
	return m
}

// colOf finds the configured column a definition refers to, the way the documentation of the encryptor configuration
// describes it: by the physical table and column (original names; the visible ones when there are no original names).
func (s *capsShape) colOf(cd fakemysql.ColDef) (capCol, bool) {
	t, n := cd.OrgTable, cd.OrgName
	if t == "" {
		t = cd.Table
	}
	if n == "" {
		n = cd.Name
	}
	if t != s.table {
		return capCol{}, false
	}
	c, ok := s.cols[n]
	return c, ok && c.Kind != ""
}

// checkDef judges one definition packet (column or parameter definition) as delivered against the one the database sent.
// mayRetype: Acra has a reason to describe another type (column / placeholder of a column configured with a data type).
func (s *capsShape) checkDef(kind, proto string, db, cl []byte, mayRetype bool) (fakemysql.ColDef, fakemysql.ColDef, bool) {
	r := s.r
	ext := s.prof.extBoth()
	b, lb, errB := fakemysql.DecodeColDefCaps(db, ext)
	if errB != nil {
		r.Inconclusive("mysql caps shape: database-side definition does not parse (rig): " + errB.Error())
		return b, b, false
	}
	a, la, errA := fakemysql.DecodeColDefCaps(cl, ext)
	if errA != nil {
		r.Violation(s.sig("definition delivered to the client does not re-parse under the negotiated capabilities", kind, proto), s.detail(map[string]interface{}{"err": errA.Error(), "db": ev.Hex(db), "client": ev.Hex(cl), "db_extended_type_info": ev.Hex([]byte(b.ExtInfo))}))
		return a, b, false
	}
	okAll := true
	if !bytes.Equal(cl[:la.NamesEnd], db[:lb.NamesEnd]) {
		r.Violation(s.sig("catalog/schema/table/org_table/name/org_name of a definition changed", kind, proto), s.detail(map[string]interface{}{"db": ev.Hex(db[:lb.NamesEnd]), "client": ev.Hex(cl[:la.NamesEnd])}))
		okAll = false
	}
	if !bytes.Equal(cl[la.NamesEnd:la.ExtEnd], db[lb.NamesEnd:lb.ExtEnd]) {
		r.Violation(s.sig("extended type info block of a definition changed", kind, proto), s.detail(map[string]interface{}{"db": ev.Hex(db[lb.NamesEnd:lb.ExtEnd]), "client": ev.Hex(cl[la.NamesEnd:la.ExtEnd])}))
		okAll = false
	}
	if !bytes.Equal(cl[la.FixedEnd:], db[lb.FixedEnd:]) {
		r.Violation(s.sig("bytes after the fixed-length part of a definition changed", kind, proto), s.detail(map[string]interface{}{"db": ev.Hex(db[lb.FixedEnd:]), "client": ev.Hex(cl[la.FixedEnd:])}))
		okAll = false
	}
	if !mayRetype && !bytes.Equal(cl, db) {
		r.Violation(s.sig("definition of a column without type configuration changed", kind, proto), s.detail(map[string]interface{}{"db": ev.Hex(db), "client": ev.Hex(cl)}))
		okAll = false
	}
	if okAll {
		switch {
		case bytes.Equal(cl, db):
			r.Distinct("MyC|B|" + s.prof.Key() + "|" + kind + "|identical")
		default:
			r.Distinct("MyC|B|" + s.prof.Key() + "|" + kind + "|rewritten")
			r.Count("mysql_caps_definitions_rewritten", 1)
			if ext {
				r.Count("mysql_caps_definitions_rewritten_under_extended_type_info", 1)
				if b.ExtInfo != "" {
					r.Count("mysql_caps_definitions_rewritten_with_nonempty_extended_type_info", 1)
					if len(b.ExtInfo) >= 251 {
						r.Count("mysql_caps_definitions_rewritten_with_extended_type_info_of_251_bytes_or_more", 1)
					}
				}
			}
			if lb.NamesEnd > 300 {
				r.Count("mysql_caps_definitions_rewritten_with_long_names", 1)
			}
		}
		r.Count("mysql_caps_definitions_checked", 1)
	}
	return a, b, okAll
}

type capStmt struct {
	kind       string // select-text | select-binary | select-binary-noparams | insert-binary
	sql        string
	sqlPrinted string   // the same statement in the spelling of Acra's printer (INSERT only)
	proj       []string // projected columns (selects) / bound columns (insert)
	execs      int
	closeIt    bool
}

func capsShapeSession(r *ev.Run, rng *gen.Rand, sidx, n int) {
	r.Case()
	prof := drawProfile(rng, n)
	dir := ksrig.ScratchDir("c12mycb")
	defer os.RemoveAll(dir)
	ks, err := ksrig.V1(dir, ksrig.RandBytes(32), keystore.InfiniteCacheSize)
	if err != nil {
		panic(err)
	}
	ksrig.GenClient(ks, []byte(c04.Owner))
	ts, err := trcommon.NewTranslatorService(&trcommon.TranslatorData{Keystorage: ks})
	if err != nil {
		panic(err)
	}
	encrypt := func(c capCol, plain []byte) []byte {
		var out []byte
		var err error
		if c.Envelope == "acrablock" {
			out, err = ts.EncryptSym(context.Background(), plain, []byte(c04.Owner), nil)
		} else {
			out, err = ts.Encrypt(context.Background(), plain, []byte(c04.Owner), nil)
		}
		if err != nil {
			panic(err)
		}
		return out
	}
	cols, spec := capTable(rng, sidx%7)
	schema := proxyrig.YAML([]proxyrig.TableSpec{spec})
	srv, err := fakemysql.NewServer(fakepg.NewDB())
	if err != nil {
		panic(err)
	}
	defer srv.Close()
	srv.Hand = prof.greeting(rng)
	a, err := proxyrig.Start(proxyrig.Opts{KS: ks, ClientID: []byte(c04.Owner), DBPort: srv.Port(), SchemaYAML: schema, MySQL: true})
	if err != nil {
		r.Violation("mysql rig: acra could not be started (generated configuration rejected)", map[string]interface{}{"err": err.Error(), "schema": schema})
		return
	}
	defer a.Stop()
	s := &capsShape{r: r, prof: prof, sidx: sidx, table: spec.Name, cols: map[string]capCol{}, schema: schema}
	for _, c := range cols {
		s.cols[c.Name] = c
	}
	c, g, _, err := proxyrig.DialMyRawLogin(a.Port, prof.login(rng))
	if err != nil {
		r.Violation(s.sig("session could not be established", "-", "-"), s.detail(map[string]interface{}{"err": err.Error()}))
		return
	}
	defer c.Abort()
	c.SetWatchdog(6 * time.Second) // expiry is inconclusive, never a verdict: every complete packet delivered before it has been judged
	ext := c.Ext&fakemysql.MariaExtendedTypeInfo != 0
	if ext != prof.extBoth() || (c.Ext&fakemysql.MariaCacheMetadata != 0) != prof.cacheBoth() || g.MariaDB != prof.Maria {
		r.Inconclusive("mysql caps shape: negotiated capabilities are not the profile's (rig)")
		return
	}
	nStmts := 4 + rng.Intn(4)
	for si := 0; si < nStmts; si++ {
		st := capStmt{execs: 1 + rng.Intn(3), closeIt: rng.Intn(3) > 0}
		// projection: a shuffled subset holding at least one typed column
		var typed, others []string
		for _, cc := range cols {
			if cc.typed() {
				typed = append(typed, cc.Name)
			} else {
				others = append(others, cc.Name)
			}
		}
		rng.Shuffle(len(typed), func(i, j int) { typed[i], typed[j] = typed[j], typed[i] })
		rng.Shuffle(len(others), func(i, j int) { others[i], others[j] = others[j], others[i] })
		st.proj = append(st.proj, typed[:1+rng.Intn(len(typed))]...)
		st.proj = append(st.proj, others[:rng.Intn(len(others)+1)]...)
		rng.Shuffle(len(st.proj), func(i, j int) { st.proj[i], st.proj[j] = st.proj[j], st.proj[i] })
		switch x := rng.Intn(10); {
		case x < 3:
			st.kind = "select-text"
			st.sql = fmt.Sprintf("select %s from %s", strings.Join(st.proj, ", "), spec.Name)
		case x < 6:
			st.kind = "select-binary"
			st.sql = fmt.Sprintf("select %s from %s where id <> ?", strings.Join(st.proj, ", "), spec.Name)
		case x < 8:
			st.kind = "select-binary-noparams"
			st.sql = fmt.Sprintf("select %s from %s", strings.Join(st.proj, ", "), spec.Name)
		default:
			st.kind = "insert-binary"
			ph := strings.TrimSuffix(strings.Repeat("?, ", len(st.proj)), ", ")
			st.sql = fmt.Sprintf("insert into %s (%s) values (%s)", spec.Name, strings.Join(st.proj, ", "), ph)
			st.sqlPrinted = fmt.Sprintf("insert into %s(%s) values (%s)", spec.Name, strings.Join(st.proj, ", "), ph)
			st.execs = 1
		}
		s.stmtKind = st.kind
		s.history = append(s.history, st.kind+": "+st.sql)
		if !capsShapeStmt(s, rng, srv, c, st, encrypt) {
			return
		}
	}
}

// capsShapeStmt scripts the database's answer to one statement, runs it through Acra and judges every packet delivered.
func capsShapeStmt(s *capsShape, rng *gen.Rand, srv *fakemysql.Server, c *proxyrig.MyRaw, st capStmt, encrypt func(capCol, []byte) []byte) bool {
	r := s.r
	r.Case()
	ext := s.prof.extBoth()
	isInsert := st.kind == "insert-binary"
	// the database's description of the columns
	var defs, paramDefs []fakemysql.ColDef
	for _, name := range st.proj {
		cc := s.cols[name]
		var cd fakemysql.ColDef
		if cc.Kind != "" || name == "raw" {
			t := []byte{fakemysql.TypeBlob, fakemysql.TypeBlob, fakemysql.TypeMediumBlob, fakemysql.TypeLongBlob, fakemysql.TypeTinyBlob, fakemysql.TypeVarString, fakemysql.TypeGeometry}[rng.Intn(7)]
			cd = fakemysql.ColDef{Schema: "db", Table: s.table, OrgTable: s.table, Name: name, OrgName: name, Charset: 63, Length: 65535, Type: t, Flags: fakemysql.FlagBinary}
			if t != fakemysql.TypeVarString {
				cd.Flags |= fakemysql.FlagBlob
			}
		} else if name == "id" {
			cd = fakemysql.ColDef{Schema: "db", Table: s.table, OrgTable: s.table, Name: name, OrgName: name, Charset: 63, Length: 11, Type: fakemysql.TypeLong, Flags: fakemysql.FlagNum}
		} else {
			cd = fakemysql.ColDef{Schema: "db", Table: s.table, OrgTable: s.table, Name: name, OrgName: name, Charset: 33, Length: 765, Type: fakemysql.TypeVarString}
		}
		cd, _ = capRichDef(rng, cd, ext)
		if cd.Name != name && rng.Intn(3) == 0 {
			// a definition without original names: the visible names identify the column
			cd.Table, cd.Name, cd.OrgTable, cd.OrgName = s.table, name, "", ""
		}
		defs = append(defs, cd)
		pd := fakemysql.ColDef{Name: "?", Charset: 63, Type: fakemysql.TypeVarString, Flags: fakemysql.FlagBinary}
		if ext && rng.Intn(2) == 0 {
			pd.ExtInfo, _ = capExtInfo(rng)
		}
		paramDefs = append(paramDefs, pd)
	}
	// rows: protected values of typed columns are valid for their type; NULLs anywhere
	nrows := rng.Intn(4)
	var trows, brows [][]fakemysql.Field
	for i := 0; i < nrows; i++ {
		var tr, br []fakemysql.Field
		for f, name := range st.proj {
			cc := s.cols[name]
			if rng.Intn(5) == 0 {
				tr, br = append(tr, fakemysql.Field{Null: true}), append(br, fakemysql.Field{Null: true})
				continue
			}
			switch {
			case cc.Kind != "":
				plain := capPlain(rng, cc.DataType)
				v := plain
				if len(plain) > 0 {
					v = encrypt(cc, plain)
				}
				tr, br = append(tr, fakemysql.Field{Data: v}), append(br, fakemysql.Field{Data: v})
			default:
				tx, bn := scriptedValue(rng, defs[f].Type)
				tr, br = append(tr, fakemysql.Field{Data: tx}), append(br, fakemysql.Field{Data: bn})
			}
		}
		trows, brows = append(trows, tr), append(brows, br)
	}
	if isInsert {
		rep := &fakemysql.Reply{Affected: 1, ParamCols: paramDefs}
		srv.SetScript(st.sql, func(string, bool) *fakemysql.Reply { return rep })
		srv.SetScript(st.sqlPrinted, func(string, bool) *fakemysql.Reply { return rep }) // Acra forwards the INSERT as its printer spells it
	} else {
		srv.SetScript(st.sql, func(_ string, bin bool) *fakemysql.Reply {
			if bin {
				return &fakemysql.Reply{Cols: defs, Rows: brows}
			}
			return &fakemysql.Reply{Cols: defs, Rows: trows}
		})
	}
	j := &capsJudge{s: s, st: st, srv: srv, sentStart: srv.SentLen(), proto: "binary", isInsert: isInsert}
	if st.kind == "select-text" {
		j.proto = "text"
	}
	logStart := srv.LogLen()
	run := func(payload []byte, kind string) ([]fakemysql.Frame, bool) {
		fr, err := c.CommandCapsEach(payload, kind, j.feed)
		switch {
		case err == proxyrig.ErrAborted:
			return fr, false // the judge reported what it saw
		case err == proxyrig.ErrTimeout:
			// every complete packet delivered so far has been judged; a missing tail alone is not evidence
			r.Inconclusive("watchdog in mysql caps shape step")
			r.Count("mysql_caps_shape_watchdog", 1)
			return fr, false
		case err != nil:
			r.Violation(s.sig("connection broke", "-", j.proto), s.detail(map[string]interface{}{"err": err.Error()}))
			return fr, false
		}
		return fr, true
	}
	if st.kind == "select-text" {
		if _, ok := run(append([]byte{fakemysql.ComQuery}, st.sql...), "query"); !ok {
			return false
		}
	} else {
		fr, ok := run(append([]byte{fakemysql.ComStmtPrepare}, st.sql...), "prepare")
		if !ok || len(fr) == 0 {
			return false
		}
		pok, err := fakemysql.DecodePrepareOK(fr[0].Payload)
		if err != nil {
			if fr[0].Payload[0] != 0xff {
				r.Violation(s.sig("prepare response does not re-parse", "PrepareOK", j.proto), s.detail(map[string]interface{}{"client": ev.Hex(fr[0].Payload)}))
			}
			return false
		}
		var params []fakemysql.BoundParam
		switch st.kind {
		case "select-binary":
			le := make([]byte, 4)
			binary.LittleEndian.PutUint32(le, uint32(rng.Intn(100)))
			params = []fakemysql.BoundParam{{Type: fakemysql.TypeLong, Data: le}}
		case "insert-binary":
			for _, name := range st.proj {
				cc := s.cols[name]
				switch {
				case name == "id":
					le := make([]byte, 4)
					binary.LittleEndian.PutUint32(le, uint32(rng.Intn(1<<20)))
					params = append(params, fakemysql.BoundParam{Type: fakemysql.TypeLong, Data: le})
				case cc.DataType == "int32" || cc.DataType == "int64":
					params = append(params, fakemysql.BoundParam{Type: fakemysql.TypeVarString, Data: capPlain(rng, cc.DataType)})
				default:
					params = append(params, fakemysql.BoundParam{Type: fakemysql.TypeBlob, Data: gen.Content(rng, "ascii", 1+rng.Intn(40))})
				}
			}
		}
		for e := 0; e < st.execs; e++ {
			if _, ok := run(fakemysql.EncodeExecute(pok.StmtID, params), "execute"); !ok {
				return false
			}
		}
		if st.closeIt {
			run(stmtIDBytes(fakemysql.ComStmtClose, pok.StmtID), "none")
		}
	}
	if j.failed {
		return false
	}
	// the statement must have been answered by the script (Acra forwards these statements unchanged)
	for _, m := range srv.Log()[logStart:] {
		if (m.Cmd == fakemysql.ComQuery || m.Cmd == fakemysql.ComStmtPrepare) && m.SQL != st.sql && m.SQL != st.sqlPrinted {
			r.Count("mysql_caps_rig_inconclusive_statement_text_changed", 1)
			r.SampleN("mysql-caps-statement-text-changed", 2, map[string]interface{}{"sent": st.sql, "forwarded": m.SQL})
			return false
		}
	}
	if dbSent := srv.SentLog()[j.sentStart:]; j.idx != len(dbSent) {
		kinds := []string{}
		for _, m := range dbSent {
			kinds = append(kinds, m.Kind)
		}
		r.Violation(s.sig("number of delivered packets differs", "-", j.proto), s.detail(map[string]interface{}{"db_sent": len(dbSent), "client_got": j.idx, "db_kinds": strings.Join(kinds, ",")}))
		return false
	}
	r.SetAdd("mysql_caps_profiles_shaped", s.prof.Key())
	r.SampleN("mysql-caps-shape:"+st.kind, 1, map[string]interface{}{"capabilities": s.prof.Key(), "sql": st.sql, "schema": s.schema, "server_packets": j.idx})
	return true
}

// capsJudge judges the packets of one statement's responses as they are delivered, against the packets the database sent
// (which are logged before they are written, so the database-side packet is known when its counterpart arrives).
type capsJudge struct {
	s         *capsShape
	st        capStmt
	srv       *fakemysql.Server
	sentStart int
	idx       int
	proto     string
	isInsert  bool
	failed    bool
	// definitions the client holds: those of the prepare response (kept under MARIADB_CLIENT_CACHE_METADATA) and those of the current result set
	prepDB, prepCl, curDB, curCl []fakemysql.ColDef
	phase                        string
	paramIdx                     int
	skipped                      bool // the current result set came without column definitions
}

// feed judges the next delivered packet; false stops the exchange (a violation or a rig problem was recorded).
func (j *capsJudge) feed(f fakemysql.Frame) bool {
	ok := j.judge(f)
	if !ok {
		j.failed = true
	}
	return ok
}

func (j *capsJudge) judge(f fakemysql.Frame) bool {
	s, r, proto := j.s, j.s.r, j.proto
	ext := s.prof.extBoth()
	dbSent := j.srv.SentLog()
	i := j.sentStart + j.idx
	if i >= len(dbSent) {
		r.Violation(s.sig("packet delivered that the database did not send", "-", proto), s.detail(map[string]interface{}{"client": ev.Hex(f.Payload), "index": j.idx}))
		return false
	}
	d := dbSent[i]
	j.idx++
	if f.Seq != d.Seq {
		r.Violation(s.sig("sequence id of a delivered packet changed", d.Kind, proto), s.detail(map[string]interface{}{"db": d.Seq, "client": f.Seq, "index": j.idx - 1}))
		return false
	}
	r.Count("mysql_caps_shape_packets_aligned", 1)
	same := func() bool {
		if bytes.Equal(f.Payload, d.Payload) {
			return true
		}
		r.Violation(s.sig("packet that needs no rewriting was changed", d.Kind, proto), s.detail(map[string]interface{}{"db": ev.Hex(d.Payload), "client": ev.Hex(f.Payload)}))
		return false
	}
	switch d.Kind {
	case "PrepareOK":
		j.phase, j.paramIdx, j.prepDB, j.prepCl = "prepare", 0, nil, nil
		return same()
	case "ColumnCount":
		j.phase = "resultset"
		if !same() {
			return false
		}
		_, follows, err := fakemysql.DecodeColumnCount(d.Payload, s.prof.cacheBoth())
		if err != nil {
			r.Inconclusive("mysql caps shape: column count packet of the database does not parse (rig)")
			return false
		}
		j.skipped = !follows
		if follows {
			j.curDB, j.curCl = nil, nil
		} else {
			j.curDB, j.curCl = j.prepDB, j.prepCl
			r.Count("mysql_caps_shape_result_sets_without_metadata", 1)
		}
	case "ParamDef":
		typed := j.isInsert && j.paramIdx < len(j.st.proj) && s.cols[j.st.proj[j.paramIdx]].typed()
		j.paramIdx++
		_, _, ok := s.checkDef("ParamDef", proto, d.Payload, f.Payload, typed)
		return ok
	case "ColumnDef":
		bDB, _, errB := fakemysql.DecodeColDefCaps(d.Payload, ext)
		if errB != nil {
			r.Inconclusive("mysql caps shape: database-side definition does not parse (rig): " + errB.Error())
			return false
		}
		cc, configured := s.colOf(bDB)
		a, b, ok := s.checkDef("ColumnDef", proto, d.Payload, f.Payload, configured && cc.typed())
		if !ok {
			return false
		}
		if j.phase == "prepare" {
			j.prepDB, j.prepCl = append(j.prepDB, b), append(j.prepCl, a)
		} else {
			j.curDB, j.curCl = append(j.curDB, b), append(j.curCl, a)
			if s.prof.cacheBoth() {
				j.prepDB, j.prepCl = j.curDB, j.curCl // the client replaces its cached metadata
			}
		}
	case "TextRow", "BinaryRow":
		curCl, curDB := j.curCl, j.curDB
		kind := d.Kind
		if j.skipped {
			kind += "/metadata-skipped"
		}
		var a, b []fakemysql.Field
		var errA, errB error
		if d.Kind == "TextRow" {
			a, errA = fakemysql.DecodeTextRow(f.Payload, len(curCl))
			b, errB = fakemysql.DecodeTextRow(d.Payload, len(curDB))
		} else {
			a, errA = fakemysql.DecodeBinaryRow(f.Payload, typesOf(curCl))
			b, errB = fakemysql.DecodeBinaryRow(d.Payload, typesOf(curDB))
		}
		if errB != nil {
			r.Inconclusive("mysql caps shape: database-side row does not parse (rig): " + errB.Error())
			return false
		}
		if errA != nil {
			r.Violation(s.sig("row delivered to the client does not re-parse against the column definitions the client holds", kind, proto), s.detail(map[string]interface{}{"err": errA.Error(), "client": ev.Hex(f.Payload), "db": ev.Hex(d.Payload), "client_defs": fmt.Sprintf("%+v", typesOf(curCl)), "db_defs": fmt.Sprintf("%+v", typesOf(curDB))}))
			return false
		}
		if len(a) != len(b) {
			r.Violation(s.sig("row field count changed", kind, proto), s.detail(map[string]interface{}{"db": len(b), "client": len(a)}))
			return false
		}
		good := true
		for fi := range a {
			if a[fi].Null != b[fi].Null {
				r.Violation(s.sig("NULL marker of a row field changed", kind, proto), s.detail(map[string]interface{}{"field": fi, "db_null": b[fi].Null}))
				good = false
				continue
			}
			if _, configured := s.colOf(curDB[fi]); configured {
				if !bytes.Equal(a[fi].Data, b[fi].Data) {
					r.Count("mysql_caps_row_fields_transformed", 1)
				}
				continue
			}
			if !bytes.Equal(a[fi].Data, b[fi].Data) {
				r.Violation(s.sig("row field of an unconfigured column changed", kind, proto), s.detail(map[string]interface{}{"field": fi, "db": ev.Hex(b[fi].Data), "client": ev.Hex(a[fi].Data)}))
				good = false
			} else {
				r.Count("mysql_caps_unconfigured_fields_identical", 1)
			}
		}
		if !good {
			return false
		}
		r.Count("mysql_caps_rows_parsed_against_delivered_definitions", 1)
		r.Distinct("MyC|B|" + s.prof.Key() + "|" + d.Kind + "|shape-kept")
	default: // OK ERR EOF
		if !same() {
			return false
		}
		r.Distinct("MyC|B|" + s.prof.Key() + "|" + d.Kind + "|identical")
	}
	return true
}

func typesOf(defs []fakemysql.ColDef) []byte {
	out := make([]byte, len(defs))
	for i := range defs {
		out[i] = defs[i].Type
	}
	return out
}

// capsLayer runs both phases of the matrix.
func capsLayer(r *ev.Run, only int) {
	t0 := time.Now()
	defer func() { r.Extra("mysql_caps_layer_wall_s", time.Since(t0).Seconds()) }()
	r.Rule += " || MySQL capability / metadata matrix (scripted client and fake server on the harness codec): handshake flavour MySQL / MariaDB, CLIENT_DEPRECATE_EOF, MARIADB_CLIENT_EXTENDED_TYPE_INFO and MARIADB_CLIENT_CACHE_METADATA announced by both sides / one side / nobody (metadata skipped always / every second execution / never), CLIENT_SESSION_TRACK OK packets, HandshakeResponse41 in every layout (CONNECT_WITH_DB, PLUGIN_AUTH, length-encoded / one-byte-length / NUL-terminated auth data of 0..300 bytes, CONNECT_ATTRS), column definitions with unusual but valid metadata (names of 250/251/300/1024 bytes, empty schema / table / original names, charsets incl. two-byte ids, decimals, flags, extended type info of zero / one / several entries with block lengths 0/2/3/250/251/>251, COM_FIELD_LIST default values NULL / empty / >= 251 bytes). phase A' (empty / unrelated configuration): scripted text and binary result sets over such definitions (incl. GEOMETRY and JSON columns), evaluated statements, re-executions, prepared statements that are not executed before a command Acra only relays (COM_PING, COM_INIT_DB, COM_RESET_CONNECTION, COM_STATISTICS, COM_FIELD_LIST), OK packets with info and session state: relay identity of both byte streams. phase B' (table with encrypted columns declared str/bytes/int32/int64 by data_type or data_type_db_identifier, so that Acra re-describes result columns and placeholders): text and binary result sets and prepare responses scripted at the database; every delivered definition re-parses under the negotiated capabilities, keeps catalog..org_name, the extended type info block with its length prefix and the bytes after the fixed part; columns without type configuration byte-identical; rows re-parse against the definitions the client holds (those of the prepare response when metadata is skipped), field counts, NULL markers and unconfigured fields kept"
	rng := gen.New(r.Seed, "c12-mysql-caps")
	nA := r.Pick(36, 300)
	for n := 0; n < nA; n++ {
		srng := gen.New(r.Seed, fmt.Sprintf("c12my-ca-%d-%d", n, rng.Int63()))
		if only >= 0 && only != 3000+n {
			continue
		}
		capsRelaySession(r, srng, 3000+n, n)
	}
	r.Extra("mysql_caps_phase_a_wall_s", time.Since(t0).Seconds())
	nB := r.Pick(36, 300)
	for n := 0; n < nB; n++ {
		srng := gen.New(r.Seed, fmt.Sprintf("c12my-cb-%d-%d", n, rng.Int63()))
		if only >= 0 && only != 5000+n {
			continue
		}
		capsShapeSession(r, srng, 5000+n, n)
	}
	if only >= 0 {
		return
	}
	r.RequireAtLeast("mysql_caps_relay_sessions_byte_identical", 12)
	r.RequireSetAtLeast("mysql_caps_profiles_relayed", 10)
	r.RequireSetAtLeast("mysql_caps_login_layouts_relayed", 10)
	r.RequireSetAtLeast("mysql_caps_metadata_classes_relayed", 15)
	r.RequireAtLeast("mysql_caps_definitions_rewritten_with_nonempty_extended_type_info", 40)
	r.RequireAtLeast("mysql_caps_definitions_rewritten_with_long_names", 15)
	r.RequireAtLeast("mysql_caps_rows_parsed_against_delivered_definitions", 100)
	r.RequireAtLeast("mysql_caps_shape_result_sets_without_metadata", 3)
}
