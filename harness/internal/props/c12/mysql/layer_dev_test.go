package mysql

import (
	"testing"

	"verif/harness/internal/ev"
)

// TestLayerDev runs the MySQL layer alone (development aid); evidence goes to $VERIF_ROOT.
func TestLayerDev(t *testing.T) {
	r := ev.New("C12", "exploration")
	Layer(r)
	r.Distinct("dev-run")
	if rc := r.Finish(); rc != 0 {
		t.Fatalf("layer reported violations (rc=%d)", rc)
	}
}
