package c12

import "time"

// sleepShort is used only while waiting for already-sent bytes to arrive (bounded polling, never a verdict input).
func sleepShort() { time.Sleep(5 * time.Millisecond) }
