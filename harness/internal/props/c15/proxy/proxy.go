// Package proxy plugs the wire-proxy layer into the C15 monitor.
package proxy

import (
	"verif/harness/internal/props/c15"
	"verif/harness/internal/props/proxylayers"
)

func init() { c15.ProxyLayer = proxylayers.Poison }
