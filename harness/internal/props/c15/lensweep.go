package c15

// Data-length sweep: the property quantifies over ALL poison records ("for all poison records generated under any
// poison-key history"), and the generators take the data length as a parameter (poison.CreatePoisonRecord(ks, dataLength),
// poison.CreateSymmetricPoisonRecord(ks, dataLength), acra-poisonrecordmaker --data_length). The sampled cases of c15.go use
// lengths up to 200; this file enumerates a fixed list of lengths, small to large, as a full cross with envelope kind,
// placement and entry point, under the current and under rotated poison keys, plus the matching negatives: ordinary
// client envelopes whose payload has the same sizes.

import (
	"bytes"
	"fmt"
	"sync"

	"github.com/cossacklabs/acra/poison"

	"verif/harness/internal/ev"
	"verif/harness/internal/gen"
)

// sweepLengths are the requested data lengths (poison.UseDefaultDataLength = -1 = what the record maker does without options).
// 300 and 311 sit on both sides of a 512-byte serialized AcraStruct-kind record (overhead 201), 1000..20000 are
// values that are large for a poison record but ordinary for a column.
var sweepLengths = []int{poison.UseDefaultDataLength, 1, 100, 300, 311, 1000, 5000, 20000}

// sweepLargest is the length that quick uses in fewer placements.
const sweepLargest = 20000

func lenLabel(l int) string {
	if l == poison.UseDefaultDataLength {
		return "default"
	}
	return fmt.Sprint(l)
}

// sweepEnvelope is an ordinary protected value of a client with a payload of one of the sweep lengths.
type sweepEnvelope struct {
	owner  string // reader-with-keys | other-client (reader names of Run)
	form   string // container-as | container-ab
	length int
	plain  []byte
	data   []byte
}

// prepareSweepClients makes, per client and envelope kind, one envelope for every sweep length with the real write path
// (RegistryHandler.EncryptWithClientID under the column setting, i.e. what acra-server stores).
func (st *store) prepareSweepClients(rng *gen.Rand) {
	e := st.prepEnv
	for _, c := range []struct {
		n  string
		id []byte
	}{{"reader-with-keys", readerID}, {"other-client", otherID}} {
		for _, form := range []string{"container-as", "container-ab"} {
			for _, l := range sweepLengths {
				n := l
				if l == poison.UseDefaultDataLength {
					n = 1 + rng.Intn(poison.DefaultDataLength-1) // same range as the generator's default
				}
				plain := gen.Bytes(rng, n)
				setting := "plain_as"
				if form == "container-ab" {
					setting = "plain_ab"
				}
				b, err := e.Registry.EncryptWithClientID(c.id, plain, e.Setting(setting))
				must(err, "sweep client envelope")
				if bytes.Equal(b, plain) {
					panic("c15 rig: sweep client envelope was not encrypted")
				}
				st.sweepEnvs = append(st.sweepEnvs, &sweepEnvelope{owner: c.n, form: form, length: l, plain: plain, data: b})
			}
		}
	}
}

// makeSweepRecords generates one poison record per (length, kind) under the store's CURRENT poison keys.
func makeSweepRecords(st *store) []*record {
	var out []*record
	for _, l := range sweepLengths {
		as, err := poison.CreatePoisonRecord(st.ks, l)
		must(err, "CreatePoisonRecord")
		out = append(out, &record{kind: "as", gen: st.pairGen, length: l, data: as})
		ab, err := poison.CreateSymmetricPoisonRecord(st.ks, l)
		must(err, "CreateSymmetricPoisonRecord")
		out = append(out, &record{kind: "ab", gen: st.symGen, length: l, data: ab})
	}
	return out
}

// sweepEmbed puts v among random bytes. variant selects the shape of the surroundings; the first byte is never 0x7f so that the
// searchable translator operations do not take the first 33 bytes for a search hash (see notes: not an input those operations have).
func sweepEmbed(rng *gen.Rand, v []byte, variant int) (in []byte, off int, pre, suf []byte) {
	switch variant {
	case 0: // short random prefix and suffix
		pre, suf = gen.Bytes(rng, 1+rng.Intn(64)), gen.Bytes(rng, rng.Intn(65))
	case 1: // long random prefix (the value is far from the start), short suffix
		pre, suf = gen.Bytes(rng, 65+rng.Intn(536)), gen.Bytes(rng, 1+rng.Intn(64))
	case 2: // text around
		pre, suf = []byte("some prefix %%"), []byte("%% some suffix")
	default: // random prefix, nothing after
		pre, suf = gen.Bytes(rng, 1+rng.Intn(64)), nil
	}
	if pre[0] == 0x7f {
		pre[0] = 0x7e
	}
	return gen.Cat(pre, v, suf), len(pre), pre, suf
}

var sweepReaders = []struct {
	n  string
	id []byte
}{{"reader-with-keys", readerID}, {"other-client", otherID}, {"client-without-keys", noKeysID}}

func sweepReaderID(name string) []byte {
	for _, rd := range sweepReaders {
		if rd.n == name {
			return rd.id
		}
	}
	panic("unknown reader " + name)
}

// sweepCases builds the data-length cases of one (store, epoch). Counts are fixed functions of the tier; only the random
// surroundings depend on the seed. Called after the epoch's key rotation.
//
//	positives: record epochs (quick: the records made at this epoch and those made at epoch 0, i.e. under the oldest keys;
//	           thorough: the records of every epoch so far) × 8 lengths × 2 kinds × placements (alone, embedded; thorough: alone and 4
//	           shapes of embedding) × 18 entry points (the 10 distinct column variants, 8 translator call forms); reader rotates.
//	           quick uses length 20000 embedded at 4-5 of the 18 entry points per epoch (rotating: every entry point within the 4 epochs).
//	negatives: client envelopes of both kinds with payloads of the same 8 lengths × (alone, embedded) × 18 entry points; owner and
//	           reader rotate (half of the cases are read by the owner: those must be decrypted where the entry point decrypts).
func sweepCases(r *ev.Run, st *store, si, epoch int, cols, trs []target) []kase {
	rng := gen.New(r.Seed, fmt.Sprintf("c15-lensweep-%s-e%d", st.name, epoch))
	st.sweepPool = append(st.sweepPool, makeSweepRecords(st))
	st.ks.Reset()
	entries := append(append([]target{}, cols...), trs...)
	recEpochs := []int{epoch}
	if r.Thorough() {
		recEpochs = nil
		for e := 0; e <= epoch; e++ {
			recEpochs = append(recEpochs, e)
		}
	} else if epoch > 0 {
		recEpochs = []int{0, epoch}
	}
	embedVariants := r.Pick(1, 4)
	var out []kase
	idx := 0
	for _, re := range recEpochs {
		for _, rec := range st.sweepPool[re] {
			for pv := 0; pv <= embedVariants; pv++ { // 0 = alone, 1.. = embedded shapes
				for ti, tgt := range entries {
					if !r.Thorough() && rec.length == sweepLargest && pv > 0 && (ti+epoch)%4 != 0 {
						continue
					}
					k := kase{positive: true, sweep: true, judged: true, st: st, stIdx: si, epoch: epoch, tgt: tgt, kind: rec.kind, keyAge: st.keyAge(rec), length: rec.length}
					rd := sweepReaders[idx%len(sweepReaders)]
					idx++
					k.reader, k.note = rd.id, rd.n
					if pv == 0 {
						k.placement, k.input = "alone", append([]byte{}, rec.data...)
					} else {
						k.placement = "embedded"
						k.input, k.offset, _, _ = sweepEmbed(rng, rec.data, pv-1)
					}
					k.hash = append([]byte{0x7f}, gen.Bytes(rng, 32)...)
					k.class = fmt.Sprintf("poison(kind=%s,key=%s,len=%s,made-at-epoch=%d)/%s", rec.kind, keyClass(k.keyAge), lenLabel(rec.length), re, k.placement)
					out = append(out, k)
				}
			}
		}
	}
	// negatives: ordinary protected values of the same sizes
	for ei, env := range st.sweepEnvs {
		if !r.Thorough() && (ei/len(sweepLengths)/2+epoch)%2 != 0 {
			continue // quick: the envelopes of one owner per epoch, alternating (ei / 8 / 2 = owner index)
		}
		for pv := 0; pv <= embedVariants; pv++ {
			for ti, tgt := range entries {
				if !r.Thorough() && env.length == sweepLargest && pv > 0 && (ti+epoch)%4 != 0 {
					continue
				}
				k := kase{sweep: true, judged: true, st: st, stIdx: si, epoch: epoch, tgt: tgt, kind: env.form[len(env.form)-2:], length: env.length, owner: env.owner}
				// half of the cases are read by the owner, the others by another client / a client without keys
				// (the rotation is arranged so that every (entry point, kind, placement, length, owner) cell is read by the owner
				// at one of the two epochs at which quick uses this owner's envelopes, and by a non-owner at the other)
				switch (ti + pv + ei + epoch/2) % 4 {
				case 0, 2:
					k.note = env.owner
				case 1:
					k.note = "other-client"
					if env.owner == "other-client" {
						k.note = "reader-with-keys"
					}
				default:
					k.note = "client-without-keys"
				}
				k.reader = sweepReaderID(k.note)
				if pv == 0 {
					k.placement, k.input, k.wantOut = "alone", append([]byte{}, env.data...), env.plain
				} else {
					k.placement = "embedded"
					var pre, suf []byte
					k.input, k.offset, pre, suf = sweepEmbed(rng, env.data, pv-1)
					k.wantOut = gen.Cat(pre, env.plain, suf)
				}
				k.hash = append([]byte{0x7f}, gen.Bytes(rng, 32)...)
				k.class = fmt.Sprintf("client-envelope(form=%s,payload-len=%s)/%s", env.form, lenLabel(env.length), k.placement)
				out = append(out, k)
			}
		}
	}
	return out
}

// sweepPositiveDetected records a sweep positive that passed every check of runCase.
func sweepPositiveDetected(r *ev.Run, k kase, res outcome) {
	l := lenLabel(k.length)
	r.Count("lensweep:positive_detected", 1)
	r.Count("lensweep:detected:len="+l, 1)
	r.Count("lensweep:detected:"+k.tgt.group+":kind="+k.kind+":"+k.placement, 1)
	r.Count("lensweep:detected:key="+keyClass(k.keyAge), 1)
	if len(k.input) > 512 {
		r.Count("lensweep:detected:value_longer_than_512_bytes", 1)
	}
	r.SetAdd("lensweep:detected(entry point|kind|len|placement|key)", fmt.Sprintf("%s|%s|%s|%s|%s", k.tgt.name, k.kind, l, k.placement, keyClass(k.keyAge)))
	r.Distinct(fmt.Sprintf("lensweep-pos|%s|%s|%s|%s|len=%s|%s", k.st.name, k.tgt.name, k.kind, keyClass(k.keyAge), l, k.placement))
	r.SampleN("lensweep:pos:"+l, 1, map[string]interface{}{"case": "positive (data-length sweep)", "keystore": k.st.name, "epoch": k.epoch, "entry_point": k.tgt.name, "class": k.class,
		"reader": k.note, "offset": k.offset, "input_length": len(k.input), "input": ev.Hex(k.input), "callback_events(seq,goroutine)": res.Events, "operation_goroutine": res.OpGid,
		"delivery_seq": res.DeliverySeq, "delivered_digest": digest(res.Out), "err": fmt.Sprint(res.Err)})
}

// sweepNegativeSilent records a sweep negative for which no callback ran, and whether the value was still decrypted for its owner.
// Decryption is counted, not judged: the property speaks about the callbacks. The counters are non-vacuity evidence that the
// negatives are real protected values which the entry points open (guarded in sweepGuards).
func sweepNegativeSilent(r *ev.Run, k kase, res outcome) {
	l := lenLabel(k.length)
	r.Count("lensweep:silent:len="+l, 1)
	r.Distinct(fmt.Sprintf("lensweep-neg|%s|%s|%s|len=%s|%s", k.st.name, k.tgt.name, k.kind, l, k.placement))
	decrypted := false
	if k.note == k.owner {
		r.Count("lensweep:negative_read_by_owner", 1)
		if res.Err == nil && bytes.Equal(res.Out, k.wantOut) {
			decrypted = true
			r.Count("lensweep:negative_read_by_owner:delivered_decrypted", 1)
			r.Count("lensweep:negative_read_by_owner:delivered_decrypted:len="+l, 1)
			key := fmt.Sprintf("%s|%s|%s", k.tgt.name, k.kind, k.placement)
			r.SetAdd("lensweep:entry points that delivered the owner's plaintext (entry point|kind|placement)", key)
			sweepMu.Lock()
			sweepDecrypting[key]++
			sweepMu.Unlock()
		}
	} else if res.Err == nil && bytes.Equal(res.Out, k.wantOut) {
		// not this monitor's property (C01/C02 judge who may read what); recorded so that it is visible
		r.Count("lensweep:negative_read_by_non_owner:delivered_decrypted", 1)
	}
	r.SampleN("lensweep:neg:"+l, 1, map[string]interface{}{"case": "negative (data-length sweep)", "keystore": k.st.name, "entry_point": k.tgt.name, "class": k.class, "owner": k.owner,
		"reader": k.note, "input_length": len(k.input), "input": ev.Hex(k.input), "callbacks": 0, "delivery_seq": res.DeliverySeq, "delivered_digest": digest(res.Out), "decrypted_for_owner": decrypted, "err": fmt.Sprint(res.Err)})
}

var (
	sweepMu         sync.Mutex
	sweepDecrypting = map[string]int{}
)

// sweepGuards: a run in which the sweep observed nothing must fail.
func sweepGuards(r *ev.Run) {
	sweepMu.Lock()
	r.Extra("lensweep: client envelopes delivered decrypted to their owner (entry point|kind|placement -> cases)", copyMap(sweepDecrypting))
	sweepMu.Unlock()
	for _, l := range sweepLengths {
		r.RequireAtLeast("lensweep:detected:len="+lenLabel(l), 500)
		r.RequireAtLeast("lensweep:silent:len="+lenLabel(l), 300)
		r.RequireAtLeast("lensweep:negative_read_by_owner:delivered_decrypted:len="+lenLabel(l), 100)
	}
	for _, g := range []string{"column", "translator"} {
		for _, kd := range []string{"as", "ab"} {
			for _, p := range []string{"alone", "embedded"} {
				r.RequireAtLeast("lensweep:detected:"+g+":kind="+kd+":"+p, 100)
			}
		}
	}
	r.RequireAtLeast("lensweep:detected:key=current", 500)
	r.RequireAtLeast("lensweep:detected:key=rotated", 500)
	r.RequireAtLeast("lensweep:detected:value_longer_than_512_bytes", 1000)
}
