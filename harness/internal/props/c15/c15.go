// Package c15 monitors "poison records always raise the alarm, ordinary data never does" at the
// library / service layer: the column decryption pipeline the proxy factories build and every decrypt
// operation of the TranslatorService. The wire-proxy layer is plugged in through ProxyLayer.
package c15

import (
	"context"
	"encoding/binary"
	"fmt"
	"os"
	"strings"
	"sync"

	"github.com/cossacklabs/acra/acrablock"
	"github.com/cossacklabs/acra/acrastruct"
	"github.com/cossacklabs/acra/encryptor/base/config"
	"github.com/cossacklabs/acra/keystore"
	"github.com/cossacklabs/acra/poison"

	"verif/harness/internal/ev"
	"verif/harness/internal/gen"
	"verif/harness/internal/props"
	"verif/harness/internal/rig/envrig"
	"verif/harness/internal/rig/ksrig"
)

func init() { props.Register("C15", props.Monitor{Level: "exploration", Run: Run}) }

// ProxyLayer, when set (by the wire-proxy rig), is run at the end of Run with the same evidence object.
var ProxyLayer func(r *ev.Run)

var bg = context.Background()

// record is one generated poison record with the generation of the key it was made under.
type record struct {
	kind   string // as | ab
	gen    int    // generation number of the poison key (pair for as, symmetric for ab) at creation
	length int    // requested data length (-1 = default)
	data   []byte
}

// store is one keystore under test with its poison-key history and material for negative cases.
type store struct {
	name             string
	ks               ksrig.FullKeyStore
	pairGen, symGen  int
	pool             []*record
	foreign          []*record           // poison records made with ANOTHER keystore's poison keys
	clientEnvelopes  map[string][][]byte // "<owner>/<form>" -> envelopes
	clientEnvClasses []string
	// data-length sweep (lensweep.go)
	prepEnv   *envrig.Env
	sweepPool [][]*record // per epoch: one record per (data length, kind) made under the keys current at that epoch
	sweepEnvs []*sweepEnvelope
}

func (s *store) keyAge(rec *record) int {
	if rec.kind == "as" {
		return s.pairGen - rec.gen
	}
	return s.symGen - rec.gen
}

var (
	readerID = []byte("c15_reader")
	otherID  = []byte("c15_other")
	noKeysID = []byte("c15_client_without_keys")
)

// wenv is one worker's services over one store: its own callback storage, translator service and pipeline factory.
type wenv struct {
	env *envrig.Env
	rec *recorder
}

// target is one place where a value coming back from storage is handled.
type target struct {
	name   string
	group  string // column | translator
	masked bool
	run    func(we *wenv, reader, in, hash []byte) ([]byte, error)
}

func columnTarget(setting string, withMasking bool) target {
	name := fmt.Sprintf("column[setting=%s,masking-processor=%v]", orNone(setting), withMasking)
	return target{name: name, group: "column", masked: withMasking && len(setting) > 4 && setting[:4] == "mask",
		run: func(we *wenv, reader, in, _ []byte) ([]byte, error) {
			p := we.env.NewReadPipeline(withMasking)
			var s config.ColumnEncryptionSetting
			if setting != "" {
				s = we.env.Setting(setting)
			}
			out, _, err := p.OnColumn(reader, s, in)
			return out, err
		}}
}

func orNone(s string) string {
	if s == "" {
		return "none"
	}
	return s
}

func targets() (cols, trs []target) {
	for _, s := range []string{"", "plain_as", "plain_ab", "search_as", "search_ab"} {
		cols = append(cols, columnTarget(s, false))
	}
	for _, s := range []string{"", "plain_as", "plain_ab", "mask_as_l", "mask_ab_r", "mask_as_l", "mask_ab_r"} {
		cols = append(cols, columnTarget(s, true))
	}
	cp := func(b []byte) []byte { return append([]byte{}, b...) }
	trs = []target{
		{name: "translator.Decrypt", group: "translator", run: func(we *wenv, id, in, _ []byte) ([]byte, error) {
			return we.env.Translator.Decrypt(bg, cp(in), id, nil)
		}},
		{name: "translator.DecryptSym", group: "translator", run: func(we *wenv, id, in, _ []byte) ([]byte, error) {
			return we.env.Translator.DecryptSym(bg, cp(in), id, nil)
		}},
		{name: "translator.DecryptSearchable(data)", group: "translator", run: func(we *wenv, id, in, _ []byte) ([]byte, error) {
			return we.env.Translator.DecryptSearchable(bg, cp(in), nil, id, nil)
		}},
		{name: "translator.DecryptSearchable(hash+data)", group: "translator", run: func(we *wenv, id, in, h []byte) ([]byte, error) {
			return we.env.Translator.DecryptSearchable(bg, gen.Cat(h, in), nil, id, nil)
		}},
		{name: "translator.DecryptSearchable(data,hash)", group: "translator", run: func(we *wenv, id, in, h []byte) ([]byte, error) {
			return we.env.Translator.DecryptSearchable(bg, cp(in), cp(h), id, nil)
		}},
		{name: "translator.DecryptSymSearchable(data)", group: "translator", run: func(we *wenv, id, in, _ []byte) ([]byte, error) {
			return we.env.Translator.DecryptSymSearchable(bg, cp(in), nil, id, nil)
		}},
		{name: "translator.DecryptSymSearchable(hash+data)", group: "translator", run: func(we *wenv, id, in, h []byte) ([]byte, error) {
			return we.env.Translator.DecryptSymSearchable(bg, gen.Cat(h, in), nil, id, nil)
		}},
		{name: "translator.DecryptSymSearchable(data,hash)", group: "translator", run: func(we *wenv, id, in, h []byte) ([]byte, error) {
			return we.env.Translator.DecryptSymSearchable(bg, cp(in), cp(h), id, nil)
		}},
	}
	return
}

type kase struct {
	positive  bool
	st        *store
	stIdx     int
	epoch     int
	tgt       target
	reader    []byte
	input     []byte
	hash      []byte
	class     string // how the input was built (stable text)
	kind      string
	keyAge    int
	placement string
	offset    int
	judged    bool
	note      string
	// data-length sweep (lensweep.go)
	sweep   bool
	length  int    // requested data length of the poison record / payload length of the client envelope (-1 = default)
	owner   string // negatives: reader name of the client the envelope belongs to
	wantOut []byte // negatives: what the entry point delivers when it decrypts the envelope for its owner
}

func u64(v uint64) []byte { b := make([]byte, 8); binary.LittleEndian.PutUint64(b, v); return b }

var columnPlacements = []string{"alone", "embedded-random", "embedded-random", "embedded-random", "text-around", "partial-tags-around", "hash-lookalike-prefix",
	"after-own-envelope", "before-own-envelope", "after-other-envelope", "two-records",
	"after-lookalike-header(covering)", "after-lookalike-header(huge)", "after-lookalike-header(small)"}
var translatorPlacements = []string{"alone", "alone", "alone", "embedded-random", "text-around", "after-other-envelope", "two-records"}

// place builds the bytes "coming back from storage" that contain the poison record.
// "own" envelopes belong to the reading client (it can decrypt them), "other" ones to a different client.
func place(rng *gen.Rand, st *store, rec []byte, placement string, i int, readerName string) (in []byte, off int) {
	own, foreign := "reader", "other"
	if readerName == "other-client" {
		own, foreign = "other", "reader"
	}
	pickEnv := func(owner string) []byte {
		forms := []string{"container-as", "container-ab"}
		l := st.clientEnvelopes[owner+"/"+forms[rng.Intn(2)]]
		return l[rng.Intn(len(l))]
	}
	switch placement {
	case "alone":
		return append([]byte{}, rec...), 0
	case "embedded-random":
		k := i % 65
		return gen.Cat(gen.Bytes(rng, k), rec, gen.Bytes(rng, rng.Intn(65))), k
	case "text-around":
		return gen.Cat([]byte("prefix text "), rec, []byte(" suffix text")), 12
	case "partial-tags-around":
		p, s := gen.Framing(rng, 4)
		return gen.Cat(p, rec, s), len(p)
	case "hash-lookalike-prefix":
		p, _ := gen.Framing(rng, 6)
		return gen.Cat(p, rec), len(p)
	case "after-own-envelope":
		e := pickEnv(own)
		return gen.Cat(e, rec), len(e)
	case "before-own-envelope":
		return gen.Cat(rec, pickEnv(own)), 0
	case "after-other-envelope":
		e := pickEnv(foreign)
		return gen.Cat(e, rec), len(e)
	case "two-records":
		return gen.Cat(rec, gen.Bytes(rng, rng.Intn(8)), rec), 0
	case "after-lookalike-header(covering)", "after-lookalike-header(huge)", "after-lookalike-header(small)":
		filler := gen.Bytes(rng, 1+rng.Intn(6))
		var l uint64
		switch placement {
		case "after-lookalike-header(covering)":
			l = uint64(12 + len(filler) + len(rec))
		case "after-lookalike-header(huge)":
			l = []uint64{1 << 62, 1 << 63, ^uint64(0), ^uint64(0) - 7, 1 << 31}[rng.Intn(5)]
		default:
			l = uint64(1 + rng.Intn(11)) // 0 is excluded: see notes/c15.md (a zero-length look-alike in a masked column never returns; C11's finding)
		}
		h := gen.Cat([]byte("%%%"), u64(l), []byte{[]byte{0xF0, 0xF1}[rng.Intn(2)]}, filler)
		return gen.Cat(h, rec), len(h)
	}
	panic("unknown placement " + placement)
}

// refDecryptable is the reference used ONLY to classify damaged records: does the inner envelope still open
// with some poison key of the store at the library level (damage fell into a field that is not authenticated)?
func refDecryptable(ks ksrig.FullKeyStore, kind string, inner []byte) (ok bool) {
	defer func() {
		if recover() != nil {
			ok = false
		}
	}()
	if kind == "as" {
		privs, err := ks.GetPoisonPrivateKeys()
		if err != nil {
			return false
		}
		_, err = acrastruct.DecryptRotatedAcrastruct(append([]byte{}, inner...), privs, nil)
		return err == nil
	}
	syms, err := ks.GetPoisonSymmetricKeys()
	if err != nil {
		return false
	}
	blk, err := acrablock.NewAcraBlockFromData(append([]byte{}, inner...))
	if err != nil {
		return false
	}
	_, err = blk.Decrypt(syms, nil)
	return err == nil
}

var negativeClasses = []string{"random", "random", "lookalike", "client-envelope", "client-envelope", "client-envelope-framed", "poison-truncated-tail", "poison-truncated-head",
	"poison-bitflip", "poison-bitflip", "foreign-keystore-poison", "foreign-keystore-poison-framed", "empty-or-tiny"}

func (st *store) negative(rng *gen.Rand, class string) (in []byte, sub string, judged bool) {
	judged = true
	switch class {
	case "random":
		return gen.Bytes(rng, rng.Intn(300)), class, true
	case "empty-or-tiny":
		return gen.Bytes(rng, rng.Intn(14)), class, true
	case "lookalike":
		cl := []string{"quotes", "percents", "hash-lookalike", "astag-random", "abtag-random", "ctag-random", "as-header-consistent", "ab-header-consistent", "ab-header-inconsistent", "c-header-consistent", "c-header-inconsistent"}
		c := cl[rng.Intn(len(cl))]
		n := gen.BoundaryLengths[rng.Intn(28)]
		return gen.Content(rng, c, n), "lookalike:" + c, true
	case "client-envelope", "client-envelope-framed":
		k := st.clientEnvClasses[rng.Intn(len(st.clientEnvClasses))]
		l := st.clientEnvelopes[k]
		e := l[rng.Intn(len(l))]
		if class == "client-envelope-framed" {
			p, s := gen.Framing(rng, 1+rng.Intn(gen.FramingKinds-1))
			return gen.Cat(p, e, s), "client-envelope-framed:" + k, true
		}
		return append([]byte{}, e...), "client-envelope:" + k, true
	case "poison-truncated-tail":
		rec := st.pool[rng.Intn(len(st.pool))]
		cut := 1 + rng.Intn(len(rec.data)-1)
		if rng.Intn(3) == 0 {
			cut = 1 + rng.Intn(3)
		}
		in = append([]byte{}, rec.data[:len(rec.data)-cut]...)
		if rng.Intn(2) == 0 {
			in = gen.Cat(gen.Bytes(rng, rng.Intn(20)), in)
		}
		return in, "poison-truncated-tail:" + rec.kind, true
	case "poison-truncated-head":
		rec := st.pool[rng.Intn(len(st.pool))]
		// drop the container header and at least the first byte of the inner envelope's own tag
		cut := 13 + rng.Intn(len(rec.data)-13)
		in = append([]byte{}, rec.data[cut:]...)
		return in, "poison-truncated-head:" + rec.kind, true
	case "poison-bitflip":
		rec := st.pool[rng.Intn(len(st.pool))]
		in = append([]byte{}, rec.data...)
		pos := rng.Intn(len(in))
		if rng.Intn(3) == 0 {
			pos = 12 + rng.Intn(len(in)-12)
		}
		in[pos] ^= 1 << uint(rng.Intn(8))
		// judged only when the damage destroyed the inner envelope (library-level reference); damage in an
		// unauthenticated header field leaves an intact poison envelope inside the bytes and is not judged
		judged = !refDecryptable(st.ks, rec.kind, in[12:])
		return in, "poison-bitflip:" + rec.kind, judged
	case "foreign-keystore-poison", "foreign-keystore-poison-framed":
		rec := st.foreign[rng.Intn(len(st.foreign))]
		if class == "foreign-keystore-poison-framed" {
			return gen.Cat(gen.Bytes(rng, rng.Intn(65)), rec.data, gen.Bytes(rng, rng.Intn(30))), class + ":" + rec.kind, true
		}
		return append([]byte{}, rec.data...), class + ":" + rec.kind, true
	}
	panic("unknown negative class " + class)
}

func must(err error, what string) {
	if err != nil {
		panic(fmt.Sprintf("c15 rig: %s: %v", what, err))
	}
}

var recordLengths = []int{1, 2, 3, 7, 16, 45, 100, 137, 200, poison.UseDefaultDataLength}

// makeRecords generates poison records under the store's CURRENT poison keys.
func makeRecords(ks ksrig.FullKeyStore, pairGen, symGen, perKind int, rng *gen.Rand) []*record {
	var out []*record
	for i := 0; i < perKind; i++ {
		l := recordLengths[(i+rng.Intn(len(recordLengths)))%len(recordLengths)]
		if i >= len(recordLengths) {
			l = 1 + rng.Intn(200)
		}
		as, err := poison.CreatePoisonRecord(ks, l)
		must(err, "CreatePoisonRecord")
		out = append(out, &record{kind: "as", gen: pairGen, length: l, data: as})
		ab, err := poison.CreateSymmetricPoisonRecord(ks, l)
		must(err, "CreateSymmetricPoisonRecord")
		out = append(out, &record{kind: "ab", gen: symGen, length: l, data: ab})
	}
	return out
}

func newStores() []*store {
	v1, err := ksrig.V1(ksrig.ScratchDir("c15-v1"), ksrig.RandBytes(32), keystore.InfiniteCacheSize)
	must(err, "v1 keystore")
	v1f, err := ksrig.V1(ksrig.ScratchDir("c15-v1-foreign"), ksrig.RandBytes(32), keystore.InfiniteCacheSize)
	must(err, "foreign v1 keystore")
	v2, err := ksrig.V2Mem(ksrig.NewV2Keys())
	must(err, "v2 keystore")
	v2f, err := ksrig.V2Mem(ksrig.NewV2Keys())
	must(err, "foreign v2 keystore")
	v2d, err := ksrig.V2Dir(ksrig.ScratchDir("c15-v2dir")+"/ks", ksrig.NewV2Keys())
	must(err, "v2 directory keystore")
	frng := gen.New(1, "c15-foreign")
	foreign := append(makeRecords(v1f, 0, 0, 4, frng), makeRecords(v2f, 0, 0, 4, frng)...)
	return []*store{
		{name: "v1", ks: v1, foreign: foreign},
		{name: "v2mem", ks: v2, foreign: foreign},
		{name: "v2dir", ks: v2d, foreign: foreign},
	}
}

// prepareClients creates the ordinary clients and their envelopes (negative inputs and surroundings).
func (st *store) prepareClients(rng *gen.Rand) {
	must(ksrig.GenClient(st.ks, readerID), "client keys")
	must(ksrig.GenClient(st.ks, otherID), "client keys")
	e, err := envrig.New(st.name+"-prep", st.ks, nil, "")
	must(err, "env")
	st.prepEnv = e
	st.clientEnvelopes = map[string][][]byte{}
	add := func(k string, b []byte, err error) {
		must(err, "client envelope "+k)
		if _, ok := st.clientEnvelopes[k]; !ok {
			st.clientEnvClasses = append(st.clientEnvClasses, k)
		}
		st.clientEnvelopes[k] = append(st.clientEnvelopes[k], b)
	}
	for _, c := range []struct {
		n  string
		id []byte
	}{{"reader", readerID}, {"other", otherID}} {
		for i := 0; i < 6; i++ {
			x := gen.Content(rng, "ascii", 1+rng.Intn(120))
			b, err := e.Registry.EncryptWithClientID(c.id, x, e.Setting("plain_as"))
			add(c.n+"/container-as", b, err)
			b, err = e.Registry.EncryptWithClientID(c.id, x, e.Setting("plain_ab"))
			add(c.n+"/container-ab", b, err)
			pub, err := st.ks.GetClientIDEncryptionPublicKey(c.id)
			must(err, "public key")
			b, err = acrastruct.CreateAcrastruct(x, pub, nil)
			add(c.n+"/raw-as", b, err)
			sym, err := st.ks.GetClientIDSymmetricKey(c.id)
			must(err, "symmetric key")
			b, err = acrablock.CreateAcraBlock(x, sym, nil)
			add(c.n+"/raw-ab", b, err)
			sr, err := e.Translator.EncryptSearchable(bg, x, c.id, nil)
			add(c.n+"/searchable-as", gen.Cat(sr.Hash, sr.EncryptedData), err)
			sr, err = e.Translator.EncryptSymSearchable(bg, x, c.id, nil)
			add(c.n+"/searchable-ab", gen.Cat(sr.Hash, sr.EncryptedData), err)
		}
	}
}

func keyClass(age int) string {
	if age == 0 {
		return "current"
	}
	return "rotated"
}

// Run is the C15 monitor (library / service layer), followed by the wire layer if plugged in.
func Run(r *ev.Run) {
	r.Rule = "cases = (keystore format v1|v2 × poison-key history of 0-3 rotations of the pair and of the symmetric key × record kind AcraStruct|AcraBlock made under the current or an older key × placement (alone, offsets 0..64 in random bytes, text, partial tags, hash look-alike prefix, next to client envelopes, two records, after look-alike container headers) × entry point (column pipeline under 12 column-setting/masking variants, 8 translator decrypt call forms) × reader) for positives, and (random bytes, look-alike headers, client envelopes raw/container/searchable framed or not, truncated and bit-flipped poison records, poison records of another keystore) × entry point for negatives; seeded sample, fixed counts per (keystore, epoch). Data-length sweep (enumerated, not sampled; counters lensweep:*): requested data length {default,1,100,300,311,1000,5000,20000} × kind × (alone | embedded among random bytes) × 18 entry points (10 column variants, 8 translator call forms) × records made under the current and under rotated poison keys, per keystore and epoch, and as negatives client envelopes of both kinds with payloads of the same lengths (quick: length 20000 embedded at a rotating quarter of the entry points per epoch). Script-callback phase (counters script:*): per keystore one callback storage configured like the servers do (EmptyCallback, poison.ExecuteScriptCallback with a shell script that appends a line to a file, then the recorders) handles a fixed sequence of 12 (thorough 36) poison values alternating with clean values, entry point / kind / placement / reader / key age rotating: for every poison value the script callback must be called and return nil and the callbacks after it must run, for clean values none; the line count of the script's file is compared with the number of started scripts. A positive case is non-trivial when the recording callback ran inside the operation window; distinct = (keystore, entry point, kind, key age, placement[, data length in the sweep]) for positives and (keystore, entry-point group, input class) for silent negatives"
	r.Assumptions = []string{
		"crypto library replaced by the pure-Go gothemis stand-in (Secure Cell Seal / Secure Message / EC key contract)",
		"library/service layer: column pipeline assembled like proxyFactory.New (hmac, old-container wrapper, poison recognizer BEFORE the decrypt/masking handler) and TranslatorService; delivery = return of OnColumn / of the translator operation; wire transport is judged by the proxy layer",
		"recording callbacks registered in poison.NewCallbackStorage(); the stock StopCallback is never registered (it exits the process); EmptyCallback and ExecuteScriptCallback (a sh script in scratch; Acra starts it and does not wait for it) are registered in front of the recorders in the script-callback phase only",
		"a handle is Reset() after each rotation (a warm v1 handle serving stale rotated-key lists is C06's subject); Redis keystores not covered",
		"translator: by design the poison check happens only after a failed decrypt, so a poison record preceded by an envelope the caller CAN decrypt is not demanded there",
	}
	stores := newStores()
	for _, st := range stores {
		st.prepareClients(gen.New(r.Seed, "c15-clients-"+st.name))
		st.prepareSweepClients(gen.New(r.Seed, "c15-lensweep-clients-"+st.name))
	}
	// script-callback phase (script.go): the scripts are written before anything else runs
	var scriptEnvs []*scriptEnv
	for _, st := range stores {
		scriptEnvs = append(scriptEnvs, newScriptEnv(st))
	}
	const workers = 8
	wenvs := make([][]*wenv, workers)
	for w := 0; w < workers; w++ {
		for _, st := range stores {
			rec := &recorder{}
			cs := poison.NewCallbackStorage()
			cs.AddCallback(primary{rec})
			cs.AddCallback(secondary{rec})
			e, err := envrig.New(fmt.Sprintf("%s-w%d", st.name, w), st.ks, cs, "")
			must(err, "env")
			wenvs[w] = append(wenvs[w], &wenv{env: e, rec: rec})
		}
	}
	cols, trs := targets()
	mult := r.Pick(5, 40)
	posPerBatch := 170 * mult // × 3 stores × 4 epochs ≈ 2 040 (quick)
	negPerBatch := 340 * mult // ≈ 4 080 (quick)
	readers := []struct {
		n  string
		id []byte
	}{{"reader-with-keys", readerID}, {"other-client", otherID}, {"client-without-keys", noKeysID}}

	for epoch := 0; epoch < 4; epoch++ {
		var batch []kase
		for si, st := range stores {
			rng := gen.New(r.Seed, fmt.Sprintf("c15-%s-e%d", st.name, epoch))
			// key history: epoch 0 = first keys (created implicitly by the record makers), 1 = pair rotated, 2 = symmetric key rotated, 3 = both rotated again
			switch epoch {
			case 1:
				must(st.ks.GeneratePoisonKeyPair(), "rotate poison pair")
				st.pairGen++
			case 2:
				must(st.ks.GeneratePoisonSymmetricKey(), "rotate poison symmetric key")
				st.symGen++
			case 3:
				must(st.ks.GeneratePoisonKeyPair(), "rotate poison pair")
				must(st.ks.GeneratePoisonSymmetricKey(), "rotate poison symmetric key")
				st.pairGen++
				st.symGen++
			}
			st.ks.Reset()
			st.pool = append(st.pool, makeRecords(st.ks, st.pairGen, st.symGen, 12, rng)...)
			st.ks.Reset()
			var rotated []*record
			for _, rec := range st.pool {
				if st.keyAge(rec) > 0 {
					rotated = append(rotated, rec)
				}
			}
			for i := 0; i < posPerBatch; i++ {
				rec := st.pool[rng.Intn(len(st.pool))]
				if len(rotated) > 0 && i%2 == 0 {
					rec = rotated[rng.Intn(len(rotated))]
				}
				k := kase{positive: true, st: st, stIdx: si, epoch: epoch, kind: rec.kind, keyAge: st.keyAge(rec), judged: true}
				if i%5 < 3 {
					k.tgt = cols[rng.Intn(len(cols))]
					k.placement = columnPlacements[rng.Intn(len(columnPlacements))]
				} else {
					k.tgt = trs[rng.Intn(len(trs))]
					k.placement = translatorPlacements[rng.Intn(len(translatorPlacements))]
				}
				rd := readers[rng.Intn(len(readers))]
				k.reader, k.note = rd.id, rd.n
				if rd.n == "client-without-keys" && (k.placement == "after-own-envelope" || k.placement == "before-own-envelope") {
					k.placement = "after-other-envelope" // this reader owns nothing
				}
				k.input, k.offset = place(rng, st, rec.data, k.placement, i, rd.n)
				k.hash = append([]byte{0x7f}, gen.Bytes(rng, 32)...)
				k.class = fmt.Sprintf("poison(kind=%s,key=%s,len=%d)/%s", rec.kind, keyClass(k.keyAge), rec.length, k.placement)
				batch = append(batch, k)
			}
			// informational: the inner envelope of a poison record without its container (the format older generators wrote).
			// poison.Create* never produce it, so nothing is demanded; what happens is counted.
			for i := 0; i < 12*mult; i++ {
				rec := st.pool[rng.Intn(len(st.pool))]
				k := kase{positive: true, judged: false, st: st, stIdx: si, epoch: epoch, kind: rec.kind, keyAge: st.keyAge(rec), placement: "raw-inner-envelope"}
				if i%2 == 0 {
					k.tgt = cols[rng.Intn(len(cols))]
				} else {
					k.tgt = trs[rng.Intn(2)]
				}
				k.input = append([]byte{}, rec.data[12:]...)
				k.hash = append([]byte{0x7f}, gen.Bytes(rng, 32)...)
				k.reader, k.note = readerID, "reader-with-keys"
				k.class = fmt.Sprintf("poison-inner-envelope-without-container(kind=%s,key=%s)", rec.kind, keyClass(k.keyAge))
				batch = append(batch, k)
			}
			for i := 0; i < negPerBatch; i++ {
				k := kase{st: st, stIdx: si, epoch: epoch}
				if i%5 < 3 {
					k.tgt = cols[rng.Intn(len(cols))]
				} else {
					k.tgt = trs[rng.Intn(len(trs))]
				}
				k.input, k.class, k.judged = st.negative(rng, negativeClasses[rng.Intn(len(negativeClasses))])
				if k.tgt.masked && strings.HasPrefix(k.class, "lookalike:c-header") {
					// container look-alike headers read through a MASKED column are C11's hostile class: on a tree without the repair
					// fixes/c11-masking-only-masks-real-envelopes.diff such a call may never return, and C11 runs them in an isolated child
					k.tgt = cols[rng.Intn(5)]
				}
				k.hash = append([]byte{0x7f}, gen.Bytes(rng, 32)...)
				rd := readers[rng.Intn(len(readers))]
				k.reader, k.note = rd.id, rd.n
				batch = append(batch, k)
			}
			// data-length sweep: its own random streams, the cases above are unchanged by it
			batch = append(batch, sweepCases(r, st, si, epoch, cols[:10], trs)...) // cols[:10] = the distinct column variants
		}
		// run the batch: each worker owns its environments, so one operation at a time per callback storage
		ch := make(chan kase, 64)
		var wg sync.WaitGroup
		for w := 0; w < workers; w++ {
			wg.Add(1)
			go func(w int) {
				defer wg.Done()
				for k := range ch {
					runCase(r, wenvs[w][k.stIdx], k)
				}
			}(w)
		}
		for _, k := range batch {
			ch <- k
		}
		close(ch)
		wg.Wait()
	}
	// callbacks that ran outside every operation window
	for w := range wenvs {
		for _, we := range wenvs[w] {
			reportOrphans(r, we, "end of run")
		}
	}
	// several poison values per process with the stock script callback configured (after the last rotation: pool holds current and rotated keys)
	scriptPhase(r, stores, scriptEnvs, cols[:10], trs)
	// generated poison-key histories incl. destruction and key states (keyhistory.go)
	keyHistoryPhase(r, stores[0].foreign, cols[:10], trs)
	// poison symmetric key histories in which several keys share the 2-byte AcraBlock key id (keycollide.go)
	keyCollisionPhase(r, stores[0].foreign, cols[:10], trs)
	finishGuards(r)
	scriptGuards(r)
	keyHistoryGuards(r)
	keyCollisionGuards(r)
	if ProxyLayer != nil {
		ProxyLayer(r)
	}
}

// finishGuards are the non-vacuity guards of the library layer.
func finishGuards(r *ev.Run) {
	for _, c := range []string{"detected:column", "detected:translator", "detected:kind=as", "detected:kind=ab", "detected:key=rotated", "detected:key=current",
		"detected:ks=v1", "detected:ks=v2mem", "detected:ks=v2dir", "detected:embedded", "detected:masked-column"} {
		r.RequireAtLeast(c, 40)
	}
	r.RequireAtLeast("negative_silent", 1500)
	r.RequireAtLeast("looks_at_delivery_point_while_callback_blocked", 500)
	sweepGuards(r)
}

func reportOrphans(r *ev.Run, we *wenv, when string) {
	if o := we.rec.takeOrphans(); len(o) > 0 {
		r.Violation("a poison callback ran outside the operation that handled the value (after delivery, or asynchronously)",
			map[string]interface{}{"callback_seqs": o, "env": we.env.Name, "noticed": when})
	}
}

func runCase(r *ev.Run, we *wenv, k kase) {
	r.Case()
	res := observe(we.rec, func() ([]byte, error) { return k.tgt.run(we, k.reader, k.input, k.hash) })
	detail := func() map[string]interface{} {
		return map[string]interface{}{"keystore": k.st.name, "epoch": k.epoch, "entry_point": k.tgt.name, "reader": k.note, "class": k.class, "offset": k.offset, "input_length": len(k.input),
			"input": ev.FullHex(k.input), "hash_arg": ev.FullHex(k.hash), "callbacks": res.Events, "secondary_runs": res.Secondary, "delivery_seq": res.DeliverySeq,
			"operation_goroutine": res.OpGid, "err": fmt.Sprint(res.Err), "delivered_digest": digest(res.Out), "panic": res.Panic, "seed": r.Seed}
	}
	if res.Stuck {
		// resource ground: cannot be decided; the spinning goroutine cannot be stopped, so the run ends here and the
		// non-vacuity guards decide whether enough was observed
		r.Inconclusive(fmt.Sprintf("operation did not return within %v: ep=%s class=%s input=%s", opWatchdog, k.tgt.name, k.class, ev.FullHex(k.input)))
		finishGuards(r)
		os.Exit(r.Finish())
	}
	reportOrphans(r, we, "after "+k.tgt.name)
	r.Count("callbacks_seen", int64(len(res.Events)))
	pfx := ""
	if k.sweep {
		pfx = "lensweep:"
	}
	r.Count(pfx+"looks_at_delivery_point_while_callback_blocked", int64(res.LooksWhileBlocked))
	if res.Panic != "" {
		// a crash delivers nothing; crashes are C14's (and C11's for masked columns) subject — recorded, not judged here
		r.Count("operation_panicked", 1)
		r.SetAdd("panicking_input_classes", k.tgt.name+"|"+k.class)
		panicMu.Lock()
		panicClasses[k.tgt.name+" | "+stripLen(k.class)]++
		r.Extra("operations_that_panicked(entry point | input class)", copyMap(panicClasses))
		panicMu.Unlock()
		r.SampleN("panic", 2, detail())
		return
	}
	if !k.positive {
		r.Count(pfx+"negative_cases", 1)
		if !k.judged {
			r.Count("negative_not_judged(damage_left_envelope_intact)", 1)
			return
		}
		if len(res.Events) > 0 || res.Secondary > 0 {
			r.Violation(fmt.Sprintf("false alarm: callbacks ran for a non-poison input: ep=%s input=%s ks=%s", k.tgt.name, k.class, k.st.name), detail())
			return
		}
		r.Count(pfx+"negative_silent", 1)
		r.Count(pfx+"silent:"+k.tgt.group, 1)
		if k.sweep {
			sweepNegativeSilent(r, k, res)
			return
		}
		r.Distinct(fmt.Sprintf("neg|%s|%s|%s", k.st.name, k.tgt.group, k.class))
		r.SampleN("neg:"+k.tgt.group, 2, map[string]interface{}{"case": "negative", "keystore": k.st.name, "entry_point": k.tgt.name, "class": k.class, "input": ev.Hex(k.input), "callbacks": 0, "delivery_seq": res.DeliverySeq, "delivered_digest": digest(res.Out)})
		return
	}
	if k.judged && k.tgt.group == "translator" && strings.Contains(k.tgt.name, "Searchable(data)") && len(k.input) >= 33 && k.input[0] == 0x7f && k.offset < 33 {
		// the searchable operations define their input as hash(33 bytes, first byte 0x7f) ‖ envelope: a record that starts inside
		// what is by definition the hash field is not an input these operations have (oracle correction, see notes)
		r.Count("not_demanded:record_overlaps_the_search_hash_field_of_a_searchable_operation", 1)
		return
	}
	if !k.judged {
		if len(res.Events) > 0 {
			r.Count("not_demanded:raw_inner_envelope_alarm_raised:"+k.tgt.group, 1)
		} else {
			r.Count("not_demanded:raw_inner_envelope_no_alarm:"+k.tgt.group, 1)
		}
		return
	}
	r.Count(pfx+"positive_cases", 1)
	sigTail := fmt.Sprintf("ep=%s kind=%s key=%s placement=%s ks=%s", k.tgt.name, k.kind, keyClass(k.keyAge), k.placement, k.st.name)
	if k.sweep {
		sigTail = fmt.Sprintf("ep=%s kind=%s key=%s len=%s placement=%s ks=%s", k.tgt.name, k.kind, keyClass(k.keyAge), lenLabel(k.length), k.placement, k.st.name)
	}
	if len(res.Events) == 0 {
		if k.sweep {
			// the cause is named by how the input was made: entry point, envelope kind, requested data length, placement, key age
			r.Violation(fmt.Sprintf("poison-not-detected/%s/%s/len=%s/%s/key=%s", k.tgt.name, k.kind, lenLabel(k.length), k.placement, keyClass(k.keyAge)), detail())
			return
		}
		r.Violation("poison record delivered without the callbacks having run: "+sigTail, detail())
		return
	}
	bad := false
	if res.DeliveredAtLook || res.DeliveredWhileHeld {
		r.Violation("value delivered while the poison callback had not completed: "+sigTail, detail())
		bad = true
	}
	for _, e := range res.Events {
		if res.DeliverySeq != 0 && e.Seq > res.DeliverySeq {
			r.Violation("poison callback ran after the delivery event: "+sigTail, detail())
			bad = true
		}
	}
	if res.Secondary == 0 {
		r.Violation("not every registered callback ran: "+sigTail, detail())
		bad = true
	}
	if bad {
		return
	}
	if res.AsyncHeld > 0 {
		r.Count("callback_on_other_goroutine_but_operation_waited", int64(res.AsyncHeld))
	}
	if k.sweep {
		sweepPositiveDetected(r, k, res)
		return
	}
	r.Count("positive_detected", 1)
	r.Count("detected:"+k.tgt.group, 1)
	r.Count("detected:kind="+k.kind, 1)
	r.Count("detected:key="+keyClass(k.keyAge), 1)
	r.Count("detected:ks="+k.st.name, 1)
	if k.placement != "alone" {
		r.Count("detected:embedded", 1)
	}
	if k.tgt.masked {
		r.Count("detected:masked-column", 1)
	}
	r.SetAdd("embedded_offsets_detected", fmt.Sprint(k.offset))
	r.Distinct(fmt.Sprintf("pos|%s|%s|%s|age%d|%s", k.st.name, k.tgt.name, k.kind, k.keyAge, k.placement))
	r.SampleN("pos:"+k.tgt.group+":"+k.kind, 2, map[string]interface{}{"case": "positive", "keystore": k.st.name, "epoch": k.epoch, "entry_point": k.tgt.name, "class": k.class, "offset": k.offset,
		"input": ev.Hex(k.input), "callback_events(seq,goroutine)": res.Events, "operation_goroutine": res.OpGid, "delivery_seq": res.DeliverySeq, "delivered_digest": digest(res.Out), "err": fmt.Sprint(res.Err)})
}

var (
	panicMu      sync.Mutex
	panicClasses = map[string]int{}
)

func copyMap(m map[string]int) map[string]int {
	o := map[string]int{}
	for k, v := range m {
		o[k] = v
	}
	return o
}

// stripLen removes the record length from a class label (keeps the panic table small).
func stripLen(c string) string {
	if i := strings.Index(c, ",len="); i >= 0 {
		if j := strings.Index(c[i:], ")"); j >= 0 {
			return c[:i] + c[i+j:]
		}
	}
	return c
}
