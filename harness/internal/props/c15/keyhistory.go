package c15

// Poison key histories: the property quantifies over "poison records generated under ANY poison-key history" and demands the
// alarm for a record "made with the current or any rotated poison key". The sampled cases, the length sweep and the script
// phase use keys that were generated once and rotated a few times. This file drives the same detection entry points over
// keystores whose poison key pair and poison symmetric key went through GENERATED histories of
//
//	generate / rotate, make a record under whatever key is current (also with nothing there: poison.Create* generates),
//	destroy the CURRENT key, destroy a ROTATED key by index (the keystore API behind `acra-keys destroy`, the calls the C06
//	monitor uses: ksrig.ModelDestroyCurrent / ModelDestroyRotated), generate again after a destruction,
//	v2 only, on the entries of the key ring: SetState to every state the ring supports (valid and invalid transitions),
//	DestroyKey of any entry, SetCurrent of any entry,
//	Reset() of the handle, closing the handle and opening a new one over the same storage
//
// on five keystore configurations: v1 filesystem with the cache off / unbounded / an LRU of 2 entries, v2 over the in-memory
// and over the directory back end. One record of the matching envelope kind is kept per generation; the VALUE of the key it
// was made with is read back from the store at that moment (and confirmed by a library-level decrypt with that key alone).
//
// After every step that changed keys (checkpoint) the reference "which keys survive in the keystore" is read at STORAGE level
// through a fresh handle: v2 = ksdump's ring-level view (every ring entry with state and key data, current marker; the calls
// are OpenKeyRing / AllKeys / State / PrivateKey / SymmetricKey, not the GetPoison* getters the detector uses), v1 = the key
// files of the poison key directory (current file and the files of its .old directory) opened with the key encryptor of the
// master key. A record whose key value is among the survivors must raise the alarm — same oracle as the sampled cases (all
// callbacks, before delivery) — alone and embedded, through the monitor's 18 entry points (rotating). A record whose key was
// destroyed is not judged (counted, and what happens is counted). Ordinary data must stay silent under every history.

import (
	"bytes"
	"encoding/hex"
	"fmt"
	"os"
	"path/filepath"
	"runtime/debug"
	"sort"
	"strconv"
	"strings"
	"sync"
	"time"

	"github.com/cossacklabs/acra/acrablock"
	"github.com/cossacklabs/acra/acrastruct"
	"github.com/cossacklabs/acra/keystore"
	"github.com/cossacklabs/acra/keystore/filesystem"
	"github.com/cossacklabs/acra/keystore/v2/keystore/api"
	"github.com/cossacklabs/acra/keystore/v2/keystore/filesystem/backend"
	"github.com/cossacklabs/acra/poison"
	"github.com/cossacklabs/themis/gothemis/keys"

	"verif/harness/internal/ev"
	"verif/harness/internal/gen"
	"verif/harness/internal/rig/envrig"
	"verif/harness/internal/rig/ksdump"
	"verif/harness/internal/rig/ksrig"
)

// khConfig is one keystore configuration of the phase.
type khConfig struct {
	name  string
	v2    bool
	dir   bool // v2: directory back end (else in-memory)
	cache int  // v1: keystore.WithoutCache / keystore.InfiniteCacheSize / n>0 = LRU of n entries
}

var khConfigs = []khConfig{
	{name: "v1/cache=off", cache: keystore.WithoutCache},
	{name: "v1/cache=unbounded", cache: keystore.InfiniteCacheSize},
	{name: "v1/cache=lru2", cache: 2},
	{name: "v2/memory", v2: true},
	{name: "v2/directory", v2: true, dir: true},
}

func (c khConfig) format() string {
	if c.v2 {
		return "v2"
	}
	return "v1"
}

func (c khConfig) cached() bool { return !c.v2 && c.cache != keystore.WithoutCache }

const (
	khPairRing = "poison-record"
	khSymRing  = "poison-record-sym"
)

// khRecord is one poison record with the value of the key it was made with.
type khRecord struct {
	kind   string // as (key pair) | ab (symmetric key)
	key    []byte // private key / symmetric key that was current when the record was made
	step   int
	how    string // how the key came to be current: generate | poison.Create*(generated implicitly) | poison.Create*(existing current key)
	length int
	data   []byte
}

// khKey is one key whose data is readable at storage level (= it survives in the keystore).
type khKey struct {
	val     []byte
	id      string // v2: seqnum, v1: current-file / name of the file in the .old directory
	state   string // v2: state of the ring entry, v1: "file"
	current bool
}

// khRing is the storage-level view of one poison key ring (v2) / one poison key file with its history directory (v1).
type khRing struct {
	keys    []khKey // newest first
	entries int     // ring entries incl. destroyed ones (v2) / files (v1)
	current string  // present | destroyed (marker names an entry without data; v1: no current file but history files) | none
	// v2 only (used to choose the next operation)
	seqs   []int
	states map[int]api.KeyState
	curSeq int
}

func (g *khRing) rotatedSurvivors() int {
	n := 0
	for _, k := range g.keys {
		if !k.current {
			n++
		}
	}
	return n
}

func (g *khRing) aliveSeqs() []int {
	var out []int
	for _, q := range g.seqs {
		if g.states[q] != api.KeyDestroyed {
			out = append(out, q)
		}
	}
	return out
}

func (g *khRing) summary() string {
	var parts []string
	for _, k := range g.keys {
		c := ""
		if k.current {
			c = ",current"
		}
		parts = append(parts, fmt.Sprintf("%s(%s%s)", k.id, k.state, c))
	}
	return fmt.Sprintf("entries=%d current=%s surviving=[%s]", g.entries, g.current, strings.Join(parts, " "))
}

// khView is the reference read at a checkpoint.
type khView struct {
	pair, sym khRing
	getters   map[string]string // what the fresh handle's GetPoison* getters report (diagnostic only, never a reference)
	// gettersAgree: the fresh handle's GetPoisonPrivateKeys / GetPoisonSymmetricKeys returned exactly the surviving keys
	gettersAgree bool
}

func (v *khView) ring(kind string) *khRing {
	if kind == "as" {
		return &v.pair
	}
	return &v.sym
}

// find returns the surviving key a record was made with, or nil when that key is no longer in the keystore.
func (v *khView) find(rec *khRecord) *khKey {
	g := v.ring(rec.kind)
	for i := range g.keys {
		if bytes.Equal(g.keys[i].val, rec.key) {
			return &g.keys[i]
		}
	}
	return nil
}

// khStore is one keystore with its history.
type khStore struct {
	cfg      khConfig
	idx      int
	dir      string
	master   []byte
	v2keys   ksrig.V2Keys
	mem      *backend.InMemory
	H        ksrig.FullKeyStore // the handle the detector uses (configured cache); all operations of the history go through it
	closeH   func()
	nOpen    int
	dirty    bool // v1 with a cache: keys changed since the handle was opened / Reset (a warm handle's view is C06's subject)
	cs       *poison.CallbackStorage
	we       *wenv
	records  []*khRecord
	envs     []khEnvelope
	trace    []string
	view     *khView
	epIdx    int
	negIdx   int
	readerIx int
}

type khEnvelope struct {
	owner, form string
	data        []byte
}

type khRingRW interface {
	OpenKeyRingRW(path string) (api.MutableKeyRing, error)
}

func (s *khStore) open(cache int) (ksrig.FullKeyStore, func(), error) {
	if !s.cfg.v2 {
		ks, err := ksrig.V1(s.dir, s.master, cache)
		return ks, func() {}, err
	}
	if s.cfg.dir {
		ks, err := ksrig.V2Dir(s.dir, s.v2keys)
		if err != nil {
			return nil, nil, err
		}
		return ks, func() { ks.Close() }, nil
	}
	ks, err := ksrig.V2OnBackend(s.mem, s.v2keys)
	if err != nil {
		return nil, nil, err
	}
	return ks, func() { ks.Close() }, nil // InMemory.Close is a no-op: the data stays for the next handle
}

// reopen closes the detector's handle and opens a new one over the same storage ("the server was restarted").
func (s *khStore) reopen() {
	if s.closeH != nil {
		s.closeH()
	}
	var err error
	s.H, s.closeH, err = s.open(s.cfg.cache)
	must(err, "key history: open "+s.cfg.name)
	s.nOpen++
	e, err := envrig.New(fmt.Sprintf("keyhistory-%s-%d#%d", s.cfg.name, s.idx, s.nOpen), s.H, s.cs, "")
	must(err, "key history: env")
	s.we = &wenv{env: e, rec: s.we.rec}
	s.dirty = false
}

func newKhStore(cfg khConfig, idx int) *khStore {
	s := &khStore{cfg: cfg, idx: idx}
	switch {
	case !cfg.v2:
		s.dir = ksrig.ScratchDir("c15-keyhistory-v1")
		s.master = ksrig.RandBytes(32)
	case cfg.dir:
		s.dir = ksrig.ScratchDir("c15-keyhistory-v2dir") + "/ks"
		s.v2keys = ksrig.NewV2Keys()
	default:
		s.mem = backend.NewInMemory()
		s.v2keys = ksrig.NewV2Keys()
	}
	rec := &recorder{}
	s.cs = poison.NewCallbackStorage()
	s.cs.AddCallback(primary{rec})
	s.cs.AddCallback(secondary{rec})
	s.we = &wenv{rec: rec}
	s.reopen()
	return s
}

func (s *khStore) close() {
	if s.closeH != nil {
		s.closeH()
	}
	if s.dir != "" {
		os.RemoveAll(s.dir)
	}
}

// sync makes the detector's handle a cache-consistent view again after keys changed: Reset() or a new handle.
// (Only a v1 handle with a cache can be stale; what a warm handle serves is C06's subject, see notes.)
func (s *khStore) sync(r *ev.Run, rng *gen.Rand) {
	if !s.cfg.cached() || !s.dirty {
		return
	}
	if rng.Intn(2) == 0 {
		s.H.Reset()
		s.dirty = false
		s.trace = append(s.trace, "Reset()")
		r.Count("keyhistory:sync:Reset", 1)
		return
	}
	s.reopen()
	s.trace = append(s.trace, "reopen")
	r.Count("keyhistory:sync:reopen", 1)
}

// ---------------------------------------------------------------------------------------------
// reference: which keys survive in the keystore (storage level, fresh handle)

func (s *khStore) readView() (*khView, error) {
	F, closeF, err := s.open(keystore.WithoutCache)
	if err != nil {
		return nil, err
	}
	defer closeF()
	st, ok := F.(ksdump.Store)
	if !ok {
		return nil, fmt.Errorf("handle does not offer the getter surface ksdump reads")
	}
	v := &khView{getters: map[string]string{}}
	var d *ksdump.Dump
	if s.cfg.v2 {
		rings, ok := F.(api.KeyStore)
		if !ok {
			return nil, fmt.Errorf("v2 handle does not offer key rings")
		}
		d = ksdump.Read(st, ksdump.Options{Rings: rings})
		if v.pair, err = khRingFromDump(d, khPairRing, 3); err != nil {
			return nil, err
		}
		if v.sym, err = khRingFromDump(d, khSymRing, 4); err != nil {
			return nil, err
		}
	} else {
		d = ksdump.Read(st, ksdump.Options{})
		v.pair = s.v1Files(filesystem.PoisonKeyFilename, keystore.PurposePoisonRecordKeyPair)
		v.sym = s.v1Files(filesystem.PoisonKeyFilename+"_sym", keystore.PurposePoisonRecordSymmetricKey)
	}
	for _, n := range []string{ksdump.PoisonPriv, ksdump.PoisonAll, ksdump.PoisonSym, ksdump.PoisonSyms} {
		v.getters[n] = d.E[n].String()
	}
	v.gettersAgree = khSameKeys(d.E[ksdump.PoisonAll], v.pair.keys) && khSameKeys(d.E[ksdump.PoisonSyms], v.sym.keys)
	return v, nil
}

// khSameKeys: does the "all keys" getter of the fresh handle return exactly the keys that survive at storage level?
// (Counted in the evidence as a plausibility check of the storage-level reader; a disagreement is C06's subject, not judged here.)
func khSameKeys(e ksdump.Entry, ks []khKey) bool {
	if !e.OK() {
		return len(ks) == 0
	}
	if len(e.Vals) != len(ks) {
		return false
	}
	for _, val := range e.Vals {
		found := false
		for _, k := range ks {
			if bytes.Equal(val, k.val) {
				found = true
			}
		}
		if !found {
			return false
		}
	}
	return true
}

// khRingFromDump parses ksdump's ring-level entry: one value per ring entry, newest first, "seq|state|pub|priv|sym"
// (hex, or "!<error class>" when the data is not readable); field = 3 for the private key, 4 for the symmetric key.
func khRingFromDump(d *ksdump.Dump, path string, field int) (khRing, error) {
	g := khRing{current: "none", states: map[int]api.KeyState{}}
	e, ok := d.E[ksdump.RingName(path)]
	if !ok {
		return g, nil // no such ring yet
	}
	if !e.OK() {
		return g, fmt.Errorf("ring %s not readable at storage level: %s", path, e.String())
	}
	for _, val := range e.Vals {
		p := strings.Split(string(val), "|")
		if len(p) != 5 {
			return g, fmt.Errorf("ring %s: unexpected ring-level entry %q", path, val)
		}
		seq, err1 := strconv.Atoi(p[0])
		st, err2 := strconv.Atoi(p[1])
		if err1 != nil || err2 != nil {
			return g, fmt.Errorf("ring %s: unexpected ring-level entry %q", path, val)
		}
		g.entries++
		g.seqs = append(g.seqs, seq)
		g.states[seq] = api.KeyState(st)
		if strings.HasPrefix(p[field], "!") {
			continue // destroyed (or no data of this format): not a surviving key
		}
		b, err := hex.DecodeString(p[field])
		if err != nil || len(b) == 0 {
			continue
		}
		g.keys = append(g.keys, khKey{val: b, id: "seq" + p[0], state: api.KeyState(st).String()})
	}
	if c := d.E[ksdump.RingCurrent(path)]; c.OK() && len(c.Vals) == 1 {
		g.curSeq, _ = strconv.Atoi(string(c.Vals[0]))
		g.current = "destroyed"
		for i := range g.keys {
			if g.keys[i].id == "seq"+string(c.Vals[0]) {
				g.keys[i].current = true
				g.current = "present"
			}
		}
	}
	return g, nil
}

// v1Files reads the key file <dir>/<name> and the files of <dir>/<name>.old with the key encryptor of the master key
// (the key context is the one the backup/export code of the keystore uses for these files: purpose + full key name).
func (s *khStore) v1Files(name string, purpose keystore.KeyPurpose) khRing {
	g := khRing{current: "none"}
	enc, err := keystore.NewSCellKeyEncryptor(s.master)
	must(err, "key encryptor")
	kctx := keystore.NewKeyContext(purpose, []byte(name))
	read := func(path string) []byte {
		b, err := os.ReadFile(path)
		if err != nil {
			return nil
		}
		k, err := enc.Decrypt(bg, b, kctx)
		if err != nil || len(k) == 0 {
			return nil
		}
		return k
	}
	cur := filepath.Join(s.dir, name)
	if _, err := os.Stat(cur); err == nil {
		g.entries++
		if k := read(cur); k != nil {
			g.keys = append(g.keys, khKey{val: k, id: "current-file", state: "file", current: true})
			g.current = "present"
		}
	}
	old, _ := os.ReadDir(cur + ".old")
	sort.Slice(old, func(i, j int) bool { return old[i].Name() > old[j].Name() })
	for _, f := range old {
		if !f.Type().IsRegular() {
			continue
		}
		g.entries++
		if k := read(filepath.Join(cur+".old", f.Name())); k != nil {
			g.keys = append(g.keys, khKey{val: k, id: "old/" + f.Name(), state: "file"})
		}
	}
	if g.current == "none" && len(g.keys) > 0 {
		g.current = "destroyed"
	}
	return g
}

// khOpensWith: does the record open with this key alone (library level)?
func khOpensWith(kind string, data, key []byte) (ok bool) {
	defer func() {
		if recover() != nil {
			ok = false
		}
	}()
	if len(data) < 13 {
		return false
	}
	inner := append([]byte{}, data[12:]...)
	if kind == "as" {
		_, err := acrastruct.DecryptRotatedAcrastruct(inner, []*keys.PrivateKey{{Value: append([]byte{}, key...)}}, nil)
		return err == nil
	}
	blk, err := acrablock.NewAcraBlockFromData(inner)
	if err != nil {
		return false
	}
	_, err = blk.Decrypt([][]byte{append([]byte{}, key...)}, nil)
	return err == nil
}

// ---------------------------------------------------------------------------------------------
// operations of a history

type khOp struct {
	name     string // stable label
	kind     string // as (key pair) | ab (symmetric key) | "" (handle operation)
	mutating bool
	record   bool // make a record under the current key afterwards
	how      string
	do       func(s *khStore) error
}

func khModelKind(kind string) ksrig.ModelKind {
	if kind == "as" {
		return ksrig.ModelPoisonPair
	}
	return ksrig.ModelPoisonSym
}

func khRingPath(kind string) string {
	if kind == "as" {
		return khPairRing
	}
	return khSymRing
}

func khKindName(kind string) string {
	if kind == "as" {
		return "pair"
	}
	return "sym"
}

var khAllStates = []api.KeyState{api.KeyPreActive, api.KeyActive, api.KeySuspended, api.KeyDeactivated, api.KeyCompromised, api.KeyDestroyed}

func khRingOp(kind string, f func(ring api.MutableKeyRing) error) func(s *khStore) error {
	return func(s *khStore) error {
		rw, ok := s.H.(khRingRW)
		if !ok {
			return fmt.Errorf("handle has no key rings")
		}
		ring, err := rw.OpenKeyRingRW(khRingPath(kind))
		if err != nil {
			return err
		}
		return f(ring)
	}
}

// chooseOp draws the next operation. The weights look at the storage-level view so that operations mostly name existing
// keys / valid indices / valid transitions (and sometimes deliberately not).
func chooseOp(rng *gen.Rand, s *khStore) khOp {
	kind := []string{"as", "ab"}[rng.Intn(2)]
	g := s.view.ring(kind)
	mk := khModelKind(kind)
	type choice struct {
		w  int
		op khOp
	}
	var cs []choice
	add := func(w int, op khOp) { cs = append(cs, choice{w, op}) }
	gw := 8
	switch {
	case len(g.keys) < 2:
		gw = 16 // few surviving keys: grow the ring first
	case len(g.keys) >= 4:
		gw = 4
	}
	add(gw, khOp{name: "generate", kind: kind, mutating: true, record: true, how: "generate",
		do: func(s *khStore) error { return ksrig.ModelGenerate(s.H, mk, nil) }})
	add(2, khOp{name: "make-record", kind: kind, mutating: true, record: true, how: "poison.Create*"})
	if g.current == "present" {
		dw := 2
		if g.rotatedSurvivors() > 0 {
			dw = 6 // the state "rotated keys survive, the current one is gone"
		}
		add(dw, khOp{name: "destroy-current", kind: kind, mutating: true, do: func(s *khStore) error { return ksrig.ModelDestroyCurrent(s.H, mk, nil) }})
	} else {
		add(1, khOp{name: "destroy-current(no current key)", kind: kind, mutating: true, do: func(s *khStore) error { return ksrig.ModelDestroyCurrent(s.H, mk, nil) }})
	}
	if n := g.rotatedSurvivors(); n > 0 {
		i := 2 + rng.Intn(n)
		add(5, khOp{name: "destroy-rotated(index in range)", kind: kind, mutating: true, do: func(s *khStore) error { return ksrig.ModelDestroyRotated(s.H, mk, nil, i) }})
	}
	{
		i := 2 + g.entries + rng.Intn(2)
		add(1, khOp{name: "destroy-rotated(index out of range)", kind: kind, mutating: true, do: func(s *khStore) error { return ksrig.ModelDestroyRotated(s.H, mk, nil, i) }})
	}
	if s.cfg.v2 && len(g.seqs) > 0 {
		seq := g.seqs[rng.Intn(len(g.seqs))]
		if alive := g.aliveSeqs(); len(alive) > 0 && rng.Intn(5) != 0 {
			seq = alive[rng.Intn(len(alive))] // mostly entries that still have their data
		}
		from := g.states[seq]
		var valid []api.KeyState
		for _, t := range khAllStates {
			if api.KeyStateTransitionValid(from, t) {
				valid = append(valid, t)
			}
		}
		to := khAllStates[rng.Intn(len(khAllStates))]
		label := "ring.SetState(any)"
		if len(valid) > 0 && rng.Intn(6) != 0 {
			to = valid[rng.Intn(len(valid))]
			if rng.Intn(2) == 0 {
				// half of the time stay among the states a key can still leave (active <-> suspended), so that the deeper ones are reached
				for _, t := range valid {
					if (t == api.KeyActive || t == api.KeySuspended) && t != from {
						to = t
					}
				}
			}
			label = "ring.SetState(valid transition)"
		}
		which := "rotated"
		if seq == g.curSeq {
			which = "current"
		}
		add(10, khOp{name: fmt.Sprintf("%s[%s entry %s->%s]", label, which, from, to), kind: kind, mutating: true,
			do: khRingOp(kind, func(ring api.MutableKeyRing) error { return ring.SetState(seq, to) })})
		seq2 := g.seqs[rng.Intn(len(g.seqs))]
		which2 := "rotated"
		if seq2 == g.curSeq {
			which2 = "current"
		}
		add(3, khOp{name: fmt.Sprintf("ring.DestroyKey[%s entry, %s]", which2, g.states[seq2]), kind: kind, mutating: true,
			do: khRingOp(kind, func(ring api.MutableKeyRing) error { return ring.DestroyKey(seq2) })})
		seq3 := g.seqs[rng.Intn(len(g.seqs))]
		add(2, khOp{name: fmt.Sprintf("ring.SetCurrent[entry in state %s]", g.states[seq3]), kind: kind, mutating: true,
			do: khRingOp(kind, func(ring api.MutableKeyRing) error { return ring.SetCurrent(seq3) })})
	}
	add(1, khOp{name: "Reset()", do: func(s *khStore) error { s.H.Reset(); s.dirty = false; return nil }})
	add(1, khOp{name: "reopen", do: func(s *khStore) error { s.reopen(); return nil }})
	total := 0
	for _, c := range cs {
		total += c.w
	}
	n := rng.Intn(total)
	for _, c := range cs {
		if n < c.w {
			return c.op
		}
		n -= c.w
	}
	return cs[0].op
}

func khErrClass(err error) string {
	if err == nil {
		return "ok"
	}
	m := err.Error()
	switch {
	case strings.Contains(m, "key has been destroyed"):
		return "key-destroyed"
	case strings.Contains(m, "keys not found"):
		return "keys-not-found"
	case strings.Contains(m, "invalid index"), strings.Contains(m, "invalid key index"):
		return "invalid-index"
	case strings.Contains(m, "no current key"):
		return "no-current-key"
	case strings.Contains(m, "invalid state"), strings.Contains(m, "state transition"):
		return "invalid-state"
	case strings.Contains(m, "no such file"), strings.Contains(m, "not exist"):
		return "not-exist"
	}
	return "other"
}

// guardOp runs f, turning a panic into (site, stack).
func khGuard(f func() error) (err error, panicked string) {
	defer func() {
		if p := recover(); p != nil {
			panicked = fmt.Sprintf("%v\n%s", p, debug.Stack())
		}
	}()
	return f(), ""
}

// makeRecord makes one record of the kind under whatever key is current and notes the value of that key.
func (s *khStore) makeRecord(r *ev.Run, rng *gen.Rand, kind string, step int, how string) {
	length := recordLengths[rng.Intn(len(recordLengths))]
	before := s.view.ring(kind).current
	var data, key []byte
	err, pan := khGuard(func() error {
		var err error
		if kind == "as" {
			if data, err = poison.CreatePoisonRecord(s.H, length); err != nil {
				return err
			}
			pair, err := s.H.GetPoisonKeyPair()
			if err != nil {
				return err
			}
			key = append([]byte{}, pair.Private.Value...)
			return nil
		}
		if data, err = poison.CreateSymmetricPoisonRecord(s.H, length); err != nil {
			return err
		}
		k, err := s.H.GetPoisonSymmetricKey()
		if err != nil {
			return err
		}
		key = append([]byte{}, k...)
		return nil
	})
	if pan != "" {
		r.Count("keyhistory:record_maker_panicked(not judged)", 1)
		r.SampleN("keyhistory:record-maker-panic", 1, map[string]interface{}{"keystore": s.cfg.name, "history": s.trace, "panic": pan})
		return
	}
	if err != nil {
		// e.g. v2 with a destroyed current key: the generator reports the error, nothing to keep
		r.Count("keyhistory:record_maker_failed:ring-current="+before+":"+khErrClass(err), 1)
		s.trace = append(s.trace, fmt.Sprintf("   record(%s) not made: %v", khKindName(kind), err))
		return
	}
	if !khOpensWith(kind, data, key) {
		// the key the store reports as current is not the one the record was made with: not usable as ground truth
		r.Count("keyhistory:record_not_under_the_key_reported_as_current(dropped)", 1)
		return
	}
	if how == "poison.Create*" {
		if before == "present" {
			how = "poison.Create*(existing current key)"
		} else {
			how = "poison.Create*(no current key: generated implicitly)"
		}
	}
	r.Count("keyhistory:records_made:"+how, 1)
	s.records = append(s.records, &khRecord{kind: kind, key: key, step: step, how: how, length: length, data: data})
}

// ---------------------------------------------------------------------------------------------
// the phase

// keyHistoryPhase runs the poison-key-history workload (see the head of this file). foreign = poison records of other keystores.
func keyHistoryPhase(r *ev.Run, foreign []*record, cols, trs []target) {
	r.Rule += " Poison key histories (counters keyhistory:*): per keystore configuration (v1 cache off / unbounded / LRU 2, v2 in-memory, v2 directory) a fixed number of seeded histories of a fixed number of steps; a step = generate/rotate, poison.Create* under the current key (or with none: implicit generation), destroy current, destroy rotated by index (in / out of range), v2: ring SetState over all six states (valid and invalid transitions), ring DestroyKey, ring SetCurrent, Reset(), reopen — for the poison key pair or the poison symmetric key; one record kept per generation with the value of its key. After every key-changing step the surviving keys are read at storage level through a fresh handle (v2: ring entries via ksdump; v1: key files); every record of a surviving key × (alone, embedded in random bytes) × rotating entry points (the 18 of the sweep) must run all callbacks before delivery; records of destroyed keys are counted only; negatives (random bytes, client envelopes, other keystores' poison records, truncated records) must stay silent at every checkpoint. Distinct = (configuration, kind, key class current|rotated, key state, ring-current present|destroyed|none, entry point, placement)."
	r.Assumptions = append(r.Assumptions,
		"key histories: the detector's v1 handle is Reset() or reopened after keys changed and before it is asked to detect (what a warm cached handle serves is C06's subject); the reference for 'the key survives' is the storage-level view of a fresh handle, never the GetPoison* getters")
	entries := append(append([]target{}, cols...), trs...)
	nHist := r.Pick(8, 40)
	nSteps := r.Pick(16, 20)
	type job struct {
		cfg khConfig
		idx int
	}
	var jobs []job
	for i := 0; i < nHist; i++ {
		for _, c := range khConfigs {
			jobs = append(jobs, job{c, i})
		}
	}
	started := time.Now() // informational only (evidence), never part of a verdict
	defer func() {
		r.Extra("keyhistory: wall seconds of the phase (informational)", fmt.Sprintf("%.1f", time.Since(started).Seconds()))
	}()
	ch := make(chan job)
	var wg sync.WaitGroup
	for w := 0; w < 8; w++ {
		wg.Add(1)
		go func() {
			defer wg.Done()
			for j := range ch {
				runKeyHistory(r, j.cfg, j.idx, nSteps, foreign, entries)
			}
		}()
	}
	for _, j := range jobs {
		ch <- j
	}
	close(ch)
	wg.Wait()
}

func runKeyHistory(r *ev.Run, cfg khConfig, idx, nSteps int, foreign []*record, entries []target) {
	rng := gen.New(r.Seed, fmt.Sprintf("c15-keyhistory-%s-%d", cfg.name, idx))
	s := newKhStore(cfg, idx)
	defer s.close()
	must(ksrig.GenClient(s.H, readerID), "key history: client keys")
	must(ksrig.GenClient(s.H, otherID), "key history: client keys")
	for _, c := range []struct {
		n  string
		id []byte
	}{{"reader-with-keys", readerID}, {"other-client", otherID}} {
		for _, f := range []string{"plain_as", "plain_ab"} {
			b, err := s.we.env.Registry.EncryptWithClientID(c.id, gen.Content(rng, "ascii", 1+rng.Intn(80)), s.we.env.Setting(f))
			must(err, "key history: client envelope")
			s.envs = append(s.envs, khEnvelope{owner: c.n, form: f, data: b})
		}
	}
	s.dirty = true // client keys were written through this handle
	r.Count("keyhistory:histories", 1)
	r.Count("keyhistory:histories:"+cfg.name, 1)

	refresh := func(what string) bool {
		v, err := s.readView()
		if err != nil {
			r.Inconclusive(fmt.Sprintf("key history %s#%d: storage-level view not readable after %s: %v", cfg.name, idx, what, err))
			return false
		}
		s.view = v
		return true
	}
	if !refresh("opening") {
		return
	}
	// a keystore without any poison key: ordinary data only
	s.sync(r, rng)
	s.checkpoint(r, rng, 0, "no poison keys yet", foreign, entries)

	for step := 1; step <= nSteps; step++ {
		var op khOp
		if step <= 2 {
			// the first key of each kind: explicitly generated or made by the record maker
			kind := []string{"as", "ab"}[(step+idx)%2]
			mk := khModelKind(kind)
			if rng.Intn(2) == 0 {
				op = khOp{name: "generate", kind: kind, mutating: true, record: true, how: "generate", do: func(s *khStore) error { return ksrig.ModelGenerate(s.H, mk, nil) }}
			} else {
				op = khOp{name: "make-record", kind: kind, mutating: true, record: true, how: "poison.Create*"}
			}
		} else {
			op = chooseOp(rng, s)
		}
		label := op.name
		if op.kind != "" {
			label = fmt.Sprintf("%s(%s)", op.name, khKindName(op.kind))
		}
		var opErr error
		if op.do != nil {
			var pan string
			opErr, pan = khGuard(func() error { return op.do(s) })
			if pan != "" {
				// a crashing keystore operation is C14's / C06's subject; this history ends here
				r.Count("keyhistory:keystore_operation_panicked(history ended, not judged)", 1)
				r.SetAdd("keyhistory:panicking operations", cfg.format()+"|"+op.name)
				r.SampleN("keyhistory:op-panic", 2, map[string]interface{}{"keystore": cfg.name, "history": append(append([]string{}, s.trace...), label), "panic": pan})
				return
			}
		}
		s.trace = append(s.trace, fmt.Sprintf("%d: %s = %s", step, label, khErrClass(opErr)))
		r.Count("keyhistory:steps", 1)
		r.Count(fmt.Sprintf("keyhistory:op:%s:%s:%s", cfg.format(), khOpFamily(op.name), khErrClass(opErr)), 1)
		if !op.mutating {
			continue
		}
		s.dirty = true
		if op.record && opErr == nil {
			s.sync(r, rng)
			s.makeRecord(r, rng, op.kind, step, op.how)
			s.dirty = true
		}
		s.sync(r, rng)
		if !refresh(label) {
			return
		}
		s.checkpoint(r, rng, step, label, foreign, entries)
	}
	// the final state as a newly started process sees it
	s.reopen()
	s.trace = append(s.trace, "reopen (end of history)")
	if refresh("final reopen") {
		s.checkpoint(r, rng, nSteps+1, "reopen (end of history)", foreign, entries)
	}
	reportOrphans(r, s.we, "end of key history "+cfg.name)
}

// khOpFamily strips the parameters of an operation label (for counters).
func khOpFamily(name string) string {
	if i := strings.IndexByte(name, '['); i > 0 {
		return name[:i]
	}
	return name
}

var khNegativeClasses = []string{"random", "client-envelope", "foreign-keystore-poison", "client-envelope-embedded", "poison-truncated-tail", "foreign-keystore-poison-embedded"}

// checkpoint drives the detection entry points over everything this history has produced so far.
func (s *khStore) checkpoint(r *ev.Run, rng *gen.Rand, step int, after string, foreign []*record, entries []target) {
	v := s.view
	r.Count("keyhistory:checkpoints", 1)
	r.Count("keyhistory:checkpoints:"+s.cfg.name, 1)
	if v.gettersAgree {
		r.Count("keyhistory:reference:fresh handle's GetPoison*Keys getters return exactly the keys surviving at storage level:"+s.cfg.format(), 1)
	} else {
		r.Count("keyhistory:reference:fresh handle's GetPoison*Keys getters DISAGREE with the storage-level view (not judged here):"+s.cfg.format(), 1)
	}
	for _, kind := range []string{"as", "ab"} {
		g := v.ring(kind)
		r.Count(fmt.Sprintf("keyhistory:checkpoint_ring_state:%s:%s:current=%s,rotated-survivors=%s", s.cfg.format(), khKindName(kind), g.current, atMost(g.rotatedSurvivors(), 2)), 1)
	}
	perRecord := r.Pick(2, 3)
	nextEntry := func() target { t := entries[s.epIdx%len(entries)]; s.epIdx++; return t }
	nextReader := func() (string, []byte) {
		rd := sweepReaders[s.readerIx%len(sweepReaders)]
		s.readerIx++
		return rd.n, rd.id
	}
	for _, rec := range s.records {
		key := v.find(rec)
		if key == nil {
			// the key was destroyed: nothing is demanded; what happens is counted
			r.Count("keyhistory:records_of_destroyed_keys(not judged)", 1)
			c := khCase{positive: true, judged: false, rec: rec, tgt: nextEntry(), placement: "alone", input: append([]byte{}, rec.data...)}
			c.readerName, c.reader = nextReader()
			s.runCase(r, rng, c, step, after)
			continue
		}
		g := v.ring(rec.kind)
		for pl := 0; pl < 2; pl++ {
			for e := 0; e < perRecord; e++ {
				c := khCase{positive: true, judged: true, rec: rec, key: key, ringCurrent: g.current, tgt: nextEntry()}
				c.readerName, c.reader = nextReader()
				if pl == 0 {
					c.placement, c.input = "alone", append([]byte{}, rec.data...)
				} else {
					c.placement = "embedded"
					c.input, c.offset, _, _ = sweepEmbed(rng, rec.data, 0)
				}
				s.runCase(r, rng, c, step, after)
			}
		}
	}
	// ordinary data under this state of the poison keys
	for i := 0; i < 6; i++ {
		class := khNegativeClasses[s.negIdx%len(khNegativeClasses)]
		s.negIdx++
		c := khCase{tgt: nextEntry(), judged: true}
		c.readerName, c.reader = nextReader()
		switch class {
		case "random":
			c.input = gen.Bytes(rng, 1+rng.Intn(300))
		case "client-envelope", "client-envelope-embedded":
			e := s.envs[rng.Intn(len(s.envs))]
			class = fmt.Sprintf("%s(%s,owner=%s)", class, e.form, e.owner)
			c.input = append([]byte{}, e.data...)
			if strings.HasPrefix(class, "client-envelope-embedded") {
				c.input, _, _, _ = sweepEmbed(rng, e.data, 0)
			}
		case "foreign-keystore-poison", "foreign-keystore-poison-embedded":
			f := foreign[rng.Intn(len(foreign))]
			c.input = append([]byte{}, f.data...)
			if class == "foreign-keystore-poison-embedded" {
				c.input, _, _, _ = sweepEmbed(rng, f.data, 0)
			}
			class += ":" + f.kind
		case "poison-truncated-tail":
			if len(s.records) == 0 {
				class, c.input = "random", gen.Bytes(rng, 1+rng.Intn(300))
				break
			}
			rec := s.records[rng.Intn(len(s.records))]
			c.input = append([]byte{}, rec.data[:len(rec.data)-1-rng.Intn(8)]...)
			class += ":" + rec.kind
		}
		c.class = class
		s.runCase(r, rng, c, step, after)
	}
}

func atMost(n, m int) string {
	if n >= m {
		return fmt.Sprintf("%d+", m)
	}
	return fmt.Sprint(n)
}

type khCase struct {
	positive    bool
	judged      bool
	rec         *khRecord
	key         *khKey
	ringCurrent string
	tgt         target
	reader      []byte
	readerName  string
	placement   string
	offset      int
	input       []byte
	class       string
}

func (s *khStore) runCase(r *ev.Run, rng *gen.Rand, c khCase, step int, after string) {
	r.Case()
	hash := append([]byte{0x7f}, gen.Bytes(rng, 32)...)
	res := observe(s.we.rec, func() ([]byte, error) { return c.tgt.run(s.we, c.reader, c.input, hash) })
	v := s.view
	detail := func() map[string]interface{} {
		d := map[string]interface{}{"keystore": s.cfg.name, "history(step: operation = result)": append([]string{}, s.trace...), "checkpoint_after_step": step, "checkpoint_after": after,
			"storage_level_view(pair)": v.pair.summary(), "storage_level_view(sym)": v.sym.summary(), "fresh_handle_getters(diagnostic)": v.getters,
			"entry_point": c.tgt.name, "reader": c.readerName, "placement": c.placement, "offset": c.offset, "input_length": len(c.input), "input": ev.FullHex(c.input), "hash_arg": ev.FullHex(hash),
			"callbacks": res.Events, "secondary_runs": res.Secondary, "delivery_seq": res.DeliverySeq, "operation_goroutine": res.OpGid, "err": fmt.Sprint(res.Err), "delivered_digest": digest(res.Out), "panic": res.Panic, "seed": r.Seed}
		if c.rec != nil {
			d["record"] = fmt.Sprintf("kind=%s made at step %d (%s) data length %s", c.rec.kind, c.rec.step, c.rec.how, lenLabel(c.rec.length))
		}
		if c.key != nil {
			d["record_key"] = fmt.Sprintf("%s state=%s current=%v", c.key.id, c.key.state, c.key.current)
		}
		if c.class != "" {
			d["class"] = c.class
		}
		return d
	}
	if res.Stuck {
		r.Inconclusive(fmt.Sprintf("key history: operation did not return within %v: ep=%s ks=%s", opWatchdog, c.tgt.name, s.cfg.name))
		finishGuards(r)
		keyHistoryGuards(r)
		os.Exit(r.Finish())
	}
	reportOrphans(r, s.we, "after "+c.tgt.name+" (key history)")
	r.Count("keyhistory:looks_at_delivery_point_while_callback_blocked", int64(res.LooksWhileBlocked))
	if res.Panic != "" {
		r.Count("keyhistory:operation_panicked(not judged)", 1)
		r.SampleN("keyhistory:panic", 2, detail())
		return
	}
	if !c.positive {
		r.Count("keyhistory:negative_cases", 1)
		if len(res.Events) > 0 || res.Secondary > 0 {
			r.Violation(fmt.Sprintf("keyhistory: false alarm: callbacks ran for a non-poison input: ep=%s input=%s ks=%s", c.tgt.name, c.class, s.cfg.name), detail())
			return
		}
		r.Count("keyhistory:negative_silent", 1)
		r.Count("keyhistory:negative_silent:"+s.cfg.name, 1)
		r.Count(fmt.Sprintf("keyhistory:negative_silent:ring-current(pair/sym)=%s/%s", v.pair.current, v.sym.current), 1)
		r.Distinct(fmt.Sprintf("keyhistory-neg|%s|%s|%s|%s/%s", s.cfg.name, c.tgt.group, stripOwner(c.class), v.pair.current, v.sym.current))
		r.SampleN("keyhistory:neg:"+s.cfg.format(), 1, map[string]interface{}{"case": "negative (key history)", "keystore": s.cfg.name, "history": append([]string{}, s.trace...), "entry_point": c.tgt.name, "class": c.class,
			"storage_level_view(pair)": v.pair.summary(), "storage_level_view(sym)": v.sym.summary(), "input": ev.Hex(c.input), "callbacks": 0, "delivery_seq": res.DeliverySeq})
		return
	}
	if !c.judged {
		if len(res.Events) > 0 {
			r.Count("keyhistory:records_of_destroyed_keys:alarm_raised(not judged)", 1)
		} else {
			r.Count("keyhistory:records_of_destroyed_keys:no_alarm(not judged)", 1)
		}
		return
	}
	if c.tgt.group == "translator" && strings.Contains(c.tgt.name, "Searchable(data)") && len(c.input) >= 33 && c.input[0] == 0x7f && c.offset < 33 {
		r.Count("keyhistory:not_demanded:record_overlaps_the_search_hash_field", 1)
		return
	}
	r.Count("keyhistory:positive_cases", 1)
	kc := "rotated"
	if c.key.current {
		kc = "current"
	}
	class := fmt.Sprintf("ks=%s kind=%s key=%s key-state=%s ring-current=%s ep=%s placement=%s", s.cfg.name, c.rec.kind, kc, c.key.state, c.ringCurrent, c.tgt.name, c.placement)
	if len(res.Events) == 0 {
		r.Violation("keyhistory: poison record of a key that survives in the keystore delivered without the callbacks having run: "+class, detail())
		return
	}
	bad := false
	if res.DeliveredAtLook || res.DeliveredWhileHeld {
		r.Violation("keyhistory: value delivered while the poison callback had not completed: "+class, detail())
		bad = true
	}
	for _, e := range res.Events {
		if res.DeliverySeq != 0 && e.Seq > res.DeliverySeq {
			r.Violation("keyhistory: poison callback ran after the delivery event: "+class, detail())
			bad = true
		}
	}
	if res.Secondary == 0 {
		r.Violation("keyhistory: not every registered callback ran: "+class, detail())
		bad = true
	}
	if bad {
		return
	}
	f := s.cfg.format()
	r.Count("keyhistory:positive_detected", 1)
	r.Count("keyhistory:detected:"+s.cfg.name, 1)
	r.Count("keyhistory:detected:"+c.tgt.group, 1)
	r.Count("keyhistory:detected:kind="+c.rec.kind, 1)
	r.Count("keyhistory:detected:"+c.placement, 1)
	r.Count(fmt.Sprintf("keyhistory:detected:%s:key=%s,ring-current=%s", f, kc, c.ringCurrent), 1)
	r.Count(fmt.Sprintf("keyhistory:detected:%s:key-state=%s", f, c.key.state), 1)
	r.Count("keyhistory:detected:made-by="+c.rec.how, 1)
	r.SetAdd(fmt.Sprintf("keyhistory:entry points that detected:%s:key=%s,ring-current=%s", f, kc, c.ringCurrent), c.tgt.name)
	r.Distinct(fmt.Sprintf("keyhistory-pos|%s", class))
	r.SampleN("keyhistory:pos:"+f+":"+kc+":"+c.ringCurrent, 1, map[string]interface{}{"case": "positive (key history)", "keystore": s.cfg.name, "history": append([]string{}, s.trace...),
		"storage_level_view(pair)": v.pair.summary(), "storage_level_view(sym)": v.sym.summary(), "record": fmt.Sprintf("kind=%s made at step %d (%s)", c.rec.kind, c.rec.step, c.rec.how),
		"record_key": fmt.Sprintf("%s state=%s current=%v", c.key.id, c.key.state, c.key.current), "entry_point": c.tgt.name, "reader": c.readerName, "placement": c.placement, "offset": c.offset,
		"input": ev.Hex(c.input), "callback_events(seq,goroutine)": res.Events, "delivery_seq": res.DeliverySeq, "err": fmt.Sprint(res.Err)})
}

func stripOwner(c string) string {
	if i := strings.Index(c, ",owner="); i >= 0 {
		return c[:i] + ")"
	}
	return c
}

// keyHistoryGuards: a run in which the phase observed nothing (or never reached the key states it is about) must fail.
func keyHistoryGuards(r *ev.Run) {
	r.RequireAtLeast("keyhistory:positive_detected", 3000)
	r.RequireAtLeast("keyhistory:negative_silent", 1500)
	r.RequireAtLeast("keyhistory:records_of_destroyed_keys(not judged)", 200) // the histories did destroy keys that had records
	r.RequireAtLeast("keyhistory:looks_at_delivery_point_while_callback_blocked", 3000)
	for _, c := range khConfigs {
		r.RequireAtLeast("keyhistory:detected:"+c.name, 300)
		r.RequireAtLeast("keyhistory:negative_silent:"+c.name, 200)
	}
	for _, c := range []string{"column", "translator", "kind=as", "kind=ab", "alone", "embedded"} {
		r.RequireAtLeast("keyhistory:detected:"+c, 1000)
	}
	for _, f := range []string{"v1", "v2"} {
		r.RequireAtLeast("keyhistory:detected:"+f+":key=current,ring-current=present", 500)
		r.RequireAtLeast("keyhistory:detected:"+f+":key=rotated,ring-current=present", 300)
		r.RequireAtLeast("keyhistory:detected:"+f+":key=rotated,ring-current=destroyed", 80)
		// every entry point was driven in the state "rotated keys survive, the current key is destroyed"
		r.RequireSetAtLeast("keyhistory:entry points that detected:"+f+":key=rotated,ring-current=destroyed", 18)
	}
	// records under surviving v2 keys in every state a ring entry can have besides destroyed
	for _, st := range []api.KeyState{api.KeyPreActive, api.KeyActive, api.KeySuspended, api.KeyDeactivated, api.KeyCompromised} {
		r.RequireAtLeast("keyhistory:detected:v2:key-state="+st.String(), 16)
	}
	r.RequireAtLeast("keyhistory:detected:made-by=generate", 1000)
	r.RequireAtLeast("keyhistory:detected:made-by=poison.Create*(no current key: generated implicitly)", 100)
	r.RequireAtLeast("keyhistory:detected:made-by=poison.Create*(existing current key)", 100)
	r.RequireAtLeast("keyhistory:sync:Reset", 40)
	r.RequireAtLeast("keyhistory:sync:reopen", 40)
}
