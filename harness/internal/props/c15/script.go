package c15

// Script-callback phase: "whenever intrusion callbacks are configured and a value ... contains a poison record ... the callbacks
// run before the value is delivered" — for EVERY such value of a process, not only the first, and for the stock callback behind
// --poison_run_script_file (poison.ExecuteScriptCallback) like for any other. The sampled cases and the length sweep register
// in-process recorders only; this phase configures a callback storage the way acra-server / acra-translator do
// (EmptyCallback, script callback, then what follows — here the two recorders where the servers put StopCallback) and sends a
// sequence of poison and clean values through it within this one process.

import (
	"fmt"
	"os"
	"path/filepath"
	"strings"
	"sync"
	"time"

	"github.com/cossacklabs/acra/poison"

	"verif/harness/internal/ev"
	"verif/harness/internal/gen"
	"verif/harness/internal/rig/envrig"
	"verif/harness/internal/rig/ksrig"
)

// scriptProbe stands in the storage where the script callback goes and delegates to the real poison.ExecuteScriptCallback,
// returning exactly what it returns (so CallbackStorage.Call behaves as with the bare callback) while noting call and result.
type scriptProbe struct {
	inner *poison.ExecuteScriptCallback
	mu    sync.Mutex
	calls []scriptCall
}

type scriptCall struct {
	StartSeq int64  `json:"seq_before_call"`
	EndSeq   int64  `json:"seq_after_call"`
	Err      string `json:"error,omitempty"`
}

func (p *scriptProbe) Call() error {
	c := scriptCall{StartSeq: nextSeq()}
	err := p.inner.Call()
	c.EndSeq = nextSeq()
	if err != nil {
		c.Err = err.Error()
	}
	p.mu.Lock()
	p.calls = append(p.calls, c)
	p.mu.Unlock()
	return err
}

func (p *scriptProbe) snapshot() []scriptCall {
	p.mu.Lock()
	defer p.mu.Unlock()
	return append([]scriptCall{}, p.calls...)
}

// scriptEnv is one keystore's services with the script callback configured.
type scriptEnv struct {
	we      *wenv
	probe   *scriptProbe
	logFile string
	script  string
}

// newScriptEnv writes the script (it appends one line per run to logFile) and builds the services. All scripts are written
// before the first process is started by this monitor (a script file still open for writing during a fork cannot be executed).
func newScriptEnv(st *store) *scriptEnv {
	dir := ksrig.ScratchDir("c15-script-" + st.name)
	se := &scriptEnv{logFile: filepath.Join(dir, "on_poison.log"), script: filepath.Join(dir, "on_poison.sh")}
	must(os.WriteFile(se.script, []byte("#!/bin/sh\necho detected >> \""+se.logFile+"\"\n"), 0o700), "poison script")
	se.probe = &scriptProbe{inner: poison.NewExecuteScriptCallback(se.script)}
	rec := &recorder{}
	cs := poison.NewCallbackStorage()
	cs.AddCallback(poison.EmptyCallback{})
	cs.AddCallback(se.probe)
	cs.AddCallback(primary{rec})
	cs.AddCallback(secondary{rec})
	e, err := envrig.New(st.name+"-script", st.ks, cs, "")
	must(err, "env")
	se.we = &wenv{env: e, rec: rec}
	return se
}

func countLines(path string) int {
	b, err := os.ReadFile(path)
	if err != nil {
		return 0
	}
	return strings.Count(string(b), "\n")
}

// scriptWatchdog bounds the wait for scripts that were STARTED (Call returned nil) to leave their line: ExecuteScriptCallback
// only starts the process (exec.Cmd.Start, no Wait), so completion is asynchronous by design. Expiry = inconclusive, never a verdict.
const scriptWatchdog = 20 * time.Second

var scriptNegativeClasses = []string{"client-envelope", "random", "poison-truncated-tail", "client-envelope-framed", "poison-bitflip", "foreign-keystore-poison", "poison-truncated-head"}

func detectionLabel(n int) string {
	if n <= 1 {
		return "1"
	}
	return "2+"
}

// scriptPhase runs, per keystore, a fixed-length sequence poison value, clean value, poison value, ... through one environment.
// quick: 12 poison values per keystore (36 script runs), thorough: 36 (108). Entry points rotate over the 18 of the sweep so
// that every one is used with both kinds and both placements; readers, key age and the clean-value class rotate too.
func scriptPhase(r *ev.Run, stores []*store, envs []*scriptEnv, cols, trs []target) {
	entries := append(append([]target{}, cols...), trs...)
	perStore := r.Pick(12, 36)
	for si, st := range stores {
		se := envs[si]
		rng := gen.New(r.Seed, "c15-script-"+st.name)
		var rotated []*record
		for _, rec := range st.pool {
			if st.keyAge(rec) > 0 {
				rotated = append(rotated, rec)
			}
		}
		pickRecord := func(kind string, wantRotated bool) *record {
			src := st.pool
			if wantRotated && len(rotated) > 0 {
				src = rotated
			}
			for {
				if rec := src[rng.Intn(len(src))]; rec.kind == kind {
					return rec
				}
			}
		}
		detections := 0 // poison values handled so far by THIS script callback object (= in this process)
		for i := 0; i < perStore; i++ {
			g := si*perStore + i
			e, round := g%len(entries), g/len(entries)
			tgt := entries[e]
			kind := []string{"as", "ab"}[(e+round)%2]
			rec := pickRecord(kind, g%3 == 0)
			rd := sweepReaders[g%len(sweepReaders)]
			k := kase{positive: true, judged: true, st: st, stIdx: si, epoch: 3, tgt: tgt, kind: kind, keyAge: st.keyAge(rec), length: rec.length, reader: rd.id, note: rd.n}
			if (e/2+round)%2 == 0 {
				k.placement, k.input = "alone", append([]byte{}, rec.data...)
			} else {
				k.placement = "embedded"
				k.input, k.offset, _, _ = sweepEmbed(rng, rec.data, 0)
			}
			k.hash = append([]byte{0x7f}, gen.Bytes(rng, 32)...)
			k.class = fmt.Sprintf("poison(kind=%s,key=%s,len=%d)/%s", rec.kind, keyClass(k.keyAge), rec.length, k.placement)
			detections++
			runScriptCase(r, se, k, detections)

			// a clean value at the same entry point
			n := kase{st: st, stIdx: si, epoch: 3, tgt: tgt}
			class := scriptNegativeClasses[g%len(scriptNegativeClasses)]
			n.input, n.class, n.judged = st.negative(rng, class)
			n.hash = append([]byte{0x7f}, gen.Bytes(rng, 32)...)
			rd = sweepReaders[(g+1)%len(sweepReaders)]
			n.reader, n.note = rd.id, rd.n
			// (a damaged record whose envelope is still intact is not judged, but it is a detection of this process)
			detections += runScriptCase(r, se, n, detections)
		}
		// every script that was started must leave its line; more lines than started scripts can never be explained by waiting
		started := 0
		for _, c := range se.probe.snapshot() {
			if c.Err == "" {
				started++
			}
		}
		deadline := time.Now().Add(scriptWatchdog)
		lines := countLines(se.logFile)
		for lines < started && time.Now().Before(deadline) {
			time.Sleep(20 * time.Millisecond)
			lines = countLines(se.logFile)
		}
		r.Count("script:scripts_started(callback returned nil)", int64(started))
		r.Count("script:script_runs_confirmed(lines in the script's file)", int64(lines))
		switch {
		case lines > started:
			r.Violation("script-ran-more-often-than-its-callback-was-called", map[string]interface{}{"keystore": st.name, "callback_calls_without_error": started, "lines_written_by_the_script": lines, "seed": r.Seed})
		case lines < started:
			r.Inconclusive(fmt.Sprintf("script phase, ks=%s: %d scripts were started (Call returned nil) but only %d lines appeared within %v", st.name, started, lines, scriptWatchdog))
		}
		reportOrphans(r, se.we, "end of the script phase")
	}
}

// runScriptCase returns how often the script callback was called during the operation.
func runScriptCase(r *ev.Run, se *scriptEnv, k kase, detection int) (scriptCalls int) {
	r.Case()
	before := len(se.probe.snapshot())
	res := observe(se.we.rec, func() ([]byte, error) { return k.tgt.run(se.we, k.reader, k.input, k.hash) })
	calls := se.probe.snapshot()[before:]
	scriptCalls = len(calls)
	detail := func() map[string]interface{} {
		return map[string]interface{}{"keystore": k.st.name, "entry_point": k.tgt.name, "reader": k.note, "class": k.class, "offset": k.offset, "input": ev.FullHex(k.input), "hash_arg": ev.FullHex(k.hash),
			"poison_values_handled_by_this_callback_storage_so_far(this one included)": detection, "callback_order": "EmptyCallback, ExecuteScriptCallback, recorder 1, recorder 2",
			"script_callback_calls": calls, "recorder_events": res.Events, "second_recorder_runs": res.Secondary, "delivery_seq": res.DeliverySeq, "err": fmt.Sprint(res.Err), "panic": res.Panic, "seed": r.Seed}
	}
	if res.Stuck {
		r.Inconclusive(fmt.Sprintf("script phase: operation did not return within %v: ep=%s class=%s", opWatchdog, k.tgt.name, k.class))
		finishGuards(r)
		os.Exit(r.Finish())
	}
	reportOrphans(r, se.we, "after "+k.tgt.name+" (script phase)")
	if res.Panic != "" {
		r.Count("operation_panicked", 1)
		r.SampleN("panic", 2, detail())
		return
	}
	if !k.positive {
		r.Count("script:negative_cases", 1)
		if !k.judged {
			return
		}
		if len(calls) > 0 || len(res.Events) > 0 || res.Secondary > 0 {
			r.Violation(fmt.Sprintf("false alarm: callbacks ran for a non-poison input: ep=%s input=%s ks=%s (script callback configured)", k.tgt.name, k.class, k.st.name), detail())
			return
		}
		r.Count("script:negative_silent", 1)
		return
	}
	r.Count("script:positive_cases", 1)
	tail := fmt.Sprintf("%s/%s/%s/detection=%s", k.tgt.name, k.kind, k.placement, detectionLabel(detection))
	if len(calls) == 0 && len(res.Events) == 0 {
		r.Violation("poison record delivered without the callbacks having run (script callback configured): "+tail, detail())
		return
	}
	bad := false
	if len(calls) == 0 {
		r.Violation("script-callback-not-called/"+tail, detail())
		bad = true
	}
	for _, c := range calls {
		if c.Err != "" {
			// the callback itself reports that it did not start the script
			r.Violation("script-callback-not-run/"+tail, detail())
			bad = true
			break
		}
	}
	if len(res.Events) == 0 || res.Secondary == 0 {
		r.Violation("callback-after-script-skipped/"+tail, detail())
		bad = true
	}
	if res.DeliveredAtLook || res.DeliveredWhileHeld {
		r.Violation("value delivered while the poison callback had not completed (script callback configured): "+tail, detail())
		bad = true
	}
	for _, c := range calls {
		if res.DeliverySeq != 0 && c.EndSeq > res.DeliverySeq {
			r.Violation("script-callback-ran-after-delivery/"+tail, detail())
			bad = true
			break
		}
	}
	for _, e := range res.Events {
		if res.DeliverySeq != 0 && e.Seq > res.DeliverySeq {
			r.Violation("poison callback ran after the delivery event (script callback configured): "+tail, detail())
			bad = true
			break
		}
	}
	if bad {
		return
	}
	r.Count("script:positive_all_callbacks_ran", 1)
	r.Count("script:detected:"+k.tgt.group, 1)
	r.Count("script:detected:kind="+k.kind, 1)
	r.Count("script:detected:"+k.placement, 1)
	r.Count("script:detected:detection="+detectionLabel(detection), 1)
	r.Distinct(fmt.Sprintf("script|%s|%s|%s|%s", k.st.name, k.tgt.name, k.kind, k.placement))
	r.SampleN("script:pos", 2, map[string]interface{}{"case": "positive (script callback configured)", "keystore": k.st.name, "entry_point": k.tgt.name, "class": k.class, "reader": k.note,
		"nth_poison_value_of_this_callback_storage": detection, "script_callback_calls": calls, "recorder_events(seq,goroutine)": res.Events, "delivery_seq": res.DeliverySeq, "input": ev.Hex(k.input)})
	return
}

// scriptGuards are the non-vacuity guards of the script phase.
func scriptGuards(r *ev.Run) {
	r.RequireAtLeast("script:positive_all_callbacks_ran", 30)
	r.RequireAtLeast("script:detected:detection=2+", 25)
	r.RequireAtLeast("script:script_runs_confirmed(lines in the script's file)", 30)
	r.RequireAtLeast("script:negative_silent", 25)
	for _, c := range []string{"column", "translator", "kind=as", "kind=ab", "alone", "embedded"} {
		r.RequireAtLeast("script:detected:"+c, 8)
	}
}
