package mysql

import (
	"context"
	"encoding/base64"
	"encoding/binary"
	"fmt"
	"strings"

	"github.com/cossacklabs/acra/acrablock"
	"github.com/cossacklabs/acra/acrastruct"
	"github.com/cossacklabs/acra/keystore"
	"github.com/cossacklabs/acra/poison"

	"verif/harness/internal/ev"
	"verif/harness/internal/gen"
	"verif/harness/internal/props/c04"
	"verif/harness/internal/rig/envrig"
	"verif/harness/internal/rig/fakemysql"
	"verif/harness/internal/rig/fakepg"
	"verif/harness/internal/rig/ksrig"
	"verif/harness/internal/rig/proxyrig"
)

var bg = context.Background()

// ---------------------------------------------------------------------------------------------------------------- columns

// wireType is how the database describes a column in its column definition.
type wireType struct {
	name    string
	typ     byte
	charset uint16
	flags   uint16
	length  uint32
}

var (
	blobTypes = []wireType{
		{"BLOB", fakemysql.TypeBlob, 63, fakemysql.FlagBlob | fakemysql.FlagBinary, 65535},
		{"TINYBLOB", fakemysql.TypeTinyBlob, 63, fakemysql.FlagBlob | fakemysql.FlagBinary, 255},
		{"MEDIUMBLOB", fakemysql.TypeMediumBlob, 63, fakemysql.FlagBlob | fakemysql.FlagBinary, 1<<24 - 1},
		{"LONGBLOB", fakemysql.TypeLongBlob, 63, fakemysql.FlagBlob | fakemysql.FlagBinary, 1<<32 - 1},
		{"VARBINARY", fakemysql.TypeVarString, 63, fakemysql.FlagBinary, 65535},
	}
	textTypes = []wireType{
		{"VARCHAR", fakemysql.TypeVarString, 33, 0, 255 * 3},
		{"CHAR", fakemysql.TypeString, 33, 0, 255 * 3},
		{"TEXT", fakemysql.TypeBlob, 33, fakemysql.FlagBlob, 65535 * 3},
		{"VARCHAR-15", fakemysql.TypeVarchar, 33, 0, 255 * 3},
	}
)

// colClass is one column of the world's table.
type colClass struct {
	spec  proxyrig.ColSpec
	class string // full class name (signatures)
	group string // unconfigured | encrypted | type-aware | searchable | masked | tokenized
	wires []wireType
	// onFailError: a value of this column that the reader cannot decrypt turns the whole statement into an ERR packet
	onFailError bool
	intTyped    bool
}

func strp(s string) *string { return &s }

// catalogue builds the column list of a world. class default-only: nothing but plain encryption (the proxy factory then
// subscribes fewer processors); mixed: every feature.
func catalogue(rng *gen.Rand, class string) []*colClass {
	var out []*colClass
	add := func(group, cl string, spec proxyrig.ColSpec, wires []wireType) *colClass {
		if spec.StoreType == 0 && spec.AppType == 0 {
			spec.StoreType, spec.AppType = fakepg.Bytea, fakepg.Bytea
		}
		c := &colClass{spec: spec, class: cl, group: group, wires: wires}
		out = append(out, c)
		return c
	}
	add("unconfigured", "unconfigured-blob", proxyrig.ColSpec{Name: "u_blob", AppType: fakepg.Bytea, StoreType: fakepg.Bytea}, blobTypes[:4])
	add("unconfigured", "unconfigured-text", proxyrig.ColSpec{Name: "u_text", AppType: fakepg.Text, StoreType: fakepg.Text}, textTypes)
	add("unconfigured", "unconfigured-varbinary", proxyrig.ColSpec{Name: "u_vbin", AppType: fakepg.Bytea, StoreType: fakepg.Bytea}, blobTypes[4:])
	add("encrypted", "enc/acrastruct", proxyrig.ColSpec{Name: "e_as", Kind: "enc", Envelope: "acrastruct", AppType: fakepg.Bytea, StoreType: fakepg.Bytea}, blobTypes)
	add("encrypted", "enc/acrablock", proxyrig.ColSpec{Name: "e_ab", Kind: "enc", Envelope: "acrablock", AppType: fakepg.Bytea, StoreType: fakepg.Bytea}, blobTypes)
	add("encrypted", "enc/other-client-id", proxyrig.ColSpec{Name: "e_other", Kind: "enc", Envelope: "acrablock", ClientID: c04.Other, AppType: fakepg.Bytea, StoreType: fakepg.Bytea}, blobTypes)
	if class == "default-only" {
		return out
	}
	envs := []string{"acrastruct", "acrablock"}
	appOf := map[string]fakepg.ColType{"str": fakepg.Text, "bytes": fakepg.Bytea, "int32": fakepg.Int4, "int64": fakepg.Int8}
	defOf := map[string]string{"str": "default text", "bytes": base64.StdEncoding.EncodeToString([]byte("default\x00bytes")), "int32": "-42", "int64": "9223372036854775807"}
	k := 0
	for _, typ := range []string{"str", "bytes", "int32", "int64"} {
		for _, pol := range []string{"unset", "ciphertext", "default_value", "error"} {
			k++
			spec := proxyrig.ColSpec{Name: fmt.Sprintf("t_%s_%s", typ, strings.TrimSuffix(pol, "_value")), Kind: "enc", Envelope: envs[(k+rng.Intn(2))%2], DataType: typ, AppType: appOf[typ], StoreType: fakepg.Bytea}
			if pol != "unset" {
				spec.OnFail = pol
			}
			if pol == "default_value" {
				spec.Default = strp(defOf[typ])
			}
			c := add("type-aware", fmt.Sprintf("type-aware/%s/on-fail=%s", typ, pol), spec, blobTypes)
			c.onFailError = pol == "error"
			c.intTyped = strings.HasPrefix(typ, "int")
		}
	}
	add("searchable", "search/acrastruct", proxyrig.ColSpec{Name: "s_as", Kind: "search", Envelope: "acrastruct", AppType: fakepg.Bytea, StoreType: fakepg.Bytea}, blobTypes)
	add("searchable", "search/acrablock", proxyrig.ColSpec{Name: "s_ab", Kind: "search", Envelope: "acrablock", AppType: fakepg.Bytea, StoreType: fakepg.Bytea}, blobTypes)
	add("searchable", "search/acrablock/str", proxyrig.ColSpec{Name: "s_ab_str", Kind: "search", Envelope: "acrablock", DataType: "str", AppType: fakepg.Text, StoreType: fakepg.Bytea}, blobTypes)
	add("masked", "mask/acrablock/left", proxyrig.ColSpec{Name: "m_ab", Kind: "mask", Envelope: "acrablock", MaskPat: "xxxx", MaskLen: 3, MaskSide: "left", AppType: fakepg.Bytea, StoreType: fakepg.Bytea}, blobTypes)
	add("masked", "mask/acrastruct/right", proxyrig.ColSpec{Name: "m_as", Kind: "mask", Envelope: "acrastruct", MaskPat: "#", MaskLen: 2, MaskSide: "right", AppType: fakepg.Bytea, StoreType: fakepg.Bytea}, blobTypes)
	add("masked", "mask/acrablock/str", proxyrig.ColSpec{Name: "m_ab_str", Kind: "mask", Envelope: "acrablock", DataType: "str", MaskPat: "**", MaskLen: 4, MaskSide: "right", AppType: fakepg.Text, StoreType: fakepg.Bytea}, blobTypes)
	add("tokenized", "token/str", proxyrig.ColSpec{Name: "k_str", Kind: "token", TokenType: "str", Consist: true, AppType: fakepg.Text, StoreType: fakepg.Text}, textTypes)
	add("tokenized", "token/bytes", proxyrig.ColSpec{Name: "k_bytes", Kind: "token", TokenType: "bytes", Consist: false, AppType: fakepg.Bytea, StoreType: fakepg.Bytea}, blobTypes)
	add("tokenized", "token/email", proxyrig.ColSpec{Name: "k_email", Kind: "token", TokenType: "email", Consist: true, AppType: fakepg.Text, StoreType: fakepg.Text}, textTypes)
	return out
}

const tableName = "ptab"

func tableOf(cols []*colClass) proxyrig.TableSpec {
	t := proxyrig.TableSpec{Name: tableName}
	t.Cols = append(t.Cols, proxyrig.ColSpec{Name: "id", AppType: fakepg.Int4, StoreType: fakepg.Int4})
	for _, c := range cols {
		t.Cols = append(t.Cols, c.spec)
	}
	return t
}

// ---------------------------------------------------------------------------------------------------------------- material

// record is one poison record.
type record struct {
	kind    string // as | ab
	age     string // current | rotated
	dataLen int    // requested data length (-1 = the generator's default)
	data    []byte
}

// envelope is an ordinary protected value of a client.
type envelope struct {
	owner string // owner | other-keys
	form  string // container-as | container-ab | raw-as | raw-ab | searchable-as | searchable-ab
	data  []byte
}

type material struct {
	ks        ksrig.FullKeyStore
	recs      []*record
	byKind    map[string][]*record
	big       []*record // records of 64 KiB and more
	foreign   []*record
	envelopes []*envelope
	ints      map[string][][]byte // per client: envelopes over integer text (ordinary values of int-typed columns)
	recSeq    int
}

func must(err error, what string) {
	if err != nil {
		panic(fmt.Sprintf("c15 mysql rig: %s: %v", what, err))
	}
}

func makeRecord(ks keystore.PoisonKeyStorageAndGenerator, kind string, n int) []byte {
	var b []byte
	var err error
	if kind == "as" {
		b, err = poison.CreatePoisonRecord(ks, n)
	} else {
		b, err = poison.CreateSymmetricPoisonRecord(ks, n)
	}
	must(err, "poison record")
	return b
}

// foreignRecords are poison records of a keystore no AcraServer of the layer uses.
func foreignRecords() []*record {
	ks, err := ksrig.V1(ksrig.ScratchDir("c15my-foreign"), ksrig.RandBytes(32), keystore.InfiniteCacheSize)
	must(err, "foreign keystore")
	var out []*record
	for _, kind := range []string{"as", "ab"} {
		for _, n := range []int{1, poison.UseDefaultDataLength, 120, 400} {
			out = append(out, &record{kind: kind, age: "foreign", dataLen: n, data: makeRecord(ks, kind, n)})
		}
	}
	return out
}

// newMaterial creates the poison-key history (rot rotations of both keys), poison records under every generation and the
// ordinary envelopes of both clients.
func newMaterial(rng *gen.Rand, ks ksrig.FullKeyStore, rot, widx int, foreign []*record) *material {
	m := &material{ks: ks, byKind: map[string][]*record{}, foreign: foreign}
	overhead := map[string]int{}
	for g := 0; g <= rot; g++ {
		must(ks.GeneratePoisonKeyPair(), "poison key pair")
		must(ks.GeneratePoisonSymmetricKey(), "poison symmetric key")
		for _, kind := range []string{"as", "ab"} {
			if g == 0 {
				overhead[kind] = len(makeRecord(ks, kind, 100)) - 100
			}
			// data lengths: tiny, the generator's default, and lengths that make the record itself 250 / 251 / 252 bytes long
			lens := []int{1, poison.UseDefaultDataLength, 250 - overhead[kind], 251 - overhead[kind], 252 - overhead[kind], 17 + rng.Intn(80), 1000 + rng.Intn(3000)}
			// two long ones per kind in the oldest and in the newest generation: around the 64 KiB boundary of the length prefix
			if g == 0 || g == rot {
				around := []int{65535, 65536, 65537, 70000 + rng.Intn(3000), 65534}
				lens = append(lens, around[(widx+g)%len(around)]-overhead[kind], around[(widx+g+2)%len(around)]-overhead[kind], 20000+rng.Intn(30000))
			}
			for _, n := range lens {
				rec := &record{kind: kind, age: "rotated", dataLen: n, data: makeRecord(ks, kind, n)}
				if g == rot {
					rec.age = "current"
				}
				m.recs = append(m.recs, rec)
				m.byKind[kind] = append(m.byKind[kind], rec)
				if len(rec.data) >= 65000 {
					m.big = append(m.big, rec)
				}
			}
		}
	}
	// ordinary envelopes of both clients, every form Acra or AcraWriter / AcraTranslator produce
	e, err := envrig.New(fmt.Sprintf("c15my-%d", widx), ks, nil, "")
	must(err, "env")
	add := func(owner, form string, b []byte, err error) {
		must(err, "client envelope "+form)
		m.envelopes = append(m.envelopes, &envelope{owner: owner, form: form, data: b})
	}
	for _, c := range []struct{ n, id string }{{"owner", c04.Owner}, {"other-keys", c04.Other}} {
		id := []byte(c.id)
		for i, n := range []int{1 + rng.Intn(40), 60 + rng.Intn(120), 300 + rng.Intn(200), 66000 + rng.Intn(500)} {
			x := gen.Content(rng, "ascii", n)
			b, err := e.Registry.EncryptWithClientID(id, x, e.Setting("plain_as"))
			add(c.n, "container-as", b, err)
			b, err = e.Registry.EncryptWithClientID(id, x, e.Setting("plain_ab"))
			add(c.n, "container-ab", b, err)
			if i >= 3 {
				continue
			}
			pub, err := ks.GetClientIDEncryptionPublicKey(id)
			must(err, "public key")
			b, err = acrastruct.CreateAcrastruct(x, pub, nil)
			add(c.n, "raw-as", b, err)
			sym, err := ks.GetClientIDSymmetricKey(id)
			must(err, "symmetric key")
			b, err = acrablock.CreateAcraBlock(x, sym, nil)
			add(c.n, "raw-ab", b, err)
			sr, err := e.Translator.EncryptSearchable(bg, x, id, nil)
			add(c.n, "searchable-as", gen.Cat(sr.Hash, sr.EncryptedData), err)
			sr, err = e.Translator.EncryptSymSearchable(bg, x, id, nil)
			add(c.n, "searchable-ab", gen.Cat(sr.Hash, sr.EncryptedData), err)
		}
	}
	m.ints = map[string][][]byte{}
	for _, c := range []struct{ n, id string }{{"owner", c04.Owner}, {"other-keys", c04.Other}} {
		for i, s := range []string{"7", "-12345", "2147483647", "0"} {
			b, err := e.Registry.EncryptWithClientID([]byte(c.id), []byte(s), e.Setting([]string{"plain_ab", "plain_as"}[i%2]))
			must(err, "int envelope")
			m.ints[c.n] = append(m.ints[c.n], b)
		}
	}
	return m
}

// stillPoison is the reference used ONLY to classify damaged records: does the inner envelope still open with some poison key of
// the store at the library level (the damage fell into a field that is not authenticated)?
func stillPoison(ks ksrig.FullKeyStore, kind string, inner []byte) (ok bool) {
	defer func() {
		if recover() != nil {
			ok = false
		}
	}()
	if kind == "as" {
		privs, err := ks.GetPoisonPrivateKeys()
		if err != nil {
			return false
		}
		_, err = acrastruct.DecryptRotatedAcrastruct(append([]byte{}, inner...), privs, nil)
		return err == nil
	}
	syms, err := ks.GetPoisonSymmetricKeys()
	if err != nil {
		return false
	}
	blk, err := acrablock.NewAcraBlockFromData(append([]byte{}, inner...))
	if err != nil {
		return false
	}
	_, err = blk.Decrypt(syms, nil)
	return err == nil
}

const containerHeader = 12 // "%%%" + 8-byte length + envelope id

// smallRecord picks a record that is not one of the 64 KiB ones.
func (m *material) smallRecord(rng *gen.Rand) *record {
	for {
		rec := m.recs[rng.Intn(len(m.recs))]
		if len(rec.data) < 6000 {
			return rec
		}
	}
}

// ---------------------------------------------------------------------------------------------------------------- cells

// cell is one field of a scripted result set.
type cell struct {
	null      bool
	data      []byte
	poison    bool // holds at least one authentic poison record as poison.Create* make them
	unjudged  bool // holds something the property does not speak about (legacy raw envelope under a poison key)
	rec       *record
	placement string
	class     string // ordinary data: input class
	col       *colClass
	wire      wireType
	nextTo    string // poison cells: null | empty when a neighbour in the row is NULL / the empty string
	off       int
}

var placements = []string{"alone", "random-around", "random-before", "random-after", "text-around", "partial-tags", "two-records", "after-client-envelope", "before-client-envelope", "padded-to-boundary", "alone", "random-around"}

// poisonCell places rec into a field.
func (m *material) poisonCell(rng *gen.Rand, rec *record, placement string) cell {
	c := cell{poison: true, rec: rec, placement: placement}
	pre := func(n int) []byte {
		b := gen.Bytes(rng, n)
		if n > 0 && b[0] == 0x7f {
			b[0] = 0x7e
		}
		return b
	}
	switch placement {
	case "alone":
		c.data = append([]byte{}, rec.data...)
	case "random-around":
		p := pre(1 + rng.Intn(64))
		c.data, c.off = gen.Cat(p, rec.data, gen.Bytes(rng, 1+rng.Intn(40))), len(p)
	case "random-before":
		p := pre(1 + rng.Intn(64))
		c.data, c.off = gen.Cat(p, rec.data), len(p)
	case "random-after":
		c.data = gen.Cat(rec.data, gen.Bytes(rng, 1+rng.Intn(64)))
	case "text-around":
		p := []byte("some prefix %%")
		c.data, c.off = gen.Cat(p, rec.data, []byte("%% some suffix")), len(p)
	case "partial-tags":
		p := [][]byte{[]byte("%"), []byte("%%"), []byte(`"`), []byte(`""""`), []byte(`"""""""`), []byte("x%%")}[rng.Intn(6)]
		c.data, c.off = gen.Cat(p, rec.data), len(p)
	case "two-records":
		other := m.smallRecord(rng)
		mid := gen.Bytes(rng, rng.Intn(6))
		c.data = gen.Cat(rec.data, mid, other.data)
	case "after-client-envelope", "before-client-envelope":
		var e *envelope
		for {
			e = m.envelopes[rng.Intn(len(m.envelopes))]
			if len(e.data) < 2000 && !strings.HasPrefix(e.form, "searchable") {
				break
			}
		}
		if placement == "after-client-envelope" {
			c.data, c.off = gen.Cat(e.data, rec.data), len(e.data)
		} else {
			c.data = gen.Cat(rec.data, e.data)
		}
		c.placement += ":" + e.form
	case "padded-to-boundary":
		// surrounding bytes chosen so that the FIELD is exactly 250 / 251 / 252 / 65535 / 65536 / 65537 bytes long
		targets := []int{250, 251, 252, 65535, 65536, 65537}
		// the same number of draws whatever the record's length is (the generator's default length is random)
		ti, small, cut := rng.Intn(len(targets)), rng.Intn(3) > 0, rng.Int63()
		if small {
			ti %= 3
		}
		t := 0
		for j := 0; j < len(targets); j++ {
			if c := targets[(ti+j)%len(targets)]; c-len(rec.data) >= 2 {
				t = c
				break
			}
		}
		if t == 0 {
			c.placement = "alone"
			c.data = append([]byte{}, rec.data...)
			break
		}
		room := t - len(rec.data)
		np := 1 + int(cut%int64(room-1))
		sub := gen.New(cut, "c15my-pad") // the padding bytes come from their own stream: their number depends on the record's length
		p := gen.Bytes(sub, np)
		if p[0] == 0x7f {
			p[0] = 0x7e
		}
		c.data, c.off = gen.Cat(p, rec.data, gen.Bytes(sub, room-np)), np
	case "legacy-raw":
		// the inner envelope without its container: what Acra's generator made before containers existed. Not judged.
		c.poison, c.unjudged = false, true
		c.data = append([]byte{}, rec.data[containerHeader:]...)
	default:
		panic("unknown placement " + placement)
	}
	return c
}

var cleanClasses = []string{"random", "random:boundary-lengths", "random:text", "lookalike:headers", "lookalike:poison-header-garbage-body", "damaged-poison:truncated-tail", "damaged-poison:truncated-head",
	"damaged-poison:bit-flip", "client-envelope:owner", "client-envelope:other-keys", "client-envelope:framed", "foreign-poison:alone", "foreign-poison:framed"}

var boundaryLens = []int{0, 1, 2, 12, 13, 33, 34, 100, 249, 250, 251, 252, 253, 300, 4096}

// cleanCell draws ordinary data of a class.
func (m *material) cleanCell(rng *gen.Rand, class string) cell {
	c := cell{class: class}
	switch class {
	case "null":
		c.null = true
	case "empty":
		c.data = []byte{}
	case "random":
		c.data = gen.Bytes(rng, 1+rng.Intn(200))
	case "random:boundary-lengths":
		n := boundaryLens[rng.Intn(len(boundaryLens))]
		if rng.Intn(12) == 0 {
			n = []int{65535, 65536, 65537}[rng.Intn(3)]
		}
		c.data = gen.Bytes(rng, n)
	case "random:text":
		c.data = gen.Content(rng, []string{"ascii", "utf8", "percents", "quotes", "nul-laden", "zeros"}[rng.Intn(6)], 1+rng.Intn(300))
	case "lookalike:headers":
		cl := []string{"hash-lookalike", "astag-random", "abtag-random", "ctag-random", "as-header-consistent", "ab-header-consistent", "ab-header-inconsistent", "c-header-consistent", "c-header-inconsistent"}[rng.Intn(9)]
		c.data = gen.Content(rng, cl, gen.BoundaryLengths[4+rng.Intn(26)])
		c.class += ":" + cl
	case "lookalike:poison-header-garbage-body":
		// the first bytes of an authentic poison record (container tag, length, envelope id and the inner envelope's own tag and
		// header fields), then random bytes up to the record's length
		rec := m.smallRecord(rng)
		keep := containerHeader + []int{0, 1, 4, 8, 10, 22, 30}[rng.Intn(7)]
		if keep > len(rec.data)-8 {
			keep = containerHeader
		}
		c.data = gen.Cat(rec.data[:keep], gen.Bytes(rng, len(rec.data)-keep))
		if stillPoison(m.ks, rec.kind, c.data[containerHeader:]) {
			c.data = gen.Bytes(rng, 40)
		}
	case "damaged-poison:truncated-tail":
		rec := m.smallRecord(rng)
		cut := 1 + rng.Intn(len(rec.data)-1)
		if rng.Intn(3) == 0 {
			cut = 1 + rng.Intn(3)
		}
		c.data = append([]byte{}, rec.data[:len(rec.data)-cut]...)
		if rng.Intn(2) == 0 {
			c.data = gen.Cat(gen.Bytes(rng, rng.Intn(20)), c.data)
		}
	case "damaged-poison:truncated-head":
		rec := m.smallRecord(rng)
		cut := containerHeader + 1 + rng.Intn(len(rec.data)-containerHeader-1)
		c.data = append([]byte{}, rec.data[cut:]...)
	case "damaged-poison:bit-flip":
		rec := m.smallRecord(rng)
		for try := 0; ; try++ {
			b := append([]byte{}, rec.data...)
			pos := containerHeader + rng.Intn(len(b)-containerHeader)
			b[pos] ^= 1 << uint(rng.Intn(8))
			// judged only when the damage destroyed the envelope; a flip in an unauthenticated header field leaves an authentic
			// poison envelope in the bytes
			if !stillPoison(m.ks, rec.kind, b[containerHeader:]) {
				c.data = b
				break
			}
			if try > 20 {
				c.data = gen.Bytes(rng, 50)
				break
			}
		}
	case "client-envelope:owner", "client-envelope:other-keys", "client-envelope:framed":
		want := strings.TrimPrefix(class, "client-envelope:")
		var e *envelope
		for {
			e = m.envelopes[rng.Intn(len(m.envelopes))]
			if want == "framed" || e.owner == want {
				break
			}
		}
		c.data = append([]byte{}, e.data...)
		if want == "framed" {
			p, s := gen.Framing(rng, 1+rng.Intn(gen.FramingKinds-1))
			c.data = gen.Cat(p, e.data, s)
		}
		c.class += ":" + e.form
	case "foreign-poison:alone", "foreign-poison:framed":
		rec := m.foreign[rng.Intn(len(m.foreign))]
		c.data = append([]byte{}, rec.data...)
		if class == "foreign-poison:framed" {
			c.data = gen.Cat(gen.Bytes(rng, rng.Intn(65)), rec.data, gen.Bytes(rng, rng.Intn(30)))
		}
	default:
		panic("unknown clean class " + class)
	}
	return c
}

// ---------------------------------------------------------------------------------------------------------------- statements

type selCol struct {
	col  *colClass // nil = id
	wire wireType
}

// stmt is one scripted result set and how it is read.
type stmt struct {
	seq          int
	sql          string
	cols         []selCol
	rows         [][]cell
	binary       bool
	param        bool
	closeStmt    bool
	deprecateEOF bool
	reader       int
	rowPos       string
	colPos       string
	layout       string // several poison values: how they are laid out
	cleanClass   string // result sets of ordinary data: the class of the data
	star         bool
	names        string
	table        string // "" = the configured table; else a table the encryptor configuration does not know
	allPlain     string // every selected column is unconfigured: same-table | unknown-table ("" = not arranged)
	lead         string // every row starts with: empty | null | len-251..65535 | len-ge65536 ("" = not arranged)
}

// finish fixes the statement text once protocol and parameter use are known.
func (s *stmt) tableOr() string {
	if s.table != "" {
		return s.table
	}
	return tableName
}

func (s *stmt) finish() {
	tableName := s.tableOr()
	sel := s.names
	if s.star {
		sel = "*"
	}
	if s.binary && s.param {
		s.sql = fmt.Sprintf("select %s from %s where id > ? and id < %d", sel, tableName, 1000000+s.seq)
	} else {
		s.sql = fmt.Sprintf("select %s from %s where id > %d", sel, tableName, s.seq)
	}
}

func (s *stmt) proto() string {
	if s.binary {
		return "binary"
	}
	return "text"
}

func (s *stmt) eofName() string {
	if s.deprecateEOF {
		return "deprecated"
	}
	return "classic"
}

func (s *stmt) colNames() []string {
	var out []string
	for _, c := range s.cols {
		if c.col == nil {
			out = append(out, "id:LONG")
		} else {
			out = append(out, c.col.spec.Name+":"+c.wire.name+"("+c.col.class+")")
		}
	}
	return out
}

func (s *stmt) colClasses() []string {
	var out []string
	for _, c := range s.cols {
		if c.col != nil {
			out = append(out, c.col.class)
		}
	}
	return out
}

func (s *stmt) counts() (poisonCells, unjudged int) {
	for _, row := range s.rows {
		for _, c := range row {
			if c.poison {
				poisonCells++
			}
			if c.unjudged {
				unjudged++
			}
		}
	}
	return
}

func (s *stmt) firstPoison() *cell {
	for ri := range s.rows {
		for ci := range s.rows[ri] {
			if s.rows[ri][ci].poison {
				return &s.rows[ri][ci]
			}
		}
	}
	return nil
}

func (s *stmt) poisonColumnClasses() string {
	var out []string
	for _, row := range s.rows {
		for _, c := range row {
			if c.poison {
				out = append(out, c.col.class)
			}
		}
	}
	return strings.Join(out, ",")
}

func (s *stmt) brief() string {
	what := "clean:" + s.cleanClass
	if p := s.firstPoison(); p != nil {
		what = fmt.Sprintf("poison column=%s kind=%s field-length=%d placement=%s row=%s col=%s", p.col.class, p.rec.kind, len(p.data), p.placement, s.rowPos, s.colPos)
		if n, _ := s.counts(); n > 1 {
			what = fmt.Sprintf("poison-values=%d layout=%s", n, s.layout)
		}
	}
	return fmt.Sprintf("%s protocol=%s eof=%s reader=%s rows=%d cols=%d", what, s.proto(), s.eofName(), readers[s.reader].name, len(s.rows), len(s.cols))
}

func (s *stmt) describeRows() []string {
	var out []string
	for ri, row := range s.rows {
		var f []string
		for ci, c := range row {
			name := "id"
			if s.cols[ci].col != nil {
				name = s.cols[ci].col.spec.Name
			}
			switch {
			case s.cols[ci].col == nil:
				f = append(f, fmt.Sprintf("id=%d", s.seq*10+ri+1))
			case c.null:
				f = append(f, name+"=NULL")
			case c.poison || c.unjudged:
				f = append(f, fmt.Sprintf("%s=POISON(kind=%s key=%s data-length=%d record-length=%d placement=%s offset=%d field-length=%d field=%s)", name, c.rec.kind, c.rec.age, c.rec.dataLen, len(c.rec.data), c.placement, c.off, len(c.data), hexClip(c.data)))
			default:
				f = append(f, fmt.Sprintf("%s=%s(%d bytes: %s)", name, c.class, len(c.data), hexClip(c.data)))
			}
		}
		out = append(out, fmt.Sprintf("row %d: %s", ri, strings.Join(f, " | ")))
	}
	return out
}

func hexClip(b []byte) string {
	if len(b) > 1024 {
		return ev.Hex(b[:96]) + fmt.Sprintf("...(%d more bytes)...", len(b)-192) + ev.Hex(b[len(b)-96:])
	}
	return ev.Hex(b)
}

// script returns the database's canned reply.
func (s *stmt) script() fakemysql.Script {
	return func(sql string, binaryProto bool) *fakemysql.Reply {
		rep := &fakemysql.Reply{}
		tableName := s.tableOr()
		for _, c := range s.cols {
			if c.col == nil {
				rep.Cols = append(rep.Cols, fakemysql.ColDef{Schema: "db", Table: tableName, OrgTable: tableName, Name: "id", OrgName: "id", Charset: 63, Length: 11, Type: fakemysql.TypeLong, Flags: fakemysql.FlagNum})
				continue
			}
			rep.Cols = append(rep.Cols, fakemysql.ColDef{Schema: "db", Table: tableName, OrgTable: tableName, Name: c.col.spec.Name, OrgName: c.col.spec.Name, Charset: c.wire.charset, Length: c.wire.length, Type: c.wire.typ, Flags: c.wire.flags})
		}
		for ri, row := range s.rows {
			var f []fakemysql.Field
			for ci, c := range row {
				if s.cols[ci].col == nil {
					id := uint32(s.seq*10 + ri + 1)
					if binaryProto {
						b := make([]byte, 4)
						binary.LittleEndian.PutUint32(b, id)
						f = append(f, fakemysql.Field{Data: b})
					} else {
						f = append(f, fakemysql.Field{Data: []byte(fmt.Sprint(id))})
					}
					continue
				}
				f = append(f, fakemysql.Field{Null: c.null, Data: c.data})
			}
			rep.Rows = append(rep.Rows, f)
		}
		return rep
	}
}

// build assembles a result set: `cols` columns in the given order, nrows rows, poison cells at the given (row, column index)
// positions, everything else ordinary data drawn by fill.
func (w *world) build(rng *gen.Rand, cols []*colClass, idAt string, nrows int, poisonAt map[[2]int]cell, fill func(ri, ci int, col *colClass) cell) *stmt {
	w.stmtSeq++
	st := &stmt{seq: w.stmtSeq}
	for _, c := range cols {
		st.cols = append(st.cols, selCol{c, c.wires[rng.Intn(len(c.wires))]})
	}
	for ri := 0; ri < nrows; ri++ {
		row := make([]cell, len(cols))
		for ci, c := range cols {
			if pc, ok := poisonAt[[2]int{ri, ci}]; ok {
				row[ci] = pc
			} else {
				row[ci] = fill(ri, ci, c)
			}
			row[ci].col, row[ci].wire = c, st.cols[ci].wire
		}
		st.rows = append(st.rows, row)
	}
	// the id column is added after the positions were fixed (positions speak about the byte-string columns)
	switch idAt {
	case "first":
		st.cols = append([]selCol{{}}, st.cols...)
		for ri := range st.rows {
			st.rows[ri] = append([]cell{{class: "id"}}, st.rows[ri]...)
		}
	case "last":
		st.cols = append(st.cols, selCol{})
		for ri := range st.rows {
			st.rows[ri] = append(st.rows[ri], cell{class: "id"})
		}
	}
	var names []string
	for _, c := range st.cols {
		if c.col == nil {
			names = append(names, "id")
		} else {
			names = append(names, c.col.spec.Name)
		}
	}
	st.names = strings.Join(names, ", ")
	st.sql = fmt.Sprintf("select %s from %s where id > %d", st.names, tableName, st.seq)
	return st
}

// asStar turns the statement into `select *` when its columns are the whole table in schema order.
func (w *world) asStar(st *stmt) {
	st.star = true
}

// safeFill draws ordinary data that lets the row be delivered to as many readers as possible: columns with response_on_fail
// "error" get NULL (or, for the owner, one of the owner's envelopes) - anything else there turns the statement into an ERR.
func (w *world) safeFill(rng *gen.Rand, reader int, classes []string) func(ri, ci int, col *colClass) cell {
	return func(ri, ci int, col *colClass) cell {
		if col.onFailError {
			if reader == 0 && rng.Intn(2) == 0 && col.spec.Envelope == "acrablock" {
				if col.intTyped {
					return cell{class: "client-envelope:owner:int", data: append([]byte{}, w.mat.ints["owner"][2*rng.Intn(2)]...)}
				}
				for _, e := range w.mat.envelopes {
					if e.owner == "owner" && e.form == "container-ab" && len(e.data) < 400 {
						return cell{class: "client-envelope:owner:" + e.form, data: append([]byte{}, e.data...)}
					}
				}
			}
			return cell{class: "null", null: true}
		}
		switch x := rng.Intn(10); {
		case x == 0:
			return cell{class: "null", null: true}
		case x == 1:
			return cell{class: "empty", data: []byte{}}
		}
		class := classes[rng.Intn(len(classes))]
		if col.intTyped && strings.HasPrefix(class, "client-envelope") {
			// an ordinary protected value of an integer column holds an integer (a decryptable envelope over other text makes
			// Acra drop the connection in the binary protocol - type conversion, not this property's subject)
			who := []string{"owner", "other-keys"}[rng.Intn(2)]
			if class == "client-envelope:owner" || class == "client-envelope:other-keys" {
				who = strings.TrimPrefix(class, "client-envelope:")
			}
			l := w.mat.ints[who]
			return cell{class: "client-envelope:" + who + ":int", data: append([]byte{}, l[rng.Intn(len(l))]...)}
		}
		return w.mat.cleanCell(rng, class)
	}
}

var posNames = []string{"first", "middle", "last"}

func posIndex(pos string, n int, rng *gen.Rand) int {
	switch pos {
	case "first":
		return 0
	case "last":
		return n - 1
	}
	return 1 + rng.Intn(n-2)
}

// planWorld enumerates the statements of a world.
func planWorld(r *ev.Run, rng *gen.Rand, w *world) []*stmt {
	var plan []*stmt
	m := w.mat
	ordinary := []string{"random", "random:text", "client-envelope:owner", "client-envelope:other-keys", "lookalike:headers", "random:boundary-lengths"}
	k := w.idx * 7 // rotation offset so that worlds differ
	pickCols := func(n int, must *colClass) []*colClass {
		perm := rng.Perm(len(w.cols))
		var out []*colClass
		for _, pi := range perm {
			if len(out) == n-1 {
				break
			}
			if w.cols[pi] != must {
				out = append(out, w.cols[pi])
			}
		}
		return out
	}
	if !w.clean {
		// ---- one poison value at every (row position, column position, protocol, EOF convention)
		for _, rowPos := range posNames {
			for _, colPos := range posNames {
				for _, bin := range []bool{false, true} {
					for _, dep := range []bool{false, true} {
						k++
						reader := k % 3
						col := w.cols[(k*5+k/len(w.cols))%len(w.cols)]
						kind := []string{"as", "ab"}[(k/3)%2]
						pool := m.byKind[kind]
						rec := pool[(k/6+k)%len(pool)]
						placement := placements[(k/2)%len(placements)]
						if len(rec.data) > 60000 && (placement == "two-records" || strings.HasSuffix(placement, "client-envelope")) {
							placement = "padded-to-boundary"
						}
						nrows, ncols := 3+rng.Intn(3), 3+rng.Intn(3)
						ri, ci := posIndex(rowPos, nrows, rng), posIndex(colPos, ncols, rng)
						others := pickCols(ncols, col)
						cols := append(append(append([]*colClass{}, others[:ci]...), col), others[ci:]...)
						pc := m.poisonCell(rng, rec, placement)
						st := w.build(rng, cols, []string{"none", "first", "last", "first"}[k%4], nrows, map[[2]int]cell{{ri, ci}: pc}, w.safeFill(rng, reader, ordinary))
						st.binary, st.deprecateEOF, st.reader, st.rowPos, st.colPos = bin, dep, reader, rowPos, colPos
						st.param, st.closeStmt = bin && k%3 == 0, k%5 != 0
						plan = append(plan, st)
					}
				}
			}
		}
		// ---- the 64 KiB records, alone and padded, one column, in both protocols
		for i, rec := range m.big {
			k++
			for j, bin := range []bool{false, true} {
				placement := []string{"alone", "padded-to-boundary", "random-around"}[(i+j+k)%3]
				col := w.cols[(k*3+i+j)%len(w.cols)]
				pc := m.poisonCell(rng, rec, placement)
				nrows := 1 + (i+j)%2
				st := w.build(rng, []*colClass{col}, []string{"none", "last"}[(i+j)%2], nrows, map[[2]int]cell{{nrows - 1, 0}: pc}, w.safeFill(rng, (k+j)%3, ordinary))
				st.binary, st.deprecateEOF, st.reader = bin, (i+k)%2 == 0, (k+j)%3
				st.rowPos, st.colPos = []string{"only", "last"}[nrows-1], "only"
				plan = append(plan, st)
			}
		}
		// ---- single-row, single-column result sets and `select *`
		for i := 0; i < 8; i++ {
			k++
			rec := m.recs[(k*3)%len(m.recs)]
			if len(rec.data) > 60000 {
				rec = m.smallRecord(rng)
			}
			col := w.cols[(k*11)%len(w.cols)]
			pc := m.poisonCell(rng, rec, placements[k%len(placements)])
			var st *stmt
			if i%2 == 0 {
				st = w.build(rng, []*colClass{col}, "none", 1, map[[2]int]cell{{0, 0}: pc}, w.safeFill(rng, k%3, ordinary))
				st.rowPos, st.colPos = "only", "only"
			} else {
				ci := 0
				for j, c := range w.cols {
					if c == col {
						ci = j
					}
				}
				nrows := 1 + rng.Intn(3)
				ri := rng.Intn(nrows)
				st = w.build(rng, w.cols, "first", nrows, map[[2]int]cell{{ri, ci}: pc}, w.safeFill(rng, k%3, ordinary))
				w.asStar(st)
				st.rowPos, st.colPos = "star", "star"
			}
			st.binary, st.deprecateEOF, st.reader = i%4 >= 2, (i+k)%2 == 0, k%3
			plan = append(plan, st)
		}
		// ---- every selected column is unconfigured: columns of the configured table, and a table the configuration does not know
		plain := w.cols[:3]
		for i := 0; i < 16; i++ {
			k++
			bin, dep, unknown := i%2 == 1, (i/2)%2 == 1, i >= 12
			order := rng.Perm(3)
			ncols := 1 + (i+k)%3
			var cols []*colClass
			for _, oi := range order[:ncols] {
				cols = append(cols, plain[oi])
			}
			rec := m.recs[(k*7+i)%len(m.recs)]
			if len(rec.data) > 60000 && i%4 != 0 {
				rec = m.smallRecord(rng)
			}
			placement := placements[(k+i)%len(placements)]
			if len(rec.data) > 60000 && (placement == "two-records" || strings.HasSuffix(placement, "client-envelope")) {
				placement = "alone"
			}
			pc := m.poisonCell(rng, rec, placement)
			nrows := 1 + (i/4+k)%3
			ri, ci := (i+k)%nrows, (i/2+k)%ncols
			reader := k % 3
			st := w.build(rng, cols, []string{"first", "none", "last"}[(i+k)%3], nrows, map[[2]int]cell{{ri, ci}: pc}, w.safeFill(rng, reader, ordinary))
			st.binary, st.deprecateEOF, st.reader = bin, dep, reader
			st.allPlain = "same-table"
			if unknown {
				st.table, st.allPlain = "other_tab", "unknown-table"
			}
			st.rowPos, st.colPos = "any", "any"
			st.param, st.closeStmt = bin && i%3 == 0, i%5 != 0
			plan = append(plan, st)
		}
		// ---- every row, the poison row included, starts with a field whose first byte on the wire is also the first byte of a
		// protocol packet or a length-prefix marker: empty string (0x00 = OK header), NULL (0xfb), 2-byte length (0xfc), 3-byte length (0xfd)
		for li, lead := range []string{"empty", "null", "len-251..65535", "len-ge65536"} {
			for j := 0; j < 4; j++ {
				k++
				bin, dep := j%2 == 1, j/2 == 1
				first := w.cols[(k+li)%6] // unconfigured or plainly encrypted column
				col := w.cols[(k*5+li)%len(w.cols)]
				if col == first {
					col = w.cols[(k*5+li+1)%len(w.cols)]
				}
				third := w.cols[(k*7+3)%len(w.cols)]
				for third == first || third == col {
					third = w.cols[rng.Intn(len(w.cols))]
				}
				rec := m.smallRecord(rng)
				pc := m.poisonCell(rng, rec, placements[(k+j)%len(placements)])
				reader := k % 3
				base := w.safeFill(rng, reader, ordinary)
				fill := func(ri, ci int, c *colClass) cell {
					if ci != 0 {
						return base(ri, ci, c)
					}
					switch lead {
					case "empty":
						return cell{class: "empty", data: []byte{}}
					case "null":
						return cell{class: "null", null: true}
					case "len-251..65535":
						return cell{class: "random", data: gen.Bytes(rng, 251+rng.Intn(400))}
					}
					return cell{class: "random", data: gen.Bytes(rng, 65536+rng.Intn(100))}
				}
				pci := 1 + (k+j)%2
				st := w.build(rng, []*colClass{first, []*colClass{col, third}[pci-1], []*colClass{third, col}[pci-1]}, "none", 3, map[[2]int]cell{{2, pci}: pc}, fill)
				st.binary, st.deprecateEOF, st.reader, st.lead = bin, dep, reader, lead
				st.rowPos, st.colPos = "last", []string{"middle", "last"}[pci-1]
				st.closeStmt = true
				plan = append(plan, st)
			}
		}
		// ---- several poison values in one result set
		layouts := []string{"same-row", "same-column", "diagonal", "first-and-last-cell", "next-to-null", "next-to-empty", "every-row", "same-row-adjacent"}
		for i := 0; i < 16; i++ {
			k++
			layout := layouts[i%len(layouts)]
			nrows, ncols := 3+rng.Intn(2), 3+rng.Intn(2)
			cols := pickCols(ncols+1, nil)
			at := map[[2]int]cell{}
			put := func(ri, ci int, nextTo string) {
				rec := m.smallRecord(rng)
				pc := m.poisonCell(rng, rec, placements[rng.Intn(len(placements))])
				pc.nextTo = nextTo
				at[[2]int{ri, ci}] = pc
			}
			nulls := map[[2]int]string{}
			switch layout {
			case "same-row":
				ri := rng.Intn(nrows)
				put(ri, 0, "")
				put(ri, ncols-1, "")
			case "same-row-adjacent":
				ri := rng.Intn(nrows)
				put(ri, 1, "")
				put(ri, 2, "")
				if ncols > 3 {
					put(ri, 3, "")
				}
			case "same-column":
				ci := rng.Intn(ncols)
				put(0, ci, "")
				put(nrows-1, ci, "")
			case "diagonal":
				for d := 0; d < 3; d++ {
					put(d, d, "")
				}
			case "first-and-last-cell":
				put(0, 0, "")
				put(nrows-1, ncols-1, "")
			case "next-to-null", "next-to-empty":
				what := strings.TrimPrefix(layout, "next-to-")
				put(0, 1, what)
				nulls[[2]int{0, 0}], nulls[[2]int{0, 2}] = what, what
				put(nrows-1, 0, what)
				nulls[[2]int{nrows - 1, 1}] = what
			case "every-row":
				for ri := 0; ri < nrows; ri++ {
					put(ri, (ri*2+i)%ncols, "")
				}
			}
			reader := k % 3
			base := w.safeFill(rng, reader, ordinary)
			fill := func(ri, ci int, col *colClass) cell {
				if what, ok := nulls[[2]int{ri, ci}]; ok {
					if what == "null" {
						return cell{class: "null", null: true}
					}
					if !col.onFailError {
						return cell{class: "empty", data: []byte{}}
					}
					return cell{class: "null", null: true}
				}
				return base(ri, ci, col)
			}
			// a poison value in an error-policy column would withhold the whole result set: keep those columns out of the poison cells
			for pos := range at {
				if cols[pos[1]].onFailError {
					for _, c := range w.cols {
						if !c.onFailError && !contains(cols, c) {
							cols[pos[1]] = c
							break
						}
					}
				}
			}
			if layout == "next-to-empty" {
				// the neighbours must be able to hold the empty string
				for _, ci := range []int{0, 2, 1} {
					if cols[ci].onFailError {
						for _, c := range w.cols {
							if !c.onFailError && !contains(cols, c) {
								cols[ci] = c
								break
							}
						}
					}
				}
			}
			st := w.build(rng, cols[:ncols], []string{"none", "first", "last"}[i%3], nrows, at, fill)
			st.binary, st.deprecateEOF, st.reader, st.layout = i%2 == 1, (i/2)%2 == 1, reader, layout
			st.param = st.binary && i%4 == 1
			st.closeStmt = true
			plan = append(plan, st)
		}
		// ---- legacy form (inner envelope under a poison key without the container): counted, not judged
		for i := 0; i < 2; i++ {
			k++
			rec := m.smallRecord(rng)
			pc := m.poisonCell(rng, rec, "legacy-raw")
			col := w.cols[(k*5)%len(w.cols)]
			st := w.build(rng, []*colClass{w.cols[0], col}, "first", 2, map[[2]int]cell{{1, 1}: pc}, w.safeFill(rng, k%3, []string{"random"}))
			st.binary, st.deprecateEOF, st.reader = i == 1, k%2 == 0, k%3
			st.closeStmt = true
			plan = append(plan, st)
		}
	}
	// ---- ordinary data only: one class per result set, then mixtures
	nClean := len(cleanClasses) * 2
	if w.clean {
		nClean = len(cleanClasses) * 6
	}
	for i := 0; i < nClean+8; i++ {
		k++
		class := "mixed"
		classes := cleanClasses
		if i < nClean {
			class = cleanClasses[i%len(cleanClasses)]
			classes = []string{class}
		}
		nrows, ncols := 1+rng.Intn(4), 1+rng.Intn(5)
		cols := pickCols(ncols+1, nil)[:ncols]
		reader := (k + i/len(cleanClasses)) % 3
		base := w.safeFill(rng, reader, classes)
		st := w.build(rng, cols, []string{"none", "first", "last"}[k%3], nrows, nil, base)
		st.cleanClass = class
		st.binary, st.deprecateEOF, st.reader = (i/len(cleanClasses)+i)%2 == 1, (k/2)%2 == 1, reader
		st.param, st.closeStmt = st.binary && k%3 == 0, k%4 != 0
		plan = append(plan, st)
	}
	// interleave: poison and clean statements alternate over the same connections (the order is part of the seeded plan)
	rng.Shuffle(len(plan), func(i, j int) { plan[i], plan[j] = plan[j], plan[i] })
	for _, st := range plan {
		st.finish()
	}
	return plan
}

func contains(l []*colClass, c *colClass) bool {
	for _, x := range l {
		if x == c {
			return true
		}
	}
	return false
}
