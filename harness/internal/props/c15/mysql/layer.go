// Package mysql is the MySQL wire layer of the C15 monitor ("poison records always raise the alarm - every configured callback
// runs before the value is delivered -, ordinary data never does"): the sibling of proxylayers.Poison (PostgreSQL) over the
// MySQL proxy rig.
//
// Real MySQL-mode AcraServers (Acra's own proxy factory, poison-record detection enabled, two recording callbacks in
// poison.CallbackStorage) stand between scripted MySQL clients and the harness's fake MySQL server. The DATABASE places the
// values: every result set is a canned reply, so poison records (both envelope kinds, made by poison.Create* under the current
// or a rotated poison key, data lengths from 1 byte to more than 64 KiB) appear in any column (unconfigured blob / text /
// varbinary, encrypted, searchable, masked, tokenized, type-aware with each response_on_fail policy, column of another client
// id), in any row and column position, several per result set, next to NULLs and empty strings, in COM_QUERY text rows and
// COM_STMT_EXECUTE binary rows, with CLIENT_DEPRECATE_EOF on and off, read by the owner, by a client with other keys and by
// one without keys.
//
// Ordering is observed from outside: each recording callback, at the instant it runs (on Acra's goroutine), asks how many bytes
// of the reply have reached the client (read by it + waiting in its socket, a lower bound); after the reply is complete the
// offsets of the row packets in the client's received stream are known, so "the callback ran when no byte of that row had
// reached the client" is a comparison of two numbers. Bytes found there are positive evidence; their absence raises nothing.
package mysql

import (
	"fmt"
	"os"
	"sort"
	"strings"
	"sync"
	"time"

	"github.com/cossacklabs/acra/keystore"
	"github.com/cossacklabs/acra/poison"

	"verif/harness/internal/ev"
	"verif/harness/internal/gen"
	"verif/harness/internal/props/c04"
	"verif/harness/internal/rig/fakemysql"
	"verif/harness/internal/rig/ksrig"
	"verif/harness/internal/rig/proxyrig"
)

var readers = []struct{ name, id string }{{"owner", c04.Owner}, {"other-keys", c04.Other}, {"no-keys", c04.NoKeys}}

// cbEvent is one run of one recording callback.
type cbEvent struct {
	CB     int  `json:"callback"`                // index of the callback in the storage (0 = first registered)
	Lower  int  `json:"reply_bytes_at_client"`   // bytes of the current statement's reply that had reached the client, lower bound
	Upper  int  `json:"reply_bytes_upper_bound"` // same, upper bound (evidence only)
	Socket bool `json:"socket_queue_read"`       // the socket could be asked for its unread bytes
}

// window attributes callback runs to the statement in flight. Statements of one world run one at a time.
type window struct {
	mu      sync.Mutex
	active  bool
	client  *proxyrig.MyRaw
	mark    int
	events  []cbEvent
	orphans [2]int // callback runs while no statement was in flight
}

func (w *window) open(c *proxyrig.MyRaw) {
	w.mu.Lock()
	w.active, w.client, w.mark, w.events = true, c, c.InLen(), nil
	w.mu.Unlock()
}

func (w *window) close() []cbEvent {
	w.mu.Lock()
	defer w.mu.Unlock()
	w.active = false
	ev := w.events
	w.events = nil
	return ev
}

func (w *window) takeOrphans() [2]int {
	w.mu.Lock()
	defer w.mu.Unlock()
	o := w.orphans
	w.orphans = [2]int{}
	return o
}

// recorder is a poison callback (base.Callback).
type recorder struct {
	w   *window
	idx int
}

func (c recorder) Call() error {
	c.w.mu.Lock()
	defer c.w.mu.Unlock()
	if !c.w.active {
		c.w.orphans[c.idx]++
		return nil
	}
	lo, up, ok := c.w.client.ReceivedBounds()
	c.w.events = append(c.w.events, cbEvent{CB: c.idx, Lower: lo - c.w.mark, Upper: up - c.w.mark, Socket: ok})
	return nil
}

// world is one keystore with its poison-key history, one encryptor configuration, the fake database and one AcraServer per reader.
type world struct {
	idx      int
	class    string // mixed | default-only
	clean    bool   // only ordinary data flows through this world
	pw       *proxyrig.MyWorld
	dir      string
	cols     []*colClass
	byName   map[string]*colClass
	mat      *material
	win      *window
	conns    map[string]*proxyrig.MyRaw
	stmtSeq  int
	rot      int
	lost     int
	callsAll int // callback runs seen in this world (windows + orphans)
}

func (w *world) close() {
	for _, c := range w.conns {
		c.Close()
	}
	w.pw.Close()
	os.RemoveAll(w.dir)
}

// conn returns the reader's connection with the wanted end-of-rows convention, dialling it when needed.
func (w *world) conn(reader int, deprecateEOF bool) (*proxyrig.MyRaw, error) {
	key := fmt.Sprintf("%d/%v", reader, deprecateEOF)
	if c := w.conns[key]; c != nil {
		return c, nil
	}
	extra := uint32(0)
	if deprecateEOF {
		extra = fakemysql.CapDeprecateEOF
	}
	c, err := proxyrig.DialMyRaw(w.pw.Acras[readers[reader].id].Port, extra)
	if err != nil {
		return nil, err
	}
	c.SetNegotiated((proxyrig.MyRawBaseCaps | extra) & w.pw.Store.Caps)
	w.conns[key] = c
	return c, nil
}

func (w *world) drop(reader int, deprecateEOF bool) {
	key := fmt.Sprintf("%d/%v", reader, deprecateEOF)
	if c := w.conns[key]; c != nil {
		c.Abort()
		delete(w.conns, key)
	}
}

func openWorld(r *ev.Run, rng *gen.Rand, idx int, class string, clean bool, foreign []*record) *world {
	dir := ksrig.ScratchDir("c15my")
	ks, err := ksrig.V1(dir, ksrig.RandBytes(32), keystore.InfiniteCacheSize)
	if err != nil {
		panic(err)
	}
	for _, id := range []string{c04.Owner, c04.Other} {
		if err := ksrig.GenClient(ks, []byte(id)); err != nil {
			panic(err)
		}
	}
	w := &world{idx: idx, class: class, clean: clean, dir: dir, win: &window{}, conns: map[string]*proxyrig.MyRaw{}, byName: map[string]*colClass{}, rot: idx % 3}
	w.cols = catalogue(rng, class)
	for _, c := range w.cols {
		w.byName[c.spec.Name] = c
	}
	w.mat = newMaterial(rng, ks, w.rot, idx, foreign)
	ks.Reset()
	callbacks := poison.NewCallbackStorage()
	callbacks.AddCallback(recorder{w.win, 0})
	callbacks.AddCallback(recorder{w.win, 1})
	pw, err := proxyrig.NewMyWorld(proxyrig.WorldOpts{Tables: []proxyrig.TableSpec{tableOf(w.cols)}, KS: ks, Clients: []string{c04.Owner, c04.Other, c04.NoKeys}, Poison: callbacks})
	if err != nil {
		os.RemoveAll(dir)
		r.Violation("mysql poison layer: rig: world could not be built (generated configuration rejected)", map[string]interface{}{"err": err.Error(), "class": class})
		return nil
	}
	w.pw = pw
	return w
}

// Layer runs the MySQL part of C15.
func Layer(r *ev.Run) {
	proxyrig.SetDialect(true)
	defer proxyrig.SetDialect(false)
	t0 := time.Now()
	defer func() { r.Extra("mysql_poison_layer_wall_s", time.Since(t0).Seconds()) }()
	r.Rule += " || MySQL wire layer (counters mysql_*): worlds = (v1 keystore with 0-2 rotations of both poison keys × encryptor configuration class mixed | default-only) behind MySQL-mode AcraServers with two recording poison callbacks; per world an enumerated list of scripted result sets: poison value at (first|middle|last row) × (first|middle|last column) × (COM_QUERY text rows | COM_STMT_EXECUTE binary rows) × (CLIENT_DEPRECATE_EOF on|off), reader, column class (unconfigured blob/text/varbinary, encrypted, searchable, masked, tokenized, type-aware str/bytes/int32/int64 with response_on_fail unset/ciphertext/default_value/error, other client's column), envelope kind, key age, record data length (1 .. >64 KiB, field lengths on both sides of the length-encoding boundaries 251 and 65536) and placement (alone, among random bytes, text, partial tags, two records, next to a client envelope, padded to a boundary) rotating; result sets with 2-4 poison values (same row, same column, next to NULL / empty string); result sets and whole worlds of ordinary data only (random bytes, text, look-alike headers, poison headers with a garbage body, truncated / bit-flipped poison records, poison records of another keystore, envelopes of both clients in raw / container / searchable form). A poison case is non-trivial when both callbacks ran, as often as poison values were delivered, each while no byte of the value's row had reached the client; distinct = (configuration class, column class, kind, field-length class, placement, row and column position, protocol, EOF convention, reader)"
	r.Assumptions = append(r.Assumptions,
		"MySQL wire layer: database replaced by the harness's fake MySQL server answering with canned result sets (the values are what storage returns); clients are the harness's scripted MySQL client; the reader identities are separate AcraServer instances on the same configuration, keystore and callback storage",
		"MySQL wire layer: 'delivered' = the row packet holding the value reached the client's socket; a statement answered with an ERR packet (response_on_fail: error) or a dropped connection delivers nothing and demands nothing",
	)
	rng := gen.New(r.Seed, "c15-mysql")
	foreign := foreignRecords()
	n := r.Pick(12, 150)
	for s := 0; s < n; s++ {
		class := "mixed"
		if s%4 == 3 {
			class = "default-only"
		}
		clean := s%6 == 4
		if clean && (s/6)%2 == 1 {
			class = "default-only"
		}
		wrng := gen.New(r.Seed, fmt.Sprintf("c15my-%d-%d", s, rng.Int63()))
		w := openWorld(r, wrng, s, class, clean, foreign)
		if w == nil {
			continue
		}
		runWorld(r, wrng, w)
		w.close()
	}
	guards(r)
}

// runWorld drives the statement list of one world.
func runWorld(r *ev.Run, rng *gen.Rand, w *world) {
	plan := planWorld(r, rng, w)
	for i, st := range plan {
		if !runStatement(r, w, st, i) {
			break
		}
	}
	if o := w.win.takeOrphans(); o[0]+o[1] > 0 {
		w.callsAll += o[0] + o[1]
		r.Violation("mysql wire: poison callback ran while no statement was in flight (asynchronous or late callback): at=end-of-world", map[string]interface{}{"world": w.idx, "runs": o})
	}
	if w.clean {
		if w.callsAll == 0 {
			r.Count("mysql_clean_worlds_silent", 1)
		}
	}
}

// reply is what the client saw of one statement.
type reply struct {
	err       error
	errPacket bool
	rows      int   // row packets received
	rowStart  []int // offset of each row packet in the reply's byte stream
	total     int
	frames    int
}

func parseReply(frames []fakemysql.Frame, deprecateEOF bool) reply {
	var rp reply
	rp.frames = len(frames)
	if len(frames) == 0 {
		return rp
	}
	if p := frames[0].Payload; len(p) == 0 || p[0] == 0xff || p[0] == 0x00 {
		rp.errPacket = len(p) > 0 && p[0] == 0xff
		return rp
	}
	n, _, _, err := fakemysql.LenEncInt(frames[0].Payload)
	if err != nil {
		return rp
	}
	head := 1 + int(n)
	if !deprecateEOF {
		head++
	}
	off := 0
	for i, f := range frames {
		if i >= head && i < len(frames)-1 {
			rp.rowStart = append(rp.rowStart, off)
			rp.rows++
		}
		off += 4*f.Packets + len(f.Payload)
	}
	rp.total = off
	if len(frames) > head {
		if p := frames[len(frames)-1].Payload; len(p) > 0 && p[0] == 0xff {
			rp.errPacket = true
		}
	}
	return rp
}

func runStatement(r *ev.Run, w *world, st *stmt, idx int) bool {
	r.Case()
	c, err := w.conn(st.reader, st.deprecateEOF)
	if err != nil {
		r.Inconclusive("mysql poison layer: cannot connect as " + readers[st.reader].name)
		return false
	}
	w.pw.Store.SetScript(st.sql, st.script())
	var frames []fakemysql.Frame
	var cmdErr error
	stage := "query"
	if st.binary {
		stage = "prepare"
		var fr []fakemysql.Frame
		fr, cmdErr = c.Command(append([]byte{fakemysql.ComStmtPrepare}, st.sql...), "prepare")
		if cmdErr == nil {
			pok, perr := fakemysql.DecodePrepareOK(fr[0].Payload)
			if perr != nil {
				cmdErr = fmt.Errorf("prepare was not answered with prepare-OK: %x", clip(fr[0].Payload, 64))
			} else {
				stage = "execute"
				var params []fakemysql.BoundParam
				if st.param {
					params = []fakemysql.BoundParam{{Type: fakemysql.TypeLong, Data: []byte{byte(st.seq), byte(st.seq >> 8), 0, 0}}}
				}
				w.win.open(c)
				frames, cmdErr = c.Command(fakemysql.EncodeExecute(pok.StmtID, params), "execute")
				if cmdErr == nil && st.closeStmt {
					c.Command([]byte{fakemysql.ComStmtClose, byte(pok.StmtID), byte(pok.StmtID >> 8), byte(pok.StmtID >> 16), byte(pok.StmtID >> 24)}, "none")
				}
			}
		}
	} else {
		w.win.open(c)
		frames, cmdErr = c.Command(append([]byte{fakemysql.ComQuery}, st.sql...), "query")
	}
	events := w.win.close()
	orph := w.win.takeOrphans()
	rp := parseReply(frames, st.deprecateEOF)
	rp.err = cmdErr
	if cmdErr != nil {
		w.lost++
		w.drop(st.reader, st.deprecateEOF)
		r.Count("mysql_statements_connection_lost", 1)
		tally(&lostClasses, fmt.Sprintf("stage=%s protocol=%s reader=%s columns=%s", stage, st.proto(), readers[st.reader].name, strings.Join(st.colClasses(), ",")))
		if cmdErr == proxyrig.ErrTimeout {
			r.Inconclusive("mysql poison layer: no reply within the watchdog: stage=" + stage + " " + st.brief())
			return false
		}
	}
	w.callsAll += len(events) + orph[0] + orph[1]
	judge(r, w, st, rp, events, orph, stage)
	return w.lost < 12
}

// judge applies the oracles to one statement.
func judge(r *ev.Run, w *world, st *stmt, rp reply, events []cbEvent, orph [2]int, stage string) {
	detail := func(extra map[string]interface{}) map[string]interface{} {
		m := map[string]interface{}{"world": w.idx, "seed_stream": fmt.Sprintf("c15my-%d", w.idx), "statement": st.seq, "sql": st.sql, "config_class": w.class, "poison_key_rotations": w.rot,
			"protocol": st.proto(), "deprecate_eof": st.deprecateEOF, "reader": readers[st.reader].name, "columns": st.colNames(), "rows": st.describeRows(),
			"reply_rows": rp.rows, "reply_err_packet": rp.errPacket, "reply_error": fmt.Sprint(rp.err), "reply_bytes": rp.total, "row_offsets": rp.rowStart, "callback_runs": events, "schema": w.pw.Schema}
		for k, v := range extra {
			m[k] = v
		}
		return m
	}
	if orph[0]+orph[1] > 0 {
		r.Violation(fmt.Sprintf("mysql wire: poison callback ran while no statement was in flight (asynchronous or late callback): at=%s protocol=%s", stage, st.proto()), detail(map[string]interface{}{"runs_outside": orph}))
	}
	var per [2][]cbEvent
	for _, e := range events {
		per[e.CB] = append(per[e.CB], e)
	}
	nPoison, nUnjudged := st.counts()
	// ---- ordinary data only
	if nPoison == 0 {
		if nUnjudged > 0 {
			// legacy form (inner envelope under a poison key without its container): not what poison.Create* make; counted only
			r.Count("mysql_result_sets_not_judged", 1)
			if rp.rows == len(st.rows) {
				if len(per[0]) > 0 {
					r.Count("mysql_legacy_raw_envelope_under_poison_key_delivered:alarmed", 1)
				} else {
					r.Count("mysql_legacy_raw_envelope_under_poison_key_delivered:silent", 1)
				}
			}
			return
		}
		if len(events) > 0 {
			r.Violation(fmt.Sprintf("mysql wire: alarm raised for a result set without a poison record: data=%s protocol=%s eof=%s reader=%s config=%s", st.cleanClass, st.proto(), st.eofName(), readers[st.reader].name, w.class),
				detail(nil))
			return
		}
		if rp.err != nil {
			return
		}
		r.Count("mysql_clean_result_sets_silent", 1)
		r.Count("mysql_clean_result_sets_silent:"+st.proto(), 1)
		r.Count("mysql_clean_result_sets_silent:data="+groupOfClean(st.cleanClass), 1)
		r.Count("mysql_clean_result_sets_silent:reader="+readers[st.reader].name, 1)
		if rp.rows == len(st.rows) {
			r.Count("mysql_clean_result_sets_silent_and_delivered", 1)
		}
		if w.clean {
			r.Count("mysql_clean_result_sets_silent:in-clean-world", 1)
		}
		r.Distinct(fmt.Sprintf("mysql-clean|%s|%s|%s|%s|%s", w.class, st.cleanClass, st.proto(), st.eofName(), readers[st.reader].name))
		r.SampleN("mysql-clean:"+groupOfClean(st.cleanClass), 1, map[string]interface{}{"statement": st.brief(), "rows": st.describeRows(), "reply_rows": rp.rows, "callback_runs": 0})
		return
	}
	// ---- result set with poison values: what was delivered?
	type need struct {
		row, cum int
		cells    []*cell
	}
	var needs []need
	cum := 0
	for ri, row := range st.rows {
		if ri >= rp.rows {
			break
		}
		var cs []*cell
		for ci := range row {
			if row[ci].poison {
				cs = append(cs, &row[ci])
			}
		}
		if len(cs) > 0 {
			cum += len(cs)
			needs = append(needs, need{ri, cum, cs})
		}
	}
	first := st.firstPoison()
	sigTail := fmt.Sprintf("protocol=%s eof=%s column=%s described-as=%s kind=%s field-length=%s placement=%s row=%s col=%s reader=%s config=%s", st.proto(), st.eofName(), first.col.class, first.wire.name, first.rec.kind, lenClass(len(first.data)), first.placement,
		st.rowPos, st.colPos, readers[st.reader].name, w.class)
	if st.lead != "" {
		sigTail += " rows-start-with=" + st.lead
	}
	if st.allPlain != "" {
		sigTail += " all-selected-columns-unconfigured=" + st.allPlain
	}
	if nPoison > 1 {
		sigTail = fmt.Sprintf("protocol=%s eof=%s poison-values=%d layout=%s reader=%s config=%s", st.proto(), st.eofName(), nPoison, st.layout, readers[st.reader].name, w.class)
	}
	if len(needs) == 0 {
		// nothing that holds a poison record reached the client
		r.Count("mysql_poison_result_sets_withheld", 1)
		why := "connection-closed"
		if rp.errPacket {
			why = "error-packet"
		}
		r.Count("mysql_poison_result_sets_withheld:"+why, 1)
		if len(per[0]) > 0 {
			r.Count("mysql_poison_result_sets_withheld_but_alarmed", 1)
		}
		tally(&withheldClasses, fmt.Sprintf("%s poison-in=%s reader=%s protocol=%s alarmed=%v", why, st.poisonColumnClasses(), readers[st.reader].name, st.proto(), len(per[0]) > 0))
		return
	}
	total := needs[len(needs)-1].cum
	bad := false
	for cb := 0; cb < 2; cb++ {
		evs := per[cb]
		name := []string{"first", "second"}[cb]
		if len(evs) == 0 {
			bad = true
			if cb == 1 && len(per[0]) > 0 {
				r.Violation("mysql wire: not every configured callback ran for a poison record: "+sigTail, detail(map[string]interface{}{"callback": name, "poison_values_delivered": total}))
			} else if cb == 0 {
				r.Violation("mysql wire: poison record delivered without the callbacks having run: "+sigTail, detail(map[string]interface{}{"poison_values_delivered": total}))
			}
			continue
		}
		if len(evs) < total {
			bad = true
			r.Violation("mysql wire: fewer alarms than poison values delivered: "+sigTail, detail(map[string]interface{}{"callback": name, "poison_values_delivered": total, "runs": len(evs)}))
			continue
		}
		lows := make([]int, len(evs))
		for i, e := range evs {
			lows[i] = e.Lower
		}
		sort.Ints(lows)
		for _, nd := range needs {
			start := rp.rowStart[nd.row]
			have := sort.SearchInts(lows, start+1) // runs at which at most `start` bytes had reached the client: no byte of this row
			if have < nd.cum {
				bad = true
				r.Violation("mysql wire: alarm raised after the row holding the poison record had reached the client: "+sigTail, detail(map[string]interface{}{"callback": name, "row": nd.row, "row_starts_at": start, "runs_before_the_row": have, "needed": nd.cum}))
				break
			}
		}
	}
	if bad {
		return
	}
	// held: counters per class
	for _, nd := range needs {
		for _, c := range nd.cells {
			r.Count("mysql_poison_values_alarmed_before_delivery", 1)
			for _, k := range []string{"protocol=" + st.proto(), "eof=" + st.eofName(), "reader=" + readers[st.reader].name, "kind=" + c.rec.kind, "key=" + c.rec.age, "field-length=" + lenClass(len(c.data)),
				"column=" + c.col.group, "placement=" + c.placement, "config=" + w.class, "wire-type=" + c.wire.name} {
				r.Count("mysql_poison_values_alarmed_before_delivery:"+k, 1)
			}
			switch n := len(c.data); n {
			case 250, 251, 252, 65535, 65536, 65537:
				r.Count(fmt.Sprintf("mysql_poison_values_alarmed_before_delivery:field-length-exactly=%d", n), 1)
				r.Count(fmt.Sprintf("mysql_poison_values_alarmed_before_delivery:field-length-exactly=%d:%s", n, st.proto()), 1)
			}
			r.SetAdd("mysql_poison_column_classes_alarmed", c.col.class)
			r.SetAdd("mysql_poison_field_lengths_alarmed", fmt.Sprint(len(c.data)))
			if c.nextTo != "" {
				r.Count("mysql_poison_values_alarmed_before_delivery:next-to="+c.nextTo, 1)
			}
		}
	}
	if st.lead != "" {
		r.Count("mysql_poison_values_alarmed_before_delivery:rows-start-with="+st.lead, 1)
		r.Count("mysql_poison_values_alarmed_before_delivery:rows-start-with="+st.lead+":"+st.proto()+":"+st.eofName(), 1)
	}
	if st.allPlain != "" {
		r.Count("mysql_poison_values_alarmed_before_delivery:all-selected-columns-unconfigured="+st.allPlain, 1)
		r.Count("mysql_poison_values_alarmed_before_delivery:all-selected-columns-unconfigured:"+st.proto()+":"+w.class, 1)
	}
	if nPoison == 1 {
		r.Count("mysql_poison_values_alarmed_before_delivery:row="+st.rowPos, 1)
		r.Count("mysql_poison_values_alarmed_before_delivery:col="+st.colPos, 1)
		r.Distinct(fmt.Sprintf("mysql-poison|%s|%s%s|%s|%s|%s|%s|%s|%s|%s|%s|%s", w.class, st.lead, st.allPlain, first.col.class, first.rec.kind, lenClass(len(first.data)), first.placement, st.rowPos, st.colPos, st.proto(), st.eofName(), readers[st.reader].name))
	} else {
		r.Count("mysql_result_sets_with_several_poison_values_alarmed", 1)
		r.Count("mysql_result_sets_with_several_poison_values_alarmed:"+st.layout, 1)
		r.Distinct(fmt.Sprintf("mysql-poison-multi|%s|%s|%d|%s|%s|%s", w.class, st.layout, nPoison, st.proto(), st.eofName(), readers[st.reader].name))
	}
	if len(per[0]) > total {
		r.Count("mysql_result_sets_with_more_alarms_than_poison_values", 1)
	}
	allSock := true
	for _, e := range events {
		allSock = allSock && e.Socket
	}
	if allSock {
		r.Count("mysql_callback_runs_observed_with_socket_queue", int64(len(events)))
	}
	r.SampleN("mysql-poison:"+st.proto()+":"+st.eofName(), 2, map[string]interface{}{"statement": st.brief(), "rows": st.describeRows(), "reply_rows": rp.rows, "row_offsets": rp.rowStart, "callback_runs": events})
}

var lostClasses, withheldClasses map[string]int

func tally(m *map[string]int, k string) {
	if *m == nil {
		*m = map[string]int{}
	}
	(*m)[k]++
}

func guards(r *ev.Run) {
	r.Extra("mysql: statements during which Acra closed the connection (nothing delivered, nothing demanded)", lostClasses)
	r.Extra("mysql: result sets with poison values of which no row reached the client (nothing demanded)", withheldClasses)
	lostClasses, withheldClasses = nil, nil
	req := func(name string, min int64) { r.RequireAtLeast(name, min) }
	p := "mysql_poison_values_alarmed_before_delivery"
	req(p, 600)
	for k, min := range map[string]int64{
		"protocol=text": 200, "protocol=binary": 200, "eof=deprecated": 200, "eof=classic": 200, "kind=as": 200, "kind=ab": 200, "key=current": 200, "key=rotated": 150,
		"row=first": 60, "row=middle": 60, "row=last": 60, "col=first": 60, "col=middle": 60, "col=last": 60,
		"reader=owner": 150, "reader=other-keys": 150, "reader=no-keys": 150, "config=mixed": 300, "config=default-only": 150,
		"field-length=lt251": 80, "field-length=251..65535": 300, "field-length=ge65536": 60,
		"column=unconfigured": 150, "column=encrypted": 100, "column=type-aware": 100, "column=searchable": 30, "column=masked": 30, "column=tokenized": 30,
		"placement=alone": 100, "placement=random-around": 80, "placement=padded-to-boundary": 40, "placement=two-records": 30,
		"next-to=null": 20, "next-to=empty": 20,
		"all-selected-columns-unconfigured=same-table": 40, "all-selected-columns-unconfigured=unknown-table": 15,
	} {
		req(p+":"+k, min)
	}
	for _, k := range []string{"text:mixed", "binary:mixed", "text:default-only", "binary:default-only"} {
		req(p+":all-selected-columns-unconfigured:"+k, 8)
	}
	for _, k := range []string{"empty", "null", "len-251..65535", "len-ge65536"} {
		req(p+":rows-start-with="+k, 10)
		req(p+":rows-start-with="+k+":text:deprecated", 2)
		req(p+":rows-start-with="+k+":text:classic", 2)
	}
	for _, n := range []int{250, 251, 252, 65535, 65536, 65537} {
		req(fmt.Sprintf("%s:field-length-exactly=%d", p, n), 4)
		req(fmt.Sprintf("%s:field-length-exactly=%d:text", p, n), 1)
		req(fmt.Sprintf("%s:field-length-exactly=%d:binary", p, n), 1)
	}
	req("mysql_result_sets_with_several_poison_values_alarmed", 80)
	req("mysql_clean_result_sets_silent", 300)
	req("mysql_clean_result_sets_silent_and_delivered", 300)
	req("mysql_clean_result_sets_silent:text", 120)
	req("mysql_clean_result_sets_silent:binary", 120)
	for _, g := range []string{"random", "lookalike", "damaged-poison", "client-envelope", "foreign-poison", "mixed"} {
		req("mysql_clean_result_sets_silent:data="+g, 30)
	}
	req("mysql_clean_result_sets_silent:in-clean-world", 80)
	req("mysql_clean_worlds_silent", 2)
	req("mysql_callback_runs_observed_with_socket_queue", 1000)
	r.RequireSetAtLeast("mysql_poison_column_classes_alarmed", 25)
}

func clip(b []byte, n int) []byte {
	if len(b) > n {
		return b[:n]
	}
	return b
}

func lenClass(n int) string {
	switch {
	case n < 251:
		return "lt251"
	case n < 65536:
		return "251..65535"
	}
	return "ge65536"
}

func groupOfClean(class string) string {
	if i := strings.IndexByte(class, ':'); i >= 0 {
		return class[:i]
	}
	return class
}
