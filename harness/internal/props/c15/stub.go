// Package c15 will hold the monitor of property C15 (not built yet; nothing is registered).
package c15
