package c15

import (
	"crypto/sha256"
	"encoding/hex"
	"fmt"
	"runtime"
	"runtime/debug"
	"strconv"
	"strings"
	"sync"
	"sync/atomic"
	"time"
)

// One logical clock for callback and delivery events (never wall-clock).
var seqCounter int64

func nextSeq() int64 { return atomic.AddInt64(&seqCounter, 1) }

// goid returns the id of the calling goroutine (diagnostic: is the callback executed by the goroutine
// that runs the operation, i.e. can the operation return while the callback is blocked?).
func goid() int64 {
	var b [64]byte
	n := runtime.Stack(b[:], false)
	s := strings.TrimPrefix(string(b[:n]), "goroutine ")
	if i := strings.IndexByte(s, ' '); i > 0 {
		id, _ := strconv.ParseInt(s[:i], 10, 64)
		return id
	}
	return -1
}

// cbEvent is one invocation of the recording callback.
type cbEvent struct {
	Seq int64 `json:"seq"`
	Gid int64 `json:"goroutine"`
	rel chan struct{}
}

// obs is the observation window of one operation (one case).
type obs struct {
	mu        sync.Mutex
	closed    bool
	closedCh  chan struct{}
	events    []cbEvent
	secondary int // runs of the second registered callback
	arrived   chan *cbEvent
	delivered int64 // sequence number of the delivery event, 0 = not delivered yet
}

// recorder owns the callbacks registered in one poison.CallbackStorage (one per worker environment,
// at most one operation in flight per recorder, so a callback is attributed to the open window).
type recorder struct {
	cur     atomic.Pointer[obs]
	mu      sync.Mutex
	orphans []int64 // sequence numbers of callbacks that ran while no operation was open (late / asynchronous)
}

// primary is the first registered callback: it records (seq, goroutine) and blocks until the monitor has looked.
type primary struct{ rec *recorder }

func (p primary) Call() error {
	seq := nextSeq()
	o := p.rec.cur.Load()
	if o == nil {
		p.rec.orphan(seq)
		return nil
	}
	e := &cbEvent{Seq: seq, Gid: goid(), rel: make(chan struct{})}
	o.mu.Lock()
	if o.closed {
		o.mu.Unlock()
		p.rec.orphan(seq)
		return nil
	}
	o.events = append(o.events, *e)
	o.mu.Unlock()
	select {
	case o.arrived <- e:
		<-e.rel // released by the monitor after its non-blocking look at the delivery point
	case <-o.closedCh:
		// the operation was already delivered and the window closed while this callback was starting
		p.rec.orphan(seq)
	}
	return nil
}

// secondary is the second registered callback ("the callbacks run": every registered one).
type secondary struct{ rec *recorder }

func (s secondary) Call() error {
	o := s.rec.cur.Load()
	if o == nil {
		s.rec.orphan(nextSeq())
		return nil
	}
	o.mu.Lock()
	if o.closed {
		o.mu.Unlock()
		s.rec.orphan(nextSeq())
		return nil
	}
	o.secondary++
	o.mu.Unlock()
	return nil
}

func (r *recorder) orphan(seq int64) {
	r.mu.Lock()
	r.orphans = append(r.orphans, seq)
	r.mu.Unlock()
}

func (r *recorder) takeOrphans() []int64 {
	r.mu.Lock()
	defer r.mu.Unlock()
	o := r.orphans
	r.orphans = nil
	return o
}

// outcome is what the monitor saw of one operation.
type outcome struct {
	Events            []cbEvent
	Secondary         int
	DeliverySeq       int64
	OpGid             int64
	Out               []byte
	Err               error
	Panic             string
	LooksWhileBlocked int // number of non-blocking looks at the delivery point made while a callback was blocked
	// positive evidence of "delivered before the callbacks completed"
	DeliveredAtLook    bool // the delivery event was already there when the blocked callback was looked at
	DeliveredWhileHeld bool // callback ran on another goroutine and the operation returned while it was still held
	AsyncHeld          int  // callbacks on another goroutine that the operation did wait for (watchdog expired): not a violation
	Stuck              bool // the operation did not return within opWatchdog (resource ground: inconclusive, the run is aborted)
}

// opWatchdog is the generous outer watchdog of one operation (inputs are < 1 KiB, an operation takes < 1 ms).
const opWatchdog = 60 * time.Second

// holdWatchdog bounds how long a callback that runs on ANOTHER goroutine than the operation is kept blocked while
// waiting to see whether the operation returns without it. Expiry means "the operation waits for the callback" = held.
// It never fires on the unchanged tree (callbacks are synchronous there: same goroutine, no hold at all).
const holdWatchdog = 400 * time.Millisecond

// observe runs op with the recorder's window open and applies the ordering protocol.
func observe(rec *recorder, op func() ([]byte, error)) outcome {
	o := &obs{closedCh: make(chan struct{}), arrived: make(chan *cbEvent)}
	rec.cur.Store(o)
	var res outcome
	done := make(chan struct{})
	gidCh := make(chan int64, 1)
	go func() {
		defer close(done)
		defer func() {
			if p := recover(); p != nil {
				res.Panic = fmt.Sprintf("%v\n%s", p, debug.Stack())
			}
		}()
		gidCh <- goid()
		out, err := op()
		// the delivery event: the value (or error) is handed back to the caller
		atomic.StoreInt64(&o.delivered, nextSeq())
		res.Out, res.Err = out, err
	}()
	res.OpGid = <-gidCh
	finished := false
	stuck := time.NewTimer(opWatchdog)
	defer stuck.Stop()
	for !finished {
		select {
		case <-stuck.C:
			res.Stuck = true
			return res
		case e := <-o.arrived:
			res.LooksWhileBlocked++
			if atomic.LoadInt64(&o.delivered) != 0 {
				res.DeliveredAtLook = true
			} else if e.Gid != res.OpGid {
				select {
				case <-done:
					res.DeliveredWhileHeld = true
					finished = true
				case <-time.After(holdWatchdog):
					res.AsyncHeld++
				}
			}
			close(e.rel)
		case <-done:
			finished = true
		}
	}
	<-done
	o.mu.Lock()
	o.closed = true
	close(o.closedCh)
	res.Events = append([]cbEvent{}, o.events...)
	res.Secondary = o.secondary
	o.mu.Unlock()
	rec.cur.Store(nil)
	res.DeliverySeq = atomic.LoadInt64(&o.delivered)
	return res
}

func digest(b []byte) string {
	h := sha256.Sum256(b)
	return hex.EncodeToString(h[:8])
}
