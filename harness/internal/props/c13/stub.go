// Package c13 will hold the monitor of property C13 (not built yet; nothing is registered).
package c13
