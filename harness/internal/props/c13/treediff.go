package c13

import (
	"bytes"
	"fmt"
	"reflect"
	"strings"

	"github.com/cossacklabs/acra/sqlparser"
)

// leafDiff is a literal leaf (SQLVal) that differs between two trees.
type leafDiff struct {
	Path     string
	Old, New *sqlparser.SQLVal
}

// rewrite is a comparison rewritten by the searchable-encryption query rewriter.
type rewrite struct {
	Path     string
	Old, New *sqlparser.ComparisonExpr
}

// diffResult is the outcome of a structural comparison of two syntax trees.
type diffResult struct {
	Leaves   []leafDiff
	Rewrites []rewrite
	Other    []string // every other difference: path + what
}

func (d *diffResult) clean() bool {
	return len(d.Leaves) == 0 && len(d.Rewrites) == 0 && len(d.Other) == 0
}

var (
	sqlValPtrType = reflect.TypeOf(&sqlparser.SQLVal{})
	cmpPtrType    = reflect.TypeOf(&sqlparser.ComparisonExpr{})
)

type differ struct {
	res           *diffResult
	allowRewrites bool
	hashSize      string
	pg            bool // PostgreSQL mode: identifier quoting canonicalisation applies
}

var (
	colIdentType   = reflect.TypeOf(sqlparser.ColIdent{})
	tableIdentType = reflect.TypeOf(sqlparser.TableIdent{})
)

// sameIdent compares two identifiers (ColIdent / TableIdent). Canonicalisation (the only one applied to trees):
// in PostgreSQL mode an identifier without upper-case letters is the same identifier whether or not the spelling
// carried double quotes (the `quote` field records the spelling; the printer adds quotes around words of its
// keyword table, and PostgreSQL folds unquoted names to lower case, so "status" and status denote one object).
// The lazily filled `lowered` cache is derived data and ignored.
func (d *differ) sameIdent(a, b reflect.Value, path string) {
	name := "val"
	if a.Type() == tableIdentType {
		name = "v"
	}
	av, bv := a.FieldByName(name).String(), b.FieldByName(name).String()
	if av != bv {
		d.other(path+"/"+a.Type().Name()+"."+name, fmt.Sprintf("%q vs %q", av, bv))
		return
	}
	aq, bq := a.FieldByName("quote").Uint(), b.FieldByName("quote").Uint()
	if aq != bq {
		lower := av == strings.ToLower(av)
		if !(d.pg && lower && (aq == 0 || aq == '"') && (bq == 0 || bq == '"')) {
			d.other(path+"/"+a.Type().Name()+".quote", fmt.Sprintf("%d vs %d (name %q)", aq, bq, av))
		}
	}
	if f := a.FieldByName("unquote"); f.IsValid() && f.Bool() != b.FieldByName("unquote").Bool() {
		d.other(path+"/"+a.Type().Name()+".unquote", "differs")
	}
}

// diffTrees compares two syntax trees field by field (exported and unexported, like reflect.DeepEqual) and
// classifies differences: literal leaves, sanctioned search rewrites (only when allowRewrites), everything else.
func diffTrees(a, b interface{}, allowRewrites bool, hashSize int, pg bool) *diffResult {
	d := &differ{res: &diffResult{}, allowRewrites: allowRewrites, hashSize: fmt.Sprint(hashSize), pg: pg}
	d.walk(reflect.ValueOf(a), reflect.ValueOf(b), "")
	return d.res
}

func typeName(v reflect.Value) string {
	if !v.IsValid() {
		return "nil"
	}
	t := v.Type()
	for t.Kind() == reflect.Ptr {
		t = t.Elem()
	}
	return t.Name()
}

func (d *differ) other(path, what string) {
	if len(d.res.Other) < 20 {
		d.res.Other = append(d.res.Other, path+": "+what)
	}
}

func (d *differ) walk(a, b reflect.Value, path string) {
	if !a.IsValid() || !b.IsValid() {
		if a.IsValid() != b.IsValid() {
			d.other(path, "one side missing")
		}
		return
	}
	if a.Type() != b.Type() {
		d.other(path, fmt.Sprintf("type %s vs %s", a.Type(), b.Type()))
		return
	}
	switch a.Kind() {
	case reflect.Interface:
		if a.IsNil() || b.IsNil() {
			if a.IsNil() != b.IsNil() {
				d.other(path, fmt.Sprintf("nil-ness differs (%s vs %s)", dynName(a), dynName(b)))
			}
			return
		}
		ae, be := a.Elem(), b.Elem()
		if ae.Type() != be.Type() {
			d.other(path, fmt.Sprintf("node type %s vs %s", ae.Type(), be.Type()))
			return
		}
		d.walk(ae, be, path)
	case reflect.Ptr:
		if a.IsNil() || b.IsNil() {
			if a.IsNil() != b.IsNil() {
				d.other(path, "nil-ness differs")
			}
			return
		}
		if a.Type() == sqlValPtrType && a.CanInterface() && b.CanInterface() {
			av, bv := a.Interface().(*sqlparser.SQLVal), b.Interface().(*sqlparser.SQLVal)
			if !reflect.DeepEqual(av, bv) {
				d.res.Leaves = append(d.res.Leaves, leafDiff{Path: path, Old: av, New: bv})
			}
			return
		}
		if a.Type() == cmpPtrType && d.allowRewrites && a.CanInterface() && b.CanInterface() {
			ac, bc := a.Interface().(*sqlparser.ComparisonExpr), b.Interface().(*sqlparser.ComparisonExpr)
			if d.tryRewrite(ac, bc, path) {
				return
			}
		}
		d.walk(a.Elem(), b.Elem(), path)
	case reflect.Struct:
		t := a.Type()
		if t == colIdentType || t == tableIdentType {
			d.sameIdent(a, b, path)
			return
		}
		for i := 0; i < a.NumField(); i++ {
			f := t.Field(i)
			if f.Name == "_" {
				continue
			}
			label := t.Name() + "." + f.Name
			if t.Name() == "Order" && f.Name == "Direction" && orderOfNullOrRand(a) {
				// names the construct (ORDER BY NULL / ORDER BY rand()) in the signature
				label = "Order(null-or-rand).Direction"
			}
			d.walk(a.Field(i), b.Field(i), path+"/"+label)
		}
	case reflect.Slice:
		if a.Type().Elem().Kind() == reflect.Uint8 {
			if !bytes.Equal(a.Bytes(), b.Bytes()) {
				d.other(path, fmt.Sprintf("%q vs %q", a.Bytes(), b.Bytes()))
			}
			return
		}
		if a.Len() != b.Len() {
			d.other(path, fmt.Sprintf("length %d vs %d", a.Len(), b.Len()))
			return
		}
		if a.IsNil() != b.IsNil() && a.Len() == 0 {
			// nil vs empty list: reported, the parser distinguishes them (e.g. Columns nil = no column list)
			d.other(path, "nil list vs empty list")
			return
		}
		for i := 0; i < a.Len(); i++ {
			d.walk(a.Index(i), b.Index(i), path+"[]")
		}
	case reflect.String:
		if a.String() != b.String() {
			d.other(path, fmt.Sprintf("%q vs %q", a.String(), b.String()))
		}
	case reflect.Bool:
		if a.Bool() != b.Bool() {
			d.other(path, fmt.Sprintf("%v vs %v", a.Bool(), b.Bool()))
		}
	case reflect.Int, reflect.Int8, reflect.Int16, reflect.Int32, reflect.Int64:
		if a.Int() != b.Int() {
			d.other(path, fmt.Sprintf("%d vs %d", a.Int(), b.Int()))
		}
	case reflect.Uint, reflect.Uint8, reflect.Uint16, reflect.Uint32, reflect.Uint64:
		if a.Uint() != b.Uint() {
			d.other(path, fmt.Sprintf("%d vs %d", a.Uint(), b.Uint()))
		}
	case reflect.Array:
		for i := 0; i < a.Len(); i++ {
			d.walk(a.Index(i), b.Index(i), path+"[]")
		}
	case reflect.Map:
		if a.Len() != b.Len() {
			d.other(path, "map size differs")
		}
	default:
		d.other(path, "unhandled kind "+a.Kind().String())
	}
}

func dynName(v reflect.Value) string {
	if v.IsNil() {
		return "nil"
	}
	return v.Elem().Type().String()
}

// orderOfNullOrRand: the ORDER BY element sorts by NULL or by rand().
func orderOfNullOrRand(order reflect.Value) bool {
	e := order.FieldByName("Expr")
	if !e.IsValid() || e.Kind() != reflect.Interface || e.IsNil() || !e.CanInterface() {
		return false
	}
	switch x := e.Interface().(type) {
	case *sqlparser.NullVal:
		return true
	case *sqlparser.FuncExpr:
		return x.Name.Lowered() == "rand"
	}
	return false
}

// tryRewrite recognises the documented searchable-encryption rewriting of one comparison
// (hmac/decryptor/mysql.HashQuery.OnQuery):
//
//	col <op> value   =>  convert(substr(col, 1, N), binary) <op'> <hash literal>     (literal on the right)
//	col <op> value   =>  substr(col, 1, N) <op'> <placeholder>                        (placeholder on the right)
//	col <op> col2    =>  substr(col, 1, N) <op'> substr(col2, 1, N)
//
// with op' = "=" for = / like / ilike, "<=>" for <=> (it must stay NULL-safe: NOT (col <=> v) selects the rows holding NULL,
// NOT (col = v) does not - fixed in /repo by 6a1732b) and "!=" for != / not like / not ilike. Anything else about the node
// must be unchanged. Returns false (nothing recorded) when the two nodes are not in that relation.
func (d *differ) tryRewrite(a, b *sqlparser.ComparisonExpr, path string) bool {
	oldCol, ok := a.Left.(*sqlparser.ColName)
	if !ok {
		return false
	}
	var sub *sqlparser.SubstrExpr
	converted := false
	switch l := b.Left.(type) {
	case *sqlparser.SubstrExpr:
		sub = l
	case *sqlparser.ConvertExpr:
		s, ok := l.Expr.(*sqlparser.SubstrExpr)
		if !ok || l.Type == nil || l.Type.Type != "binary" || l.Type.Length != nil || l.Type.Scale != nil || l.Type.Charset != "" {
			return false
		}
		sub = s
		converted = true
	default:
		return false
	}
	isInt := func(e sqlparser.Expr, want string) bool {
		v, ok := e.(*sqlparser.SQLVal)
		return ok && v.Type == sqlparser.IntVal && string(v.Val) == want && len(v.CastType) == 0
	}
	if sub.Name == nil || !isInt(sub.From, "1") || !isInt(sub.To, d.hashSize) {
		return false
	}
	if !(&differ{res: &diffResult{}, pg: d.pg}).equal(oldCol, sub.Name) {
		return false
	}
	wantOp := a.Operator
	switch a.Operator {
	case sqlparser.EqualStr, sqlparser.LikeStr, sqlparser.ILikeStr:
		wantOp = sqlparser.EqualStr
	case sqlparser.NullSafeEqualStr:
		wantOp = sqlparser.NullSafeEqualStr
	case sqlparser.NotEqualStr, sqlparser.NotLikeStr, sqlparser.NotILikeStr:
		wantOp = sqlparser.NotEqualStr
	}
	if b.Operator != wantOp {
		return false
	}
	if !(&differ{res: &diffResult{}, pg: d.pg}).equal(a.Escape, b.Escape) {
		return false
	}
	switch r := a.Right.(type) {
	case *sqlparser.ColName:
		rs, ok := b.Right.(*sqlparser.SubstrExpr)
		if !ok || converted || rs.Name == nil || !isInt(rs.From, "1") || !isInt(rs.To, d.hashSize) || !(&differ{res: &diffResult{}, pg: d.pg}).equal(r, rs.Name) {
			return false
		}
	case *sqlparser.SQLVal:
		nr, ok := b.Right.(*sqlparser.SQLVal)
		if !ok {
			return false
		}
		isPlaceholder := r.Type == sqlparser.ValArg || r.Type == sqlparser.PgPlaceholder
		if isPlaceholder {
			if converted || !reflect.DeepEqual(r, nr) {
				return false
			}
		} else {
			if !converted {
				return false
			}
			if !reflect.DeepEqual(r, nr) {
				d.res.Leaves = append(d.res.Leaves, leafDiff{Path: path + ".Right", Old: r, New: nr})
			}
		}
	default:
		return false
	}
	d.res.Rewrites = append(d.res.Rewrites, rewrite{Path: path, Old: a, New: b})
	return true
}

// equal reports structural equality of two nodes.
func (d *differ) equal(a, b interface{}) bool {
	va, vb := reflect.ValueOf(a), reflect.ValueOf(b)
	if !va.IsValid() || !vb.IsValid() {
		return va.IsValid() == vb.IsValid()
	}
	// nil interfaces holding typed nil pointers
	d.walk(va, vb, "")
	return d.res.clean()
}

// shortPath reduces a difference path to the grammar position it names: the innermost "NodeType.Field".
func shortPath(p string) string {
	if i := strings.Index(p, ":"); i >= 0 {
		p = p[:i]
	}
	p = strings.ReplaceAll(p, "[]", "")
	if i := strings.LastIndex(p, "/"); i >= 0 {
		p = p[i+1:]
	}
	return p
}
