package c13

import (
	"errors"
	"fmt"
	"strings"

	"verif/harness/internal/rig/sqlgen"
)

// Reference comment scanner: the lexical rules of the DATABASES, written from their documentation, independent of
// Acra's tokenizer (sqlparser/token.go). Only what is needed to find comments is implemented: quoted regions (inside
// which comment starters are ordinary characters), comments, white space, everything else.
//
// MySQL (Reference Manual, "Comments"): "From a # character to the end of the line. From a -- sequence to the end of
// the line. In MySQL, the -- (double-dash) comment style requires the second dash to be followed by at least one
// whitespace or control character (such as a space, tab, newline, and so on). From a /* sequence to the following */
// sequence, as in the C programming language. [...] Nested comments are not supported". The end of the line is LF
// (sql_lex.cc: `while ((c = yyGet()) != '\n' && c)`), a carriage return is comment text. /*! ... */ and /*!NNNNN ... */
// are executed by the server: statements carrying them are not judged (errExecutedComment). /*+ ... */ optimizer
// hints never change the structure of a statement and are treated as comments.
// Strings: '..' and ".." with backslash escapes and doubled delimiters; `..` identifiers with doubled delimiter.
//
// PostgreSQL (Documentation, 4.1.5 "Comments"): "A comment is a sequence of characters beginning with double dashes
// and extending to the end of the line. [...] Alternatively, C-style block comments can be used [...] these block
// comments nest, as specified in the SQL standard but unlike C". scan.l: `comment ("--"{non_newline}*)`,
// `non_newline [^\n\r]` - the line ends at LF or CR. '#' starts no comment. Strings: '..' with doubled quotes only
// (standard_conforming_strings), E'..' with backslash escapes, ".." identifiers, $tag$..$tag$ dollar quoting.

type refSeg struct {
	kind       byte // 'w' white space, 'c' comment, 'q' quoted region, 'o' anything else
	start, end int
}

var (
	errExecutedComment = errors.New("MySQL version comment /*! ... */ is executed by the server: not judged")
	errUnterminated    = errors.New("unterminated comment or quoted region: the database rejects the text")
)

func refIsSpace(c byte) bool { return c == ' ' || c == '\t' || c == '\n' || c == '\r' }

func refIsIdent(c byte) bool {
	return c == '_' || c >= 'a' && c <= 'z' || c >= 'A' && c <= 'Z' || c >= '0' && c <= '9' || c >= 0x80 || c == '$'
}

// refScan cuts s into segments by the database's lexical rules.
func refScan(d sqlgen.Dialect, s string) ([]refSeg, error) {
	var out []refSeg
	add := func(kind byte, a, b int) {
		if n := len(out); n > 0 && kind != 'c' && kind != 'q' && out[n-1].kind == kind && out[n-1].end == a {
			out[n-1].end = b
			return
		}
		out = append(out, refSeg{kind, a, b})
	}
	mysql := d == sqlgen.MySQL
	n := len(s)
	for i := 0; i < n; {
		c := s[i]
		switch {
		case refIsSpace(c):
			add('w', i, i+1)
			i++
		case c == '#' && mysql:
			j := i
			for j < n && s[j] != '\n' {
				j++
			}
			add('c', i, j)
			i = j
		case c == '-' && i+1 < n && s[i+1] == '-':
			if mysql {
				if i+2 < n && !(s[i+2] <= 0x20 || s[i+2] == 0x7f) {
					// "--x": two minus signs, no comment
					add('o', i, i+2)
					i += 2
					continue
				}
				j := i
				for j < n && s[j] != '\n' {
					j++
				}
				add('c', i, j)
				i = j
				continue
			}
			j := i
			for j < n && s[j] != '\n' && s[j] != '\r' {
				j++
			}
			add('c', i, j)
			i = j
		case c == '/' && i+1 < n && s[i+1] == '*':
			if mysql {
				if i+2 < n && s[i+2] == '!' {
					return nil, errExecutedComment
				}
				k := strings.Index(s[i+2:], "*/")
				if k < 0 {
					return nil, errUnterminated
				}
				add('c', i, i+2+k+2)
				i += 2 + k + 2
				continue
			}
			depth, j := 1, i+2
			for depth > 0 {
				if j+1 >= n {
					return nil, errUnterminated
				}
				switch {
				case s[j] == '/' && s[j+1] == '*':
					depth++
					j += 2
				case s[j] == '*' && s[j+1] == '/':
					depth--
					j += 2
				default:
					j++
				}
			}
			add('c', i, j)
			i = j
		case c == '\'' || c == '"' || c == '`' && mysql:
			backslash := mysql && c != '`'
			if !mysql && c == '\'' && i > 0 && (s[i-1] == 'e' || s[i-1] == 'E') && (i < 2 || !refIsIdent(s[i-2])) {
				backslash = true // E'..'
			}
			j := i + 1
			for {
				if j >= n {
					return nil, errUnterminated
				}
				if s[j] == '\\' && backslash {
					j += 2
					continue
				}
				if s[j] == c {
					if j+1 < n && s[j+1] == c {
						j += 2
						continue
					}
					break
				}
				j++
			}
			add('q', i, j+1)
			i = j + 1
		case c == '$' && !mysql && (i == 0 || !refIsIdent(s[i-1])):
			// $tag$ ... $tag$ (a tag does not start with a digit: $1 is a parameter)
			j := i + 1
			if j < n && s[j] >= '0' && s[j] <= '9' {
				add('o', i, i+1)
				i++
				continue
			}
			for j < n && refIsIdent(s[j]) && s[j] != '$' {
				j++
			}
			if j < n && s[j] == '$' {
				tag := s[i : j+1]
				k := strings.Index(s[j+1:], tag)
				if k < 0 {
					return nil, errUnterminated
				}
				add('q', i, j+1+k+len(tag))
				i = j + 1 + k + len(tag)
				continue
			}
			add('o', i, i+1)
			i++
		default:
			add('o', i, i+1)
			i++
		}
	}
	return out, nil
}

// refStrip returns s as the database reads it: every comment replaced by one blank (both systems treat a comment as
// white space), and the number of comments removed.
func refStrip(d sqlgen.Dialect, s string) (string, int, error) {
	segs, err := refScan(d, s)
	if err != nil {
		return "", 0, err
	}
	var b strings.Builder
	n := 0
	for _, sg := range segs {
		if sg.kind == 'c' {
			b.WriteByte(' ')
			n++
			continue
		}
		b.WriteString(s[sg.start:sg.end])
	}
	return b.String(), n, nil
}

func (sg refSeg) String() string { return fmt.Sprintf("%c[%d:%d]", sg.kind, sg.start, sg.end) }
