package c13

import (
	"context"
	"crypto/sha256"
	"errors"
	"fmt"
	"net"
	"sync"

	"github.com/cossacklabs/themis/gothemis/keys"

	decryptor "github.com/cossacklabs/acra/decryptor/base"
	"github.com/cossacklabs/acra/encryptor/base/config"

	"verif/harness/internal/rig/sqlgen"
)

// schemaTables is the name pool shared by the statement generator and the column configuration, so that
// generated statements reach encrypted / searchable columns.
var schemaTables = &sqlgen.Schema{Tables: []sqlgen.Table{
	{Name: "users", Columns: []string{"id", "email", "name", "age", "balance", "created_at", "data"}},
	{Name: "orders", Columns: []string{"id", "user_id", "amount", "status", "note", "token"}},
	{Name: "t", Columns: []string{"a", "b", "c", "d", "id"}},
	{Name: "logs", Columns: []string{"id", "usrid", "date", "msg"}},
}}

// encryptorConfigYAML: users.email, orders.token, t.a searchable; users.name/data/age, orders.note, t.b encrypted;
// table logs has no configuration. data_type str/int32 on some columns exercises the coder's printable-text path.
const encryptorConfigYAML = `
schemas:
  - table: users
    columns: [id, email, name, age, balance, created_at, data]
    encrypted:
      - column: email
        searchable: true
      - column: name
        data_type: str
      - column: age
      - column: data
        crypto_envelope: acrablock
  - table: orders
    columns: [id, user_id, amount, status, note, token]
    encrypted:
      - column: note
      - column: token
        searchable: true
        crypto_envelope: acrablock
  - table: t
    columns: [a, b, c, d, id]
    encrypted:
      - column: a
        searchable: true
      - column: b
`

func loadSchema(mysql bool) (*config.MapTableSchemaStore, error) {
	return config.MapTableSchemaStoreFromConfig([]byte(encryptorConfigYAML), mysql)
}

// ---- stub DataEncryptor: deterministic marker values, every call recorded ----

type encCall struct{ In, Out []byte }

type stubEncryptor struct {
	mu    sync.Mutex
	calls []encCall
}

// markerFor builds the replacement value for an input: a function of the input only, cycling through
// content classes that stress the printer (quotes, backslashes, NUL, non-UTF-8, percent signs, empty-ish).
func markerFor(in []byte) []byte {
	h := sha256.Sum256(in)
	tag := fmt.Sprintf("ENC%x", h[:5])
	switch h[5] % 8 {
	case 0:
		return []byte(tag)
	case 1:
		return []byte(tag + "'q'' \"dq\"")
	case 2:
		return []byte(tag + `\b\\s\` + "'")
	case 3:
		return []byte(tag + "\x00nul\x00")
	case 4:
		return append([]byte(tag), 0xff, 0xfe, 0x80, '\'', '\\')
	case 5:
		return []byte(tag + "%_\\%\n\r\t\x1a")
	case 6:
		return []byte(`\x` + tag)
	default:
		return append([]byte{0x25, 0x25, 0x25, 0x00, 0x27}, h[:20]...)
	}
}

func (s *stubEncryptor) EncryptWithClientID(clientID, data []byte, setting config.ColumnEncryptionSetting) ([]byte, error) {
	out := markerFor(data)
	s.mu.Lock()
	s.calls = append(s.calls, encCall{In: append([]byte{}, data...), Out: out})
	s.mu.Unlock()
	return out, nil
}

func (s *stubEncryptor) take() []encCall {
	s.mu.Lock()
	defer s.mu.Unlock()
	c := s.calls
	s.calls = nil
	return c
}

// ---- stub keystore / processor for HashQuery: fixed HMAC key, nothing looks like an envelope ----

var hmacKey = []byte("c13-fixed-hmac-key-0123456789abcdef")

type stubKeystore struct{}

var errNoKey = errors.New("stub keystore: no such key")

func (stubKeystore) GetHMACSecretKey(id []byte) ([]byte, error) {
	return append([]byte{}, hmacKey...), nil
}
func (stubKeystore) GetClientIDSymmetricKeys(id []byte) ([][]byte, error) { return nil, errNoKey }
func (stubKeystore) GetClientIDSymmetricKey(id []byte) ([]byte, error)    { return nil, errNoKey }
func (stubKeystore) GetServerDecryptionPrivateKey(id []byte) (*keys.PrivateKey, error) {
	return nil, errNoKey
}
func (stubKeystore) GetServerDecryptionPrivateKeys(id []byte) ([]*keys.PrivateKey, error) {
	return nil, errNoKey
}
func (stubKeystore) GetClientIDEncryptionPublicKey(clientID []byte) (*keys.PublicKey, error) {
	return nil, errNoKey
}

type stubProcessor struct{}

func (stubProcessor) Process(data []byte, ctx *decryptor.DataProcessorContext) ([]byte, error) {
	return data, nil
}
func (stubProcessor) MatchDataSignature([]byte) bool { return false }

// ---- minimal client session (the observers keep placeholder settings in it) ----

type session struct {
	mu   sync.Mutex
	data map[string]interface{}
}

func newSession() *session                            { return &session{data: map[string]interface{}{}} }
func (s *session) Context() context.Context           { return context.Background() }
func (s *session) ClientConnection() net.Conn         { return nil }
func (s *session) DatabaseConnection() net.Conn       { return nil }
func (s *session) ProtocolState() interface{}         { return nil }
func (s *session) SetProtocolState(state interface{}) {}
func (s *session) GetData(k string) (interface{}, bool) {
	s.mu.Lock()
	defer s.mu.Unlock()
	v, ok := s.data[k]
	return v, ok
}
func (s *session) SetData(k string, v interface{}) { s.mu.Lock(); s.data[k] = v; s.mu.Unlock() }
func (s *session) DeleteData(k string)             { s.mu.Lock(); delete(s.data, k); s.mu.Unlock() }
func (s *session) HasData(k string) bool {
	s.mu.Lock()
	defer s.mu.Unlock()
	_, ok := s.data[k]
	return ok
}

func newCtx() context.Context {
	ctx := decryptor.SetClientSessionToContext(context.Background(), newSession())
	return decryptor.SetAccessContextToContext(ctx, decryptor.NewAccessContext(decryptor.WithClientID([]byte("client_c13"))))
}
