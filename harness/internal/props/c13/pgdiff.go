package c13

import (
	"bytes"
	"fmt"
	"strings"

	pg_query "github.com/cossacklabs/pg_query_go/v5"
	"google.golang.org/protobuf/reflect/protoreflect"
)

// pgLeaf is an A_Const that differs between two PostgreSQL parse trees.
type pgLeaf struct {
	Path     string
	Old, New *pg_query.A_Const
}

type pgDiffResult struct {
	Leaves     []pgLeaf
	Rewrites   []string
	Other      []string
	DoubleWrap int // search rewrite applied to an operand that already is a substr()/substring() call
}

func (d *pgDiffResult) clean() bool {
	return len(d.Leaves) == 0 && len(d.Rewrites) == 0 && len(d.Other) == 0
}

type pgDiffer struct {
	res           *pgDiffResult
	allowRewrites bool
	hashSize      int32
}

// pgDiff compares two pg_query parse results modulo source locations. A_Const nodes that differ are leaves;
// with allowRewrites the documented search rewrite of an A_Expr (column -> substr(column, 1, N), operator
// normalised to = / <>) is recognised; everything else is reported in Other.
func pgDiff(a, b *pg_query.ParseResult, allowRewrites bool, hashSize int) *pgDiffResult {
	d := &pgDiffer{res: &pgDiffResult{}, allowRewrites: allowRewrites, hashSize: int32(hashSize)}
	d.msg(a.ProtoReflect(), b.ProtoReflect(), "ParseResult")
	return d.res
}

func (d *pgDiffer) other(path, what string) {
	if len(d.res.Other) < 20 {
		d.res.Other = append(d.res.Other, path+": "+what)
	}
}

func ignoredField(name protoreflect.Name) bool {
	return name == "location" || name == "stmt_location" || name == "stmt_len"
}

func (d *pgDiffer) msg(a, b protoreflect.Message, path string) {
	if a.Descriptor() != b.Descriptor() {
		d.other(path, fmt.Sprintf("message %s vs %s", a.Descriptor().FullName(), b.Descriptor().FullName()))
		return
	}
	switch a.Descriptor().FullName() {
	case "pg_query.A_Const":
		sub := &pgDiffer{res: &pgDiffResult{}}
		sub.fields(a, b, path)
		if !sub.res.clean() {
			d.res.Leaves = append(d.res.Leaves, pgLeaf{Path: path, Old: a.Interface().(*pg_query.A_Const), New: b.Interface().(*pg_query.A_Const)})
		}
		return
	case "pg_query.A_Expr":
		if d.allowRewrites && d.tryRewrite(a.Interface().(*pg_query.A_Expr), b.Interface().(*pg_query.A_Expr), path) {
			return
		}
	}
	d.fields(a, b, path)
}

func (d *pgDiffer) fields(a, b protoreflect.Message, path string) {
	fds := a.Descriptor().Fields()
	for i := 0; i < fds.Len(); i++ {
		fd := fds.Get(i)
		if ignoredField(fd.Name()) {
			continue
		}
		p := path + "." + string(fd.Name())
		ha, hb := a.Has(fd), b.Has(fd)
		if ha != hb {
			d.other(p, fmt.Sprintf("present %v vs %v", ha, hb))
			continue
		}
		if !ha {
			continue
		}
		va, vb := a.Get(fd), b.Get(fd)
		switch {
		case fd.IsList():
			la, lb := va.List(), vb.List()
			if la.Len() != lb.Len() {
				d.other(p, fmt.Sprintf("length %d vs %d", la.Len(), lb.Len()))
				continue
			}
			for j := 0; j < la.Len(); j++ {
				d.value(fd, la.Get(j), lb.Get(j), p)
			}
		case fd.IsMap():
			if va.Map().Len() != vb.Map().Len() {
				d.other(p, "map size differs")
			}
		default:
			d.value(fd, va, vb, p)
		}
	}
}

func (d *pgDiffer) value(fd protoreflect.FieldDescriptor, a, b protoreflect.Value, path string) {
	switch fd.Kind() {
	case protoreflect.MessageKind, protoreflect.GroupKind:
		d.msg(a.Message(), b.Message(), path)
	case protoreflect.BytesKind:
		if !bytes.Equal(a.Bytes(), b.Bytes()) {
			d.other(path, "bytes differ")
		}
	default:
		if a.Interface() != b.Interface() {
			d.other(path, fmt.Sprintf("%v vs %v", a.Interface(), b.Interface()))
		}
	}
}

func (d *pgDiffer) sameMsg(a, b protoreflect.Message) bool {
	sub := &pgDiffer{res: &pgDiffResult{}}
	sub.msg(a, b, "")
	return sub.res.clean()
}

func opName(e *pg_query.A_Expr) string {
	if len(e.Name) != 1 {
		return "?"
	}
	return e.Name[0].GetString_().GetSval()
}

// substrOf returns the column reference wrapped as substr(col, 1, N), or nil.
func (d *pgDiffer) substrOf(n *pg_query.Node) *pg_query.Node {
	fc := n.GetFuncCall()
	if fc == nil || len(fc.Funcname) != 1 || len(fc.Args) != 3 {
		return nil
	}
	name := fc.Funcname[0].GetString_().GetSval()
	if name != "substr" && name != "substring" {
		return nil
	}
	if fc.Args[0].GetColumnRef() == nil {
		return nil
	}
	if c := fc.Args[1].GetAConst(); c == nil || c.GetIval() == nil || c.GetIval().Ival != 1 {
		return nil
	}
	if c := fc.Args[2].GetAConst(); c == nil || c.GetIval() == nil || c.GetIval().Ival != d.hashSize {
		return nil
	}
	return fc.Args[0]
}

// tryRewrite recognises hmac/decryptor/postgresql.HashQuery.OnQuery's rewriting of one comparison.
func (d *pgDiffer) tryRewrite(a, b *pg_query.A_Expr, path string) bool {
	if a.Lexpr == nil || b.Lexpr == nil {
		return false
	}
	if a.Lexpr.GetColumnRef() == nil {
		// an operand that already is substr(col, ...) / substring(col, ...) wrapped once more: not the documented
		// rewriting (column -> substr(column, 1, N)); recognised only to give the violation a stable name
		if fc := a.Lexpr.GetFuncCall(); fc != nil && len(fc.Funcname) == 1 && strings.HasPrefix(fc.Funcname[0].GetString_().GetSval(), "substr") {
			if nf := b.Lexpr.GetFuncCall(); nf != nil && len(nf.Args) == 3 && nf.Args[0].GetFuncCall() != nil {
				d.res.DoubleWrap++
			}
		}
		return false
	}
	col := d.substrOf(b.Lexpr)
	if col == nil || !d.sameMsg(a.Lexpr.ProtoReflect(), col.ProtoReflect()) {
		return false
	}
	// operator: exactly what ChangeSearchableOperator documents (name only; = ~~ ~~* -> =, <> !~~ !~~* -> <>, others unchanged)
	wantOp := opName(a)
	switch wantOp {
	case "=", "~~", "~~*":
		wantOp = "="
	case "<>", "!~~", "!~~*":
		wantOp = "<>"
	}
	if opName(b) != wantOp || (b.Kind != a.Kind && b.Kind != pg_query.A_Expr_Kind_AEXPR_OP) {
		return false
	}
	switch {
	case a.Rexpr != nil && a.Rexpr.GetColumnRef() != nil:
		rc := d.substrOf(b.Rexpr)
		if rc == nil || !d.sameMsg(a.Rexpr.ProtoReflect(), rc.ProtoReflect()) {
			return false
		}
	case a.Rexpr != nil && b.Rexpr != nil:
		// literal (possibly under a cast) or parameter: compare generically; differing A_Const become leaves
		d.msg(a.Rexpr.ProtoReflect(), b.Rexpr.ProtoReflect(), path+".rexpr")
	default:
		return false
	}
	d.res.Rewrites = append(d.res.Rewrites, path)
	return true
}
