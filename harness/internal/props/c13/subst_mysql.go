package c13

import (
	"bytes"
	"context"
	"encoding/hex"
	"fmt"
	"reflect"
	"strings"

	mysqlenc "github.com/cossacklabs/acra/encryptor/mysql"
	"github.com/cossacklabs/acra/hmac"
	hashq "github.com/cossacklabs/acra/hmac/decryptor/mysql"
	"github.com/cossacklabs/acra/sqlparser"

	"verif/harness/internal/ev"
	"verif/harness/internal/gen"
	"verif/harness/internal/rig/sqlgen"
)

// decodeVal returns the bytes a literal node stands for, as encryptor/mysql.DBDataCoder reads / writes them.
func decodeVal(v *sqlparser.SQLVal) ([]byte, bool) {
	switch v.Type {
	case sqlparser.StrVal, sqlparser.IntVal, sqlparser.PgEscapeString:
		return v.Val, true
	case sqlparser.HexVal:
		b, err := hex.DecodeString(string(v.Val))
		return b, err == nil
	case sqlparser.HexNum:
		if !bytes.HasPrefix(v.Val, []byte("0x")) {
			return v.Val, true
		}
		b, err := hex.DecodeString(string(v.Val[2:]))
		return b, err == nil
	}
	return nil, false
}

func hmacOf(data []byte) []byte { return hmac.GenerateHMAC(append([]byte{}, hmacKey...), data) }

// judgeRewriteMySQL applies oracle (4) to one rewritten statement: t0 = tree of the received text,
// tmod = tree edited in place by the real code, forwarded = text handed to the database.
func (m *mon) judgeRewriteMySQL(o *outcome, j job, path string, t0, tmod sqlparser.Statement, forwarded string, calls []encCall, allowRewrites bool) {
	kind := stmtType(t0)
	det := func(extra map[string]interface{}) map[string]interface{} {
		mm := map[string]interface{}{"dialect": "mysql", "path": path, "statement": j.text, "forwarded": forwarded}
		for k, v := range extra {
			mm[k] = v
		}
		return mm
	}
	// (4a) the edit itself: only literal leaves (and documented search rewrites) may differ from the original
	d := diffTrees(t0, tmod, allowRewrites, hmac.GetDefaultHashSize(), false)
	if len(d.Other) > 0 {
		frag, dd := describe(d)
		o.violate(fmt.Sprintf("rewrite(4a) something other than the substituted values changed: dialect=mysql path=%s kind=%s at=%s", path, kind, frag), det(map[string]interface{}{"differences": dd}))
		return
	}
	rewriteLeaf := map[string]bool{}
	for _, rw := range d.Rewrites {
		rewriteLeaf[rw.Path+".Right"] = true
	}
	used := make([]bool, len(calls))
	replaced := 0
	for _, l := range d.Leaves {
		if !bytes.Equal(l.Old.CastType, l.New.CastType) {
			o.violate(fmt.Sprintf("rewrite(4a) cast of a substituted literal changed: dialect=mysql path=%s kind=%s", path, kind), det(map[string]interface{}{"leaf": l.Path}))
			return
		}
		oldData, ok1 := decodeVal(l.Old)
		newData, ok2 := decodeVal(l.New)
		if !ok1 || !ok2 {
			o.violate(fmt.Sprintf("rewrite(4a) literal changed into an undecodable form: dialect=mysql path=%s kind=%s types=%s->%s", path, kind, valTypeName(l.Old.Type), valTypeName(l.New.Type)), det(map[string]interface{}{"leaf": l.Path}))
			return
		}
		if rewriteLeaf[l.Path] {
			// which bytes are hashed is C09's subject; here only: the replacement is a hash-sized binary literal
			if len(newData) != hmac.GetDefaultHashSize() {
				o.violate(fmt.Sprintf("rewrite(4a) search literal replaced by something that is not a hash: dialect=mysql path=%s kind=%s", path, kind), det(map[string]interface{}{"leaf": l.Path, "old": ev.Hex(oldData), "new": ev.Hex(newData)}))
				return
			}
			if bytes.Equal(newData, hmacOf(oldData)) {
				o.count("mysql_search_hash_is_hmac_of_literal_bytes")
			} else {
				o.count("mysql_search_hash_is_not_hmac_of_literal_bytes:" + valTypeName(l.Old.Type))
			}
			continue
		}
		match := -1
		for i, c := range calls {
			if !used[i] && bytes.Equal(c.In, oldData) && bytes.Equal(c.Out, newData) {
				match = i
				break
			}
		}
		if match < 0 {
			o.violate(fmt.Sprintf("rewrite(4a) a literal changed that no substitution accounts for: dialect=mysql path=%s kind=%s types=%s->%s", path, kind, valTypeName(l.Old.Type), valTypeName(l.New.Type)),
				det(map[string]interface{}{"leaf": l.Path, "old": ev.Hex(oldData), "new": ev.Hex(newData), "substitutions": len(calls)}))
			return
		}
		used[match] = true
		replaced++
		o.sets = append(o.sets, [2]string{"mysql_replaced_leaf_types", valTypeName(l.Old.Type) + "->" + valTypeName(l.New.Type)})
	}
	for i, u := range used {
		if !u {
			o.violate(fmt.Sprintf("rewrite(4a) a substituted value is missing from the edited tree: dialect=mysql path=%s kind=%s", path, kind), det(map[string]interface{}{"in": ev.Hex(calls[i].In), "out": ev.Hex(calls[i].Out)}))
			return
		}
	}
	// (4b) the forwarded text parses back to exactly the edited tree
	parser := sqlparser.New(sqlparser.ModeStrict)
	t1, err := parser.Parse(forwarded)
	if err != nil {
		o.violate(fmt.Sprintf("rewrite(4b) forwarded text does not parse: dialect=mysql path=%s cause=%s", path, hazards(tmod)), det(map[string]interface{}{"error": err.Error(), "kind": kind}))
		return
	}
	if !reflect.DeepEqual(tmod, t1) {
		d2 := diffTrees(tmod, t1, false, 0, false)
		if !d2.clean() && !onlyNamedBindvars(d2) {
			frag, dd := describe(d2)
			o.violate(fmt.Sprintf("rewrite(4b) forwarded text parses to a different tree than the edited one: dialect=mysql path=%s at=%s", path, frag), det(map[string]interface{}{"differences": dd, "kind": kind}))
			return
		}
	}
	// (4c) fixpoint
	if p2 := sqlparser.String(t1); p2 != forwarded {
		o.violate(fmt.Sprintf("rewrite(4c) forwarded text is not a fixpoint of print-parse: dialect=mysql path=%s kind=%s", path, kind), det(map[string]interface{}{"printed_again": p2}))
		return
	}
	o.count("mysql_" + path + "_judged")
	if replaced > 0 {
		o.count("mysql_rewrite_leaves_replaced")
	}
	if replaced > 1 {
		o.count("mysql_rewrites_with_several_leaves")
	}
	for range d.Rewrites {
		o.count("mysql_search_rewrites")
	}
	class := fmt.Sprintf("leaves%d-search%d", min(replaced, 3), min(len(d.Rewrites), 2))
	o.distinct = append(o.distinct, fmt.Sprintf("mysql-%s|%s|%s", path, kind, class))
	o.sampleTag = "mysql-" + path + "-" + kind
	o.sample = map[string]interface{}{"dialect": "mysql", "path": path, "statement": j.text, "forwarded": forwarded, "leaves_replaced": replaced, "search_rewrites": len(d.Rewrites)}
}

func min(a, b int) int {
	if a < b {
		return a
	}
	return b
}

// substMySQL drives HashQuery + QueryDataEncryptor (registered like decryptor/mysql's proxy factory does) on one statement.
func (m *mon) substMySQL(j job) (o outcome) {
	parser := sqlparser.New(sqlparser.ModeStrict)
	t0, err := parser.Parse(j.text)
	if err != nil {
		o.count("rejected_by_parser:subst")
		return
	}
	if !isDML(t0) {
		return
	}
	schema := mysqlSchema
	ctx := newCtx()
	enc := &stubEncryptor{}
	mgr, _ := mysqlenc.NewArrayQueryObservableManager(ctx)
	mgr.AddQueryObserver(hashq.NewHashQuery(stubKeystore{}, schema, stubProcessor{}))
	qe, _ := mysqlenc.NewQueryEncryptor(schema, parser, enc)
	mgr.AddQueryObserver(qe)
	obj, changed, err := mgr.OnQuery(ctx, mysqlenc.NewOnQueryObjectFromQuery(j.text, parser))
	if err != nil {
		o.count("mysql_onquery_error_statement_not_rewritten")
		return
	}
	if !changed {
		o.count("mysql_onquery_left_statement_unchanged")
		if obj.Query() != j.text {
			o.violate("rewrite: statement reported unchanged but forwarded text differs: dialect=mysql", map[string]interface{}{"statement": j.text, "forwarded": obj.Query()})
		}
		return
	}
	tmod, err := obj.Statement()
	if err != nil {
		o.count("mysql_onquery_error_statement_not_rewritten")
		return
	}
	m.judgeRewriteMySQL(&o, j, "rewrite", t0, tmod, obj.Query(), enc.take(), true)
	return
}

// editMySQL replaces up to three literal leaves anywhere in the statement the way the rewriters do it
// (encryptor/mysql.UpdateExpressionValue + DBDataCoder), then prints.
func (m *mon) editMySQL(j job) (o outcome) {
	parser := sqlparser.New(sqlparser.ModeStrict)
	t0, err := parser.Parse(j.text)
	if err != nil {
		return
	}
	if !isDML(t0) {
		return
	}
	tmod, _ := parser.Parse(j.text)
	var nodes []*sqlparser.SQLVal
	seen := map[*sqlparser.SQLVal]bool{} // Delete.walkSubtree visits its table expressions twice
	_ = sqlparser.Walk(func(n sqlparser.SQLNode) (bool, error) {
		if v, ok := n.(*sqlparser.SQLVal); ok && !seen[v] {
			seen[v] = true
			switch v.Type {
			case sqlparser.StrVal, sqlparser.HexVal, sqlparser.IntVal, sqlparser.HexNum, sqlparser.PgEscapeString:
				nodes = append(nodes, v)
			}
		}
		return true, nil
	}, tmod)
	if len(nodes) == 0 {
		o.count("mysql_edit_no_literal_reachable")
		return
	}
	rng := gen.New(m.r.Seed, "c13-edit-"+j.tag)
	k := 1 + rng.Intn(3)
	var calls []encCall
	ctx := context.Background()
	picked := map[int]bool{}
	for i := 0; i < k; i++ {
		ix := rng.Intn(len(nodes))
		if picked[ix] {
			continue
		}
		picked[ix] = true
		var in, out []byte
		err := mysqlenc.UpdateExpressionValue(ctx, nodes[ix], &mysqlenc.DBDataCoder{}, nil, func(_ context.Context, data []byte) ([]byte, error) {
			in = append([]byte{}, data...)
			out = markerFor(data)
			return out, nil
		})
		if err == nil && out != nil {
			calls = append(calls, encCall{In: in, Out: out})
		}
	}
	if len(calls) == 0 {
		o.count("mysql_edit_nothing_replaced")
		return
	}
	m.judgeRewriteMySQL(&o, j, "edit", t0, tmod, sqlparser.String(tmod), calls, false)
	return
}

// searchTemplates are statement shapes applications use with searchable columns; {L} is a generated literal or
// placeholder, {C} a generated condition over the same tables.
var searchTemplates = []string{
	"select * from users where email = {L} and {C}",
	"select id, email, name from users u where u.email = {L}",
	"select * from users where {C} or email <=> {L}",
	"select users.email, orders.note from users join orders on users.email = orders.token where {C}",
	"select * from users join orders on users.email = orders.token and orders.token != {L}",
	"update users set name = {L}, age = {L} where email = {L}",
	"update t set b = {L} where a = {L} and {C}",
	"delete from orders where token != {L} or {C}",
	"select * from t where a = {L} and a in (select a from t where a = {L})",
	"insert into orders(id, note) select id, name from users where email = {L}",
	"select * from users where email like {L} and email = {L}",
	"select * from orders where token = {L} order by null desc, id limit 5",
	"select * from (select * from users where email = {L}) s where {C}",
	"select * from users where email = {L} union select * from users where name = {L}",
}

func fillTemplate(g *sqlgen.Gen, tpl string, placeholder string) string {
	var b strings.Builder
	n := 0
	for i := 0; i < len(tpl); i++ {
		if strings.HasPrefix(tpl[i:], "{L}") {
			l := g.LiteralText("any")
			if placeholder != "" && len(l.Spelling)%4 == 0 {
				n++
				if placeholder == "$" {
					fmt.Fprintf(&b, "$%d", n)
				} else {
					b.WriteString("?")
				}
			} else {
				b.WriteString(l.Spelling)
			}
			i += 2
			continue
		}
		if strings.HasPrefix(tpl[i:], "{C}") {
			c, _ := g.Fragment(schemaTables.Tables[0], schemaTables.Tables[1])
			b.WriteString(c)
			i += 2
			continue
		}
		b.WriteByte(tpl[i])
	}
	return b.String()
}

func (m *mon) phaseSubstMySQL() {
	var err error
	mysqlSchema, err = loadSchema(true)
	if err != nil {
		m.r.Violation("non-vacuity:encryptor-config", map[string]interface{}{"error": err.Error()})
		return
	}
	total := m.r.Pick(3500, 100000)
	g := sqlgen.New(m.r.Seed, "c13-subst", sqlgen.MySQL, sqlgen.Options{Schema: schemaTables, Kinds: []string{"insert", "insert", "replace", "update", "update", "select", "select", "select", "union", "delete"}})
	gt := sqlgen.New(m.r.Seed, "c13-subst-tpl", sqlgen.MySQL, sqlgen.Options{Schema: schemaTables, Placeholders: "none"})
	const chunk = 20000
	for done := 0; done < total; {
		n := min(chunk, total-done)
		jobs := make([]job, 0, n)
		for i := 0; i < n; i++ {
			if (done+i)%5 == 4 {
				ph := ""
				if (done+i)%15 == 14 {
					ph = "?"
				}
				jobs = append(jobs, job{kind: "subst", origin: "template", text: fillTemplate(gt, searchTemplates[((done+i)/5)%len(searchTemplates)], ph)})
				continue
			}
			st := g.Next()
			jobs = append(jobs, job{kind: "subst", origin: "gen", text: st.Text, st: st})
		}
		m.run(jobs, m.substMySQL)
		done += n
	}
	total = m.r.Pick(2000, 80000)
	g2 := sqlgen.New(m.r.Seed, "c13-edit", sqlgen.MySQL, sqlgen.Options{Schema: schemaTables, Placeholders: "mixed"})
	for done := 0; done < total; {
		n := min(chunk, total-done)
		jobs := make([]job, 0, n)
		for i := 0; i < n; i++ {
			st := g2.Next()
			jobs = append(jobs, job{kind: "edit", origin: "gen", text: st.Text, st: st, tag: fmt.Sprint(done + i)})
		}
		m.run(jobs, m.editMySQL)
		done += n
	}
	_ = strings.TrimSpace
}
