package c13

import (
	"bytes"
	"encoding/hex"
	"fmt"
	"sort"
	"strconv"
	"strings"

	pg_query "github.com/cossacklabs/pg_query_go/v5"
	"google.golang.org/protobuf/reflect/protoreflect"

	"github.com/cossacklabs/acra/encryptor/base/config"
	pgenc "github.com/cossacklabs/acra/encryptor/postgresql"
	"github.com/cossacklabs/acra/hmac"
	pghash "github.com/cossacklabs/acra/hmac/decryptor/postgresql"

	"verif/harness/internal/ev"
	"verif/harness/internal/rig/sqlgen"
)

var mysqlSchema, pgSchema *config.MapTableSchemaStore

func constText(c *pg_query.A_Const) (string, string) {
	switch {
	case c.GetSval() != nil:
		return "sval", c.GetSval().GetSval()
	case c.GetIval() != nil:
		return "ival", strconv.Itoa(int(c.GetIval().GetIval()))
	case c.GetFval() != nil:
		return "fval", c.GetFval().GetFval()
	case c.GetBoolval() != nil:
		return "boolval", fmt.Sprint(c.GetBoolval().GetBoolval())
	case c.GetBsval() != nil:
		return "bsval", c.GetBsval().GetBsval()
	}
	if c.GetIsnull() {
		return "null", ""
	}
	// pg_query leaves Ival unset for the integer 0
	return "ival", "0"
}

// pgNewValueCandidates: byte strings a rewritten constant may stand for (\x-hex text decoded, or the text itself).
func pgNewValueCandidates(c *pg_query.A_Const) [][]byte {
	_, s := constText(c)
	out := [][]byte{[]byte(s)}
	if strings.HasPrefix(s, `\x`) {
		if b, err := hex.DecodeString(s[2:]); err == nil {
			out = append(out, b)
		}
	}
	return out
}

func (m *mon) substPG(j job) (o outcome) {
	t0, err := pg_query.Parse(j.text)
	if err != nil || len(t0.Stmts) == 0 {
		o.count("pg_query_rejected_statement")
		return
	}
	o.count("pg_query_accepted_statement")
	ctx := newCtx()
	enc := &stubEncryptor{}
	mgr, _ := pgenc.NewArrayQueryObservableManager(ctx)
	mgr.AddQueryObserver(pghash.NewHashQuery(stubKeystore{}, pgSchema, stubProcessor{}))
	qe, _ := pgenc.NewQueryEncryptor(pgSchema, enc)
	mgr.AddQueryObserver(qe)
	obj, changed, err := mgr.OnQuery(ctx, pgenc.NewOnQueryObjectFromQuery(j.text))
	if err != nil {
		o.count("pg_onquery_error_statement_not_rewritten")
		return
	}
	if !changed {
		o.count("pg_onquery_left_statement_unchanged")
		return
	}
	tmod, err := obj.Statement()
	if err != nil {
		o.count("pg_onquery_error_statement_not_rewritten")
		return
	}
	kind := pgKind(t0)
	forwarded, err := obj.Query()
	det := func(extra map[string]interface{}) map[string]interface{} {
		mm := map[string]interface{}{"dialect": "postgresql", "statement": j.text, "forwarded": forwarded}
		for k, v := range extra {
			mm[k] = v
		}
		return mm
	}
	if err != nil {
		o.violate(fmt.Sprintf("rewrite(4b) edited tree cannot be re-serialised: dialect=postgresql kind=%s", kind), det(map[string]interface{}{"error": err.Error()}))
		return
	}
	calls := enc.take()
	// (4a)
	d := pgDiff(t0, tmod, true, hmac.GetDefaultHashSize())
	if d.DoubleWrap > 0 {
		o.violate("rewrite(4a) search rewrite wrapped an operand that already is a substr()/substring() call: dialect=postgresql", det(map[string]interface{}{"differences": d.Other, "kind": kind}))
		return
	}
	if len(d.Other) > 0 {
		o.violate(fmt.Sprintf("rewrite(4a) something other than the substituted values changed: dialect=postgresql kind=%s at=%s", kind, pgFrag(d.Other)), det(map[string]interface{}{"differences": d.Other}))
		return
	}
	used := make([]bool, len(calls))
	replaced, hashed := 0, 0
	for _, l := range d.Leaves {
		inRewrite := false
		for _, rp := range d.Rewrites {
			if strings.HasPrefix(l.Path, rp+".rexpr") {
				inRewrite = true
			}
		}
		cands := pgNewValueCandidates(l.New)
		if inRewrite {
			_, oldText := constText(l.Old)
			olds := [][]byte{[]byte(oldText)}
			if strings.HasPrefix(oldText, `\x`) {
				if b, err := hex.DecodeString(oldText[2:]); err == nil {
					olds = append(olds, b)
				}
			}
			ok := false
			for _, od := range olds {
				h := hmacOf(od)
				for _, c := range cands {
					if bytes.Equal(c, h) {
						ok = true
					}
				}
			}
			if ok {
				o.count("pg_search_hash_leaves_verified")
			} else {
				o.count("pg_search_hash_leaves_not_verifiable")
			}
			hashed++
			continue
		}
		match := -1
		for i, c := range calls {
			if used[i] {
				continue
			}
			for _, cand := range cands {
				if bytes.Equal(cand, c.Out) {
					match = i
				}
			}
			if match >= 0 {
				break
			}
		}
		if match < 0 {
			ok, ot := constText(l.Old)
			nk, nt := constText(l.New)
			o.violate(fmt.Sprintf("rewrite(4a) a literal changed that no substitution accounts for: dialect=postgresql kind=%s types=%s->%s", kind, ok, nk),
				det(map[string]interface{}{"leaf": l.Path, "old": ot, "new": nt, "substitutions": len(calls)}))
			return
		}
		used[match] = true
		replaced++
		ok, _ := constText(l.Old)
		nk, _ := constText(l.New)
		o.sets = append(o.sets, [2]string{"pg_replaced_leaf_types", ok + "->" + nk})
	}
	for i, u := range used {
		if !u {
			o.violate(fmt.Sprintf("rewrite(4a) a substituted value is missing from the edited tree: dialect=postgresql kind=%s", kind), det(map[string]interface{}{"in": ev.Hex(calls[i].In), "out": ev.Hex(calls[i].Out)}))
			return
		}
	}
	// (4b)
	t1, err := pg_query.Parse(forwarded)
	if err != nil {
		o.violate(fmt.Sprintf("rewrite(4b) forwarded text does not parse: dialect=postgresql cause=%s", pgHazards(tmod)), det(map[string]interface{}{"error": err.Error(), "kind": kind}))
		return
	}
	d2 := pgDiff(tmod, t1, false, 0)
	if !d2.clean() {
		var dd []string
		dd = append(dd, d2.Other...)
		for _, l := range d2.Leaves {
			a, at := constText(l.Old)
			b, bt := constText(l.New)
			dd = append(dd, fmt.Sprintf("%s: %s %q -> %s %q", l.Path, a, at, b, bt))
		}
		o.violate(fmt.Sprintf("rewrite(4b) forwarded text parses to a different tree than the edited one: dialect=postgresql cause=%s at=%s", pgHazards(tmod), pgFrag(dd)), det(map[string]interface{}{"differences": dd, "kind": kind}))
		return
	}
	// (4c)
	if p2, err := pg_query.Deparse(t1); err != nil || p2 != forwarded {
		o.violate(fmt.Sprintf("rewrite(4c) forwarded text is not a fixpoint of print-parse: dialect=postgresql kind=%s", kind), det(map[string]interface{}{"printed_again": p2, "error": fmt.Sprint(err)}))
		return
	}
	o.count("pg_rewrite_judged")
	if replaced > 0 {
		o.count("pg_rewrite_leaves_replaced")
	}
	for range d.Rewrites {
		o.count("pg_search_rewrites")
	}
	o.distinct = append(o.distinct, fmt.Sprintf("pg-rewrite|%s|leaves%d-search%d", kind, min(replaced, 3), min(len(d.Rewrites), 2)))
	o.sampleTag = "pg-rewrite-" + kind
	o.sample = map[string]interface{}{"dialect": "postgresql", "statement": j.text, "forwarded": forwarded, "leaves_replaced": replaced, "search_rewrites": len(d.Rewrites)}
	return
}

// pgHazards names fragile constructs in an edited tree (signature naming only).
func pgHazards(t *pg_query.ParseResult) string {
	found := map[string]bool{}
	var walk func(m protoreflect.Message, depth int)
	walk = func(m protoreflect.Message, depth int) {
		if depth > 200 {
			return
		}
		switch m.Descriptor().FullName() {
		case "pg_query.A_Expr":
			e := m.Interface().(*pg_query.A_Expr)
			if (e.Kind == pg_query.A_Expr_Kind_AEXPR_LIKE || e.Kind == pg_query.A_Expr_Kind_AEXPR_ILIKE) && len(e.Name) == 1 {
				switch e.Name[0].GetString_().GetSval() {
				case "~~", "!~~", "~~*", "!~~*":
				default:
					found["like-expression-carrying-a-comparison-operator-name"] = true
				}
			}
		case "pg_query.NullTest":
			nt := m.Interface().(*pg_query.NullTest)
			if be := nt.GetArg().GetBoolExpr(); be != nil && be.Boolop == pg_query.BoolExprType_NOT_EXPR {
				found["null-test-over-not-expression"] = true
			}
		}
		if m.Descriptor().FullName() == "pg_query.A_Const" {
			c := m.Interface().(*pg_query.A_Const)
			if f := c.GetFval(); f != nil {
				if _, err := strconv.ParseFloat(f.GetFval(), 64); err != nil {
					found["float-constant-holding-non-numeric-text"] = true
				}
			}
			if s := c.GetSval(); s != nil && strings.ContainsRune(s.GetSval(), 0) {
				found["string-constant-containing-NUL"] = true
			}
			return
		}
		m.Range(func(fd protoreflect.FieldDescriptor, v protoreflect.Value) bool {
			switch {
			case fd.IsList() && fd.Kind() == protoreflect.MessageKind:
				l := v.List()
				for i := 0; i < l.Len(); i++ {
					walk(l.Get(i).Message(), depth+1)
				}
			case fd.Kind() == protoreflect.MessageKind && !fd.IsMap():
				walk(v.Message(), depth+1)
			}
			return true
		})
	}
	walk(t.ProtoReflect(), 0)
	if len(found) == 0 {
		return "unknown"
	}
	var out []string
	for k := range found {
		out = append(out, k)
	}
	sort.Strings(out)
	return strings.Join(out, "+")
}

func pgKind(t *pg_query.ParseResult) string {
	s := t.Stmts[0].Stmt
	switch {
	case s.GetSelectStmt() != nil:
		return "select"
	case s.GetInsertStmt() != nil:
		return "insert"
	case s.GetUpdateStmt() != nil:
		return "update"
	case s.GetDeleteStmt() != nil:
		return "delete"
	}
	return "other"
}

// pgFrag makes a stable fragment out of difference paths (indices are not part of paths already).
func pgFrag(ds []string) string {
	seen := map[string]bool{}
	var parts []string
	for _, d := range ds {
		p := d
		if i := strings.Index(p, ":"); i >= 0 {
			p = p[:i]
		}
		// keep the last three path elements: enough to name the grammar position
		el := strings.Split(p, ".")
		if len(el) > 3 {
			el = el[len(el)-3:]
		}
		p = strings.Join(el, ".")
		if !seen[p] {
			seen[p] = true
			parts = append(parts, p)
		}
	}
	if len(parts) > 3 {
		parts = parts[:3]
	}
	return strings.Join(parts, ",")
}

func (m *mon) phaseSubstPG() {
	var err error
	pgSchema, err = loadSchema(false)
	if err != nil {
		m.r.Violation("non-vacuity:encryptor-config", map[string]interface{}{"error": err.Error()})
		return
	}
	total := m.r.Pick(4000, 80000)
	g := sqlgen.New(m.r.Seed, "c13-pgsubst", sqlgen.PostgreSQL, sqlgen.Options{Strict: true, Schema: schemaTables, Kinds: []string{"insert", "insert", "update", "update", "select", "select", "select", "delete"}})
	gt := sqlgen.New(m.r.Seed, "c13-pgsubst-tpl", sqlgen.PostgreSQL, sqlgen.Options{Strict: true, Schema: schemaTables, Placeholders: "none"})
	const chunk = 20000
	for done := 0; done < total; {
		n := min(chunk, total-done)
		jobs := make([]job, 0, n)
		for i := 0; i < n; i++ {
			if (done+i)%5 == 4 {
				ph := ""
				if (done+i)%15 == 14 {
					ph = "$"
				}
				tpl := strings.ReplaceAll(searchTemplates[((done+i)/5)%len(searchTemplates)], "<=>", "=")
				jobs = append(jobs, job{kind: "pgsubst", origin: "template", text: fillTemplate(gt, tpl, ph)})
				continue
			}
			st := g.Next()
			jobs = append(jobs, job{kind: "pgsubst", origin: "gen-strict", text: st.Text, st: st})
		}
		m.run(jobs, m.substPG)
		done += n
	}
}
