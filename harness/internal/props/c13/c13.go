// Package c13 monitors "re-serialised statements mean the same as the statements received".
//
// Events: (dialect, statement text s, t = Parse(s), p = String(t), t' = Parse(p)) for every data-manipulation
// statement Acra's parser accepts, and (t, edited tree, forwarded text, re-parsed tree) for statements rewritten by
// the real query rewriters (MySQL: sqlparser trees; PostgreSQL: pg_query trees). Oracles are described in notes/c13.md.
package c13

import (
	"bytes"
	"fmt"
	"reflect"
	"runtime/debug"
	"sort"
	"strings"
	"sync"

	"github.com/cossacklabs/acra/sqlparser"
	mysqld "github.com/cossacklabs/acra/sqlparser/dialect/mysql"
	pgd "github.com/cossacklabs/acra/sqlparser/dialect/postgresql"

	"verif/harness/internal/ev"
	"verif/harness/internal/gen"
	"verif/harness/internal/props"
	"verif/harness/internal/rig/sqlgen"
)

func init() { props.Register("C13", props.Monitor{Level: "exploration", Run: Run}) }

const workers = 8

type finding struct {
	sig    string
	detail map[string]interface{}
}

type outcome struct {
	accepted  bool
	dml       bool
	judged    bool
	text      string // statement text that was accepted (splice pool)
	findings  []finding
	counts    map[string]int64
	distinct  []string
	sets      [][2]string
	sample    interface{}
	sampleTag string
}

func (o *outcome) count(k string) {
	if o.counts == nil {
		o.counts = map[string]int64{}
	}
	o.counts[k]++
}

func (o *outcome) violate(sig string, detail map[string]interface{}) {
	o.findings = append(o.findings, finding{sig, detail})
}

type job struct {
	kind   string // roundtrip | splice | subst | edit | pgsubst
	origin string // harvest | gen | gen-strict | splice
	text   string
	st     *sqlgen.Stmt
	h      *sqlgen.Harvested
	donor  string
	tag    string
}

type mon struct {
	r    *ev.Run
	d    sqlgen.Dialect
	pool []string // accepted DML texts of the current dialect (splice material)
}

func setDialect(d sqlgen.Dialect) {
	if d == sqlgen.PostgreSQL {
		sqlparser.SetDefaultDialect(pgd.NewPostgreSQLDialect())
	} else {
		sqlparser.SetDefaultDialect(mysqld.NewMySQLDialect())
	}
}

func isDML(t sqlparser.Statement) bool {
	switch t.(type) {
	case *sqlparser.Select, *sqlparser.Union, *sqlparser.Insert, *sqlparser.Update, *sqlparser.Delete:
		return true
	}
	return false
}

func stmtType(t sqlparser.Statement) string {
	switch v := t.(type) {
	case *sqlparser.Insert:
		return v.Action
	}
	return strings.ToLower(strings.TrimPrefix(fmt.Sprintf("%T", t), "*sqlparser."))
}

// run executes jobs on a worker pool and applies the outcomes to the run in job order (deterministic reports).
func (m *mon) run(jobs []job, f func(j job) outcome) []outcome {
	outs := make([]outcome, len(jobs))
	var wg sync.WaitGroup
	ch := make(chan int, 256)
	for w := 0; w < workers; w++ {
		wg.Add(1)
		go func() {
			defer wg.Done()
			for i := range ch {
				outs[i] = safely(jobs[i], f)
			}
		}()
	}
	for i := range jobs {
		ch <- i
	}
	close(ch)
	wg.Wait()
	for i := range outs {
		o := &outs[i]
		m.r.Case()
		for k, v := range o.counts {
			m.r.Count(k, v)
		}
		for _, dk := range o.distinct {
			m.r.Distinct(dk)
		}
		for _, s := range o.sets {
			m.r.SetAdd(s[0], s[1])
		}
		if o.sample != nil {
			m.r.SampleN(o.sampleTag, 1, o.sample)
		}
		for _, fd := range o.findings {
			m.r.Violation(fd.sig, fd.detail)
		}
	}
	return outs
}

func safely(j job, f func(j job) outcome) (o outcome) {
	defer func() {
		if p := recover(); p != nil {
			// a crash of the parser or of a rewriter forwards nothing: C14's subject, recorded here but not judged
			stack := string(debug.Stack())
			site := panicSite(stack)
			o = outcome{}
			o.count("panics_observed_not_judged_here")
			o.sets = append(o.sets, [2]string{"panic_sites_observed", j.kind + ":" + site})
			o.sampleTag = "panic-" + site
			o.sample = map[string]interface{}{"note": "panic observed while " + j.kind + " (not a C13 verdict; see notes)", "site": site, "statement": j.text, "panic": fmt.Sprint(p)}
			if PanicObserver != nil {
				PanicObserver(j.kind, site, fmt.Sprint(p), j.text)
			}
		}
	}()
	return f(j)
}

// PanicObserver, when set, is told of every panic that safely() recovers: kind of the job (subst = MySQL rewriters,
// pgsubst = PostgreSQL rewriters, edit, roundtrip, splice), innermost Acra function on the stack, panic text, statement.
// C13 itself does not judge such panics; the C14 monitor (props/c14/rewriters.go) sets the observer and does.
// It is called from the worker goroutines, possibly concurrently.
var PanicObserver func(kind, site, panicText, statement string)

// RunRewriters drives ONLY the real query rewriters (HashQuery + QueryDataEncryptor of each dialect, registered as in
// phaseSubstMySQL / phaseSubstPG, same generator streams, so the first nMySQL / nPG statements are the ones a C13 run
// of the same seed rewrites) plus every harvested statement, and applies the C13 oracles to r. Used by C14 with a
// throw-away run: there only the panics (PanicObserver) and the execution counters matter.
// derive, when not nil, is handed the statement texts generated for a dialect ("mysql" / "postgresql") and returns
// further statement texts (C14: structural and token edits of them), which are run through the same rewriters.
func RunRewriters(r *ev.Run, nMySQL, nPG int, derive func(dialect string, corpus []string) []string) error {
	harvested, err := sqlgen.Harvest(sqlgen.RepoPath())
	if err != nil {
		return err
	}
	defer setDialect(sqlgen.MySQL)
	for _, d := range []sqlgen.Dialect{sqlgen.MySQL, sqlgen.PostgreSQL} {
		setDialect(d)
		m := &mon{r: r, d: d}
		kind, placeholder, f, total := "subst", "?", m.substMySQL, nMySQL
		var g, gt *sqlgen.Gen
		if d == sqlgen.MySQL {
			if mysqlSchema, err = loadSchema(true); err != nil {
				return err
			}
			g = sqlgen.New(r.Seed, "c13-subst", sqlgen.MySQL, sqlgen.Options{Schema: schemaTables, Kinds: []string{"insert", "insert", "replace", "update", "update", "select", "select", "select", "union", "delete"}})
			gt = sqlgen.New(r.Seed, "c13-subst-tpl", sqlgen.MySQL, sqlgen.Options{Schema: schemaTables, Placeholders: "none"})
		} else {
			if pgSchema, err = loadSchema(false); err != nil {
				return err
			}
			kind, placeholder, f, total = "pgsubst", "$", m.substPG, nPG
			g = sqlgen.New(r.Seed, "c13-pgsubst", sqlgen.PostgreSQL, sqlgen.Options{Strict: true, Schema: schemaTables, Kinds: []string{"insert", "insert", "update", "update", "select", "select", "select", "delete"}})
			gt = sqlgen.New(r.Seed, "c13-pgsubst-tpl", sqlgen.PostgreSQL, sqlgen.Options{Strict: true, Schema: schemaTables, Placeholders: "none"})
		}
		var jobs []job
		for i := range harvested {
			h := &harvested[i]
			if h.Explicit && h.Dialect != d || h.ANSI {
				continue
			}
			jobs = append(jobs, job{kind: kind, origin: "harvest", text: h.Text, h: h})
		}
		m.run(jobs, f)
		var corpus []string
		const chunk = 20000
		for done := 0; done < total; {
			n := min(chunk, total-done)
			jobs = jobs[:0]
			for i := 0; i < n; i++ {
				if (done+i)%5 == 4 {
					ph := ""
					if (done+i)%15 == 14 {
						ph = placeholder
					}
					tpl := searchTemplates[((done+i)/5)%len(searchTemplates)]
					if d == sqlgen.PostgreSQL {
						tpl = strings.ReplaceAll(tpl, "<=>", "=")
					}
					jobs = append(jobs, job{kind: kind, origin: "template", text: fillTemplate(gt, tpl, ph)})
					continue
				}
				st := g.Next()
				jobs = append(jobs, job{kind: kind, origin: "gen", text: st.Text, st: st})
			}
			m.run(jobs, f)
			for _, j := range jobs {
				corpus = append(corpus, j.text)
			}
			done += n
		}
		if derive != nil {
			jobs = jobs[:0]
			for _, text := range derive(d.String(), corpus) {
				jobs = append(jobs, job{kind: kind, origin: "derived", text: text})
			}
			m.run(jobs, f)
		}
	}
	return nil
}

// panicSite names the innermost Acra function on the stack.
func panicSite(stack string) string {
	for _, ln := range strings.Split(stack, "\n") {
		if strings.HasPrefix(ln, "github.com/cossacklabs/acra/") {
			if i := strings.LastIndex(ln, "("); i > 0 {
				ln = ln[:i]
			}
			return strings.TrimPrefix(ln, "github.com/cossacklabs/acra/")
		}
	}
	return "unknown"
}

// suspects lists the unusual constructs of a generated statement, used to key signatures by construction.
var suspectFeatures = map[string]bool{"ident-embedded-quote": true, "order-by-null": true, "order-by-rand": true, "alias-quoted": true, "in-listarg": true,
	"group-concat-separator": true, "collate": true, "convert-using": true, "pg-typecast-chain": true, "insert-empty-row": true, "union-lhs-order-limit": true, "json-extract": true}

func suspects(st *sqlgen.Stmt) string {
	if st == nil {
		return "n/a"
	}
	var s []string
	for _, f := range st.Features {
		if suspectFeatures[f] {
			s = append(s, f)
		}
	}
	if len(s) == 0 {
		return "none"
	}
	return strings.Join(s, "+")
}

// hazards inspects the tree the parser built for constructs whose printed form is known to be fragile; it is used
// only to name the cause in a violation signature (the verdict itself never depends on it).
func hazards(t interface{}) string {
	found := map[string]bool{}
	var walk func(v reflect.Value, depth int)
	walk = func(v reflect.Value, depth int) {
		if depth > 80 || !v.IsValid() {
			return
		}
		switch v.Kind() {
		case reflect.Interface, reflect.Ptr:
			if !v.IsNil() {
				walk(v.Elem(), depth+1)
			}
		case reflect.Struct:
			t := v.Type()
			switch t {
			case colIdentType, tableIdentType:
				name := "val"
				if t == tableIdentType {
					name = "v"
				}
				q := v.FieldByName("quote").Uint()
				if q != 0 && strings.ContainsRune(v.FieldByName(name).String(), rune(q)) {
					found["quoted-identifier-containing-its-quote"] = true
				}
				return
			}
			switch t.Name() {
			case "Insert":
				if v.CanAddr() && v.Addr().CanInterface() {
					if ins, ok := v.Addr().Interface().(*sqlparser.Insert); ok && len(ins.OnDup) > 0 && endsInOpenJoin(ins.Rows) {
						found["insert-select-ending-in-join-without-condition-before-on-duplicate-key"] = true
					}
				}
			case "FuncExpr":
				// a function name that is not a plain word is printed without the quotes it was written with
				if name := v.FieldByName("Name").FieldByName("val").String(); name != "" && !plainWord(name) {
					found["function-name-needing-quotes"] = true
				}
			case "AliasedTableExpr":
				if as := v.FieldByName("As"); as.FieldByName("v").String() == "" && as.FieldByName("quote").Uint() != 0 {
					found["empty-quoted-table-alias"] = true
				}
			case "GroupConcatExpr":
				sep := v.FieldByName("Separator").String()
				if i := strings.Index(sep, "'"); i >= 0 && len(sep) > i+2 {
					if inner := sep[i+1 : len(sep)-1]; strings.ContainsAny(inner, "'\\") {
						found["group-concat-separator-needing-escape"] = true
					}
				}
			case "ConvertType":
				if v.FieldByName("Type").String() == "varchar" {
					found["cast-to-varchar"] = true
				}
			}
			for i := 0; i < v.NumField(); i++ {
				walk(v.Field(i), depth+1)
			}
		case reflect.Slice:
			if v.Type().Elem().Kind() == reflect.Uint8 {
				return
			}
			for i := 0; i < v.Len(); i++ {
				walk(v.Index(i), depth+1)
			}
		}
	}
	walk(reflect.ValueOf(t), 0)
	if len(found) == 0 {
		return "unknown"
	}
	var out []string
	for k := range found {
		out = append(out, k)
	}
	sort.Strings(out)
	return strings.Join(out, "+")
}

func plainWord(s string) bool {
	for i := 0; i < len(s); i++ {
		c := s[i]
		if !(c == '_' || c >= 'a' && c <= 'z' || c >= 'A' && c <= 'Z' || i > 0 && c >= '0' && c <= '9') {
			return false
		}
	}
	return true
}

// endsInOpenJoin: the statement text ends with "JOIN <table>" without ON / USING, so that a following
// ON DUPLICATE KEY would be read as the join condition once the parentheses around the SELECT are dropped.
func endsInOpenJoin(rows sqlparser.InsertRows) bool {
	if u, isUnion := rows.(*sqlparser.Union); isUnion {
		// the text ends with the union's last member
		if u.OrderBy != nil || u.Limit != nil || u.Lock != "" {
			return false
		}
		if right, ok := u.Right.(*sqlparser.Select); ok {
			return endsInOpenJoin(right)
		}
		return false
	}
	sel, ok := rows.(*sqlparser.Select)
	if !ok || sel.Where != nil || sel.GroupBy != nil || sel.Having != nil || sel.OrderBy != nil || sel.Limit != nil || sel.Lock != "" || len(sel.From) == 0 {
		return false
	}
	// joins associate to the left: the top node of the last FROM element is the join written last
	j, ok := sel.From[len(sel.From)-1].(*sqlparser.JoinTableExpr)
	return ok && j.Condition.On == nil && j.Condition.Using == nil && !strings.HasPrefix(j.Join, "natural")
}

func valTypeName(t sqlparser.ValType) string {
	names := []string{"StrVal", "IntVal", "FloatVal", "HexNum", "HexVal", "ValArg", "BitVal", "PgEscapeString", "PgPlaceholder", "UnknownVal"}
	if int(t) < len(names) {
		return names[t]
	}
	return fmt.Sprint(int(t))
}

// describe turns a diff into a stable signature fragment + details.
func describe(d *diffResult) (string, []string) {
	var parts, detail []string
	seen := map[string]bool{}
	add := func(s string) {
		if !seen[s] {
			seen[s] = true
			parts = append(parts, s)
		}
	}
	for _, o := range d.Other {
		add(shortPath(o))
		detail = append(detail, o)
	}
	for _, l := range d.Leaves {
		add(fmt.Sprintf("%s{%s->%s}", shortPath(l.Path), valTypeName(l.Old.Type), valTypeName(l.New.Type)))
		detail = append(detail, fmt.Sprintf("%s: %s %q cast %q -> %s %q cast %q", l.Path, valTypeName(l.Old.Type), l.Old.Val, l.Old.CastType, valTypeName(l.New.Type), l.New.Val, l.New.CastType))
	}
	sort.Strings(parts)
	if len(parts) > 3 {
		parts = parts[:3]
	}
	return strings.Join(parts, ","), detail
}

// onlyNamedBindvars: the trees differ only in the names of bind variables (":name" re-read as ":vN").
func onlyNamedBindvars(d *diffResult) bool {
	if len(d.Other) > 0 || len(d.Rewrites) > 0 || len(d.Leaves) == 0 {
		return false
	}
	for _, l := range d.Leaves {
		if l.Old.Type != sqlparser.ValArg || l.New.Type != sqlparser.ValArg || !bytes.Equal(l.Old.CastType, l.New.CastType) {
			return false
		}
	}
	return true
}

// roundTrip applies oracles (1) (2) (3) and, for generated MySQL statements, (5) to one statement text.
func (m *mon) roundTrip(j job) (o outcome) {
	parser := sqlparser.New(sqlparser.ModeStrict)
	t, err := parser.Parse(j.text)
	if err != nil {
		o.count("rejected_by_parser:" + j.origin)
		return
	}
	o.accepted = true
	if !isDML(t) {
		o.count("accepted_not_dml:" + j.origin)
		return
	}
	o.dml = true
	o.text = j.text
	kind := stmtType(t)
	base := map[string]interface{}{"dialect": m.d.String(), "origin": j.origin, "statement": j.text}
	if j.h != nil {
		base["source"] = fmt.Sprintf("%s:%d", j.h.File, j.h.Line)
	}
	if j.donor != "" {
		base["splice_of"] = j.donor
	}
	with := func(extra map[string]interface{}) map[string]interface{} {
		mm := map[string]interface{}{}
		for k, v := range base {
			mm[k] = v
		}
		for k, v := range extra {
			mm[k] = v
		}
		return mm
	}
	p := sqlparser.String(t)
	o.count("dml_statements_judged:" + m.d.String())
	o.count("oracle1_reparse_checked")
	t2, err := parser.Parse(p)
	if err != nil {
		o.violate(fmt.Sprintf("roundtrip(1) printed form does not parse: dialect=%s cause=%s", m.d, hazards(t)),
			with(map[string]interface{}{"printed": p, "error": err.Error(), "kind": kind, "suspects": suspects(j.st)}))
		return
	}
	o.judged = true
	o.count("oracle2_structure_checked")
	if !reflect.DeepEqual(t, t2) {
		d := diffTrees(t, t2, false, 0, m.d == sqlgen.PostgreSQL)
		switch {
		case d.clean():
			// only derived caches differ
		case onlyNamedBindvars(d):
			o.count("named_bindvars_renumbered_not_judged")
		default:
			frag, det := describe(d)
			o.violate(fmt.Sprintf("roundtrip(2) re-parsed tree differs: dialect=%s at=%s", m.d, frag),
				with(map[string]interface{}{"printed": p, "differences": det, "kind": kind, "suspects": suspects(j.st)}))
		}
	}
	o.count("oracle3_fixpoint_checked")
	if p2 := sqlparser.String(t2); p2 != p {
		o.violate(fmt.Sprintf("roundtrip(3) printing is not a fixpoint: dialect=%s cause=%s", m.d, hazards(t)),
			with(map[string]interface{}{"printed": p, "printed_again": p2, "kind": kind, "suspects": suspects(j.st)}))
	}
	if m.d == sqlgen.MySQL && j.st != nil {
		m.literalValues(&o, j, p, kind, with)
	}
	// coverage classes
	if j.st != nil {
		for _, f := range j.st.Features {
			o.distinct = append(o.distinct, fmt.Sprintf("%s|%s|%s", m.d, kind, f))
		}
		o.sets = append(o.sets, [2]string{"generated_kinds_round_tripped", m.d.String() + "|" + kind})
		o.sampleTag = "gen-" + m.d.String() + "-" + kind
		o.sample = map[string]interface{}{"dialect": m.d.String(), "origin": j.origin, "statement": j.text, "printed": p, "features": j.st.Features}
	} else if j.h != nil {
		o.distinct = append(o.distinct, fmt.Sprintf("harvest|%s|%s|%s", m.d, kind, j.h.File))
		o.count("harvested_dml_round_tripped:" + m.d.String())
	} else {
		o.distinct = append(o.distinct, fmt.Sprintf("splice|%s|%s|%s", m.d, kind, j.tag))
		o.count("splices_round_tripped:" + m.d.String())
		o.sampleTag = "splice-" + m.d.String()
		o.sample = map[string]interface{}{"dialect": m.d.String(), "origin": "splice", "donor": j.donor, "statement": j.text, "printed": p}
	}
	return
}

func originClass(o string) string {
	if strings.HasPrefix(o, "gen") {
		return "gen"
	}
	return o
}

// literalValues is oracle (5): every literal the generator wrote must still be present, in order and with the
// value MySQL itself would read, in the printed statement (checked with the independent MySQL lexer).
func (m *mon) literalValues(o *outcome, j job, printed, kind string, with func(map[string]interface{}) map[string]interface{}) {
	o.count("oracle5_literal_values_checked")
	lx, err := sqlgen.LexLiterals(sqlgen.MySQL, printed)
	if err != nil {
		o.violate(fmt.Sprintf("roundtrip(5) printed form is not lexable as MySQL text: kind=%s suspects=%s", kind, suspects(j.st)), with(map[string]interface{}{"printed": printed, "error": err.Error()}))
		return
	}
	// lex the received text the same way: both sequences (literals plus literal-looking tokens such as type
	// lengths and quoted aliases) must be equal element by element; the only tokens a printed statement
	// legitimately lacks are quoted charset / collation names, which the printer writes without quotes
	lo, err := sqlgen.LexLiterals(sqlgen.MySQL, j.text)
	if err != nil {
		o.count("oracle5_original_not_lexable")
		return
	}
	byOffset := map[int]sqlgen.Literal{}
	for _, l := range j.st.Literals {
		off := l.Offset
		if strings.HasPrefix(l.Spelling, "-") {
			off++
		}
		byOffset[off] = l
	}
	pos := 0
	for _, c := range lo {
		rec, recorded := byOffset[c.Offset]
		if !recorded && c.Class == "string" && charsetNames[string(c.Value)] {
			continue
		}
		if pos < len(lx) && lx[pos].Class == c.Class && bytes.Equal(lx[pos].Value, c.Value) {
			pos++
			continue
		}
		got := "<none>"
		if pos < len(lx) {
			got = lx[pos].Spelling
		}
		kind, cause := "non-literal-token", "not-a-literal"
		if recorded {
			kind, cause = string(rec.Kind), literalCause(rec)
		}
		o.violate(fmt.Sprintf("roundtrip(5) literal value altered for the database: dialect=mysql literal=%s cause=%s", kind, cause),
			with(map[string]interface{}{"printed": printed, "literal_spelling": c.Spelling, "printed_spelling": got, "value_mysql_reads_hex": ev.Hex(c.Value), "slot": rec.Slot}))
		return
	}
	if pos != len(lx) {
		o.violate("roundtrip(5) printed statement carries a literal the received one did not have: dialect=mysql", with(map[string]interface{}{"printed": printed, "extra": lx[pos].Spelling}))
	}
}

// charsetNames are the quoted charset / collation names the generator writes (features collate, convert-using).
var charsetNames = map[string]bool{"utf8_bin": true, "utf8": true}

func litClass(l sqlgen.Literal) (string, []byte) {
	switch {
	case l.Kind.IsString():
		return "string", l.Value
	case l.Kind.IsNumber():
		return "number", bytes.TrimPrefix([]byte(l.Spelling), []byte("-"))
	case l.Kind == sqlgen.LitHexNum:
		return "hexnum", l.Value
	case l.Kind == sqlgen.LitHexStr:
		return "hexstr", l.Value
	}
	return "bit", l.Value
}

// literalCause classifies a literal by how it was spelled (never by what Acra printed).
func literalCause(l sqlgen.Literal) string {
	if l.Kind.IsString() {
		switch {
		case strings.HasSuffix(l.Slot, "func-arg/separator") && strings.ContainsAny(string(l.Value), `'\`):
			return "group-concat-separator-needing-escape"
		case bytes.HasPrefix(l.Value, []byte(`\x`)):
			return "value-starts-with-backslash-x"
		case strings.Contains(l.Spelling, `\%`) || strings.Contains(l.Spelling, `\_`):
			return "backslash-percent-or-underscore"
		case strings.Contains(l.Spelling, `\`):
			return "other-backslash-escape"
		}
		return "plain-string"
	}
	return "number"
}

// ---- splices ----

var exprIface = reflect.TypeOf((*sqlparser.Expr)(nil)).Elem()

func collectExprSlots(v reflect.Value, out *[]reflect.Value, depth int) {
	if depth > 60 {
		return
	}
	switch v.Kind() {
	case reflect.Interface:
		if v.IsNil() {
			return
		}
		if v.Type() == exprIface && v.CanSet() {
			*out = append(*out, v)
		}
		collectExprSlots(v.Elem(), out, depth+1)
	case reflect.Ptr:
		if v.IsNil() {
			return
		}
		collectExprSlots(v.Elem(), out, depth+1)
	case reflect.Struct:
		t := v.Type()
		for i := 0; i < v.NumField(); i++ {
			if t.Field(i).PkgPath != "" {
				continue
			}
			collectExprSlots(v.Field(i), out, depth+1)
		}
	case reflect.Slice:
		if v.Type().Elem().Kind() == reflect.Uint8 {
			return
		}
		for i := 0; i < v.Len(); i++ {
			collectExprSlots(v.Index(i), out, depth+1)
		}
	}
}

// splice grafts an expression sub-tree of the donor into an expression slot of the recipient and returns the text.
func (m *mon) splice(j job) (string, string, bool) {
	parser := sqlparser.New(sqlparser.ModeStrict)
	dt, err1 := parser.Parse(j.donor)
	rt, err2 := parser.Parse(j.text)
	if err1 != nil || err2 != nil {
		return "", "", false
	}
	var dslots, rslots []reflect.Value
	collectExprSlots(reflect.ValueOf(dt), &dslots, 0)
	collectExprSlots(reflect.ValueOf(rt), &rslots, 0)
	if len(dslots) == 0 || len(rslots) == 0 {
		return "", "", false
	}
	rng := gen.New(m.r.Seed, "c13-splice-"+j.tag)
	src := dslots[rng.Intn(len(dslots))]
	dst := rslots[rng.Intn(len(rslots))]
	tag := fmt.Sprintf("%s into slot holding %s", strings.TrimPrefix(src.Elem().Type().String(), "*sqlparser."), strings.TrimPrefix(dst.Elem().Type().String(), "*sqlparser."))
	dst.Set(src)
	return sqlparser.String(rt), tag, true
}

func (m *mon) spliceJob(j job) (o outcome) {
	text, tag, ok := m.splice(j)
	if !ok {
		o.count("splice_not_possible")
		return
	}
	nj := job{kind: "splice", origin: "splice", text: text, donor: j.donor + "  =>  " + j.text, tag: tag}
	return m.roundTrip(nj)
}

// Run is the C13 monitor.
func Run(r *ev.Run) {
	r.Rule = "cases = statements of both dialect modes of Acra's parser: (a) every SQL string harvested at run time from /repo/sqlparser test sources, " +
		"(b) seeded grammar-based generator output (SELECT joins/sub-selects/unions/group/order/limit, INSERT multi-row / ON DUPLICATE KEY / INSERT..SELECT / SET form, UPDATE, DELETE, all expression forms, quoting styles, casts, placeholders), " +
		"(c) splices of expression sub-trees between accepted statements, (d) statements rewritten by the real query rewriters (QueryDataEncryptor / HashQuery of each dialect over a generated column configuration with a marker-returning stub encryptor) and by direct UpdateExpressionValue edits of <=3 literals. " +
		"A case is non-trivial when the parser accepted the statement as DML and all oracles were evaluated; distinct = (dialect, statement kind, grammar feature) for generated statements, (dialect, kind, source file) for harvested ones, (dialect, kind, donor node type, slot node type) for splices, (path, statement kind, edit class) for rewrites"
	r.Assumptions = []string{
		"oracles (1)-(3) are decided with Acra's own parser in the dialect mode set through sqlparser.SetDefaultDialect, as acra-server does at start-up",
		"oracle (5) (literal values as MySQL reads them) uses the independent lexer of rig/sqlgen, MySQL mode only, generated statements only",
		"PostgreSQL rewriting is judged on pg_query (PostgreSQL's own grammar) parse trees modulo source locations, because Acra re-serialises PostgreSQL statements with pg_query.Deparse",
		"value substitution is performed by the real OnQuery code paths with a stub DataEncryptor / fixed HMAC key; which columns are selected for encryption is C04's subject, not judged here",
		"DDL, SHOW, SET, PREPARE and other non-DML statements are outside the property (the printer abbreviates them deliberately)",
	}
	harvested, err := sqlgen.Harvest(sqlgen.RepoPath())
	if err != nil {
		r.Violation("non-vacuity:harvest", map[string]interface{}{"error": err.Error()})
		return
	}
	r.Extra("harvested_strings", len(harvested))
	for _, d := range []sqlgen.Dialect{sqlgen.MySQL, sqlgen.PostgreSQL} {
		setDialect(d)
		m := &mon{r: r, d: d}
		m.phaseRoundTrip(harvested)
		m.phaseSplice()
		if d == sqlgen.MySQL {
			m.phaseSubstMySQL()
		} else {
			m.phaseSubstPG()
		}
		m.phaseComments()
	}
	setDialect(sqlgen.MySQL)
	// non-vacuity
	r.RequireAtLeast("harvested_dml_round_tripped:mysql", 300)
	r.RequireAtLeast("harvested_dml_round_tripped:postgresql", 200)
	r.RequireAtLeast("dml_statements_judged:mysql", int64(r.Pick(6000, 300000)))
	r.RequireAtLeast("dml_statements_judged:postgresql", int64(r.Pick(6000, 300000)))
	r.RequireAtLeast("splices_round_tripped:mysql", int64(r.Pick(800, 30000)))
	r.RequireAtLeast("splices_round_tripped:postgresql", int64(r.Pick(800, 30000)))
	r.RequireAtLeast("oracle5_literal_values_checked", int64(r.Pick(3000, 150000)))
	r.RequireAtLeast("mysql_rewrite_judged", int64(r.Pick(500, 20000)))
	r.RequireAtLeast("mysql_rewrite_leaves_replaced", int64(r.Pick(500, 20000)))
	r.RequireAtLeast("mysql_search_rewrites", int64(r.Pick(200, 8000)))
	r.RequireAtLeast("mysql_edit_judged", int64(r.Pick(800, 30000)))
	r.RequireAtLeast("pg_rewrite_judged", int64(r.Pick(300, 8000)))
	r.RequireAtLeast("pg_rewrite_leaves_replaced", int64(r.Pick(150, 4000)))
	r.RequireAtLeast("pg_search_rewrites", int64(r.Pick(50, 2000)))
	r.RequireSetAtLeast("generated_kinds_round_tripped", 12)
	commentGuards(r)
}

func (m *mon) phaseRoundTrip(harvested []sqlgen.Harvested) {
	var jobs []job
	for i := range harvested {
		h := &harvested[i]
		if h.Explicit && h.Dialect != m.d || h.ANSI {
			continue
		}
		jobs = append(jobs, job{kind: "roundtrip", origin: "harvest", text: h.Text, h: h})
	}
	outs := m.run(jobs, m.roundTrip)
	for _, o := range outs {
		if o.dml && o.judged && len(m.pool) < 4000 {
			m.pool = append(m.pool, o.text)
		}
	}
	total := m.r.Pick(7000, 450000)
	gens := []struct {
		g      *sqlgen.Gen
		origin string
		share  int
	}{
		{sqlgen.New(m.r.Seed, "c13-rt", m.d, sqlgen.Options{Schema: schemaTables}), "gen", 6},
		{sqlgen.New(m.r.Seed, "c13-rt-deep", m.d, sqlgen.Options{MaxDepth: 5}), "gen-deep", 2},
		{sqlgen.New(m.r.Seed, "c13-rt-strict", m.d, sqlgen.Options{Strict: true, Schema: schemaTables}), "gen-strict", 2},
	}
	const chunk = 20000
	for done := 0; done < total; {
		n := chunk
		if total-done < n {
			n = total - done
		}
		jobs = jobs[:0]
		for i := 0; i < n; i++ {
			k := (done + i) % 10
			gi := 0
			switch {
			case k >= 8:
				gi = 2
			case k >= 6:
				gi = 1
			}
			st := gens[gi].g.Next()
			jobs = append(jobs, job{kind: "roundtrip", origin: gens[gi].origin, text: st.Text, st: st})
		}
		outs := m.run(jobs, m.roundTrip)
		for _, o := range outs {
			if o.dml && o.judged && len(m.pool) < 4000 && len(o.text) < 600 {
				m.pool = append(m.pool, o.text)
			}
		}
		done += n
	}
}

func (m *mon) phaseSplice() {
	total := m.r.Pick(2500, 100000)
	if len(m.pool) < 10 {
		return
	}
	rng := gen.New(m.r.Seed, "c13-splice-pick-"+m.d.String())
	const chunk = 20000
	for done := 0; done < total; {
		n := chunk
		if total-done < n {
			n = total - done
		}
		jobs := make([]job, 0, n)
		for i := 0; i < n; i++ {
			jobs = append(jobs, job{kind: "splice", origin: "splice", donor: m.pool[rng.Intn(len(m.pool))], text: m.pool[rng.Intn(len(m.pool))], tag: fmt.Sprintf("%s-%d", m.d, done+i)})
		}
		m.run(jobs, m.spliceJob)
		done += n
	}
}
