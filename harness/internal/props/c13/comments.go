package c13

import (
	"fmt"
	"math/rand"
	"regexp"
	"strings"

	pg_query "github.com/cossacklabs/pg_query_go/v5"

	mysqlenc "github.com/cossacklabs/acra/encryptor/mysql"
	pgenc "github.com/cossacklabs/acra/encryptor/postgresql"
	hashq "github.com/cossacklabs/acra/hmac/decryptor/mysql"
	pghash "github.com/cossacklabs/acra/hmac/decryptor/postgresql"
	"github.com/cossacklabs/acra/sqlparser"

	"verif/harness/internal/ev"
	"verif/harness/internal/gen"
	"verif/harness/internal/rig/sqlgen"
)

// Comment layer. A statement S is made from an accepted statement by writing comments into the white space between
// its tokens; R is S as the database reads it (comments removed by the reference scanner of refstrip.go, which knows
// nothing of Acra's tokenizer). Text a database treats as comment must not become part of the statement Acra sends,
// and text the database executes must not be taken for comment:
//   (A) Parse(S) and Parse(R) are the same structure;
//   (B) P = String(Parse(S)), the text sent instead of S: Parse(P), and Parse(P as the database reads it), are that
//       structure too (comments Acra keeps behind the verb are printed into P: they must still end where they ended);
//   (C) the real rewriters give, for S and for R, forwarded texts that the database reads as the same structure
//       (stub encryptor and HMAC key are deterministic, so substituted values are equal on both sides).
// The `Comments` lists of the tree (leading comments Acra keeps verbatim) are the one thing not compared.

type commentClass struct {
	kind string // dash | dash-tab | dash-nospace | hash | block | block-empty | block-stars | block-multiline | block-inner-opener | block-inner-opener-sql-dash-closer
	end  string // line comments: lf | crlf | cr-sql-lf | cr | eof | cr-eof | vt-sql-lf | ff-sql-lf | nel-sql-lf | u2028-sql-lf | empty-lf ; block: n/a
	body string // plain | sql | quote | starter
}

func (c commentClass) String() string {
	return fmt.Sprintf("comment=%s end=%s body=%s", c.kind, c.end, c.body)
}

var (
	lineEnds      = []string{"lf", "crlf", "cr-sql-lf", "cr", "eof", "cr-eof", "vt-sql-lf", "ff-sql-lf", "nel-sql-lf", "u2028-sql-lf", "empty-lf"}
	commentBodies = []string{"plain", "sql", "quote", "starter"}
	blockKinds    = []string{"block", "block-empty", "block-stars", "block-multiline", "block-inner-opener", "block-inner-opener-sql-dash-closer"}

	sqlFragments   = []string{" or 1 = 1", " and 0", " + 1", ", 1", " limit 1", " or x > 0", "; drop table t", "' or ''='", " union select 1", " where 1 = 0", " order by 1"}
	plainBodies    = []string{"audit", "note for the reader", "keep", "2024-01-01 ticket 4711", "x"}
	quoteBodies    = []string{"it's", `say "x"`, "tick ` here", `'`, `"`, `don''t`, `back\slash'`}
	starterBodies  = []string{"# x", "/* x", "-- x", "x */ y", "// x", "--", "/*", "#", "-- /* # //"}
	literalDecoys  = []string{"a -- b", "/* x", "x */", "# y", "--", "/**/", "a\n-- b", "$$", "-- \r x"}
	blockSafeQuote = []string{"it's", `say "x"`, "tick ` here", `'`, `"`}
)

func commentClasses(d sqlgen.Dialect) []commentClass {
	var out []commentClass
	kinds := []string{"dash", "dash-tab"}
	if d == sqlgen.MySQL {
		kinds = append(kinds, "hash")
	} else {
		kinds = append(kinds, "dash-nospace")
	}
	for _, k := range kinds {
		for _, e := range lineEnds {
			if e == "empty-lf" {
				out = append(out, commentClass{k, e, "plain"})
				continue
			}
			for _, b := range commentBodies {
				out = append(out, commentClass{k, e, b})
			}
		}
	}
	for _, k := range blockKinds {
		if k == "block-empty" {
			out = append(out, commentClass{k, "n/a", "plain"})
			continue
		}
		for _, b := range commentBodies {
			out = append(out, commentClass{k, "n/a", b})
		}
	}
	return out
}

func pickS(r *rand.Rand, xs []string) string { return xs[r.Intn(len(xs))] }

// commentText builds one comment of the class. atEnd: the comment is written behind the last token.
func commentText(r *rand.Rand, d sqlgen.Dialect, c commentClass) string {
	body := ""
	switch c.body {
	case "plain":
		body = pickS(r, plainBodies)
	case "sql":
		body = "x" + pickS(r, sqlFragments)
	case "quote":
		body = pickS(r, quoteBodies)
	case "starter":
		body = pickS(r, starterBodies)
	}
	frag := pickS(r, sqlFragments)
	if strings.HasPrefix(c.kind, "block") {
		// a block body must not end the comment early, and must not be a version comment / hint
		body = strings.ReplaceAll(body, "*/", "* /")
		if c.body == "quote" {
			body = pickS(r, blockSafeQuote)
		}
		if d == sqlgen.PostgreSQL {
			body = strings.ReplaceAll(body, "/*", "/ *") // openers are written deliberately below, balanced
		}
		switch c.kind {
		case "block":
			return "/* " + body + " */"
		case "block-empty":
			return "/**/"
		case "block-stars":
			return "/*** " + body + " **/"
		case "block-multiline":
			return "/* " + body + "\n-- " + body + "\r\n# " + body + "\r */"
		case "block-inner-opener":
			if d == sqlgen.PostgreSQL {
				return "/* a /* " + body + " */ c */"
			}
			return "/* a /* " + body + " */"
		case "block-inner-opener-sql-dash-closer":
			// MySQL: the comment ends at the first */, the fragment is SQL, "-- */" is a line comment.
			// PostgreSQL: one nested comment up to the last */.
			return "/* a /* " + body + " */" + frag + " -- */\n"
		}
	}
	start := "-- "
	switch c.kind {
	case "dash-tab":
		start = "--\t"
	case "dash-nospace":
		start = "--"
	case "hash":
		start = "#"
	}
	switch c.end {
	case "lf":
		return start + body + "\n"
	case "crlf":
		return start + body + "\r\n"
	case "cr-sql-lf":
		return start + body + "\r" + frag + "\n"
	case "cr":
		return start + body + "\r"
	case "eof":
		return start + body
	case "cr-eof":
		return start + body + "\r"
	case "vt-sql-lf":
		return start + body + "\v" + frag + "\n"
	case "ff-sql-lf":
		return start + body + "\f" + frag + "\n"
	case "nel-sql-lf":
		return start + body + "\u0085" + frag + "\n"
	case "u2028-sql-lf":
		return start + body + "\u2028" + frag + "\n"
	case "empty-lf":
		return strings.TrimRight(start, " ") + "\n"
	}
	return start + body + "\n"
}

type commentCase struct {
	class    commentClass
	base     string
	text     string
	inserted []string
	decoy    string
	origin   string
}

// buildCommentCase writes 1-2 comments of one class into the white space of base (positions by the reference scanner).
func buildCommentCase(r *rand.Rand, d sqlgen.Dialect, c commentClass, base, origin string) (commentCase, bool) {
	cc := commentCase{class: c, base: base, origin: origin}
	segs, err := refScan(d, base)
	if err != nil {
		return cc, false
	}
	// decoy: comment starters inside a string literal are not comments
	if r.Intn(4) == 0 {
		var cands []refSeg
		for _, sg := range segs {
			if sg.kind == 'q' && base[sg.start] == '\'' && sg.end-sg.start >= 2 && !strings.ContainsAny(base[sg.start+1:sg.end-1], `'\`) &&
				(sg.start == 0 || !refIsIdent(base[sg.start-1])) && !charsetNames[base[sg.start+1:sg.end-1]] {
				cands = append(cands, sg)
			}
		}
		if len(cands) > 0 {
			sg := cands[r.Intn(len(cands))]
			cc.decoy = pickS(r, literalDecoys)
			base = base[:sg.start] + "'" + cc.decoy + "'" + base[sg.end:]
			if segs, err = refScan(d, base); err != nil {
				return cc, false
			}
		}
	}
	trimmed := strings.TrimRight(base, " \t\r\n")
	endOnly := c.end == "eof" || c.end == "cr-eof"
	var gaps []refSeg
	for _, sg := range segs {
		if sg.kind == 'w' && sg.start > 0 && sg.end < len(trimmed) {
			gaps = append(gaps, sg)
		}
	}
	atEnd := endOnly || len(gaps) == 0 || r.Intn(3) == 0
	if atEnd && strings.HasSuffix(trimmed, ";") {
		if endOnly || len(gaps) == 0 {
			return cc, false
		}
		atEnd = false
	}
	if atEnd {
		ct := commentText(r, d, c)
		cc.inserted = append(cc.inserted, ct)
		cc.text = trimmed + " " + ct
		return cc, true
	}
	n := 1 + r.Intn(2)
	picked := map[int]bool{}
	for i := 0; i < n; i++ {
		picked[r.Intn(len(gaps))] = true
	}
	var b strings.Builder
	last := 0
	for gi, g := range gaps {
		if !picked[gi] {
			continue
		}
		ct := commentText(r, d, c)
		cc.inserted = append(cc.inserted, ct)
		b.WriteString(base[last:g.end])
		b.WriteString(ct)
		if strings.HasPrefix(c.kind, "block") && !strings.HasSuffix(ct, "\n") {
			b.WriteByte(' ')
		}
		last = g.end
	}
	b.WriteString(base[last:])
	cc.text = b.String()
	return cc, true
}

var commentsFieldDiff = regexp.MustCompile(`/[A-Za-z]+\.Comments(\[\])*: `)

// diffIgnoringComments compares two trees; the verbatim `Comments` lists are not compared.
func diffIgnoringComments(a, b interface{}, pg bool) *diffResult {
	d := diffTrees(a, b, false, 0, pg)
	kept := d.Other[:0]
	for _, o := range d.Other {
		if !commentsFieldDiff.MatchString(o) {
			kept = append(kept, o)
		}
	}
	d.Other = kept
	return d
}

func (m *mon) commentsJob(cases []commentCase) func(j job) outcome {
	return func(j job) (o outcome) {
		var idx int
		fmt.Sscan(j.tag, &idx)
		cc := cases[idx]
		class := cc.class
		dn := m.d.String()
		det := func(extra map[string]interface{}) map[string]interface{} {
			mm := map[string]interface{}{"dialect": dn, "origin": cc.origin, "base_statement": cc.base, "statement": cc.text, "comments_written": cc.inserted,
				"string_literal_decoy": cc.decoy, "class": class.String()}
			for k, v := range extra {
				mm[k] = v
			}
			return mm
		}
		o.count("comments_cases_built:" + dn)
		R, removed, err := refStrip(m.d, cc.text)
		if err != nil {
			o.count("comments_reference_cannot_read_statement_not_judged")
			return
		}
		if m.d == sqlgen.PostgreSQL {
			m.commentsPG(&o, cc, R, det)
		}
		parser := sqlparser.New(sqlparser.ModeStrict)
		tS, err := parser.Parse(cc.text)
		if err != nil {
			o.count("comments_statement_rejected_by_parser:" + dn)
			return
		}
		if !isDML(tS) {
			o.count("comments_statement_not_dml")
			return
		}
		tR, err := parser.Parse(R)
		if err != nil {
			// Acra reads a statement where the database reads something Acra's parser rejects: nothing to compare with
			o.count("comments_database_reading_rejected_by_parser_not_judged:" + dn)
			return
		}
		o.count("comments_judged:" + dn)
		if removed > 0 {
			o.count("comments_judged_with_comment_removed_by_reference:" + dn)
		} else {
			o.count("comments_judged_nothing_is_comment_for_the_database:" + dn)
		}
		o.distinct = append(o.distinct, fmt.Sprintf("comments|%s|%s|%s", dn, stmtType(tS), class))
		o.sets = append(o.sets, [2]string{"comment_classes_judged:" + dn, class.String()})
		o.sampleTag = "comments-" + dn + "-" + class.kind + "-" + class.end
		// (A)
		if d := diffIgnoringComments(tS, tR, m.d == sqlgen.PostgreSQL); !d.clean() {
			_, dd := describe(d)
			o.violate(fmt.Sprintf("comments(A) statement parses to a different structure than the text the database reads (comments removed by the database's lexical rules): dialect=%s %s", dn, class),
				det(map[string]interface{}{"as_database_reads_it": R, "printed": sqlparser.String(tS), "printed_database_reading": sqlparser.String(tR), "differences": dd}))
			return
		}
		// (B)
		P := sqlparser.String(tS)
		o.sample = map[string]interface{}{"dialect": dn, "class": class.String(), "statement": cc.text, "as_database_reads_it": R, "printed": P}
		tP, err := parser.Parse(P)
		if err != nil && m.knownPrinterDifference(tR) {
			// the comment-free statement itself does not survive print + parse: a defect of the printer that has nothing
			// to do with comments; it is judged by the round-trip oracles (1)-(3) on R and reported under their signatures
			o.count("comments_base_statement_does_not_round_trip_judged_by_roundtrip_oracles")
			o.findings = append(o.findings, m.delegateToRoundTrip(R, tR)...)
			return
		}
		if err != nil {
			o.violate(fmt.Sprintf("comments(B) re-serialised text does not parse: dialect=%s %s", dn, class), det(map[string]interface{}{"printed": P, "error": err.Error()}))
			return
		}
		if d := diffIgnoringComments(tP, tR, m.d == sqlgen.PostgreSQL); !d.clean() {
			if onlyNamedBindvars(d) {
				o.count("named_bindvars_renumbered_not_judged")
			} else if frag, dd := describe(d); !m.knownPrinterDifference(tR) {
				o.violate(fmt.Sprintf("comments(B) re-serialised text parses to a different structure than the text the database reads: dialect=%s %s at=%s", dn, class, frag),
					det(map[string]interface{}{"printed": P, "as_database_reads_it": R, "differences": dd}))
				return
			} else {
				o.count("comments_base_statement_does_not_round_trip_judged_by_roundtrip_oracles")
				o.findings = append(o.findings, m.delegateToRoundTrip(R, tR)...)
				return
			}
		}
		if m.d == sqlgen.PostgreSQL && strings.Contains(P, `\`) {
			// sqlparser's PostgreSQL-mode printer escapes with backslashes; that text never reaches a database (Acra forwards
			// pg_query.Deparse output there), the reference scanner's PostgreSQL string rules do not apply to it
			o.count("comments_pg_printed_text_with_backslash_kept_comments_not_judged")
			return
		}
		PR, keptRemoved, err := refStrip(m.d, P)
		if err != nil {
			o.count("comments_reference_cannot_read_printed_text_not_judged")
			return
		}
		if keptRemoved > 0 {
			o.count("comments_kept_in_printed_text_checked:" + dn)
			tPR, err := parser.Parse(PR)
			if err != nil {
				o.violate(fmt.Sprintf("comments(B) re-serialised text, read as the database reads it, does not parse (a kept comment ends elsewhere): dialect=%s %s", dn, class),
					det(map[string]interface{}{"printed": P, "printed_as_database_reads_it": PR, "error": err.Error()}))
				return
			}
			if d := diffIgnoringComments(tPR, tR, m.d == sqlgen.PostgreSQL); !d.clean() && !onlyNamedBindvars(d) {
				frag, dd := describe(d)
				o.violate(fmt.Sprintf("comments(B) re-serialised text, read as the database reads it, differs from the statement the database was sent (a kept comment ends elsewhere): dialect=%s %s at=%s", dn, class, frag),
					det(map[string]interface{}{"printed": P, "printed_as_database_reads_it": PR, "as_database_reads_it": R, "differences": dd}))
				return
			}
		}
		// (C)
		if m.d == sqlgen.MySQL {
			m.commentsRewriteMySQL(&o, cc, R, det)
		}
		return
	}
}

// knownPrinterDifference: the comment-free statement itself does not survive print + parse (judged and reported by
// the round-trip oracles (1)-(3) under their own signatures); the comment oracles do not report it a second time.
func (m *mon) knownPrinterDifference(tR sqlparser.Statement) bool {
	parser := sqlparser.New(sqlparser.ModeStrict)
	t2, err := parser.Parse(sqlparser.String(tR))
	if err != nil {
		return true
	}
	return !diffIgnoringComments(tR, t2, m.d == sqlgen.PostgreSQL).clean()
}

func rewriteMySQL(text string) (fwd string, changed bool, ok bool) {
	parser := sqlparser.New(sqlparser.ModeStrict)
	ctx := newCtx()
	mgr, _ := mysqlenc.NewArrayQueryObservableManager(ctx)
	mgr.AddQueryObserver(hashq.NewHashQuery(stubKeystore{}, mysqlSchema, stubProcessor{}))
	qe, _ := mysqlenc.NewQueryEncryptor(mysqlSchema, parser, &stubEncryptor{})
	mgr.AddQueryObserver(qe)
	obj, changed, err := mgr.OnQuery(ctx, mysqlenc.NewOnQueryObjectFromQuery(text, parser))
	if err != nil {
		return "", false, false
	}
	return obj.Query(), changed, true
}

// commentsRewriteMySQL is oracle (C) for the MySQL rewriters.
func (m *mon) commentsRewriteMySQL(o *outcome, cc commentCase, R string, det func(map[string]interface{}) map[string]interface{}) {
	if mysqlSchema == nil {
		return
	}
	class := cc.class
	fS, chS, okS := rewriteMySQL(cc.text)
	fR, chR, okR := rewriteMySQL(R)
	if !okS || !okR {
		if okS != okR {
			o.count("comments_rewriter_error_on_one_side_only_not_judged")
		}
		return
	}
	if !chS && !chR {
		o.count("comments_mysql_rewriter_left_both_unchanged")
		return
	}
	if chS != chR {
		o.violate(fmt.Sprintf("comments(C) rewriters change the statement only with / only without its comments: dialect=mysql %s", class),
			det(map[string]interface{}{"as_database_reads_it": R, "forwarded": fS, "forwarded_for_database_reading": fR, "changed_with_comments": chS}))
		return
	}
	o.count("comments_mysql_rewritten_judged")
	parser := sqlparser.New(sqlparser.ModeStrict)
	fSR, _, err := refStrip(sqlgen.MySQL, fS)
	if err != nil {
		o.count("comments_reference_cannot_read_printed_text_not_judged")
		return
	}
	tA, errA := parser.Parse(fSR)
	tB, errB := parser.Parse(fR)
	if errB != nil {
		return // the comment-free statement is not re-serialised into parseable text: oracle (4b)'s subject
	}
	if errA != nil {
		o.violate(fmt.Sprintf("comments(C) forwarded text, read as the database reads it, does not parse: dialect=mysql %s", class),
			det(map[string]interface{}{"forwarded": fS, "forwarded_as_database_reads_it": fSR, "error": errA.Error()}))
		return
	}
	if d := diffIgnoringComments(tA, tB, false); !d.clean() && !onlyNamedBindvars(d) {
		frag, dd := describe(d)
		o.violate(fmt.Sprintf("comments(C) forwarded texts of the statement with and without its comments differ in structure: dialect=mysql %s at=%s", class, frag),
			det(map[string]interface{}{"as_database_reads_it": R, "forwarded": fS, "forwarded_for_database_reading": fR, "differences": dd}))
	}
}

func rewritePG(text string) (fwd string, changed bool, ok bool) {
	ctx := newCtx()
	mgr, _ := pgenc.NewArrayQueryObservableManager(ctx)
	mgr.AddQueryObserver(pghash.NewHashQuery(stubKeystore{}, pgSchema, stubProcessor{}))
	qe, _ := pgenc.NewQueryEncryptor(pgSchema, &stubEncryptor{})
	mgr.AddQueryObserver(qe)
	obj, changed, err := mgr.OnQuery(ctx, pgenc.NewOnQueryObjectFromQuery(text))
	if err != nil {
		return "", false, false
	}
	fwd, err = obj.Query()
	if err != nil {
		return "", false, false
	}
	return fwd, changed, true
}

// commentsPG: the PostgreSQL path of Acra parses with pg_query (PostgreSQL's own scanner) and forwards
// pg_query.Deparse output. (i) self-check of the reference scanner against PostgreSQL's scanner; (ii) oracle (C).
func (m *mon) commentsPG(o *outcome, cc commentCase, R string, det func(map[string]interface{}) map[string]interface{}) {
	tS, err := pg_query.Parse(cc.text)
	if err != nil || len(tS.Stmts) == 0 {
		o.count("comments_pg_query_rejected_statement")
		return
	}
	tR, err := pg_query.Parse(R)
	if err != nil || !pgDiff(tS, tR, false, 0).clean() {
		// not a verdict about Acra: the monitor's reference scanner would be wrong
		o.count("comments_reference_scanner_disagrees_with_postgresql_scanner")
		o.sampleTag = "reference-scanner-disagreement"
		o.sample = det(map[string]interface{}{"as_reference_reads_it": R, "error": fmt.Sprint(err)})
		return
	}
	o.count("comments_reference_scanner_confirmed_by_postgresql_scanner")
	if pgSchema == nil {
		return
	}
	defer func() {
		if p := recover(); p != nil {
			o.count("comments_pg_rewriter_panic_not_judged_here")
		}
	}()
	fS, chS, okS := rewritePG(cc.text)
	fR, chR, okR := rewritePG(R)
	if !okS || !okR || (!chS && !chR) {
		return
	}
	class := cc.class
	if chS != chR {
		o.violate(fmt.Sprintf("comments(C) rewriters change the statement only with / only without its comments: dialect=postgresql %s", class),
			det(map[string]interface{}{"as_database_reads_it": R, "forwarded": fS, "forwarded_for_database_reading": fR}))
		return
	}
	tA, errA := pg_query.Parse(fS)
	tB, errB := pg_query.Parse(fR)
	if errB != nil {
		return
	}
	o.count("comments_pg_rewritten_judged")
	if errA != nil {
		o.violate(fmt.Sprintf("comments(C) forwarded text does not parse: dialect=postgresql %s", class), det(map[string]interface{}{"forwarded": fS, "error": errA.Error()}))
		return
	}
	if d := pgDiff(tA, tB, false, 0); !d.clean() {
		o.violate(fmt.Sprintf("comments(C) forwarded texts of the statement with and without its comments differ in structure: dialect=postgresql %s at=%s", class, pgFrag(d.Other)),
			det(map[string]interface{}{"as_database_reads_it": R, "forwarded": fS, "forwarded_for_database_reading": fR, "differences": d.Other}))
	}
}

// hand-written statements with dollar-quoted strings (PostgreSQL path only; Acra's own parser rejects them)
var pgDollarBases = []string{
	"select id, name from users where email = $$a -- b$$ and age > 1",
	"select $t$ /* $t$ as c, name from users where email = 'x' order by id",
	"update users set name = $q$it's -- /* $q$ where email = 'u@example.com' and id = 5",
	"insert into orders (id, note, token) values (1, $$# -- $$, 'tok')",
}

func (m *mon) phaseComments() {
	total := m.r.Pick(4000, 60000)
	classes := commentClasses(m.d)
	stream := "c13-comments-" + m.d.String()
	opts := sqlgen.Options{Schema: schemaTables, Kinds: []string{"insert", "replace", "update", "update", "select", "select", "select", "union", "delete", "delete"}}
	topts := sqlgen.Options{Schema: schemaTables, Placeholders: "none"}
	if m.d == sqlgen.PostgreSQL {
		opts.Strict, topts.Strict = true, true
		opts.Kinds = []string{"insert", "update", "update", "select", "select", "select", "delete", "delete"}
	}
	g := sqlgen.New(m.r.Seed, stream, m.d, opts)
	gt := sqlgen.New(m.r.Seed, stream+"-tpl", m.d, topts)
	rng := gen.New(m.r.Seed, stream+"-build")
	parser := sqlparser.New(sqlparser.ModeStrict)
	const chunk = 10000
	for done := 0; done < total; {
		n := min(chunk, total-done)
		cases := make([]commentCase, 0, n)
		jobs := make([]job, 0, n)
		for i := 0; i < n; i++ {
			k := done + i
			var base, origin string
			switch {
			case m.d == sqlgen.PostgreSQL && k%97 == 96:
				base, origin = pgDollarBases[(k/97)%len(pgDollarBases)], "dollar-quoted"
			case k%5 < 2:
				tpl := searchTemplates[(k/5)%len(searchTemplates)]
				if m.d == sqlgen.PostgreSQL {
					tpl = strings.ReplaceAll(tpl, "<=>", "=")
				}
				base, origin = fillTemplate(gt, tpl, ""), "template"
			default:
				for try := 0; try < 20; try++ {
					st := g.Next()
					base, origin = st.Text, "gen"
					if t, err := parser.Parse(base); err == nil && isDML(t) && len(base) < 400 {
						break
					}
				}
			}
			cc, ok := buildCommentCase(rng, m.d, classes[k%len(classes)], base, origin)
			if !ok {
				m.r.Count("comments_case_not_buildable", 1)
				continue
			}
			cases = append(cases, cc)
			jobs = append(jobs, job{kind: "comments", origin: origin, text: cc.text, tag: fmt.Sprint(len(cases) - 1)})
		}
		m.run(jobs, m.commentsJob(cases))
		done += n
	}
}

// commentGuards: non-vacuity of the comment layer.
func commentGuards(r *ev.Run) {
	for _, d := range []string{"mysql", "postgresql"} {
		r.RequireAtLeast("comments_judged:"+d, int64(r.Pick(800, 12000)))
		r.RequireAtLeast("comments_judged_with_comment_removed_by_reference:"+d, int64(r.Pick(700, 10000)))
		r.RequireAtLeast("comments_kept_in_printed_text_checked:"+d, int64(r.Pick(20, 300)))
		r.RequireSetAtLeast("comment_classes_judged:"+d, 100)
	}
	r.RequireAtLeast("comments_mysql_rewritten_judged", int64(r.Pick(200, 3000)))
	r.RequireAtLeast("comments_pg_rewritten_judged", int64(r.Pick(100, 1500)))
	r.RequireAtLeast("comments_reference_scanner_confirmed_by_postgresql_scanner", int64(r.Pick(800, 12000)))
}

// delegateToRoundTrip judges the comment-free reading R with the round-trip oracles (1)-(3); the signatures name the
// fragile construct found in the tree (hazards) and where the statement came from.
func (m *mon) delegateToRoundTrip(R string, tR sqlparser.Statement) []finding {
	ro := m.roundTrip(job{kind: "roundtrip", origin: "comments-stripped", text: R, tag: "comments-stripped"})
	for i := range ro.findings {
		if !strings.Contains(ro.findings[i].sig, " cause=") {
			ro.findings[i].sig += " cause=" + hazards(tR)
		}
		ro.findings[i].sig += " origin=comment-free-reading"
	}
	return ro.findings
}
