package c13

import (
	"fmt"
	"os"
	"strings"
	"testing"

	"verif/harness/internal/ev"
	"verif/harness/internal/rig/sqlgen"
)

func TestProbe(t *testing.T) {
	r := ev.New("C13probe", "exploration")
	PanicObserver = func(kind, site, p, s string) { fmt.Printf("PANIC %s %s | %s | %s\n", kind, site, p, s) }
	b, _ := os.ReadFile(os.Getenv("PROBE_FILE"))
	for _, d := range []sqlgen.Dialect{sqlgen.MySQL, sqlgen.PostgreSQL} {
		setDialect(d)
		m := &mon{r: r, d: d}
		mysqlSchema, _ = loadSchema(true)
		pgSchema, _ = loadSchema(false)
		for _, ln := range strings.Split(string(b), "\n") {
			if strings.TrimSpace(ln) == "" {
				continue
			}
			var o outcome
			if d == sqlgen.MySQL {
				o = safely(job{kind: "subst", text: ln}, m.substMySQL)
			} else {
				o = safely(job{kind: "pgsubst", text: ln}, m.substPG)
			}
			fmt.Printf("%s: %q -> %v\n", d, ln, o.counts)
		}
	}
}
