package c05

import (
	"fmt"
	"strings"

	"verif/harness/internal/rig/censorgen"
)

// Tri is a three-valued truth: the by-construction predicates answer Yes / No, or Undecided where the
// documentation makes no promise (those cases are observed and counted, never judged).
type Tri int

const (
	No Tri = iota
	Yes
	Undecided
)

// Rule is one configured rule together with how it was constructed.
type Rule struct {
	Kind    string // query | table | pattern
	Text    string
	SrcID   int                // query/pattern: pool statement the text was made from; -1: an unparseable string
	Variant int                // query: which formatting variant of the source is the rule text
	Pat     *censorgen.Pattern // pattern rules
}

// Handler is one element of the chain.
type Handler struct {
	Kind     string // allow | deny | allowall | denyall | query_ignore | query_capture
	Queries  []Rule
	Tables   []Rule
	Patterns []Rule
	FilePath string
}

// Config is a generated firewall configuration.
type Config struct {
	IgnoreParseError bool
	OmitParseFlag    bool // leave ignore_parse_error out of the YAML (only when false: false is the documented default)
	Handlers         []Handler
}

// Shape is the handler-kind chain shape.
func (c *Config) Shape() string {
	k := make([]string, len(c.Handlers))
	for i, h := range c.Handlers {
		k[i] = h.Kind
	}
	return strings.Join(k, ">")
}

// Input is a statement (pool statement, or an unparseable string) offered to the firewall.
type Input struct {
	S   *censorgen.Stmt // nil: unparseable
	Raw string          // unparseable string
}

func has(rules []Rule, name string) bool {
	for _, r := range rules {
		if r.Text == name {
			return true
		}
	}
	return false
}

// ---- the three match predicates, decided by construction ----

// queryMatches: the rule text is a formatting variant of the statement itself, or it is a different statement.
func queryMatches(r Rule, in Input) Tri {
	if in.S != nil && r.SrcID == in.S.ID {
		return Yes
	}
	return No
}

// tablesMatch: deny matches when ANY table named directly in FROM / INSERT target is listed, allow when ALL are
// (documented by Acra's TestAllowTables / TestDenyTables / TestDifferentTablesParsing). Tables that occur only inside
// sub-selects, statements without a FROM, UPDATE / DELETE targets and UNIONs are not promised anything: Undecided.
func tablesMatch(allow bool, rules []Rule, s *censorgen.Stmt) (Tri, string) {
	direct, sub := 0, 0
	// soft: a direct table that is listed only up to its schema qualifier (rule "t1" / statement "backup.t1" or the other
	// way round). An allow rule admits only the names it spells; whether a DENY rule also stops the other spelling is
	// promised nowhere (qual.go)
	soft := 0
	for _, t := range s.Direct {
		if has(rules, t) {
			direct++
		} else if listedUpToQualifier(rules, t) {
			soft++
		}
	}
	for _, t := range s.Sub {
		if has(rules, t) {
			sub++
		}
	}
	readsOrInserts := s.Kind == "select" || s.Kind == "insert"
	if allow {
		switch {
		case direct < len(s.Direct):
			return No, ""
		case !readsOrInserts:
			return Undecided, "table-rule-vs-" + s.Kind
		case len(s.Direct) == 0 || s.DerivedFrom:
			return Undecided, "allow-tables-vs-no-plain-table-in-from"
		case sub < len(s.Sub):
			return Undecided, "table-only-in-subselect"
		}
		return Yes, ""
	}
	switch {
	case readsOrInserts && direct > 0:
		return Yes, ""
	case direct > 0:
		return Undecided, "table-rule-vs-" + s.Kind
	case soft > 0:
		return Undecided, "deny-table-rule-vs-other-qualification-of-the-name"
	case sub > 0:
		return Undecided, "table-only-in-subselect"
	}
	return No, ""
}

// patternRelation names how the pattern's source relates to the statement; the relation decides the match.
func patternMatches(p *censorgen.Pattern, src, s *censorgen.Stmt) (Tri, string) {
	switch {
	case src.ID == s.ID:
		return Yes, "self" // a derived pattern must match its source
	case src.Kind != s.Kind:
		if p.Whole && (src.Kind == "union" || s.Kind == "union") && (src.Kind == "select" || s.Kind == "select") {
			return Undecided, "whole-select-vs-union"
		}
		return No, "otherkind" // derived from a statement of another kind
	case p.Whole:
		return Yes, "whole-samekind" // %%SELECT%% etc. stand for any statement of the kind
	}
	// siblings differ in exactly one literal: the pattern matches iff that literal was generalised away
	site := -1
	if s.BaseID == src.ID {
		site = s.ChangedSite
	} else if src.BaseID == s.ID {
		site = src.ChangedSite
	}
	if site >= 0 {
		in := ":literal-in=" + s.Sites[site].In
		switch {
		case p.Covered[site]:
			return Yes, "sibling-literal-generalised" + in
		case p.Shadow[site]:
			return Undecided, "sibling-literal-after-generalised-where"
		}
		return No, "sibling-literal-kept" + in
	}
	if src.CousinOf == s.ID || s.CousinOf == src.ID { // the two differ exactly by the presence of a WHERE clause
		if len(p.Gen) == 1 && p.Gen[0] == "none" {
			return No, "where-dropped-cousin" // a pattern without placeholders is one statement, and this is another one
		}
		return Undecided, "cousin-with-generalisation"
	}
	// row-count relatives of INSERT ... VALUES statements (censorgen/rows.go): only what is certain is decided
	if v, rel, ok := p.RowRelation(src, s); ok {
		if v == censorgen.RowsNoMatch {
			return No, rel
		}
		return Undecided, rel
	}
	// schema-qualified relatives of one statement (censorgen/qual.go, qual.go): decided occurrence by occurrence
	if t, rel, ok := qualPatternMatches(p, src, s); ok {
		return t, rel
	}
	if strings.Join(src.Direct, ",") != strings.Join(s.Direct, ",") {
		return No, "othertable" // derived from a statement over another table
	}
	return Undecided, "same-kind-same-tables"
}

// patternMatchesIn is patternMatches for a rule of a given handler kind. The row-count relations are judged for
// allow rules only ("not admitted by the allow rules in front of a deny-all terminator"): that a DENY pattern does not
// also catch a statement with additional or missing VALUES rows is promised nowhere (catching it is the restrictive
// direction), so under deny these cases are observed and counted, never judged.
func patternMatchesIn(hkind string, p *censorgen.Pattern, src, s *censorgen.Stmt) (Tri, string) {
	t, rel := patternMatches(p, src, s)
	if hkind == "deny" && t == No && strings.HasPrefix(rel, "rows:") {
		return Undecided, "rows-relative-vs-deny-pattern"
	}
	if hkind == "deny" && t == No && strings.HasPrefix(rel, "qual:") && !strings.HasPrefix(rel, "qual:other-schema") {
		return Undecided, "qual-one-side-unqualified-vs-deny-pattern"
	}
	return t, rel
}

// Decision is the oracle's evaluation of one configuration on one input.
type Decision struct {
	Accept  bool
	Decided bool
	Why     string // undecided: reason; decided: "<handler index>:<handler kind>/<rule kind>"
	HKind   string // deciding handler kind ("" for parse-error / end-of-chain)
	RKind   string // deciding rule kind: query | table | pattern | terminator | parse-error | end-of-chain
}

// Expect evaluates the DOCUMENTED chain semantics: a statement that cannot be parsed is rejected unless
// ignore_parse_error (then allow/deny rules cannot apply to it); handlers are consulted in order; query_capture is
// transparent; query_ignore, allow: match => accept and stop; deny: match => reject; allowall / denyall decide
// everything that reaches them; the end of the chain accepts.
func Expect(c *Config, in Input, pool []*censorgen.Stmt) Decision {
	if in.S == nil && !c.IgnoreParseError {
		return Decision{Accept: false, Decided: true, Why: "parse-error", RKind: "parse-error"}
	}
	for i, h := range c.Handlers {
		dec := func(accept bool, rk string) Decision {
			return Decision{Accept: accept, Decided: true, Why: fmt.Sprintf("%d:%s/%s", i, h.Kind, rk), HKind: h.Kind, RKind: rk}
		}
		switch h.Kind {
		case "query_capture":
		case "allowall":
			return dec(true, "terminator")
		case "denyall":
			return dec(false, "terminator")
		case "query_ignore":
			for _, q := range h.Queries {
				if (in.S == nil && q.SrcID < 0 && q.Text == in.Raw) || queryMatches(q, in) == Yes {
					return dec(true, "query")
				}
			}
		case "allow", "deny":
			if in.S == nil {
				continue
			}
			hit, undecided := "", ""
			for _, q := range h.Queries {
				if hit == "" && queryMatches(q, in) == Yes {
					hit = "query"
				}
			}
			if len(h.Tables) > 0 && hit == "" {
				switch t, why := tablesMatch(h.Kind == "allow", h.Tables, in.S); t {
				case Yes:
					hit = "table"
				case Undecided:
					undecided = why
				}
			}
			for _, p := range h.Patterns {
				switch t, why := patternMatchesIn(h.Kind, p.Pat, pool[p.SrcID], in.S); {
				case t == Yes && hit == "":
					hit = "pattern"
				case t == Undecided && undecided == "":
					undecided = "pattern-" + why
				}
			}
			if hit != "" {
				return dec(h.Kind == "allow", hit)
			}
			if undecided != "" {
				return Decision{Why: undecided}
			}
		}
	}
	return Decision{Accept: true, Decided: true, Why: "end-of-chain", RKind: "end-of-chain"}
}

// YAML renders the configuration in Acra's documented format (configs/acra-censor.example.yaml).
func (c *Config) YAML(version string) []byte {
	var b strings.Builder
	fmt.Fprintf(&b, "version: %s\n", version)
	if c.IgnoreParseError || !c.OmitParseFlag {
		fmt.Fprintf(&b, "ignore_parse_error: %v\n", c.IgnoreParseError)
	}
	b.WriteString("handlers:\n")
	list := func(name string, rs []Rule) {
		if len(rs) == 0 {
			return
		}
		fmt.Fprintf(&b, "    %s:\n", name)
		for _, r := range rs {
			fmt.Fprintf(&b, "      - %q\n", r.Text)
		}
	}
	for _, h := range c.Handlers {
		fmt.Fprintf(&b, "  - handler: %s\n", h.Kind)
		if h.FilePath != "" {
			fmt.Fprintf(&b, "    filepath: %q\n", h.FilePath)
		}
		list("queries", h.Queries)
		list("tables", h.Tables)
		list("patterns", h.Patterns)
	}
	return []byte(b.String())
}
