package c05

// Schema-/database-qualified names (db.t, db.t.col, t.*, db.t.*) in statements AND in rules.
//
// Every pool statement (and a set of extra statements with table-qualified columns and stars in every clause) is the base of
// a FAMILY: the statement itself plus the same statement with a chosen subset of its name occurrences spelled under a schema
// (censorgen.QualRelatives: all tables, all tables under another schema, tables + column qualifiers, only column qualifiers,
// only the tables of the own FROM / target, only the tables inside sub-selects, one table of a join, one column, two schemas
// mixed). Rules are made from EVERY member, so rules with and without qualifier meet statements with and without:
//   - pattern rules derived from each member (whole placeholder, the member itself, subsets of its sites), alone in
//     [allow: p, denyall] and [deny: p];
//   - table rules listing the member's tables as the member spells them, alone in [allow, denyall] and [deny];
//   - query rules (a formatting variant of the member) in allow / deny / query_ignore;
//   - one random chain per family whose rules are drawn from the members.
// Each configuration is asked about every member of the family. Both SQL dialects (the parser's process-global default).
//
// What must hold is decided by construction, from how the two members spell each name occurrence:
//   - a rule made from a member matches that member (self), both handler kinds;
//   - ALLOW ("not admitted by the allow rules in front of a deny-all terminator"): a pattern / table rule admits only what it
//     spells. Wherever the pattern spells a table name or a column / star qualifier and the statement spells the same
//     name under ANOTHER schema, or exactly ONE of the two spells a schema, the statement is not admitted (Acra's own
//     matcher compares TableName.Qualifier; TestAllowQueries refuses testDB.testTbl; the demonstration of seeded8/C05 passes
//     on the unchanged tree). The same for table rules: "t1" does not admit backup.t1 and "backup.t1" does not admit t1;
//   - DENY: a rule spelled under one schema does not stop the name under another schema (another table under every
//     reading, like the existing "othertable"); whether a deny rule WITHOUT schema also stops the qualified name (or the
//     other way round) is promised nowhere - it errs on the restrictive side - and is counted as not decided;
//   - differences only at occurrences the pattern does not spell out (under %%SUBQUERY%% / %%WHERE%% / unqualified %%COLUMN%%,
//     after a generalised WHERE, the qualifier of a single "t.*" select list) are not decided;
//   - query rules: two members are two statements (different normalized texts), both directions, as for any other pair.

import (
	"fmt"
	"math/rand"
	"strings"

	"github.com/cossacklabs/acra/sqlparser"
	"github.com/cossacklabs/acra/sqlparser/dialect"
	mysqlDialect "github.com/cossacklabs/acra/sqlparser/dialect/mysql"
	pgDialect "github.com/cossacklabs/acra/sqlparser/dialect/postgresql"

	"verif/harness/internal/ev"
	"verif/harness/internal/rig/censorgen"
)

// listedUpToQualifier: table t (as a statement spells it) is listed by some rule only up to the schema qualifier.
func listedUpToQualifier(rules []Rule, t string) bool {
	for _, r := range rules {
		if r.Text != t && censorgen.BaseName(r.Text) == censorgen.BaseName(t) && (strings.Contains(r.Text, ".") != strings.Contains(t, ".")) {
			return true
		}
	}
	return false
}

// qualifiedNames: the table rule set or the statement's own tables spell a schema qualifier somewhere.
func qualifiedNames(rules []Rule, s *censorgen.Stmt) bool {
	for _, r := range rules {
		if strings.Contains(r.Text, ".") {
			return true
		}
	}
	for _, t := range s.Direct {
		if strings.Contains(t, ".") {
			return true
		}
	}
	return false
}

// qualPatternMatches decides a pattern derived from one member of a family against another member.
func qualPatternMatches(p *censorgen.Pattern, src, s *censorgen.Stmt) (Tri, string, bool) {
	v, rel, ok := p.QualRelation(src, s)
	if !ok {
		return Undecided, "", false
	}
	if v == censorgen.QualOnlyUnderPlaceholder {
		return Undecided, rel, true
	}
	return No, rel, true // deny + one side unqualified is turned into Undecided by patternMatchesIn
}

// addQualFamilies puts the qualified relatives of the pool statements and of the extra bases behind w.all.
func (w *world) addQualFamilies(seed int64, nBases int, parser *sqlparser.Parser) (refused []string) {
	w.qfam = map[int][]int{}
	g := &censorgen.G{R: rand.New(rand.NewSource(seed*41 + 2027))}
	bases := append([]*censorgen.Stmt{}, w.pool...)
	for _, b := range g.QualBases(nBases) {
		if _, err := parser.Parse(b.Canon); err != nil {
			refused = append(refused, b.Canon)
			continue
		}
		b.ID = len(w.all)
		b.FixVariants()
		w.all = append(w.all, b)
		bases = append(bases, b)
	}
	for _, b := range bases {
		rels := g.QualRelatives(b)
		if len(rels) == 0 {
			continue
		}
		w.qbases = append(w.qbases, b.ID)
		for _, rel := range rels {
			if _, err := parser.Parse(rel.Canon); err != nil {
				refused = append(refused, rel.Canon)
				continue
			}
			rel.ID = len(w.all)
			rel.FixVariants()
			w.all = append(w.all, rel)
			w.qfam[b.ID] = append(w.qfam[b.ID], rel.ID)
		}
	}
	return refused
}

var qualDialects = []struct {
	name string
	d    func() dialect.Dialect
}{
	{"mysql", func() dialect.Dialect { return mysqlDialect.NewMySQLDialect() }},
	{"postgresql", func() dialect.Dialect { return pgDialect.NewPostgreSQLDialect() }},
}

func single(hk string, h Handler) *Config {
	h.Kind = hk
	cfg := &Config{IgnoreParseError: false, Handlers: []Handler{h}}
	if hk != "deny" {
		cfg.Handlers = append(cfg.Handlers, Handler{Kind: "denyall"})
	}
	return cfg
}

// familyChain draws a chain of 2-4 handlers whose rules are made from the members of one family.
func (w *world) familyChain(rng *rand.Rand, g *censorgen.G, members []*censorgen.Stmt) *Config {
	cfg := &Config{IgnoreParseError: rng.Intn(2) == 0}
	kinds := []string{"allow", "allow", "deny", "deny", "query_ignore", "denyall", "allowall"}
	n := 2 + rng.Intn(3)
	for i := 0; i < n; i++ {
		h := Handler{Kind: kinds[rng.Intn(len(kinds))]}
		nr := 1 + rng.Intn(2)
		for j := 0; j < nr; j++ {
			m := members[rng.Intn(len(members))]
			switch {
			case h.Kind == "query_ignore" || ((h.Kind == "allow" || h.Kind == "deny") && rng.Intn(3) == 0):
				v := rng.Intn(censorgen.NVariants)
				h.Queries = append(h.Queries, Rule{Kind: "query", Text: m.Variant(v), SrcID: m.ID, Variant: v})
			case h.Kind != "allow" && h.Kind != "deny":
			case rng.Intn(2) == 0 && len(m.Direct) > 0:
				if t := m.Direct[rng.Intn(len(m.Direct))]; !has(h.Tables, t) {
					h.Tables = append(h.Tables, Rule{Kind: "table", Text: t, SrcID: -1})
				}
			default:
				p := m.Derive(g.RandomMask(m))
				h.Patterns = append(h.Patterns, Rule{Kind: "pattern", Text: p.Text, SrcID: m.ID, Pat: &p})
			}
		}
		cfg.Handlers = append(cfg.Handlers, h)
	}
	return cfg
}

// qualPhase: see the comment at the top of this file. stride: every stride-th family is run (quick tier).
func (w *world) qualPhase(r *ev.Run, masksPer, stride int) {
	defer sqlparser.SetDefaultDialect(mysqlDialect.NewMySQLDialect())
	for di, dl := range qualDialects {
		sqlparser.SetDefaultDialect(dl.d())
		w.dialect = dl.name
		parser := sqlparser.New(sqlparser.ModeStrict)
		fams := []int{}
		for k, b := range w.qbases {
			if (k+di)%stride == 0 || b >= len(w.pool) { // the extra bases (qualified columns / stars) are always run
				fams = append(fams, b)
			}
		}
		dn := dl.name
		parallel(r, len(fams), func(i int) *outcome {
			o := newOutcome()
			base := w.all[fams[i]]
			rng := rand.New(rand.NewSource(w.seed*5_000_011 + int64(fams[i])*19 + int64(di)))
			g := &censorgen.G{R: rng}
			members := []*censorgen.Stmt{}
			// generator hygiene under this dialect, never a verdict: the pool is written in the MySQL dialect's grammar
			// (INTERVAL, X'1F', ...); a statement the other dialect's parser does not know is not run under it
			if _, err := parser.Parse(base.Canon); err != nil {
				o.count("qual_family_skipped_statement_is_not_in_the_grammar_of:" + dn)
				o.samples = append(o.samples, sample{"qual-family-skipped:" + dn, map[string]interface{}{"dialect": dn, "statement": base.Canon, "parser": err.Error()}})
				return o
			}
			for _, id := range append([]int{base.ID}, w.qfam[base.ID]...) {
				m := w.all[id]
				if _, err := parser.Parse(m.Canon); err != nil {
					o.count("qual_member_refused_by_parser:" + dn)
					o.inconcl = append(o.inconcl, fmt.Sprintf("qualified relative of an accepted statement refused by Acra's parser (%s dialect; dropped, not judged): %s", dn, m.Canon))
					continue
				}
				members = append(members, m)
				if m.Qual != nil {
					o.count("qual_relatives")
					o.setAdd("qual_relative_kinds", m.Qual.Kind)
				}
			}
			if len(members) < 2 {
				return o
			}
			o.count("qual_families")
			o.count("qual_families:" + dn)
			o.setAdd("qual_family_shapes", base.Shape)
			for _, oc := range base.Occs {
				o.setAdd("qual_occurrence_classes", oc.Class)
			}
			run := func(cfg *Config, tag string, srcID int, note func(target *censorgen.Stmt)) {
				c, err := load(cfg)
				if err != nil {
					o.inconcl = append(o.inconcl, fmt.Sprintf("%s: generated configuration not loaded (%s): %v: %s", tag, dn, err, cfg.YAML("0.85.0")))
					o.count("qual_config_load_failed")
					return
				}
				defer c.ReleaseAll()
				o.count("qual_configs")
				for k, m := range members {
					if note != nil {
						note(m)
					}
					vs := []int{0}
					if m.ID == srcID {
						vs = []int{0, 1 + (i+k)%(censorgen.NVariants-1)}
					}
					w.check(o, c, cfg, Input{S: m}, tag, vs)
				}
			}
			// pattern rules
			for si, src := range members {
				seen := map[string]bool{}
				pats := derive(src, g, masksPer)
				for pi := range pats {
					p := &pats[pi]
					if seen[p.Text] {
						continue
					}
					seen[p.Text] = true
					for _, hk := range []string{"allow", "deny"} {
						hk := hk
						cfg := single(hk, Handler{Patterns: []Rule{{Kind: "pattern", Text: p.Text, SrcID: src.ID, Pat: p}}})
						o.count("qual_pattern_configs")
						if src.Qual != nil {
							o.count("qual_pattern_configs_with_qualified_pattern")
						}
						run(cfg, fmt.Sprintf("qual-%s-%d-p%d-%d-%s", dn, base.ID, si, pi, hk), src.ID, func(m *censorgen.Stmt) {
							t, rel := patternMatchesIn(hk, p, src, m)
							switch {
							case t == Yes && m.ID == src.ID:
								o.count("qual_pattern_self_match_decided")
								if src.Qual != nil {
									o.count("qual_pattern_self_match_decided_qualified")
								}
							case t == No && strings.HasPrefix(rel, "qual:"):
								o.count("qual_pattern_no_match_decided:" + hk)
								o.count("qual_pattern_no_match_decided:" + dn)
								o.setAdd("qual_pattern_decided_relations", hk+":"+rel)
								o.samples = append(o.samples, sample{"qual-decided:" + hk + ":" + rel, map[string]interface{}{"dialect": dn, "handler": hk, "pattern": p.Text,
									"statement": m.Canon, "pattern_made_from": src.Canon, "relation": rel, "expected": "the pattern does not match the statement"}})
							case t == Undecided && strings.HasPrefix(rel, "qual"):
								o.count("qual_pattern_not_decided:" + rel)
							}
						})
					}
				}
			}
			// table rules: the tables of each member as the member spells them
			seenT := map[string]bool{}
			for si, src := range members {
				key := strings.Join(src.Direct, ",")
				if len(src.Direct) == 0 || seenT[key] {
					continue
				}
				seenT[key] = true
				rules := []Rule{}
				for _, t := range src.Direct {
					rules = append(rules, Rule{Kind: "table", Text: t, SrcID: -1})
				}
				for _, hk := range []string{"allow", "deny"} {
					hk := hk
					run(single(hk, Handler{Tables: rules}), fmt.Sprintf("qual-%s-%d-t%d-%s", dn, base.ID, si, hk), -1, func(m *censorgen.Stmt) {
						if !qualifiedNames(rules, m) {
							return
						}
						switch t, _ := tablesMatch(hk == "allow", rules, m); t {
						case Yes:
							o.count("qual_table_rule_match_decided:" + hk)
						case No:
							o.count("qual_table_rule_no_match_decided:" + hk)
						default:
							o.count("qual_table_rule_not_decided")
						}
					})
				}
			}
			// query rules
			for si, src := range members {
				v := rng.Intn(censorgen.NVariants)
				rule := Rule{Kind: "query", Text: src.Variant(v), SrcID: src.ID, Variant: v}
				for _, hk := range []string{"allow", "deny", "query_ignore"} {
					o.count("qual_query_rule_configs")
					run(single(hk, Handler{Queries: []Rule{rule}}), fmt.Sprintf("qual-%s-%d-q%d-%s", dn, base.ID, si, hk), src.ID, nil)
				}
			}
			// a chain over the family
			for k := 0; k < 2; k++ {
				o.count("qual_chain_configs")
				run(w.familyChain(rng, g, members), fmt.Sprintf("qual-%s-%d-chain%d", dn, base.ID, k), -1, nil)
			}
			return o
		})
	}
	w.dialect = ""
}

func qualGuards(r *ev.Run) {
	r.RequireAtLeast("qual_families:mysql", 50)
	r.RequireAtLeast("qual_families:postgresql", 40)
	r.RequireAtLeast("qual_relatives", 300)
	r.RequireSetAtLeast("qual_relative_kinds", len(censorgen.QualKinds))
	r.RequireSetAtLeast("qual_occurrence_classes", 8)
	r.RequireAtLeast("qual_pattern_configs_with_qualified_pattern", 2000)
	r.RequireAtLeast("qual_pattern_self_match_decided_qualified", 2000)
	r.RequireAtLeast("qual_pattern_no_match_decided:allow", 4000)
	r.RequireAtLeast("qual_pattern_no_match_decided:deny", 1000)
	r.RequireAtLeast("qual_pattern_no_match_decided:mysql", 2500)
	r.RequireAtLeast("qual_pattern_no_match_decided:postgresql", 2000)
	r.RequireSetAtLeast("qual_pattern_decided_relations", 20)
	r.RequireAtLeast("qual_table_rule_match_decided:allow", 100)
	r.RequireAtLeast("qual_table_rule_match_decided:deny", 250)
	r.RequireAtLeast("qual_table_rule_no_match_decided:allow", 800)
	r.RequireAtLeast("qual_table_rule_no_match_decided:deny", 150)
	r.RequireAtLeast("qual_query_rule_configs", 1000)
	r.RequireAtLeast("qual_chain_configs", 150)
}
