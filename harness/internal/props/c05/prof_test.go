package c05

import (
	"io"
	"os"
	"runtime/pprof"
	"testing"

	"github.com/sirupsen/logrus"
	"verif/harness/internal/ev"
)

func TestProf(t *testing.T) {
	logrus.SetOutput(io.Discard)
	os.Setenv("VERIF_ROOT", "/var/tmp/c05-prof-root")
	os.MkdirAll("/var/tmp/c05-prof-root", 0o755)
	f, _ := os.Create("/var/tmp/c05-prof-root/cpu.prof")
	pprof.StartCPUProfile(f)
	r := ev.New("C05", "exploration")
	Run(r)
	pprof.StopCPUProfile()
	r.Finish()
}
