// Package c05 monitors "a statement rejected by the SQL firewall never reaches the database".
// This file is the CENSOR LAYER: (configuration, statement variant) -> AcraCensor.HandleQuery verdict, compared with an
// independent evaluation of the documented chain semantics (oracle.go) whose match predicates are known by construction
// (generator: internal/rig/censorgen). The wire-proxy layer plugs in through ProxyLayer.
package c05

import (
	"fmt"
	"math/rand"
	"os"
	"path/filepath"
	"runtime"
	"runtime/debug"
	"sort"
	"strings"
	"sync"
	"sync/atomic"
	"time"

	acracensor "github.com/cossacklabs/acra/acra-censor"
	"github.com/cossacklabs/acra/sqlparser"
	"github.com/sirupsen/logrus"

	"verif/harness/internal/ev"
	"verif/harness/internal/props"
	"verif/harness/internal/rig/censorgen"
)

func init() { props.Register("C05", props.Monitor{Level: "exploration", Run: Run}) }

// ProxyLayer, when set (by the wire-proxy part of this monitor), is run after the censor layer on the same Run.
var ProxyLayer func(r *ev.Run)

const workers = 8

var scratchSeq int64

func scratchFile(tag string) string {
	root := os.Getenv("VERIF_SCRATCH_DIR")
	if root == "" {
		root = filepath.Join("/var/tmp", fmt.Sprintf("verif-scratch-%d", os.Getpid()))
	}
	d := filepath.Join(root, "c05")
	os.MkdirAll(d, 0o700)
	return filepath.Join(d, fmt.Sprintf("%s-%d.log", tag, atomic.AddInt64(&scratchSeq, 1)))
}

// ---- driving the real firewall ----

type verdict struct {
	Accept bool
	Err    string
	Panic  string // top Acra frame of a panic inside HandleQuery
	Stack  string
}

func (v verdict) String() string {
	switch {
	case v.Panic != "":
		return "panic@" + v.Panic
	case v.Accept:
		return "accept"
	}
	return "reject(" + v.Err + ")"
}

func acraFrame() (string, string) {
	pcs := make([]uintptr, 48)
	n := runtime.Callers(3, pcs)
	frames := runtime.CallersFrames(pcs[:n])
	top, lines := "", []string{}
	for {
		f, more := frames.Next()
		if strings.Contains(f.Function, "cossacklabs/acra") {
			fn := f.Function[strings.LastIndex(f.Function, "/")+1:]
			if top == "" {
				top = fn
			}
			if len(lines) < 12 {
				lines = append(lines, fmt.Sprintf("%s:%d", fn, f.Line))
			}
		}
		if !more {
			break
		}
	}
	if top == "" {
		top = "unknown"
	}
	return top, strings.Join(lines, " < ")
}

func handle(c *acracensor.AcraCensor, q string) (v verdict) {
	defer func() {
		if p := recover(); p != nil {
			top, st := acraFrame()
			v = verdict{Panic: top, Stack: fmt.Sprintf("%v: %s", p, st)}
		}
	}()
	if err := c.HandleQuery(q); err != nil {
		return verdict{Err: err.Error()}
	}
	return verdict{Accept: true}
}

func load(cfg *Config) (*acracensor.AcraCensor, error) {
	c := acracensor.NewAcraCensor()
	if err := c.LoadConfiguration(cfg.YAML(acracensor.MinimalCensorConfigVersion)); err != nil {
		c.ReleaseAll()
		return nil, err
	}
	return c, nil
}

// ---- per-work-item results (aggregated in deterministic order after the workers join) ----

type viol struct {
	sig    string
	detail interface{}
}
type sample struct {
	tag string
	v   interface{}
}

const samplesPerTag = 1

type outcome struct {
	cases    int
	counts   map[string]int64
	sets     [][2]string
	distinct []string
	viols    []viol
	samples  []sample
	inconcl  []string
}

func newOutcome() *outcome                   { return &outcome{counts: map[string]int64{}} }
func (o *outcome) count(k string)            { o.counts[k]++ }
func (o *outcome) setAdd(set, member string) { o.sets = append(o.sets, [2]string{set, member}) }

func flush(r *ev.Run, o *outcome) {
	r.Cases(o.cases)
	keys := make([]string, 0, len(o.counts))
	for k := range o.counts {
		keys = append(keys, k)
	}
	sort.Strings(keys)
	for _, k := range keys {
		r.Count(k, o.counts[k])
	}
	for _, d := range o.distinct {
		r.Distinct(d)
	}
	for _, v := range o.viols {
		r.Violation(v.sig, v.detail)
	}
	for _, s := range o.sets {
		r.SetAdd(s[0], s[1])
	}
	for _, s := range o.samples {
		r.SampleN(s.tag, samplesPerTag, s.v)
	}
	for _, s := range o.inconcl {
		r.Inconclusive(s)
	}
}

// parallel runs f(i) for i in [0,n) on a few workers, chunk by chunk, and flushes the outcomes in index order.
func parallel(r *ev.Run, n int, f func(i int) *outcome) {
	const chunk = 240
	for base := 0; base < n; base += chunk {
		m := chunk
		if base+m > n {
			m = n - base
		}
		outs := make([]*outcome, m)
		var wg sync.WaitGroup
		var next int64 = -1
		for w := 0; w < workers; w++ {
			wg.Add(1)
			go func() {
				defer wg.Done()
				for {
					i := int(atomic.AddInt64(&next, 1))
					if i >= m {
						return
					}
					outs[i] = f(base + i)
				}
			}()
		}
		wg.Wait()
		for _, o := range outs {
			flush(r, o)
		}
	}
}

// ---- workload state ----

type world struct {
	seed   int64
	pool   []*censorgen.Stmt
	junk   []string
	byKind map[string][]int
	// all = pool followed by the row-count relatives of the pool's INSERT ... VALUES statements (ID = index in all).
	// The relatives are not part of the pool: batches, configurations and the proxy layer's workload do not change.
	all  []*censorgen.Stmt
	rels map[int][]int // pool statement -> its relatives
	// schema-qualified families (qual.go): base statement (pool statement or extra base) -> its qualified relatives
	qfam    map[int][]int
	qbases  []int
	dialect string // SQL dialect the current phase runs under ("" = the default, MySQL)
}

func (w *world) input(id int) Input { return Input{S: w.all[id]} }

// partner returns the statement made from / the source of statement id (sibling or cousin), or -1.
func (w *world) partner(id int) int {
	s := w.pool[id]
	switch {
	case s.BaseID >= 0:
		return s.BaseID
	case s.CousinOf >= 0:
		return s.CousinOf
	case id+1 < len(w.pool) && (w.pool[id+1].BaseID == id || w.pool[id+1].CousinOf == id):
		return id + 1
	}
	return -1
}

// batch picks n distinct statements; a statement brings its sibling / cousin along.
func (w *world) batch(rng *rand.Rand, n int) []int {
	in, out := map[int]bool{}, []int{}
	for _, id := range rng.Perm(len(w.pool)) {
		for _, x := range []int{id, w.partner(id)} {
			if x >= 0 && !in[x] && len(out) < n {
				in[x] = true
				out = append(out, x)
			}
		}
		if len(out) >= n {
			break
		}
	}
	return out
}

func inputText(in Input, v int) string {
	if in.S == nil {
		return in.Raw
	}
	return in.S.Variant(v)
}

func stmtKind(in Input) string {
	if in.S == nil {
		return "unparseable"
	}
	return in.S.Kind
}

// isolate asks the real firewall about ONE rule (or one handler's table set) on one text, for attributing a
// disagreement to a match predicate. It returns whether the rule matched, via the handler kind that uses it.
func isolate(hkind string, rules []Rule, text string) (matched bool, v verdict, err error) {
	h := Handler{Kind: hkind}
	switch rules[0].Kind {
	case "query":
		h.Queries = rules
	case "table":
		h.Tables = rules
	default:
		h.Patterns = rules
	}
	cfg := &Config{IgnoreParseError: true, Handlers: []Handler{h}}
	if hkind != "deny" {
		cfg.Handlers = append(cfg.Handlers, Handler{Kind: "denyall"})
	}
	c, err := load(cfg)
	if err != nil {
		return false, verdict{}, err
	}
	defer c.ReleaseAll()
	v = handle(c, text)
	if hkind == "deny" {
		return !v.Accept, v, nil
	}
	return v.Accept, v, nil
}

type predCheck struct {
	hkind  string
	rules  []Rule
	expect Tri
	rel    string // how the rule relates to the input (part of the signature)
}

func genOf(p *censorgen.Pattern) string { return strings.Join(p.Gen, "+") }

// predicates lists, for one handler and one input, the by-construction expectation of each rule.
func (w *world) predicates(h Handler, in Input) []predCheck {
	out := []predCheck{}
	if in.S == nil {
		return out
	}
	for _, q := range h.Queries {
		rel := "other-statement"
		if queryMatches(q, in) == Yes {
			rel = "variant-of-statement"
		}
		out = append(out, predCheck{h.Kind, []Rule{q}, queryMatches(q, in), rel})
	}
	if len(h.Tables) > 0 {
		t, why := tablesMatch(h.Kind == "allow", h.Tables, in.S)
		rel := map[Tri]string{Yes: "direct-table-listed", No: "table-not-listed", Undecided: why}[t]
		if qualifiedNames(h.Tables, in.S) {
			rel += ":schema-qualified-name"
		}
		out = append(out, predCheck{h.Kind, h.Tables, t, rel})
	}
	for _, p := range h.Patterns {
		t, rel := patternMatchesIn(h.Kind, p.Pat, w.all[p.SrcID], in.S)
		out = append(out, predCheck{h.Kind, []Rule{p}, t, rel + ":gen=" + genOf(p.Pat) + ":expr=" + p.Pat.Expr})
	}
	return out
}

func predSig(pc predCheck, in Input) string {
	exp := "nomatch"
	if pc.expect == Yes {
		exp = "match"
	}
	return fmt.Sprintf("censor:predicate:%s:handler=%s:expected=%s:stmt=%s:rel=%s", pc.rules[0].Kind, pc.hkind, exp, stmtKind(in), pc.rel)
}

func ruleTexts(rs []Rule) []string {
	t := make([]string, len(rs))
	for i, r := range rs {
		t[i] = r.Text
	}
	return t
}

// attribute re-asks the real firewall about each rule of the configuration in isolation and returns the first
// rule (in chain order) whose isolated behaviour contradicts its by-construction expectation on the given text.
func (w *world) attribute(cfg *Config, in Input, text string) (sig string, detail map[string]interface{}) {
	for _, h := range cfg.Handlers {
		for _, pc := range w.predicates(h, in) {
			if pc.expect == Undecided {
				continue
			}
			m, v, err := isolate(pc.hkind, pc.rules, text)
			if err != nil {
				continue
			}
			if v.Panic != "" || m != (pc.expect == Yes) {
				return predSig(pc, in), map[string]interface{}{"rule_kind": pc.rules[0].Kind, "rule": ruleTexts(pc.rules), "handler": pc.hkind,
					"statement": text, "expected_match": pc.expect == Yes, "isolated_verdict": v.String(), "relation": pc.rel}
			}
		}
	}
	return "", nil
}

// check evaluates one configuration on one input through the real firewall (all formatting variants) and compares.
// vs lists the formatting variants to run (vs[0] is the reference spelling).
func (w *world) check(o *outcome, c *acracensor.AcraCensor, cfg *Config, in Input, cfgTag string, vs []int) {
	want := Expect(cfg, in, w.all)
	if in.S == nil {
		vs = []int{0}
	}
	nv := len(vs)
	text := func(i int) string { return inputText(in, vs[i]) }
	got := make([]verdict, nv)
	for v := 0; v < nv; v++ {
		got[v] = handle(c, text(v))
		o.cases++
	}
	kind := stmtKind(in)
	base := map[string]interface{}{"config": string(cfg.YAML(acracensor.MinimalCensorConfigVersion)), "config_id": cfgTag, "seed": w.seed,
		"statement_kind": kind}
	if w.dialect != "" {
		base["dialect"] = w.dialect
	}
	det := func(extra map[string]interface{}) map[string]interface{} {
		d := map[string]interface{}{}
		for k, v := range base {
			d[k] = v
		}
		for k, v := range extra {
			d[k] = v
		}
		return d
	}
	// a panic is never a verdict
	for v := 0; v < nv; v++ {
		if got[v].Panic != "" {
			o.viols = append(o.viols, viol{"censor:panic:" + got[v].Panic, det(map[string]interface{}{"statement": text(v), "panic": got[v].Stack})})
			return
		}
	}
	// metamorphic part: "the verdict is the same for spellings that differ only in keyword case, insignificant
	// whitespace, a trailing semicolon or margin comments"
	if nv > 1 {
		o.count("metamorphic_groups")
		for v := 1; v < nv; v++ {
			if got[v].Accept == got[0].Accept {
				continue
			}
			per := map[string]string{}
			for i := 0; i < nv; i++ {
				per[censorgen.VariantNames[vs[i]]+": "+text(i)] = got[i].String()
			}
			sig := ""
			for _, h := range cfg.Handlers { // which rule behaves differently on the two spellings?
				for _, pc := range w.predicates(h, in) {
					m0, _, e0 := isolate(pc.hkind, pc.rules, text(0))
					mv, _, e1 := isolate(pc.hkind, pc.rules, text(v))
					if sig == "" && e0 == nil && e1 == nil && m0 != mv {
						sig = fmt.Sprintf("censor:metamorphic:rule=%s:handler=%s:stmt=%s", pc.rules[0].Kind, pc.hkind, kind)
					}
				}
			}
			if sig == "" {
				sig = fmt.Sprintf("censor:metamorphic:unattributed:variant=%s:stmt=%s:shape=%s", censorgen.VariantNames[vs[v]], kind, cfg.Shape())
			}
			o.viols = append(o.viols, viol{sig, det(map[string]interface{}{"verdict_per_variant": per, "oracle": want.Why})})
			break
		}
	}
	if !want.Decided {
		o.count("not_decided")
		o.count("not_decided:" + want.Why)
		if got[0].Accept {
			o.count("not_decided_observed_accept:" + want.Why)
		} else {
			o.count("not_decided_observed_reject:" + want.Why)
		}
		o.samples = append(o.samples, sample{"not-decided:" + want.Why, map[string]interface{}{"not_decided_because": want.Why, "statement": text(0),
			"config": string(cfg.YAML("0.85.0")), "observed": got[0].String()}})
		return
	}
	o.count("oracle_decided")
	wantS := map[bool]string{true: "accept", false: "reject"}[want.Accept]
	for v := 0; v < nv; v++ {
		if got[v].Accept == want.Accept {
			continue
		}
		txt := text(v)
		sig, d := "", map[string]interface{}(nil)
		if in.S != nil {
			sig, d = w.attribute(cfg, in, txt)
		}
		if sig == "" {
			if in.S == nil {
				sig = fmt.Sprintf("censor:unparseable:ignore_parse_error=%v:decider=%s/%s:expected=%s:got=%s", cfg.IgnoreParseError, want.HKind, want.RKind, wantS, got[v].String())
			} else {
				sig = fmt.Sprintf("censor:chain:shape=%s:decider=%s:expected=%s:got=%s", cfg.Shape(), want.Why, wantS, got[v].String())
			}
		}
		o.viols = append(o.viols, viol{sig, det(map[string]interface{}{"statement": txt, "variant": censorgen.VariantNames[vs[v]],
			"expected": wantS, "expected_because": want.Why, "got": got[v].String(), "mispredicted_rule": d})})
		return
	}
	o.count("verdict_agreed_" + wantS)
	o.count("decided_by:" + want.HKind + "/" + want.RKind)
	o.setAdd("deciders", want.HKind+"/"+want.RKind)
	o.setAdd("chain_shapes", cfg.Shape())
	o.distinct = append(o.distinct, fmt.Sprintf("shape=%s|by=%s|stmt=%s|%s", cfg.Shape(), want.RKind, kind, wantS))
	o.samples = append(o.samples, sample{"agreed:" + want.HKind + "/" + want.RKind + ":" + wantS, map[string]interface{}{"config": string(cfg.YAML("0.85.0")),
		"statement_variants": func() []string {
			t := []string{}
			for v := 0; v < nv; v++ {
				t = append(t, text(v))
			}
			return t
		}(), "oracle": want.Why, "verdict": wantS}})
}

// ---- configuration generator ----

var handlerKinds = []struct {
	k string
	w int
}{{"allow", 6}, {"deny", 6}, {"allowall", 2}, {"denyall", 4}, {"query_ignore", 3}, {"query_capture", 1}}

func (w *world) genConfig(rng *rand.Rand, g *censorgen.G, batch []int, junk []string) *Config {
	cfg := &Config{IgnoreParseError: rng.Intn(2) == 0, OmitParseFlag: rng.Intn(2) == 0}
	pickStmt := func() *censorgen.Stmt {
		if rng.Intn(5) > 0 {
			return w.pool[batch[rng.Intn(len(batch))]]
		}
		return w.pool[rng.Intn(len(w.pool))]
	}
	total := 0
	for _, h := range handlerKinds {
		total += h.w
	}
	n := 1 + rng.Intn(5)
	for i := 0; i < n; i++ {
		x, kind := rng.Intn(total), ""
		for _, h := range handlerKinds {
			if x < h.w {
				kind = h.k
				break
			}
			x -= h.w
		}
		h := Handler{Kind: kind}
		nr := rng.Intn(4)
		switch kind {
		case "query_capture":
			h.FilePath = scratchFile("capture")
		case "query_ignore":
			for j := 0; j < nr; j++ {
				if len(junk) > 0 && rng.Intn(3) == 0 {
					h.Queries = append(h.Queries, Rule{Kind: "query", Text: junk[rng.Intn(len(junk))], SrcID: -1})
					continue
				}
				s, v := pickStmt(), rng.Intn(censorgen.NVariants)
				h.Queries = append(h.Queries, Rule{Kind: "query", Text: s.Variant(v), SrcID: s.ID, Variant: v})
			}
		case "allow", "deny":
			for j := 0; j < nr; j++ {
				switch rng.Intn(3) {
				case 0:
					s, v := pickStmt(), rng.Intn(censorgen.NVariants)
					h.Queries = append(h.Queries, Rule{Kind: "query", Text: s.Variant(v), SrcID: s.ID, Variant: v})
				case 1:
					t := censorgen.Tables[rng.Intn(len(censorgen.Tables))]
					if rng.Intn(8) == 0 {
						t = censorgen.AbsentTables[rng.Intn(len(censorgen.AbsentTables))]
					}
					if !has(h.Tables, t) {
						h.Tables = append(h.Tables, Rule{Kind: "table", Text: t, SrcID: -1})
					}
				default:
					s := pickStmt()
					var p censorgen.Pattern
					if rng.Intn(7) == 0 {
						p = s.DeriveWhole()
					} else {
						p = s.Derive(g.RandomMask(s))
					}
					h.Patterns = append(h.Patterns, Rule{Kind: "pattern", Text: p.Text, SrcID: s.ID, Pat: &p})
				}
			}
		}
		cfg.Handlers = append(cfg.Handlers, h)
	}
	return cfg
}

// ---- phases ----

var allVariants = []int{0, 1, 2, 3, 4, 5}

// chainCase generates configuration i: a batch of statements, some unparseable strings and a chain whose rules
// are mostly made from that batch.
func (w *world) chainCase(i, perConfig int) (*Config, []int, []string) {
	rng := rand.New(rand.NewSource(w.seed*1_000_003 + int64(i)*7 + 11))
	g := &censorgen.G{R: rng}
	nJunk := perConfig * 3 / 20
	batch := w.batch(rng, perConfig-nJunk)
	junk := []string{}
	for _, j := range rng.Perm(len(w.junk))[:nJunk] {
		junk = append(junk, w.junk[j])
	}
	return w.genConfig(rng, g, batch, junk), batch, junk
}

// chainPhase: configurations x statements x formatting variants.
func (w *world) chainPhase(r *ev.Run, nConfigs, perConfig, fullVariants int) {
	parallel(r, nConfigs, func(i int) *outcome {
		o := newOutcome()
		cfg, batch, junk := w.chainCase(i, perConfig)
		tag := fmt.Sprintf("chain-%d", i)
		c, err := load(cfg)
		if err != nil {
			o.inconcl = append(o.inconcl, fmt.Sprintf("%s: generated configuration not loaded: %v", tag, err))
			o.count("config_load_failed")
			return o
		}
		defer c.ReleaseAll()
		o.count("configs")
		o.count(fmt.Sprintf("configs_ignore_parse_error=%v", cfg.IgnoreParseError))
		o.count(fmt.Sprintf("chain_length_%d", len(cfg.Handlers)))
		for k, id := range batch {
			vs := allVariants
			if k >= fullVariants { // thorough tier: the reference spelling and one other variant for the rest
				vs = []int{0, 1 + (i+k)%(censorgen.NVariants-1)}
			}
			w.check(o, c, cfg, w.input(id), tag, vs)
		}
		for _, j := range junk {
			o.count("unparseable_inputs")
			w.check(o, c, cfg, Input{Raw: j}, tag, nil)
		}
		return o
	})
}

// patternPhase: for every pool statement, patterns derived from it by generalising subsets of its sites, checked in
// isolation ([deny: p] must reject / [allow: p, denyall] must accept the source; its sibling per the generalised
// literal; statements of another kind or table must not match).
func (w *world) patternPhase(r *ev.Run, masksPer int) {
	parallel(r, len(w.pool), func(i int) *outcome {
		o := newOutcome()
		s := w.pool[i]
		rng := rand.New(rand.NewSource(w.seed*2_000_003 + int64(i)*13 + 5))
		g := &censorgen.G{R: rng}
		pats := []censorgen.Pattern{s.DeriveWhole(), s.Derive(censorgen.Mask{})}
		if n := len(s.Sites); n > 0 && (1<<uint(n))-1 <= masksPer {
			for bits := 1; bits < 1<<uint(n); bits++ { // every subset of sites
				m := censorgen.Mask{}
				for b := 0; b < n; b++ {
					if bits&(1<<uint(b)) != 0 {
						m[b] = 0
					}
				}
				pats = append(pats, s.Derive(m))
			}
			o.count("pattern_sources_with_every_subset")
		} else {
			for k := 0; k < masksPer; k++ {
				pats = append(pats, s.Derive(g.RandomMask(s)))
			}
		}
		seen := map[string]bool{}
		for pi := range pats {
			p := &pats[pi]
			if seen[p.Text] {
				continue
			}
			seen[p.Text] = true
			targets := []int{s.ID}
			if x := w.partner(s.ID); x >= 0 {
				targets = append(targets, x)
			}
			for k := 0; k < 3; k++ {
				targets = append(targets, rng.Intn(len(w.pool)))
			}
			hk := []string{"deny", "allow"}[(i+pi)%2]
			cfg := &Config{IgnoreParseError: false, Handlers: []Handler{{Kind: hk, Patterns: []Rule{{Kind: "pattern", Text: p.Text, SrcID: s.ID, Pat: p}}}}}
			if hk == "allow" {
				cfg.Handlers = append(cfg.Handlers, Handler{Kind: "denyall"})
			}
			c, err := load(cfg)
			if err != nil {
				o.inconcl = append(o.inconcl, fmt.Sprintf("derived pattern not loaded: %q: %v", p.Text, err))
				o.count("pattern_load_failed")
				continue
			}
			o.count("patterns_derived")
			o.count("patterns_gen=" + genOf(p))
			for k, tid := range targets {
				_, rel := patternMatches(p, s, w.pool[tid])
				if x := strings.Index(rel, ":"); x > 0 {
					rel = rel[:x]
				}
				o.count("pattern_relation:" + rel)
				vs := []int{0}
				if k == 0 { // the source itself: the reference spelling and one other variant
					vs = []int{0, 1 + (i+pi)%(censorgen.NVariants-1)}
				}
				w.check(o, c, cfg, w.input(tid), fmt.Sprintf("pattern-%d-%d", i, pi), vs)
			}
			c.ReleaseAll()
		}
		return o
	})
}

// derive lists the patterns tried for one source statement: its %%KIND%% placeholder, the statement itself, and every
// subset of its sites when there are at most masksPer subsets, else masksPer random subsets.
func derive(s *censorgen.Stmt, g *censorgen.G, masksPer int) []censorgen.Pattern {
	pats := []censorgen.Pattern{s.DeriveWhole(), s.Derive(censorgen.Mask{})}
	if n := len(s.Sites); n > 0 && n < 30 && (1<<uint(n))-1 <= masksPer {
		for bits := 1; bits < 1<<uint(n); bits++ { // every subset of sites
			m := censorgen.Mask{}
			for b := 0; b < n; b++ {
				if bits&(1<<uint(b)) != 0 {
					m[b] = 0
				}
			}
			pats = append(pats, s.Derive(m))
		}
	} else {
		for k := 0; k < masksPer; k++ {
			pats = append(pats, s.Derive(g.RandomMask(s)))
		}
	}
	return pats
}

// rowsPhase: INSERT ... VALUES patterns against statements with ANOTHER NUMBER OF ROWS. For every INSERT ... VALUES
// statement of the pool: patterns derived from it (and from its relatives with one more row) are put alone into
// [allow: p, denyall] and [deny: p] and asked about the statement's row-count relatives (a copy of a row appended, a
// row matching no pattern row appended / prepended / inserted, a wider row appended, first / last row removed).
// Demanded (allow direction only, see patternMatchesIn): a statement with a row that matches no row of the pattern, and
// any other list of rows than that of a placeholder-free pattern, is not admitted; a pattern matches its own source
// whatever the number of rows (both directions).
func (w *world) rowsPhase(r *ev.Run, masksPer int) {
	srcs := []int{}
	for _, s := range w.pool {
		if len(w.rels[s.ID]) > 0 {
			srcs = append(srcs, s.ID)
		}
	}
	parallel(r, len(srcs), func(i int) *outcome {
		o := newOutcome()
		s := w.pool[srcs[i]]
		rng := rand.New(rand.NewSource(w.seed*3_000_017 + int64(i)*17 + 3))
		g := &censorgen.G{R: rng}
		o.count("rows_sources")
		o.count(fmt.Sprintf("rows_sources_with_%d_rows", s.NRows()))
		type job struct {
			src     *censorgen.Stmt
			targets []int
		}
		jobs := []job{{s, append([]int{s.ID}, w.rels[s.ID]...)}}
		for _, id := range w.rels[s.ID] {
			if rel := w.all[id]; rel.Rows.Kind == "copy-appended" || rel.Rows.Kind == "other-appended" {
				// patterns with one row more than the pool statement: against themselves, the statement and its other relatives
				jobs = append(jobs, job{rel, append([]int{rel.ID, s.ID}, w.rels[s.ID]...)})
			}
		}
		for ji, j := range jobs {
			seen := map[string]bool{}
			pats := derive(j.src, g, masksPer)
			for pi := range pats {
				p := &pats[pi]
				if seen[p.Text] {
					continue
				}
				seen[p.Text] = true
				for _, hk := range []string{"allow", "deny"} {
					cfg := &Config{IgnoreParseError: false, Handlers: []Handler{{Kind: hk, Patterns: []Rule{{Kind: "pattern", Text: p.Text, SrcID: j.src.ID, Pat: p}}}}}
					if hk == "allow" {
						cfg.Handlers = append(cfg.Handlers, Handler{Kind: "denyall"})
					}
					c, err := load(cfg)
					if err != nil {
						o.inconcl = append(o.inconcl, fmt.Sprintf("derived pattern not loaded: %q: %v", p.Text, err))
						o.count("pattern_load_failed")
						continue
					}
					o.count("rows_patterns")
					o.count(fmt.Sprintf("rows_patterns_of_%d_rows", j.src.NRows()))
					for k, tid := range j.targets {
						if tid == j.src.ID && k > 0 {
							continue
						}
						t, rel := patternMatchesIn(hk, p, j.src, w.all[tid])
						if x := strings.Index(rel, ":literal-in"); x > 0 {
							rel = rel[:x]
						}
						o.count("rows_relation:" + rel)
						switch {
						case t == No && strings.HasPrefix(rel, "rows:"):
							o.count("rows_decided_not_admitted")
							o.setAdd("rows_decided_relations", rel)
						case t == Yes && tid == j.src.ID:
							o.count("rows_decided_self_match")
						}
						vs := []int{0, 1 + (i+pi+k)%(censorgen.NVariants-1)}
						w.check(o, c, cfg, w.input(tid), fmt.Sprintf("rows-%d-%d-%d-%s", i, ji, pi, hk), vs)
					}
					c.ReleaseAll()
				}
			}
		}
		return o
	})
}

// newWorld generates the statement pool and the unparseable strings of a seed. Generator hygiene (not a verdict):
// only statements Acra's parser knows and junk it refuses are kept; what was dropped is returned for the evidence.
func newWorld(seed int64, poolSize int) (w *world, refused []string, junkAccepted int) {
	w = &world{seed: seed, byKind: map[string][]int{}}
	g := &censorgen.G{R: rand.New(rand.NewSource(seed*31 + 7))}
	parser := sqlparser.New(sqlparser.ModeStrict)
	remap := map[int]int{}
	for _, s := range g.Pool(poolSize) {
		_, err := parser.Parse(s.Canon)
		_, baseKept := remap[s.BaseID]
		_, cousinKept := remap[s.CousinOf]
		if err != nil || (s.BaseID >= 0 && !baseKept) || (s.CousinOf >= 0 && !cousinKept) {
			refused = append(refused, s.Canon)
			continue
		}
		remap[s.ID] = len(w.pool)
		s.ID = len(w.pool)
		if s.BaseID >= 0 {
			s.BaseID = remap[s.BaseID]
		}
		if s.CousinOf >= 0 {
			s.CousinOf = remap[s.CousinOf]
		}
		s.FixVariants()
		w.pool = append(w.pool, s)
	}
	for _, j := range g.Unparseable(w.pool, 40) {
		if _, err := parser.Parse(j); err == nil {
			junkAccepted++
			continue
		}
		w.junk = append(w.junk, j)
	}
	// row-count relatives (own random stream: the pool of a seed stays what it was)
	w.all = append([]*censorgen.Stmt{}, w.pool...)
	w.rels = map[int][]int{}
	gr := &censorgen.G{R: rand.New(rand.NewSource(seed*37 + 1009))}
	for _, s := range w.pool {
		for _, rel := range gr.RowRelatives(s) {
			if _, err := parser.Parse(rel.Canon); err != nil {
				refused = append(refused, rel.Canon)
				continue
			}
			rel.ID = len(w.all)
			rel.FixVariants()
			w.all = append(w.all, rel)
			w.rels[s.ID] = append(w.rels[s.ID], rel.ID)
		}
	}
	refused = append(refused, w.addQualFamilies(seed, 28+poolSize/30, parser)...)
	return w, refused, junkAccepted
}

// Workload exposes the generated material of one seed (statements with their formatting variants, unparseable
// strings, configurations and the oracle) to the proxy layer of this monitor.
type Workload struct{ w *world }

// NewWorkload builds the statement pool of a seed.
func NewWorkload(seed int64, poolSize int) *Workload {
	w, _, _ := newWorld(seed, poolSize)
	return &Workload{w}
}

// Case returns configuration number i of the seed together with the n inputs generated for it.
func (x *Workload) Case(i, n int) (*Config, []Input) {
	cfg, batch, junk := x.w.chainCase(i, n)
	ins := []Input{}
	for _, id := range batch {
		ins = append(ins, x.w.input(id))
	}
	for _, j := range junk {
		ins = append(ins, Input{Raw: j})
	}
	return cfg, ins
}

// Expect is the censor-layer oracle for one input under one configuration.
func (x *Workload) Expect(c *Config, in Input) Decision { return Expect(c, in, x.w.pool) }

// Stmt returns pool statement id (the source of a query or pattern rule of a generated configuration), nil when out of range.
func (x *Workload) Stmt(id int) *censorgen.Stmt {
	if id < 0 || id >= len(x.w.pool) {
		return nil
	}
	return x.w.pool[id]
}

// Text renders formatting variant v (0..censorgen.NVariants-1) of the input; unparseable strings have one spelling.
func (in Input) Text(v int) string { return inputText(in, v) }

// Run is the C05 monitor.
func Run(r *ev.Run) {
	r.Rule = "censor layer: one evaluation = one AcraCensor.HandleQuery call on (generated YAML configuration, formatting variant of a generated statement or an unparseable string); " +
		"configurations are chains of 1-5 handlers over allow/deny/allowall/denyall/query_ignore/query_capture with 0-3 query/table/pattern rules each and both ignore_parse_error values; " +
		"rules are built FROM the statements (query rule = a formatting variant of a pool statement; table rule = a table name; pattern = the statement with a chosen subset of literals/IN-lists/columns/WHERE/sub-selects replaced by placeholders, or its %%KIND%% placeholder) so whether a rule matches is known by construction; " +
		"a case is non-trivial when the documented chain semantics decide it (no 'not decided' predicate on the way) and the real verdict of every formatting variant run agrees with it " +
		"(quick: all 6 variants of every statement; thorough: all 6 for 12 statements of each configuration, the reference spelling and one other variant for the remaining 22); " +
		"distinct_nontrivial counts distinct (handler-kind chain shape, rule kind that decided, statement kind, verdict) tuples; " +
		"rows phase: every INSERT ... VALUES statement of the pool gets row-count relatives (copy of a row appended; a row whose literals differ from every row's literal in the same column appended / prepended / inserted; a wider row appended; first / last row removed) and " +
		"patterns derived from the statement and from its relatives with one more row are asked, alone in [allow: p, denyall] and [deny: p], about the statement and all its relatives; " +
		"qualified-name phase: every pool statement (quick: every ninth, thorough: every second, per dialect) and extra statements with table-qualified columns / stars form a family with the same statement spelled with schema qualifiers on a subset of its name occurrences " +
		"(tables in FROM / JOIN / INSERT INTO / UPDATE / DELETE FROM / sub-selects, column and star qualifiers; 9 kinds of subsets, two schemas); pattern, table and query rules made from EVERY member (so rules with and without schema) " +
		"are asked, alone in allow+denyall / deny / query_ignore and in a random chain, about every member, under the MySQL and the PostgreSQL dialect"
	r.Assumptions = []string{
		"the crypto library is not involved in this layer",
		"statements come from a generator restricted to the grammar subset Acra's MySQL-dialect parser accepts (checked at start; a generated statement Acra's parser refuses is dropped and counted, never judged)",
		"table rules are judged only for tables named directly in FROM (joins, parenthesised lists) of a SELECT or as INSERT target; occurrences only inside sub-selects, UPDATE/DELETE targets, UNION branches and statements without a plain table in FROM are observed and reported as not decided",
		"%%COLUMN%% is derived with its qualifier kept (t1.id -> t1.%%COLUMN%%); comments inside a statement are not formatting variants (only margin comments are)",
		"the number of VALUES rows an INSERT pattern stands for is documented nowhere: only what is certain is judged, for allow rules: a statement with a row that matches no row of the pattern (other literal in a column where every pattern row spells one out, or another number of values) and a statement with any other list of rows than that of a placeholder-free pattern is not admitted; additional rows that each match a pattern row, missing rows under a generalised pattern and all row-count relatives under deny patterns are observed and counted only",
		"schema qualifiers: an allow pattern / allow table rule admits only the names it spells (same name under another schema, or a schema on exactly one side: not admitted); a deny rule spelled under one schema does not stop the name under another schema; whether a deny rule without schema also stops the schema-qualified name (or the other way round) is not promised and only counted; differences only under a placeholder are not decided",
		"the proxy layer (forwarding, pending-query queue) is a separate part of this monitor (ProxyLayer)",
	}
	if os.Getenv("VERIF_LOGS") == "" {
		// the firewall logs every verdict; logrus formats under one global mutex, which would serialise the workers
		logrus.SetLevel(logrus.PanicLevel)
	}
	defer debug.SetGCPercent(debug.SetGCPercent(400)) // the yacc parser allocates its whole stack per call
	w, refused, junkAccepted := newWorld(r.Seed, r.Pick(360, 900))
	for _, c := range refused {
		r.Count("generated_statement_refused_by_parser", 1)
		r.Inconclusive("generated statement refused by Acra's parser (dropped, not judged): " + c)
	}
	r.Count("junk_accepted_by_parser", int64(junkAccepted))
	for _, s := range w.pool {
		w.byKind[s.Kind] = append(w.byKind[s.Kind], s.ID)
		r.SetAdd("statement_shapes", s.Shape)
		if s.BaseID >= 0 {
			r.Count("pool_siblings", 1)
		}
	}
	r.Count("pool_statements", int64(len(w.pool)))
	r.Count("pool_unparseable_strings", int64(len(w.junk)))
	for _, s := range w.all[len(w.pool):] {
		if s.Rows != nil {
			r.Count("row_count_relatives", 1)
			r.SetAdd("row_count_relative_kinds", s.Rows.Kind)
		}
	}

	t0 := time.Now()
	w.chainPhase(r, r.Pick(300, 20000), 40, r.Pick(40, 12))
	r.Extra("wall_chain_phase_s", time.Since(t0).Seconds())
	t0 = time.Now()
	w.patternPhase(r, r.Pick(7, 31))
	r.Extra("wall_pattern_phase_s", time.Since(t0).Seconds())
	t0 = time.Now()
	w.rowsPhase(r, r.Pick(7, 31))
	r.Extra("wall_rows_phase_s", time.Since(t0).Seconds())
	t0 = time.Now()
	w.qualPhase(r, r.Pick(3, 7), r.Pick(9, 2))
	r.Extra("wall_qual_phase_s", time.Since(t0).Seconds())
	qualGuards(r)

	r.Extra("formatting_variants", censorgen.VariantNames)
	r.RequireAtLeast("configs", int64(r.Pick(250, 18000)))
	r.RequireAtLeast("oracle_decided", 5000)
	r.RequireAtLeast("verdict_agreed_accept", 1000)
	r.RequireAtLeast("verdict_agreed_reject", 1000)
	r.RequireAtLeast("metamorphic_groups", 5000)
	r.RequireAtLeast("unparseable_inputs", 500)
	r.RequireAtLeast("patterns_derived", 1000)
	r.RequireAtLeast("pattern_relation:self", 500)
	r.RequireAtLeast("pattern_relation:otherkind", 200)
	r.RequireAtLeast("rows_sources", 20)
	r.RequireAtLeast("rows_decided_not_admitted", 300)
	r.RequireAtLeast("rows_decided_self_match", 200)
	r.RequireSetAtLeast("row_count_relative_kinds", len(censorgen.RowRelKinds))
	r.RequireSetAtLeast("rows_decided_relations", 5)
	r.RequireSetAtLeast("deciders", 9)
	r.RequireSetAtLeast("statement_shapes", 9)
	if ProxyLayer != nil {
		ProxyLayer(r)
	}
}
