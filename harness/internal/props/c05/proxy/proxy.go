// Package proxy is the wire-proxy layer of the C05 monitor: statements the SQL firewall must reject are sent through a
// real AcraServer between accepted ones; nothing of them may reach the database, the client must get an error, the proxy's
// pending-query queue must drain, and every later accepted statement must still be processed as itself.
package proxy

import (
	"fmt"
	"strings"

	pgdec "github.com/cossacklabs/acra/decryptor/postgresql"
	"github.com/jackc/pgx/v5/pgproto3"

	"verif/harness/internal/ev"
	"verif/harness/internal/gen"
	"verif/harness/internal/props/c04"
	"verif/harness/internal/props/c05"
	"verif/harness/internal/rig/proxyrig"
)

func init() { c05.ProxyLayer = Layer }

const censorVersion = "0.85.0"

type rules struct {
	mode        string // deny-query | deny-table | deny-pattern | allowlist
	denyQueries []string
	denyTables  []string
	patterns    []string
	allowed     map[string]bool
}

func (ru rules) yaml() string {
	var b strings.Builder
	fmt.Fprintf(&b, "version: %s\nhandlers:\n", censorVersion)
	q := func(s string) string { return "'" + strings.ReplaceAll(s, "'", "''") + "'" }
	switch ru.mode {
	case "deny-query":
		b.WriteString("  - handler: deny\n    queries:\n")
		for _, s := range ru.denyQueries {
			fmt.Fprintf(&b, "      - %s\n", q(s))
		}
	case "deny-table":
		b.WriteString("  - handler: deny\n    tables:\n")
		for _, s := range ru.denyTables {
			fmt.Fprintf(&b, "      - %s\n", s)
		}
	case "deny-pattern":
		b.WriteString("  - handler: deny\n    patterns:\n")
		for _, s := range ru.patterns {
			fmt.Fprintf(&b, "      - %s\n", q(s))
		}
	case "allowlist":
		b.WriteString("  - handler: allow\n    queries:\n")
		for s := range ru.allowed {
			fmt.Fprintf(&b, "      - %s\n", q(s))
		}
		b.WriteString("  - handler: denyall\n")
	}
	return b.String()
}

// variant re-spells a statement without changing its meaning (keyword case, blanks, trailing semicolon, margin comments).
func variant(r *gen.Rand, sql string) string {
	switch r.Intn(5) {
	case 0:
		return sql + ";"
	case 1:
		return "  " + strings.Replace(strings.Replace(sql, "select ", "SELECT   ", 1), " from ", "\n FROM ", 1)
	case 2:
		return "/* c */ " + sql
	case 3:
		return sql + " /* tail */"
	}
	return sql
}

// Layer is plugged into c05.ProxyLayer.
func Layer(r *ev.Run) {
	rng := gen.New(r.Seed, "c05-proxy")
	n := r.Pick(16, 400)
	for s := 0; s < n; s++ {
		session(r, gen.New(r.Seed, fmt.Sprintf("c05p-%d-%d", s, rng.Int63())), s)
	}
	r.RequireAtLeast("proxy_rejected_statements_checked", 40)
	r.RequireAtLeast("proxy_accepted_after_rejection_equal_reference", 40)
	r.RequireAtLeast("proxy_rejected_pipelined_flush_groups_checked", 3)
}

type planned struct {
	st     proxyrig.Step
	reject bool
	why    string
}

func session(r *ev.Run, rng *gen.Rand, sidx int) {
	tables := proxyrig.GenTables(rng, 2, c04.Other, func(c proxyrig.ColSpec) bool { return c.ClientID == "" })
	g := proxyrig.NewSessGen(rng, tables)
	// plan the whole session first: the firewall configuration is derived from the planned statements
	var plan []planned
	for i := 0; i < 4; i++ {
		plan = append(plan, planned{st: g.Insert()})
	}
	nSteps := 12 + rng.Intn(20)
	for i := 0; i < nSteps; i++ {
		// most statements use the simple protocol so that a session survives its rejections (see the note on pipelined groups below)
		g.SimpleOnly = rng.Intn(2) != 0
		plan = append(plan, planned{st: g.Next()})
	}
	ru := rules{mode: []string{"deny-query", "deny-table", "allowlist", "deny-pattern"}[rng.Intn(4)], allowed: map[string]bool{}}
	switch ru.mode {
	case "deny-query":
		// forbid some of the planned SELECT/UPDATE/DELETE statements by their exact text; they are then sent in a formatting variant
		for i := range plan {
			k := plan[i].st.Kind
			if i >= 4 && k != "insert" && rng.Intn(3) == 0 && plan[i].st.Proto == "simple" {
				ru.denyQueries = append(ru.denyQueries, plan[i].st.SQL)
				plan[i].reject, plan[i].why = true, "deny:query"
			}
		}
		if len(ru.denyQueries) == 0 {
			ru.denyQueries = []string{"select 1 from nowhere"}
		}
	case "deny-table":
		ru.denyTables = []string{tables[1].Name}
		for i := range plan {
			// table rules are documented for tables a statement reads from or inserts into
			if plan[i].st.Table == tables[1].Name && (plan[i].st.Kind == "select" || plan[i].st.Kind == "insert") {
				plan[i].reject, plan[i].why = true, "deny:table"
			} else if plan[i].st.Table == tables[1].Name {
				plan[i].why = "skip" // UPDATE/DELETE vs table rules: not documented, not sent
			}
		}
	case "deny-pattern":
		ru.patterns = []string{"%%DELETE%%"}
		for i := range plan {
			if plan[i].st.Kind == "delete" {
				plan[i].reject, plan[i].why = true, "deny:pattern:%%DELETE%%"
			}
		}
	case "allowlist":
		for i := range plan {
			if i < 4 || rng.Intn(3) != 0 {
				ru.allowed[plan[i].st.SQL] = true
			} else {
				plan[i].reject, plan[i].why = true, "not-allowed:denyall"
			}
		}
	}
	// a statement whose text also occurs as an allowed/denied one elsewhere in the plan gets the same verdict
	for i := range plan {
		if ru.mode == "allowlist" {
			plan[i].reject = !ru.allowed[plan[i].st.SQL]
		}
		if ru.mode == "deny-query" {
			for _, d := range ru.denyQueries {
				if d == plan[i].st.SQL {
					plan[i].reject, plan[i].why = true, "deny:query"
				}
			}
		}
	}
	// unparseable statements are rejected (no ignore_parse_error in these configurations)
	for i := 0; i < 2; i++ {
		at := 4 + rng.Intn(len(plan)-4)
		junk := planned{st: proxyrig.Step{Kind: "junk", Proto: "simple", ParamFmt: "none", ResFmt: "text", SQL: []string{"select from where and", "selec 1", "insert into values ((", "update set = where"}[rng.Intn(4)]}, reject: true, why: "unparseable"}
		junk.st.Groups = [][]pgproto3.FrontendMessage{{&pgproto3.Query{String: junk.st.SQL}}}
		plan = append(plan[:at], append([]planned{junk}, plan[at:]...)...)
	}
	yaml := ru.yaml()
	w, ac, rc, closeAll, ok := c04.OpenWorld(r, tables, yaml)
	if !ok {
		return
	}
	defer closeAll()
	var history []string
	afterReject := false
	for _, p := range plan {
		if p.why == "skip" {
			continue
		}
		st := p.st
		if p.reject && st.Proto == "simple" && st.Kind != "junk" && (ru.mode == "deny-query") {
			// send a formatting variant of the forbidden text
			v := variant(rng, st.SQL)
			st.SQL = v
			st.Groups = [][]pgproto3.FrontendMessage{{&pgproto3.Query{String: v}}}
		}
		if p.reject && st.Proto != "simple" && rng.Intn(2) == 0 {
			st = withFlush(rng, st)
		}
		history = append(history, fmt.Sprintf("[%s reject=%v %s] %.240s", st.Proto, p.reject, p.why, st.SQL))
		if !p.reject {
			before := r.Counter("owner_replies_equal_reference")
			if !c04.RunStep(r, w, ac, rc, st, history, sidx) {
				return
			}
			if afterReject && r.Counter("owner_replies_equal_reference") > before {
				r.Count("proxy_accepted_after_rejection_equal_reference", 1)
				r.Distinct(fmt.Sprintf("accepted-after-reject|%s|%s|%s", ru.mode, st.Kind, st.Proto))
			}
			continue
		}
		// a statement the firewall must reject: not sent to the reference at all
		r.Case()
		afterReject = true
		logStart := w.Store.LogLen()
		sig := func(what string) string {
			return fmt.Sprintf("proxy: %s: rule=%s stmt=%s proto=%s", what, p.why, st.Kind, st.Proto)
		}
		detail := func(extra map[string]interface{}) map[string]interface{} {
			m := map[string]interface{}{"session": sidx, "censor": yaml, "schema": w.Schema, "history": history, "statement": st.SQL}
			for k, v := range extra {
				m[k] = v
			}
			return m
		}
		gotError := false
		broke := false
		for _, grp := range st.Groups {
			if err := ac.Send(grp...); err != nil {
				broke = true
				break
			}
			msgs, err := ac.ReadUntilReady()
			if err != nil {
				broke = true
				break
			}
			if proxyrig.ErrorOf(msgs) != nil {
				gotError = true
				// like a real driver, stop the exchange for this statement once the server reported an error
				break
			}
		}
		if broke {
			r.Violation(sig("connection broke on a rejected statement"), detail(nil))
			return
		}
		// (i) nothing of it reached the database
		for _, m := range w.Store.Log()[logStart:] {
			if m.SQL != "" && sameStatement(m.SQL, p.st.SQL) {
				r.Violation(sig("rejected statement forwarded to the database"), detail(map[string]interface{}{"forwarded": m.SQL, "as": m.Type}))
			}
		}
		// nothing that belongs to the rejected statement's message group may reach the database either: the rest of an
		// extended-protocol group (Bind / Describe / Execute) would run whatever statement the database holds under that name
		for _, m := range w.Store.Log()[logStart:] {
			switch m.Type {
			case "Query", "Parse", "Bind", "Execute", "Describe", "Close":
				r.Violation(sig("message of a rejected statement's group forwarded to the database: "+m.Type), detail(map[string]interface{}{"forwarded_type": m.Type, "forwarded_sql": m.SQL, "proto_detail": st.Detail}))
			}
		}
		// (ii) the client was told
		if !gotError {
			r.Violation(sig("no error reported to the client"), detail(nil))
		}
		// (iii) the proxy does not keep waiting for a response to it
		if px := w.Acras[c04.Owner].ProxyList(); len(px) > 0 {
			if pp, ok := px[len(px)-1].(*pgdec.PgProxy); ok {
				if n := pp.VerifPendingQueryCount(); n != 0 {
					r.Violation(sig("pending query queue not empty after the rejection was answered"), detail(map[string]interface{}{"pending": n}))
				}
			}
		}
		// the database tables must not have changed
		for _, t := range tables {
			if len(w.Store.DB.Snapshot(t.Name)) != len(w.Ref.DB.Snapshot(t.Name)) {
				r.Violation(sig("database changed by a rejected statement"), detail(map[string]interface{}{"table": t.Name}))
				return
			}
		}
		r.Count("proxy_rejected_statements_checked", 1)
		if st.Proto == "extended-pipelined-flush" {
			r.Count("proxy_rejected_pipelined_flush_groups_checked", 1)
		}
		r.Distinct(fmt.Sprintf("rejected|%s|%s|%s", p.why, st.Kind, st.Proto))
	}
}

// withFlush re-shapes an extended-protocol statement the firewall must reject into ONE pipelined group in which the Parse
// is followed by (Describe Statement and) Flush before Bind / Execute / Sync, the way describe-before-bind drivers batch
// their messages, using the unnamed statement and portal: if an earlier, accepted statement of the session was prepared
// under that name, a proxy that resumes forwarding before the Sync makes the database run that earlier statement.
func withFlush(rng *gen.Rand, st proxyrig.Step) proxyrig.Step {
	var parse *pgproto3.Parse
	var bind *pgproto3.Bind
	for _, g := range st.Groups {
		for _, m := range g {
			switch x := m.(type) {
			case *pgproto3.Parse:
				parse = x
			case *pgproto3.Bind:
				bind = x
			}
		}
	}
	if parse == nil || bind == nil {
		return st
	}
	p := &pgproto3.Parse{Name: "", Query: parse.Query, ParameterOIDs: parse.ParameterOIDs}
	b := &pgproto3.Bind{ParameterFormatCodes: bind.ParameterFormatCodes, Parameters: bind.Parameters, ResultFormatCodes: bind.ResultFormatCodes}
	grp := []pgproto3.FrontendMessage{p}
	if rng.Intn(2) == 0 {
		grp = append(grp, &pgproto3.Describe{ObjectType: 'S', Name: ""})
	}
	grp = append(grp, &pgproto3.Flush{}, b, &pgproto3.Execute{}, &pgproto3.Sync{})
	st.Groups = [][]pgproto3.FrontendMessage{grp}
	st.Proto = "extended-pipelined-flush"
	st.Detail = "unnamed statement and portal; Parse [Describe S] Flush Bind Execute Sync sent in one batch"
	return st
}

// sameStatement compares ignoring case and whitespace (the forwarded text may be re-serialised).
func sameStatement(a, b string) bool {
	norm := func(s string) string {
		s = strings.ToLower(s)
		s = strings.TrimRight(strings.TrimSpace(s), ";")
		return strings.Join(strings.Fields(s), " ")
	}
	return norm(a) == norm(b)
}
