// Package c05 will hold the monitor of property C05 (not built yet; nothing is registered).
package c05
