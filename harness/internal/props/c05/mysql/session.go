package mysql

import (
	"fmt"
	"strings"

	"verif/harness/internal/ev"
	"verif/harness/internal/gen"
	"verif/harness/internal/props/c05"
)

// sess is the primary run of one session.
type sess struct {
	r       *ev.Run
	p       *plan
	e       *env
	sidx    int
	history []string
	done    []op // accepted steps in the order they were sent (replayed by the twin)
	// rejections observed so far
	rejQ, rejP int
	rejKinds   []string // statement kind of every rejected statement, in order
	// per unit: rejections seen when it was prepared
	atPrepQ, atPrepP map[int]int
	stop             bool
}

func (s *sess) detail(extra map[string]interface{}) map[string]interface{} {
	m := map[string]interface{}{"session": s.sidx, "client": s.p.client, "policy_mode": s.p.pol.mode, "censor": s.p.pol.yaml, "schema": s.e.w.Schema, "history": s.history,
		"replay_one_session": fmt.Sprintf("VERIF_C05MY_SESSION=%d", s.sidx)}
	for k, v := range extra {
		m[k] = v
	}
	return m
}

func stepDetail(o op) map[string]interface{} {
	if o.u == nil {
		return map[string]interface{}{"step": o.kind}
	}
	var params []string
	for i, a := range o.u.st.args {
		col := "?"
		if i < len(o.u.st.argCols) {
			col = o.u.st.argCols[i]
		}
		switch x := a.(type) {
		case []byte:
			params = append(params, col+":"+ev.Hex(x))
		case string:
			params = append(params, col+":"+ev.Hex([]byte(x)))
		default:
			params = append(params, fmt.Sprintf("%s:%v", col, x))
		}
	}
	return map[string]interface{}{"step": o.String(), "statement": trunc(o.u.st.text, 2000), "params": params, "expected_decision": fmt.Sprintf("%+v", o.u.st.exp)}
}

func merge(a, b map[string]interface{}) map[string]interface{} {
	for k, v := range b {
		a[k] = v
	}
	return a
}

func (s *sess) rejectedKinds() string {
	switch {
	case s.rejQ > 0 && s.rejP > 0:
		return "COM_QUERY+COM_STMT_PREPARE"
	case s.rejP > 0:
		return "COM_STMT_PREPARE"
	case s.rejQ > 0:
		return "COM_QUERY"
	}
	return "none"
}

// session plans and runs one session.
func session(r *ev.Run, wl *c05.Workload, rng *gen.Rand, sidx int) {
	p := buildPlan(r, wl, rng, sidx)
	e, err := openEnv(p.tables, p.pol, p.client, p.scripts)
	if err != nil {
		if strings.HasPrefix(err.Error(), "world:") {
			r.Violation("mysql rig: world could not be built (generated configuration rejected)", map[string]interface{}{"err": err.Error(), "censor": p.pol.yaml})
		} else {
			r.Inconclusive("mysql: " + err.Error())
		}
		return
	}
	defer e.closeAll()
	s := &sess{r: r, p: p, e: e, sidx: sidx, atPrepQ: map[int]int{}, atPrepP: map[int]int{}}
	r.SetAdd("mysql_policy_modes", p.pol.mode)
	r.SetAdd("mysql_policy_modes_by_client", p.pol.mode+"/"+p.client)
	r.Count("mysql_sessions_"+p.client, 1)
	if p.pol.chainCase >= 0 {
		r.Count("mysql_sessions_with_censor_layer_chain", 1)
	}
	var open []*unit
	backlog := p.backlog
	injected, injectedInAtomic := 0, 0
	maxInject := 14
	for !s.stop && (len(backlog) > 0 || len(open) > 0) {
		var atomic *unit
		for _, u := range open {
			if u.next > 0 && u.next < u.atomic {
				atomic = u
			}
		}
		if atomic == nil {
			injectedInAtomic = 0
		}
		var cur *unit
		pct := 16
		if atomic != nil {
			pct = 55
			if injectedInAtomic >= 2 {
				pct = 0
			}
		}
		switch {
		case len(p.pool) > 0 && injected < maxInject && rng.Intn(100) < pct:
			ps := p.pool[rng.Intn(len(p.pool))]
			if atomic != nil && rng.Intn(4) != 0 {
				// between a PREPARE and its EXECUTE(-1): preferably a rejected statement of the same kind (it would be
				// analysed the same way: result-column settings of a SELECT, parameter settings of a write)
				var same []*stmt
				for _, c := range p.pool {
					if c.kind == atomic.st.kind && c.src == atomic.st.src {
						same = append(same, c)
					}
				}
				if len(same) > 0 {
					ps = same[rng.Intn(len(same))]
				}
			}
			shape := "Q"
			if len(ps.args) > 0 || (ps.src != "unparseable" || rng.Intn(2) == 0) && rng.Intn(5) < 3 {
				shape = "P1"
			}
			if atomic != nil && rng.Intn(4) != 0 {
				shape = "P1" // a rejected PREPARE between a PREPARE and its EXECUTE(-1)
			}
			p.nUnits++
			cur = newUnit(p.nUnits, ps, shape)
			open = append(open, cur)
			injected++
			if atomic != nil {
				injectedInAtomic++
			}
		case atomic != nil:
			cur = atomic
		case len(backlog) > 0 && (len(open) == 0 || (len(open) < 3 && rng.Intn(2) == 0)):
			cur = backlog[0]
			backlog = backlog[1:]
			open = append(open, cur)
		default:
			cur = open[rng.Intn(len(open))]
		}
		o := op{kind: cur.ops[cur.next], u: cur}
		cur.next++
		out := s.step(o)
		if out.rejected || (o.kind == "prepare" && out.dbError) {
			cur.next = len(cur.ops)
		}
		var still []*unit
		for _, u := range open {
			if !u.done() {
				still = append(still, u)
			}
		}
		open = still
	}
	if s.stop {
		return
	}
	// end of the session: a command every configuration lets through; its answer is a synchronisation point for everything before
	e.settle()
	out := s.step(op{kind: "ping"})
	if s.stop || !out.equalRef {
		return
	}
	for _, t := range p.tables {
		if d := compareState(t, e.w.Store.DB.Snapshot(t.Name), e.w.Ref.DB.Snapshot(t.Name)); d != nil {
			d.class = "final table state: " + d.class
			s.deviation(op{kind: "ping"}, d)
			return
		}
	}
	r.Count("mysql_sessions_completed", 1)
}

// step runs one protocol step and applies the oracles.
func (s *sess) step(o op) outcome {
	r := s.r
	r.Case()
	out := s.e.do(o)
	verdict := "accepted"
	switch {
	case out.rejected:
		verdict = "REJECTED"
	case out.dbError:
		verdict = "accepted, refused by the database"
	case out.inconcl != "":
		verdict = "inconclusive"
	}
	line := fmt.Sprintf("%-18s %s", o.kind, verdict)
	if o.u != nil {
		line = fmt.Sprintf("%-18s u%d/%s [%s/%s] %s: %s", o.kind, o.u.id, o.u.shape, o.u.st.src, o.u.st.kind, verdict, trunc(o.u.st.text, 200))
	}
	s.history = append(s.history, line)
	if out.inconcl != "" {
		if strings.HasPrefix(out.inconcl, "rig:") {
			r.Count("mysql_rig_inconclusive_statement_not_evaluable", 1)
			r.SampleN("mysql-c05-unsupported", 3, map[string]interface{}{"what": out.inconcl, "step": o.String()})
		} else {
			r.Inconclusive(out.inconcl)
		}
		s.stop = true
		return out
	}
	cmd := ""
	if o.kind == "query" {
		cmd = "COM_QUERY"
	} else if o.kind == "prepare" {
		cmd = "COM_STMT_PREPARE"
	}
	ctx := fmt.Sprintf("step=%s client=%s", o.kind, s.p.client)
	if o.u != nil {
		ctx = fmt.Sprintf("step=%s shape=%s stmt=%s source=%s client=%s", o.kind, o.u.shape, o.u.st.kind, o.u.st.src, s.p.client)
	}
	for _, f := range out.findings {
		r.Violation("mysql: "+f.what+": "+ctx, s.detail(merge(stepDetail(o), f.detail)))
	}
	// (c) the decision is the one the documented chain semantics give
	if cmd != "" && len(out.findings) == 0 {
		exp := o.u.st.exp
		got := !out.rejected
		switch {
		case !exp.Decided:
			r.Count("mysql_decisions_not_decided:"+exp.Why, 1)
		case exp.Accept == got && got:
			r.Count("mysql_decisions_agreed_accept", 1)
			r.Distinct(fmt.Sprintf("my5|decision|accept|%s|%s|%s|%s", s.p.pol.mode, o.u.st.src, o.u.st.kind, cmd))
		case exp.Accept == got:
			r.Count("mysql_decisions_agreed_reject", 1)
			r.Distinct(fmt.Sprintf("my5|decision|reject|%s/%s|%s|%s|%s", exp.HKind, exp.RKind, o.u.st.src, o.u.st.kind, cmd))
		default:
			w := map[bool]string{true: "accept", false: "reject"}
			r.Violation(fmt.Sprintf("mysql: firewall decision differs from the documented chain semantics: expected=%s got=%s decider=%s/%s stmt=%s source=%s cmd=%s prefix=%s",
				w[exp.Accept], w[got], exp.HKind, exp.RKind, o.u.st.kind, o.u.st.src, cmd, s.p.pol.mode), s.detail(stepDetail(o)))
		}
	}
	// (a) a rejected statement: error for the client in the right place of the packet sequence, nothing at the database, session goes on
	if out.rejected {
		if cmd == "COM_QUERY" {
			s.rejQ++
		} else {
			s.rejP++
		}
		s.rejKinds = append(s.rejKinds, o.u.st.kind)
		lost := false
		switch {
		case out.outOfSync:
			lost = true
			r.Count("mysql_stock_client_lost_on_rejection", 1)
			r.ViolationK(fmt.Sprintf("mysql: the answer to a rejected statement cannot be read by the stock client (commands out of sync), the connection is lost: cmd=%s", cmd), s.detail(stepDetail(o)))
		case s.p.client == "raw" && out.errSeq != 1:
			r.Count("mysql_rejections_answered_with_wrong_sequence_id", 1)
			r.ViolationK(fmt.Sprintf("mysql: rejected statement answered with an ERR packet whose sequence id is not the request's + 1: cmd=%s", cmd), s.detail(merge(stepDetail(o), map[string]interface{}{"sequence_id": out.errSeq})))
		}
		for _, t := range s.p.tables {
			if len(s.e.w.Store.DB.Snapshot(t.Name)) != len(s.e.w.Ref.DB.Snapshot(t.Name)) {
				r.Violation("mysql: database changed by a rejected statement: "+ctx, s.detail(merge(stepDetail(o), map[string]interface{}{"table": t.Name})))
				s.stop = true
			}
		}
		if !lost && len(out.findings) == 0 {
			r.Count("mysql_rejected_statements_checked", 1)
			if cmd == "COM_QUERY" {
				r.Count("mysql_rejected_queries_checked", 1)
			} else {
				r.Count("mysql_rejected_prepares_checked", 1)
			}
			why := o.u.st.exp.HKind + "/" + o.u.st.exp.RKind
			r.Distinct(fmt.Sprintf("my5|rejected|%s|%s|%s|%s|%s", why, o.u.st.src, o.u.st.kind, cmd, s.p.client))
			r.SampleN("mysql-c05-rejected:"+cmd+o.u.st.src, 1, map[string]interface{}{"statement": trunc(o.u.st.text, 300), "cmd": cmd, "policy_mode": s.p.pol.mode, "expected": fmt.Sprintf("%+v", o.u.st.exp), "session": s.sidx})
		}
		if out.fatal {
			s.stop = true
		}
		return out
	}
	if out.fatal && out.dev == nil {
		s.stop = true
		return out
	}
	if o.u != nil && o.kind == "prepare" {
		s.atPrepQ[o.u.id], s.atPrepP[o.u.id] = s.rejQ, s.rejP
	}
	s.done = append(s.done, o)
	// (b) accepted: behaves like its twin
	if out.dev != nil {
		s.deviation(o, out.dev)
		return out
	}
	if !out.equalRef || o.kind == "close" || o.kind == "ping" {
		return out
	}
	if s.rejQ+s.rejP == 0 {
		r.Count("mysql_accepted_steps_before_any_rejection_equal_reference", 1)
		return out
	}
	r.Count("mysql_accepted_steps_after_rejection_equal_reference", 1)
	if s.p.client == "driver" {
		r.Count("mysql_stock_driver_accepted_steps_after_rejection_equal_reference", 1)
	}
	st := o.u.st
	r.Distinct(fmt.Sprintf("my5|accepted-after-reject|%s|%s|%s|%s|%s|%s", s.p.pol.mode, o.kind, o.u.shape, st.src, st.kind, s.p.client))
	sinceQ, sinceP := s.rejQ-s.atPrepQ[o.u.id], s.rejP-s.atPrepP[o.u.id]
	h := s.e.h[o.u.id]
	if o.kind == "execute-last" && st.src == "rig" && returnsRows(st) {
		for _, k := range s.rejKinds[s.atPrepQ[o.u.id]+s.atPrepP[o.u.id]:] {
			if k == "select" {
				r.Count("mysql_execute_last_of_select_with_rejected_select_since_prepare_equal_reference", 1)
				break
			}
		}
	}
	switch o.kind {
	case "execute-last":
		if sinceP > 0 {
			r.Count("mysql_execute_last_after_rejected_prepare_equal_reference", 1)
			if st.hasProtectedArgs() {
				r.Count("mysql_execute_last_with_protected_parameters_after_rejected_prepare_equal_reference", 1)
				for _, wr := range st.writes {
					if c := s.e.w.Table(st.table).Col(wr.Col); c != nil {
						r.Distinct("my5|execute-last-after-rejected-prepare|" + colClass(*c))
					}
				}
			}
			if returnsRows(st) {
				r.Count("mysql_execute_last_of_select_after_rejected_prepare_equal_reference", 1)
			}
			r.SampleN("mysql-c05-execute-last", 2, map[string]interface{}{"session": s.sidx, "history_tail": tail(s.history, 6)})
		} else if sinceQ > 0 {
			r.Count("mysql_execute_last_after_rejected_query_equal_reference", 1)
		}
	case "execute":
		if sinceQ+sinceP > 0 {
			r.Count("mysql_execute_by_id_with_rejection_since_prepare_equal_reference", 1)
		}
	case "reset":
		r.Count("mysql_reset_steps_after_rejection_equal_reference", 1)
	case "long-execute", "long-reset-execute":
		r.Count("mysql_long_data_steps_after_rejection_equal_reference", 1)
	}
	if strings.Contains(o.kind, "execute") && h != nil && h.execs > 1 {
		r.Count("mysql_reexecutions_after_rejection_equal_reference", 1)
	}
	if st.src == "rig" && returnsRows(st) && o.kind != "prepare" {
		r.Count("mysql_selects_after_rejection_equal_reference", 1)
		for _, name := range st.resultCols {
			if c := s.e.w.Table(st.table).Col(name); c != nil && c.Configured() {
				r.Distinct(fmt.Sprintf("my5|owner-read-after-reject|%s|%s", colClass(*c), o.kind))
			}
		}
	}
	if len(st.writes) > 0 && o.kind != "prepare" {
		r.Count("mysql_protected_writes_after_rejection_checked", 1)
	}
	r.SampleN("mysql-c05-step:"+o.kind+o.u.shape, 1, map[string]interface{}{"statement": trunc(st.text, 300), "step": o.String(), "forwarded": describe(out.window), "session": s.sidx})
	return out
}

func tail(h []string, n int) []string {
	if len(h) > n {
		return h[len(h)-n:]
	}
	return h
}

// deviation: an accepted step did not behave like the reference. It is a violation of this property when rejected statements
// preceded it and the same accepted steps, replayed in a fresh session without them, do not deviate.
func (s *sess) deviation(o op, d *deviation) {
	r := s.r
	s.stop = true
	det := s.detail(merge(stepDetail(o), d.detail))
	if s.rejQ+s.rejP == 0 {
		r.Count("mysql_deviation_from_reference_before_any_rejection", 1)
		r.SampleN("mysql-c05-deviation-without-rejection", 3, map[string]interface{}{"class": d.class, "step": o.String(), "session": s.sidx, "history_tail": tail(s.history, 5)})
		return
	}
	twin := s.replayWithoutRejected()
	det["twin_without_rejected_statements"] = twin
	if twin != "clean" {
		r.Count("mysql_deviation_from_reference_also_without_the_rejected_statements", 1)
		r.SampleN("mysql-c05-deviation-not-attributed", 3, map[string]interface{}{"class": d.class, "twin": twin, "step": o.String(), "session": s.sidx, "history_tail": tail(s.history, 8)})
		return
	}
	col := "-"
	if d.column != "" {
		col = d.column
	}
	shape, kind, src := "-", "-", "-"
	if o.u != nil {
		shape, kind, src = o.u.shape, o.u.st.kind, o.u.st.src
	}
	r.Violation(fmt.Sprintf("mysql: accepted statement does not behave as in the session without the rejected statements: %s: step=%s shape=%s stmt=%s source=%s client=%s column=%s rejected-before=%s",
		d.class, o.kind, shape, kind, src, s.p.client, col, s.rejectedKinds()), det)
}

// replayWithoutRejected runs the accepted steps of this session (up to and including the deviating one) in a fresh environment.
func (s *sess) replayWithoutRejected() string {
	e2, err := openEnv(s.p.tables, s.p.pol, s.p.client, s.p.scripts)
	if err != nil {
		return "twin could not be started: " + err.Error()
	}
	defer e2.closeAll()
	s.r.Count("mysql_twin_replays", 1)
	for i, o := range s.done {
		out := e2.do(o)
		switch {
		case out.rejected:
			return fmt.Sprintf("twin step %d (%s) was rejected", i, o.kind)
		case out.inconcl != "":
			return "twin inconclusive: " + out.inconcl
		case len(out.findings) > 0:
			return fmt.Sprintf("twin step %d (%s): %s", i, o.kind, out.findings[0].what)
		case out.dev != nil:
			return fmt.Sprintf("twin step %d of %d (%s) deviates too: %s", i, len(s.done)-1, o.kind, out.dev.class)
		case out.fatal:
			return fmt.Sprintf("twin step %d (%s) ended the session", i, o.kind)
		}
	}
	if s.done[len(s.done)-1].kind == "ping" {
		for _, t := range s.p.tables {
			if d := compareState(t, e2.w.Store.DB.Snapshot(t.Name), e2.w.Ref.DB.Snapshot(t.Name)); d != nil {
				return "twin final table state deviates too: " + d.class
			}
		}
	}
	return "clean"
}
