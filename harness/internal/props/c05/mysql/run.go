package mysql

import (
	"fmt"
	"os"
	"strings"
	"time"

	"github.com/cossacklabs/acra/keystore"

	"verif/harness/internal/props/c04"
	c04my "verif/harness/internal/props/c04/mysql"
	"verif/harness/internal/rig/fakemysql"
	"verif/harness/internal/rig/ksrig"
	"verif/harness/internal/rig/proxyrig"
)

// unit is one statement together with the protocol steps the client takes with it.
type unit struct {
	id    int
	st    *stmt
	shape string   // Q | P1 | P2 | PK | PL | PL2 | PR | PLD | PLR
	ops   []string // protocol steps in order; the first one is censored (query | prepare)
	next  int
	// atomic: index of the first step that may again be interleaved with other accepted statements (steps before it follow the
	// PREPARE with nothing but rejected statements in between: COM_STMT_EXECUTE(-1) means "the statement prepared last")
	atomic int
}

func (u *unit) done() bool { return u.next >= len(u.ops) }

// op is one protocol step of a unit.
type op struct {
	kind string // query | prepare | execute | execute-last | reset | close | long-execute | long-reset-execute | ping
	u    *unit
}

func (o op) String() string {
	if o.u == nil {
		return o.kind
	}
	return fmt.Sprintf("%s u%d/%s %s/%s", o.kind, o.u.id, o.u.shape, o.u.st.src, o.u.st.kind)
}

// handle is what one side (through Acra / reference) knows about a prepared statement.
type handle struct {
	acraID, refID uint32
	acraPS, refPS *proxyrig.MyStmt
	dbText        string // text of the COM_STMT_PREPARE as the database behind Acra received it
	execs         int
}

// env is one run of a session: a fresh keystore, databases, AcraServer with the session's firewall configuration and clients.
type env struct {
	w          *proxyrig.MyWorld
	client     string // raw | driver
	araw, rraw *proxyrig.MyRaw
	adrv, rdrv *proxyrig.MyClient
	h          map[int]*handle
	logPos     int    // store log verified up to here
	expect     []byte // commands sent to Acra since logPos that the database has to receive, in order
	rejected   []string
	unsuppA    int
	unsuppR    int
	closeAll   func()
}

// finding is something oracle (a) or (c) objects to.
type finding struct {
	what   string
	detail map[string]interface{}
	// seqDefect: the ERR packet of a rejection carried a wrong sequence id (stock clients lose the connection)
	fatal bool
}

// outcome of one protocol step.
type outcome struct {
	rejected  bool   // the firewall refused the statement (nothing forwarded, error for the client)
	dbError   bool   // forwarded, refused by the database (same as at the reference)
	dev       *deviation
	findings  []finding
	fatal     bool   // the session cannot go on
	inconcl   string // rig limitation / watchdog
	window    []fakemysql.Received
	errSeq    int    // scripted client: sequence id of the ERR packet of a rejection
	outOfSync bool   // stock client: "commands out of sync" on the answer to a rejected statement
	equalRef  bool   // accepted and everything observed agreed with the reference
}

func openEnv(tables []proxyrig.TableSpec, pol *policy, client string, scripts map[string]fakemysql.Script) (*env, error) {
	dir := ksrig.ScratchDir("c05my")
	ks, err := ksrig.V1(dir, ksrig.RandBytes(32), keystore.InfiniteCacheSize)
	if err != nil {
		return nil, err
	}
	if err := ksrig.GenClient(ks, []byte(c04.Owner)); err != nil {
		os.RemoveAll(dir)
		return nil, err
	}
	w, err := proxyrig.NewMyWorld(proxyrig.WorldOpts{Tables: tables, KS: ks, Clients: []string{c04.Owner}, CensorYAML: pol.yaml})
	if err != nil {
		os.RemoveAll(dir)
		return nil, fmt.Errorf("world: %w", err)
	}
	for sql, sc := range scripts {
		w.Store.SetScript(sql, sc)
		w.Ref.SetScript(sql, sc)
	}
	e := &env{w: w, client: client, h: map[int]*handle{}}
	closers := []func(){}
	e.closeAll = func() {
		for _, c := range closers {
			c()
		}
		w.Close()
		os.RemoveAll(dir)
	}
	if client == "raw" {
		if e.araw, err = proxyrig.DialMyRaw(w.Acras[c04.Owner].Port, 0); err != nil {
			e.closeAll()
			return nil, fmt.Errorf("connect to acra: %w", err)
		}
		closers = append(closers, e.araw.Close)
		if e.rraw, err = proxyrig.DialMyRaw(w.Ref.Port(), 0); err != nil {
			e.closeAll()
			return nil, fmt.Errorf("connect to reference: %w", err)
		}
		closers = append(closers, e.rraw.Close)
		e.araw.SetNegotiated(proxyrig.MyRawBaseCaps)
		e.rraw.SetNegotiated(proxyrig.MyRawBaseCaps)
	} else {
		if e.adrv, err = proxyrig.DialMy(w.Acras[c04.Owner].Port, 1<<26); err != nil {
			e.closeAll()
			return nil, fmt.Errorf("connect to acra: %w", err)
		}
		closers = append(closers, e.adrv.Close)
		if e.rdrv, err = proxyrig.DialMy(w.Ref.Port(), 1<<26); err != nil {
			e.closeAll()
			return nil, fmt.Errorf("connect to reference: %w", err)
		}
		closers = append(closers, e.rdrv.Close)
	}
	// the login exchange is not part of the session's history
	e.logPos = e.w.Store.LogLen()
	return e, nil
}

// exch is one request/response exchange of one side.
type exch struct {
	res       *proxyrig.MyResult
	pok       fakemysql.PrepareOK
	ps        *proxyrig.MyStmt
	errSeq    int
	broken    bool
	timeout   bool
	malformed string
	outOfSync bool
	noReply   bool
}

func (x *exch) isErr() bool { return x.res != nil && x.res.Err != nil && !x.broken }

func rawFail(x *exch, err error) *exch {
	x.broken = true
	x.timeout = err == proxyrig.ErrTimeout
	x.res = &proxyrig.MyResult{Err: err, Broken: true}
	return x
}

// rawDo runs one protocol step on a scripted client. id is this side's statement id.
func rawDo(c *proxyrig.MyRaw, o op, id uint32) *exch {
	x := &exch{errSeq: -1}
	st := o.u
	switch o.kind {
	case "query":
		fr, err := c.Command(append([]byte{fakemysql.ComQuery}, st.st.text...), "query")
		if err != nil {
			return rawFail(x, err)
		}
		x.res, x.malformed = decodeRawResult(fr, false)
		if x.res.Err != nil && len(fr) == 1 {
			x.errSeq = int(fr[0].Seq)
		}
	case "prepare":
		fr, err := c.Command(append([]byte{fakemysql.ComStmtPrepare}, st.st.text...), "prepare")
		if err != nil {
			return rawFail(x, err)
		}
		x.res = &proxyrig.MyResult{}
		if len(fr) == 0 || len(fr[0].Payload) == 0 {
			x.malformed = "empty response to COM_STMT_PREPARE"
			return x
		}
		if fr[0].Payload[0] == 0xff {
			e, _ := fakemysql.DecodeErr(fr[0].Payload)
			x.res.ErrNo, x.res.ErrMsg, x.res.Err = e.Code, e.Msg, fmt.Errorf("Error %d: %s", e.Code, e.Msg)
			x.errSeq = int(fr[0].Seq)
			return x
		}
		pok, err := fakemysql.DecodePrepareOK(fr[0].Payload)
		if err != nil {
			x.malformed = "response to COM_STMT_PREPARE is neither ERR nor a prepare-OK packet"
			return x
		}
		x.pok = pok
	case "execute", "execute-last":
		if o.kind == "execute-last" {
			id = fakemysql.LastPreparedStmtID
		}
		fr, err := c.Command(fakemysql.EncodeExecute(id, rawParams(st.st.args)), "execute")
		if err != nil {
			return rawFail(x, err)
		}
		x.res, x.malformed = decodeRawResult(fr, true)
	case "reset":
		fr, err := c.Command(append([]byte{fakemysql.ComStmtReset}, stmtIDBytes(id)...), "single")
		if err != nil {
			return rawFail(x, err)
		}
		x.res, x.malformed = decodeRawResult(fr, true)
	case "close":
		if _, err := c.Command(append([]byte{fakemysql.ComStmtClose}, stmtIDBytes(id)...), "none"); err != nil {
			return rawFail(x, err)
		}
		x.noReply = true
		x.res = &proxyrig.MyResult{}
	case "long-execute", "long-reset-execute":
		// parameter 0 (bytes of an unconfigured column) travels in two COM_STMT_SEND_LONG_DATA packets
		data, _ := st.st.args[0].([]byte)
		half := len(data) / 2
		for _, part := range [][]byte{data[:half], data[half:]} {
			p := append([]byte{fakemysql.ComStmtSendLong}, stmtIDBytes(id)...)
			p = append(p, 0, 0)
			if _, err := c.Command(append(p, part...), "none"); err != nil {
				return rawFail(x, err)
			}
		}
		params := rawParams(st.st.args)
		if o.kind == "long-execute" {
			params[0].Omit = true
			params[0].Type = fakemysql.TypeBlob
		} else {
			// COM_STMT_RESET discards what was sent; the value is then bound in the ordinary way
			fr, err := c.Command(append([]byte{fakemysql.ComStmtReset}, stmtIDBytes(id)...), "single")
			if err != nil {
				return rawFail(x, err)
			}
			if r, mal := decodeRawResult(fr, true); mal != "" || r.Err != nil {
				x.res, x.malformed = r, mal
				return x
			}
		}
		fr, err := c.Command(fakemysql.EncodeExecute(id, params), "execute")
		if err != nil {
			return rawFail(x, err)
		}
		x.res, x.malformed = decodeRawResult(fr, true)
	case "ping":
		fr, err := c.Command([]byte{fakemysql.ComPing}, "single")
		if err != nil {
			return rawFail(x, err)
		}
		x.res, x.malformed = decodeRawResult(fr, false)
	}
	return x
}

func returnsRows(s *stmt) bool { return s.kind == "select" || s.kind == "union" }

// drvDo runs one protocol step on a stock go-sql-driver client.
func drvDo(c *proxyrig.MyClient, o op, ps *proxyrig.MyStmt) *exch {
	x := &exch{errSeq: -1}
	s := o.u
	switch o.kind {
	case "query":
		if returnsRows(s.st) {
			x.res = c.Query(s.st.text)
		} else {
			x.res = c.Exec(s.st.text)
		}
	case "prepare":
		x.ps, x.res = c.Prepare(s.st.text)
	case "execute":
		if returnsRows(s.st) {
			x.res = ps.Query(s.st.args...)
		} else {
			x.res = ps.Exec(s.st.args...)
		}
	case "close":
		ps.Close()
		x.noReply = true
		x.res = &proxyrig.MyResult{}
	case "ping":
		x.res = &proxyrig.MyResult{}
		if err := c.Ping(); err != nil {
			x.res.Err, x.res.Broken = err, true
		}
	default:
		x.res = &proxyrig.MyResult{Err: fmt.Errorf("step %s not available with the stock driver", o.kind), Broken: true}
	}
	if x.res.Broken {
		x.broken, x.timeout = true, x.res.Timeout
		if x.res.Err != nil && strings.Contains(x.res.Err.Error(), "commands out of sync") {
			x.outOfSync = true
		}
	}
	return x
}

// expectedCommands: what the database has to receive for an accepted step.
func expectedCommands(o op) []byte {
	switch o.kind {
	case "query":
		return []byte{fakemysql.ComQuery}
	case "prepare":
		return []byte{fakemysql.ComStmtPrepare}
	case "execute", "execute-last":
		return []byte{fakemysql.ComStmtExecute}
	case "reset":
		return []byte{fakemysql.ComStmtReset}
	case "close":
		return []byte{fakemysql.ComStmtClose}
	case "long-execute":
		return []byte{fakemysql.ComStmtSendLong, fakemysql.ComStmtSendLong, fakemysql.ComStmtExecute}
	case "long-reset-execute":
		return []byte{fakemysql.ComStmtSendLong, fakemysql.ComStmtSendLong, fakemysql.ComStmtReset, fakemysql.ComStmtExecute}
	case "ping":
		return []byte{fakemysql.ComPing}
	}
	return nil
}

func describe(ms []fakemysql.Received) []string {
	var out []string
	for _, m := range ms {
		out = append(out, m.Name+" "+trunc(m.SQL, 160))
	}
	return out
}

// syncDB compares what the database behind Acra received since the last synchronisation point with the commands of the
// accepted steps sent since then. Called after a step whose answer came from the database (everything sent earlier has then
// arrived, the connection is an ordered stream) or right after a rejection was answered (nothing new may be there).
func (e *env) syncDB() (window []fakemysql.Received, f *finding) {
	log := e.w.Store.Log()
	window = log[e.logPos:]
	ok := len(window) == len(e.expect)
	for i := 0; ok && i < len(window); i++ {
		ok = window[i].Cmd == e.expect[i]
	}
	if !ok {
		var names []string
		for _, c := range e.expect {
			names = append(names, fakemysql.CommandName(c))
		}
		extra := "-"
		for i, m := range window {
			if i >= len(e.expect) || m.Cmd != e.expect[i] {
				extra = m.Name
				break
			}
		}
		what := "database received a message that no accepted statement accounts for: " + extra
		if len(window) < len(e.expect) {
			what = "database did not receive a message of an accepted statement"
		}
		if len(e.rejected) > 0 {
			what += " (after rejected " + e.rejected[len(e.rejected)-1] + ")"
		}
		f = &finding{what: what, fatal: true, detail: map[string]interface{}{"expected": names, "received": describe(window), "rejected_since_last_sync": e.rejected}}
	}
	e.logPos = len(log)
	e.expect = nil
	e.rejected = nil
	return window, f
}

// unsupported reports statements one of the fake databases could not evaluate since the last call (rig limitation).
func (e *env) unsupported() string {
	a, b := e.w.Store.Unsupported(), e.w.Ref.Unsupported()
	defer func() { e.unsuppA, e.unsuppR = len(a), len(b) }()
	if len(a) > e.unsuppA {
		return a[len(a)-1]
	}
	if len(b) > e.unsuppR {
		return b[len(b)-1]
	}
	return ""
}

// do runs one protocol step through Acra, decides from both ends whether the firewall refused it, and - when it was
// accepted - runs it against the reference and compares.
func (e *env) do(o op) (out outcome) {
	out.errSeq = -1
	var h *handle
	if o.u != nil {
		h = e.h[o.u.id]
		if h == nil {
			h = &handle{}
			e.h[o.u.id] = h
		}
	} else {
		h = &handle{}
	}
	sentStart := e.w.Store.SentLen()
	var a *exch
	if e.client == "raw" {
		a = rawDo(e.araw, o, h.acraID)
	} else {
		a = drvDo(e.adrv, o, h.acraPS)
	}
	censored := o.kind == "query" || o.kind == "prepare"
	if a.timeout {
		out.inconcl, out.fatal = "watchdog: no reply through acra (mysql) to "+o.String(), true
		return
	}
	if a.noReply {
		// COM_STMT_CLOSE: no answer; the database side is compared at the next synchronisation point
		e.expect = append(e.expect, expectedCommands(o)...)
		var b *exch
		if e.client == "raw" {
			b = rawDo(e.rraw, o, h.refID)
		} else {
			b = drvDo(e.rdrv, o, h.refPS)
		}
		if b.broken {
			out.inconcl, out.fatal = "reference database exchange failed (mysql)", true
		}
		out.equalRef = true
		return
	}
	if censored {
		// has the database received anything? (an accepted statement is recorded before it is answered)
		log := e.w.Store.Log()
		forwarded := len(log) > e.logPos+len(e.expect)
		clientErr := a.isErr() || a.outOfSync
		switch {
		case !forwarded && clientErr:
			out.rejected = true
			out.errSeq, out.outOfSync = a.errSeq, a.outOfSync
			// nothing of it has arrived at the database now; that nothing arrives later is checked at the next
			// synchronisation point (syncDB), where the database's log must consist of the accepted steps only
			e.rejected = append(e.rejected, fakemysql.CommandName(expectedCommands(o)[0]))
			if a.outOfSync {
				out.fatal = true
			}
			return
		case !forwarded && a.broken:
			out.rejected = true
			out.findings = append(out.findings, finding{what: "connection broke on a statement that was not forwarded", fatal: true, detail: map[string]interface{}{"err": fmt.Sprint(a.res.Err)}})
			out.fatal = true
			return
		case !forwarded:
			out.findings = append(out.findings, finding{what: "statement neither forwarded to the database nor refused with an error", fatal: true, detail: map[string]interface{}{"malformed": a.malformed}})
			out.fatal = true
			return
		case clientErr:
			// forwarded and an error for the client: the database's own error, or the firewall's on top of a forwarded statement
			dbErr := false
			for _, s := range e.w.Store.SentLog()[sentStart:] {
				if s.Kind == "ERR" {
					if ei, err := fakemysql.DecodeErr(s.Payload); err == nil && ei.Code == a.res.ErrNo {
						dbErr = true
					}
				}
			}
			if !dbErr {
				out.findings = append(out.findings, finding{what: "statement reached the database although the client was told it was refused (error that is not the database's)", fatal: true,
					detail: map[string]interface{}{"client_error": a.res.ErrMsg, "forwarded": describe(log[e.logPos:])}})
				out.fatal = true
				return
			}
			out.dbError = true
		}
	}
	if a.broken {
		out.dev = dev("connection through acra broke", "err", fmt.Sprint(a.res.Err))
		out.fatal = true
		return
	}
	if a.malformed != "" {
		out.dev = dev("client out of step with the server: "+a.malformed)
		out.fatal = true
		return
	}
	e.expect = append(e.expect, expectedCommands(o)...)
	window, f := e.syncDB()
	out.window = window
	if f != nil {
		out.findings = append(out.findings, *f)
		out.fatal = true
		return
	}
	// the twin: the same step against the reference database
	var b *exch
	if e.client == "raw" {
		b = rawDo(e.rraw, o, h.refID)
	} else {
		b = drvDo(e.rdrv, o, h.refPS)
	}
	if b.broken || b.malformed != "" {
		out.inconcl, out.fatal = "reference database exchange failed (mysql): "+fmt.Sprint(b.res.Err)+b.malformed, true
		return
	}
	if o.u != nil && o.u.st.src == "rig" {
		if un := e.unsupported(); un != "" {
			out.inconcl, out.fatal = "rig: statement not evaluable by the fake database: "+trunc(un, 200), true
			return
		}
	} else {
		e.unsupported()
	}
	st := (*stmt)(nil)
	if o.u != nil {
		st = o.u.st
	}
	switch o.kind {
	case "prepare":
		if (a.res.Err != nil) != (b.res.Err != nil) {
			out.dev = dev("owner's result differs from reference: error differs", "acra", fmt.Sprint(a.res.Err), "ref", fmt.Sprint(b.res.Err))
			out.fatal = true
			return
		}
		if a.res.Err != nil {
			break
		}
		h.acraID, h.refID, h.acraPS, h.refPS = a.pok.StmtID, b.pok.StmtID, a.ps, b.ps
		if len(window) > 0 {
			h.dbText = window[len(window)-1].SQL
		}
		if e.client == "raw" && (a.pok.Params != b.pok.Params || a.pok.Columns != b.pok.Columns) {
			out.dev = dev("prepare response differs from reference (parameter / column count)", "acra", fmt.Sprintf("%+v", a.pok), "ref", fmt.Sprintf("%+v", b.pok))
			return
		}
	default:
		var rc []string
		if st != nil {
			rc = st.resultCols
		}
		if diff := c04my.CompareResults(a.res, b.res, rc, nil); diff != "" {
			out.dev = dev("owner's result differs from reference: "+classifyDiff(diff), "diff", diff)
			if st != nil && c04my.DiffField >= 0 && c04my.DiffField < len(rc) {
				if c := e.w.Table(st.table).Col(rc[c04my.DiffField]); c != nil {
					out.dev.column = colClass(*c)
				}
			}
			return
		}
	}
	if st == nil {
		out.equalRef = true
		return
	}
	// the database executed the statement this handle was prepared for
	if strings.Contains(o.kind, "execute") && len(window) > 0 {
		h.execs++
		if got := window[len(window)-1].SQL; got != h.dbText {
			out.dev = dev("database executed another statement than the one the handle was prepared for", "executed", trunc(got, 300), "prepared", trunc(h.dbText, 300))
			return
		}
	}
	// nothing forwarded contains a plaintext written to a configured column
	t := e.w.Table(st.table)
	stream := c04my.DBStream(window)
	for _, wr := range st.writes {
		m := wr.V.Marker()
		if m == nil {
			continue
		}
		if how := leak(stream, m); how != "" {
			out.dev = dev("plaintext forwarded to the database ("+how+")", "column", wr.Col, "forwarded", describe(window))
			if c := t.Col(wr.Col); c != nil {
				out.dev.column = colClass(*c)
			}
			return
		}
	}
	// table states agree after a write
	if st.src == "rig" && !returnsRows(st) && o.kind != "prepare" && !out.dbError && a.res.Err == nil {
		if d := compareState(t, e.w.Store.DB.Snapshot(st.table), e.w.Ref.DB.Snapshot(st.table)); d != nil {
			d.detail["forwarded"] = describe(window)
			out.dev = d
			return
		}
	}
	out.equalRef = true
	return
}

func classifyDiff(d string) string {
	for _, p := range []string{"error differs", "affected rows differ", "column count differs", "name differs", "type class differs", "row count differs", "row field count differs", "NULL marker differs", "different Go type", "value differs"} {
		if strings.Contains(d, p) {
			return p
		}
	}
	return "other"
}

// settle gives packets without an answer (COM_STMT_CLOSE) a bounded time to arrive before the final comparison (never a verdict input).
func (e *env) settle() {
	for i := 0; i < 300; i++ {
		if e.w.Store.LogLen() >= e.logPos+len(e.expect) {
			return
		}
		time.Sleep(2 * time.Millisecond)
	}
}
